import Hub.Model.Dump
import Hub.Model.Monitors
import Hub.Model.Load
import Hub.Model.Run
import Hub.SDK.Bech32
import Hub.SDK.Paginate
import Hub.Model.Query
import Hub.Model.Genesis
import Hub.Model.Jump
import Hub.SDK.MeterSpec
import Hub.Generated.Proto
import Hub.SDK.ProtoJson
/-
Line-protocol driver of the model (core-only, runs as `lake env lean --run Main.lean` or as the
compiled `hubmodel`).  Reads one operation per line on stdin, answers in the format of the
harness: echo, result, events, and the *delta* of the canonical dump since the previous operation.
-/
open Hub.SDK Hub.Model
open Hub.Generated (Status)

abbrev Fields := List (String × String)

def parseFields (parts : List String) : Fields :=
  parts.filterMap fun p =>
    match p.splitOn "=" with
    | k :: rest@(_ :: _) => some (k, "=".intercalate rest)
    | _ => none

def fget (f : Fields) (k : String) : String := ((f.find? (·.1 = k)).map (·.2)).getD ""
def fhas (f : Fields) (k : String) : Bool := (f.find? (·.1 = k)).isSome
def fint (f : Fields) (k : String) : Int := (fget f k).toInt?.getD 0
def fnat (f : Fields) (k : String) : Nat := (fget f k).toNat?.getD 0
def fbytes (f : Fields) (k : String) : Bytes := (ofHex (fget f k)).getD []

def parseCoins (s : String) : Option Coins :=
  if s = "nil" then none
  else if s = "-" ∨ s = "" then some []
  else some ((s.splitOn ",").map fun p =>
    let parts := p.splitOn ":"
    let amt := (parts.getLast?.getD "0").toInt?.getD 0
    let denom := ":".intercalate parts.dropLast
    ⟨denom, amt⟩)

def parseCoin (s : String) : Coin := ((parseCoins s).getD []).headD ⟨"", 0⟩

def roleOf (s : String) (dflt : Role) : Role :=
  if s = "acc" then .acc else if s = "node" then .node else if s = "prov" then .prov else dflt

def faddr (f : Fields) (k : String) (dflt : Role) : TextAddr :=
  { role := roleOf (fget f (k ++ "role")) dflt, bytes := fbytes f k, bad := fget f (k ++ "bad") = "1" }

def parseSig (s : String) : SigSpec :=
  if s = "" ∨ s = "none" then .none
  else if s = "short" then .short
  else if s = "zero" then .zero
  else match s.splitOn ":" with
    | ["good", i] => .good (i.toNat?.getD 0)
    | ["badmsg", i] => .badmsg (i.toNat?.getD 0)
    | _ => .zero

def parseMsg (kind : String) (f : Fields) : Option Msg :=
  match kind with
  | "provRegister" => some (.provRegister (faddr f "from" .acc) (fbytes f "name") (fbytes f "identity") (fbytes f "website") (fbytes f "desc") (fget f "webok" ≠ "0"))
  | "provUpdate" => some (.provUpdate (faddr f "from" .prov) (fbytes f "name") (fbytes f "identity") (fbytes f "website") (fbytes f "desc") (fint f "status") (fget f "webok" ≠ "0"))
  | "nodeRegister" => some (.nodeRegister (faddr f "from" .acc) (parseCoins (fget f "gb")) (parseCoins (fget f "hr")) (fbytes f "url") (fget f "urlok" ≠ "0"))
  | "nodeUpdate" => some (.nodeUpdate (faddr f "from" .node) (parseCoins (fget f "gb")) (parseCoins (fget f "hr")) (fbytes f "url") (fget f "urlok" ≠ "0"))
  | "nodeStatus" => some (.nodeStatus (faddr f "from" .node) (fint f "status"))
  | "nodeSubscribe" => some (.nodeSubscribe (faddr f "from" .acc) (faddr f "node" .node) (fint f "gb") (fint f "hr") (fget f "denom"))
  | "planCreate" => some (.planCreate (faddr f "from" .prov) (fint f "dur") (fint f "gb") (parseCoins (fget f "prices")))
  | "planStatus" => some (.planStatus (faddr f "from" .prov) (fnat f "id") (fint f "status"))
  | "planLink" => some (.planLink (faddr f "from" .prov) (fnat f "id") (faddr f "node" .node))
  | "planUnlink" => some (.planUnlink (faddr f "from" .prov) (fnat f "id") (faddr f "node" .node))
  | "planSubscribe" => some (.planSubscribe (faddr f "from" .acc) (fnat f "id") (fget f "denom"))
  | "subCancel" => some (.subCancel (faddr f "from" .acc) (fnat f "id"))
  | "subAllocate" => some (.subAllocate (faddr f "from" .acc) (fnat f "id") (faddr f "to" .acc) (fint f "bytes"))
  | "sessStart" => some (.sessStart (faddr f "from" .acc) (fnat f "id") (faddr f "node" .node))
  | "sessUpdate" => some (.sessUpdate (faddr f "from" .node) (fnat f "id") (fint f "up") (fint f "down") (fint f "dur") (parseSig (fget f "sig")))
  | "sessEnd" => some (.sessEnd (faddr f "from" .acc) (fnat f "id") (fnat f "rating"))
  | "swap" => some (.swap (faddr f "from" .acc) (fbytes f "hash") (faddr f "recv" .acc) (fint f "amt"))
  | _ => none

def parseGov (f : Fields) : Option ParamChange :=
  let key := fget f "key"
  match fget f "space", key with
  | "provider", "Deposit" => some (.provDeposit (parseCoin (fget f "coin")))
  | "provider", "StakingShare" => some (.provShare (fint f "dec"))
  | "node", "Deposit" => some (.nodeDeposit (parseCoin (fget f "coin")))
  | "node", "ActiveDuration" => some (.activeDur (fint f "dur"))
  | "node", "MaxGigabytePrices" => some (.maxGB (parseCoins (fget f "coins")))
  | "node", "MinGigabytePrices" => some (.minGB (parseCoins (fget f "coins")))
  | "node", "MaxHourlyPrices" => some (.maxHr (parseCoins (fget f "coins")))
  | "node", "MinHourlyPrices" => some (.minHr (parseCoins (fget f "coins")))
  | "node", "MaxSubscriptionGigabytes" => some (.maxSubGB (fint f "int"))
  | "node", "MinSubscriptionGigabytes" => some (.minSubGB (fint f "int"))
  | "node", "MaxSubscriptionHours" => some (.maxSubHr (fint f "int"))
  | "node", "MinSubscriptionHours" => some (.minSubHr (fint f "int"))
  | "node", "StakingShare" => some (.nodeShare (fint f "dec"))
  | "subscription", "StatusChangeDelay" => some (.subDelay (fint f "dur"))
  | "session", "StatusChangeDelay" => some (.sessDelay (fint f "dur"))
  | "session", "ProofVerificationEnabled" => some (.proof (fget f "bool" = "1"))
  | "swap", "SwapEnabled" => some (.swapOn (fget f "bool" = "1"))
  | "swap", "SwapDenom" => some (.swapDenom (String.fromUTF8! ⟨(fbytes f "str").toArray⟩))
  | "swap", "ApproveBy" => some (.approveBy (faddr f "addr" .acc))
  | _, _ => none

def applyInit (f : Fields) (s : State) : State :=
  { s with
    time := fint f "t"
    mintMax := 200000000000000000, mintMin := 70000000000000000, mintRate := 130000000000000000
    minterInfl := 130000000000000000
    modified := { maxGB := true, minGB := true, maxHr := true, minHr := true }
    planCount := some 0, sessCount := some 0
    params := {
      provDeposit := parseCoin (fget f "provDeposit"), provShare := fint f "provShare"
      nodeDeposit := parseCoin (fget f "nodeDeposit"), activeDur := fint f "activeDur"
      maxGB := (parseCoins (fget f "maxGB")).getD [], minGB := (parseCoins (fget f "minGB")).getD []
      maxHr := (parseCoins (fget f "maxHr")).getD [], minHr := (parseCoins (fget f "minHr")).getD []
      maxSubGB := fint f "maxSubGB", minSubGB := fint f "minSubGB", maxSubHr := fint f "maxSubHr", minSubHr := fint f "minSubHr"
      nodeShare := fint f "nodeShare", subDelay := fint f "subDelay", sessDelay := fint f "sessDelay"
      proof := fget f "proof" = "1", swapOn := fget f "swapOn" = "1", swapDenom := fget f "swapDenom"
      approveBy := fbytes f "approveBy" } }

def applyBal (f : Fields) (s : State) : State :=
  addBalance s (fbytes f "addr", fget f "denom", fint f "amt")

/-- sorted-list difference: lines only in `old` get "-", lines only in `new` get "+". -/
partial def delta : List String → List String → List String
  | [], ns => ns.map ("+" ++ ·)
  | os, [] => os.map ("-" ++ ·)
  | o :: os, n :: ns =>
    if o = n then delta os ns
    else if o < n then ("-" ++ o) :: delta os (n :: ns)
    else ("+" ++ n) :: delta (o :: os) ns

structure Drv where
  s : State := {}
  started : Bool := false
  halted : Bool := false
  prev : List String := []
  keyAddrs : List (Nat × Addr) := []

def outcomeStr : Outcome → String
  | .accept => "accept"
  | .reject m => "reject:" ++ m.replace " " "_"

def mintProbeLine (s : State) (t : Time) : String :=
  let before := s.inflations.length
  let s := mintBeginBlock { s with time := t }
  let rem := (inflationOrder s).map (fun i => toString i.ts)
  let remS := if rem.isEmpty then "-" else ",".intercalate rem
  let infl := if rem.length < before then toString s.minterInfl else "-"
  s!"M max={s.mintMax} min={s.mintMin} rate={s.mintRate} infl={infl} remaining={remS}"

def exportWhy (s : State) : String :=
  if exportPanics s then "export_panics" else
  match firstOf [validateVpn (exportVpn s), validateMint (exportMint s), s.params.swap.validate] with
  | some m => m.replace " " "_" | none => "duplicate_swap"

/-- All `V` lines: the state monitors plus `exportValid`. -/
def allMonitorLines (s : State) (afterEnd : Bool := false) : List String :=
  monitorLines s afterEnd ++ (if exportValidB s then [] else ["V exportValid " ++ exportWhy s])

def respond (d : Drv) (line : String) (result : String) (events : List String) (withDump : Bool)
    (afterEnd : Bool := false) : Drv × List String :=
  let hdr := ["> " ++ line, "R " ++ result] ++ events
  if withDump then
    let cur := dump d.s
    ({ d with prev := cur }, hdr ++ delta d.prev cur ++ allMonitorLines d.s afterEnd)
  else (d, hdr)

def step (d : Drv) (line : String) : Drv × List String :=
  let parts := (line.splitOn " ").filter (· ≠ "")
  match parts with
  | [] => (d, [])
  | kind :: rest =>
    if kind.startsWith "#" then (d, []) else
    let f := parseFields rest
    match kind with
    | "init" => ({ d with s := applyInit f d.s }, [])
    | "bal" => ({ d with s := applyBal f d.s }, [])
    | "key" => ({ d with s := { d.s with keyed := d.s.keyed.set (fbytes f "addr") (fnat f "idx") } }, [])
    | "infl" =>
      let i : Inflation := { ts := fint f "ts", max := fint f "max", min := fint f "min", rate := fint f "rate" }
      ({ d with s := { d.s with inflations := d.s.inflations.set i.ts i } }, [])
    | "start" => respond { d with started := true } line "accept" [] true
    | _ =>
      if d.halted ∧ kind ≠ "dump" then respond d line "halted" [] false else
      match kind with
      | "begin" =>
        match beginBlock d.s (fint f "t") with
        | .ok s' => respond { d with s := s' } line "accept" s'.events true
        | .error m => respond { d with halted := true } line ("halt:" ++ m.replace " " "_") [] false
      | "end" =>
        match endBlock d.s with
        | .ok s' => respond { d with s := s' } line "accept" s'.events true true
        | .error m => respond { d with halted := true } line ("halt:" ++ m.replace " " "_") [] false
      | "tx" =>
        match rest with
        | sub :: rest' =>
          match parseMsg sub (parseFields rest') with
          | some m =>
            let (s', o) := deliver d.s m
            respond { d with s := s' } line (outcomeStr o) (if o = .accept then s'.events else []) true
          | none => respond d line "bad-op" [] false
        | [] => respond d line "bad-op" [] false
      | "gov" =>
        match parseGov f with
        | some c =>
          match gov d.s c with
          | some s' => respond { d with s := s' } line "accept" [] true
          | none => respond d line "reject:gov" [] true
        | none => respond d line "bad-op" [] false
      | "jump" =>
        -- `SetCount` of one module, forwards only (`Hub/Model/Jump.lean`; `Hub.Props.C18Jump`: the invariants survive it)
        let n := (fint f "n").toNat
        let c? : Option Counter := match fget f "module" with
          | "plan" => some .plan | "subscription" => some .subscription | "session" => some .session | _ => none
        match c? with
        | some c =>
          match jumpOp d.s c n with
          | some s' => respond { d with s := s' } line "accept" [] true
          | none => respond d line "reject:jump" [] true
        | none => respond d line "bad-op" [] false
      | "mintprobe" => respond d line "accept" [mintProbeLine d.s (fint f "t")] false
      | "query" =>
        match rest with
        | sub :: rest' => let (r, ls) := runQuery d.s sub (parseFields rest'); respond d line r ls false
        | [] => respond d line "bad-op" [] false
      | "export" => let (r, ls) := exportLines d.s; respond d line r ls false
      | "reimport" =>
        match reimportState d.s with
        | .ok s' => respond { d with s := s', prev := [] } line "accept" [] true
        | .error m => respond d line ("reject:" ++ m.replace " " "_") [] true
      | "dump" => respond d line "accept" [] true
      | "restart" => respond d line "accept" [] true   -- a process restart between blocks changes nothing (the model has no memory outside its state)
      | "inspect" => respond d line "accept" [] false   -- the model's listings are total (Props/C09Listings runQuery_never_internal)
      | _ => respond d line "bad-op" [] false

partial def loop (h : IO.FS.Stream) (out : IO.FS.Stream) (d : Drv) : IO Unit := do
  let line ← h.getLine
  if line.isEmpty then return ()
  let (d', outs) := step d line.trimAscii.toString
  for o in outs do out.putStrLn o
  loop h out d'

/-! ### pure-function probes (`--probe`): one case per line, one answer per line -/

def mres {α} (show_ : α → String) : M α → String
  | .ok a => "ok " ++ show_ a
  | .error _ => "panic"

def mval {α} (show_ : α → String) : M α → String
  | .ok a => show_ a
  | .error _ => "panic"

def probeLine (line : String) : String :=
  let parts := (line.splitOn " ").filter (· ≠ "")
  match parts with
  | [] => ""
  | kind :: rest =>
    let f := parseFields rest
    match kind with
    -- C16: inside the domain of the exactness theorems (Props/C16 afb_exact_fits, proportion_exact, ceilTo_exact) the
    -- answer is the SPECIFICATION; the regenerated definition, which mirrors the current source, is shown when it differs
    | "afb" =>
      let p := fint f "p"; let b := fint f "b"
      let g := mres toString (Hub.Generated.AmountForBytes p b)
      let B256 : Nat := 2 ^ 256
      if 0 ≤ p ∧ 0 ≤ b ∧ p.toNat / 10 ^ 9 * b.toNat < B256 ∧ p.toNat % 10 ^ 9 * b.toNat + 10 ^ 9 < B256 ∧
          Hub.Props.C16.chargeSpec p.toNat b.toNat < B256 then
        let sp := "ok " ++ toString (Hub.Props.C16.chargeSpec p.toNat b.toNat)
        if g = sp then g else sp ++ " ;; regenerated=" ++ g.replace " " "_"
      else g
    | "prop" =>
      let a := fint f "a"; let sh := fint f "s"
      let g := mres (fun (c : Coin) => toString c.amount) (Hub.Generated.GetProportionOfCoin ⟨"udvpn", a⟩ sh)
      if 0 ≤ a ∧ a.toNat < 2 ^ 255 ∧ 0 ≤ sh ∧ sh.toNat ≤ 10 ^ 18 then
        let sp := "ok " ++ toString (Hub.Props.C16.shareSpec a.toNat sh.toNat)
        if g = sp then g else sp ++ " ;; regenerated=" ++ g.replace " " "_"
      else g
    | "ceilto" =>
      let up := fint f "up"; let down := fint f "down"; let pre := fint f "pre"
      let g := mres (fun (b : Hub.Generated.Bandwidth) => toString b.Upload ++ " " ++ toString b.Download)
        (Hub.Generated.Bandwidth.CeilTo ⟨up, down⟩ pre)
      let B256 : Nat := 2 ^ 256
      if 0 < pre ∧ 0 ≤ up ∧ 0 ≤ down ∧ up.toNat + pre.toNat < B256 ∧ down.toNat + pre.toNat < B256 then
        let sp := "ok " ++ toString (Hub.Props.C16.ceilToSpec up.toNat pre.toNat) ++ " " ++ toString (Hub.Props.C16.ceilToSpec down.toNat pre.toNat)
        if g = sp then g else sp ++ " ;; regenerated=" ++ g.replace " " "_"
      else g
    | "decmul" => mres toString (Dec.mul (fint f "a") (fint f "b"))
    | "decround" =>
      let a := fint f "a"
      "ok " ++ mval toString (Dec.ceil a) ++ " " ++ mval toString (Dec.roundInt a) ++ " " ++ mval toString (Dec.truncateInt a)
    | "fmt" => "ok " ++ toHex (formatTimeBytes (fint f "t"))
    | "dec" =>
      let t := fint f "t"; let a := fbytes f "a"; let b := fbytes f "b"; let i := fnat f "i"; let j := fnat f "j"
      let sn : Except String Nat → String := fun r => match r with | .ok n => "ok " ++ toString n | .error _ => "panic"
      let sb : Except String Bytes → String := fun r => match r with | .ok x => "ok " ++ toHex x | .error _ => "panic"
      open Hub.Generated.Keys in
      match fget f "f" with
      | "subscription.IDFromPayoutForAccountByNodeKey" => sn (subscription.IDFromPayoutForAccountByNodeKey (subscription.PayoutForAccountByNodeKey a b i))
      | "subscription.IDFromSubscriptionForAccountKey" => sn (subscription.IDFromSubscriptionForAccountKey (subscription.SubscriptionForAccountKey a i))
      | "subscription.AccAddrFromSubscriptionForAccountKey" => sb (subscription.AccAddrFromSubscriptionForAccountKey (subscription.SubscriptionForAccountKey a i))
      | "subscription.IDFromPayoutForNextAtKey" => sn (subscription.IDFromPayoutForNextAtKey (subscription.PayoutForNextAtKey t i))
      | "session.IDFromSessionForAllocationKey" => sn (session.IDFromSessionForAllocationKey (session.SessionForAllocationKey i a j))
      | "session.IDFromSessionForAccountKey" => sn (session.IDFromSessionForAccountKey (session.SessionForAccountKey a i))
      | "node.AddressFromNodeForPlanKey" => sb (node.AddressFromNodeForPlanKey (node.NodeForPlanKey i a))
      | "node.AddressFromNodeForInactiveAtKey" => sb (node.AddressFromNodeForInactiveAtKey (node.NodeForInactiveAtKey t a))
      | "plan.IDFromPlanForProviderKey" => sn (plan.IDFromPlanForProviderKey (plan.PlanForProviderKey a i))
      | "subscription.IDFromSubscriptionForInactiveAtKey" => sn (subscription.IDFromSubscriptionForInactiveAtKey (subscription.SubscriptionForInactiveAtKey t i))
      | "session.IDFromSessionForNodeKey" => sn (session.IDFromSessionForNodeKey (session.SessionForNodeKey a i))
      | "session.IDFromSessionForSubscriptionKey" => sn (session.IDFromSessionForSubscriptionKey (session.SessionForSubscriptionKey j i))
      | "session.IDFromSessionForInactiveAtKey" => sn (session.IDFromSessionForInactiveAtKey (session.SessionForInactiveAtKey t i))
      | "subscription.IDFromSubscriptionForNodeKey" => sn (subscription.IDFromSubscriptionForNodeKey (subscription.SubscriptionForNodeKey a i))
      | "subscription.IDFromSubscriptionForPlanKey" => sn (subscription.IDFromSubscriptionForPlanKey (subscription.SubscriptionForPlanKey j i))
      | "subscription.IDFromPayoutForAccountKey" => sn (subscription.IDFromPayoutForAccountKey (subscription.PayoutForAccountKey a i))
      | "subscription.IDFromPayoutForNodeKey" => sn (subscription.IDFromPayoutForNodeKey (subscription.PayoutForNodeKey a i))
      | _ => "bad-case"
    | "key" =>
      let t := fint f "t"; let a := fbytes f "a"; let b := fbytes f "b"; let i := fnat f "i"; let j := fnat f "j"
      open Hub.Generated.Keys in
      match fget f "f" with
      | "node.NodeForInactiveAtKey" => "ok " ++ toHex (node.NodeForInactiveAtKey t a)
      | "subscription.SubscriptionForInactiveAtKey" => "ok " ++ toHex (subscription.SubscriptionForInactiveAtKey t i)
      | "subscription.PayoutForNextAtKey" => "ok " ++ toHex (subscription.PayoutForNextAtKey t i)
      | "session.SessionForInactiveAtKey" => "ok " ++ toHex (session.SessionForInactiveAtKey t i)
      | "mint.InflationKey" => "ok " ++ toHex (mint.InflationKey t)
      | "subscription.AllocationKey" => "ok " ++ toHex (subscription.AllocationKey i a)
      | "session.SessionForAllocationKey" => "ok " ++ toHex (session.SessionForAllocationKey i a j)
      | "subscription.PayoutForAccountByNodeKey" => "ok " ++ toHex (subscription.PayoutForAccountByNodeKey a b i)
      | "plan.PlanForProviderKey" => "ok " ++ toHex (plan.PlanForProviderKey a i)
      | "node.NodeForPlanKey" => "ok " ++ toHex (node.NodeForPlanKey i a)
      | "deposit.DepositKey" => "ok " ++ toHex (deposit.DepositKey a)
      | "node.ActiveNodeKey" => "ok " ++ toHex (node.ActiveNodeKey a)
      | "node.InactiveNodeKey" => "ok " ++ toHex (node.InactiveNodeKey a)
      | "provider.ActiveProviderKey" => "ok " ++ toHex (provider.ActiveProviderKey a)
      | "provider.InactiveProviderKey" => "ok " ++ toHex (provider.InactiveProviderKey a)
      | "plan.ActivePlanKey" => "ok " ++ toHex (plan.ActivePlanKey i)
      | "swap.SwapKey" => "ok " ++ toHex (swap.SwapKey (toHash32 a))
      | _ => "bad-case"
    | "b32enc" => Hub.SDK.Bech32.runBech32Probe line
    | "b32dec" => Hub.SDK.Bech32.runBech32Probe line
    | "page" => Hub.SDK.Paginate.runPaginateProbe line
    -- C19: `<model bytes (hex) | err:…> ;; json=<1|0> <canonical text of the model's JSON tree>`
    | "pb" => Hub.Generated.Proto.runProtoProbe line ++ " ;; " ++
        Hub.SDK.ProtoJson.runJsonProbeWith Hub.SDK.ProtoJson.hubJson Hub.Generated.Proto.env line
    | "anytypes" => Hub.SDK.ProtoJson.runAnyTypesProbe Hub.SDK.ProtoJson.hubJson line
    | "pbd" => Hub.Generated.Proto.runProtoDecodeProbe line
    | _ => "bad-case"

partial def probeLoop (h : IO.FS.Stream) (out : IO.FS.Stream) : IO Unit := do
  let line ← h.getLine
  if line.isEmpty then return ()
  out.putStrLn (probeLine line.trimAscii.toString)
  probeLoop h out

/-! ### `--implmon`: the monitors on the *implementation's* states

Reads the harness's output stream (`> op`, `R …`, `+S` and `-S` delta lines), keeps the canonical dump it
describes, loads it into a `State` (`loadDump`) after every state-changing operation and prints
`I <n> <monitor> | <op>` for every monitor that fails on it (n = 1-based operation index). -/

structure ImplMon where
  n : Nat := 0
  op : String := ""
  res : String := ""
  hasDelta : Bool := false
  cur : List String := []
  time : Time := 0
  modified : Modified := { maxGB := true, minGB := true, maxHr := true, minHr := true }
  halted : Bool := false
  evals : Nat := 0

def ImplMon.flush (m : ImplMon) : ImplMon × List String :=
  let kind := ((m.op.splitOn " ").headD "")
  let stateful := ["start", "begin", "end", "tx", "gov", "jump", "reimport", "dump"].contains kind
  if m.n = 0 ∨ !stateful ∨ m.halted ∨ m.res.startsWith "halt" then (m, []) else
  let modified : Modified := if kind = "end" then {} else m.modified
  let l := loadDump m.cur m.time modified
  let fails := (allMonitorLines l.s (kind = "end")).map fun v => s!"I {m.n} {v.drop 2} | {m.op}"
  let bad := (l.bad.take 3).map fun b => s!"I {m.n} wellFormed {b.replace " " "_"} | {m.op}"
  ({ m with modified := modified, evals := m.evals + 1 }, fails ++ bad)

def ImplMon.feed (m : ImplMon) (line : String) : ImplMon × List String :=
  if line.startsWith "> " then
    let (m, outs) := m.flush
    let op := (line.drop 2).toString
    let parts := (op.splitOn " ").filter (· ≠ "")
    let f := parseFields (parts.drop 1)
    let time := if parts.headD "" = "begin" then fint f "t" else if parts.headD "" = "init" then fint f "t" else m.time
    ({ m with n := m.n + 1, op := op, res := "", hasDelta := false, time := time,
              halted := m.halted || m.res.startsWith "halt" }, outs)
  else if line.startsWith "R " then
    let res := (line.drop 2).toString
    let parts := (m.op.splitOn " ").filter (· ≠ "")
    let f := parseFields (parts.drop 1)
    let md := m.modified
    let md := if parts.headD "" = "gov" ∧ res.startsWith "accept" ∧ fget f "space" = "node" then
      match fget f "key" with
      | "MaxGigabytePrices" => { md with maxGB := true }
      | "MinGigabytePrices" => { md with minGB := true }
      | "MaxHourlyPrices" => { md with maxHr := true }
      | "MinHourlyPrices" => { md with minHr := true }
      | _ => md
      else md
    let reimported := parts.headD "" = "reimport" ∧ res.startsWith "accept"
    let cur := if reimported then [] else m.cur
    -- an imported genesis shares its commit with the next block: every price-bound key is marked modified
    let md : Modified := if reimported then { maxGB := true, minGB := true, maxHr := true, minHr := true } else md
    ({ m with res := res, modified := md, cur := cur }, [])
  else if line.startsWith "+S " then ({ m with cur := (line.drop 1).toString :: m.cur, hasDelta := true }, [])
  else if line.startsWith "-S " then
    let x := (line.drop 1).toString
    ({ m with cur := m.cur.erase x, hasDelta := true }, [])
  else (m, [])

partial def implMonLoop (h : IO.FS.Stream) (out : IO.FS.Stream) (m : ImplMon) : IO Unit := do
  let line ← h.getLine
  if line.isEmpty then
    let (m', outs) := m.flush
    for o in outs do out.putStrLn o
    out.putStrLn s!"Isum states={m'.evals}"
    return ()
  let (m', outs) := m.feed (line.dropEndWhile (· = '\n')).toString
  for o in outs do out.putStrLn o
  implMonLoop h out m'

def main (args : List String) : IO Unit := do
  let stdin ← IO.getStdin
  let stdout ← IO.getStdout
  if args.contains "--probe" then probeLoop stdin stdout
  else if args.contains "--implmon" then implMonLoop stdin stdout {}
  else loop stdin stdout {}
