-- Root of the `Hub` library: everything the checks build.
import Hub.Model.Run
import Hub.Model.Monitors
import Hub.Props.C01
import Hub.Props.C11
import Hub.Props.C13
import Hub.Props.C14
import Hub.Props.C15
import Hub.Props.C03
import Hub.Props.C05
import Hub.Props.C13Facts
import Hub.Props.C10
import Hub.Props.C19
import Hub.Props.C16
import Hub.Props.C17
