import Hub.SDK.Math
