import Hub.Model.Dump
/-
Executable monitors: the decidable (Bool) form of the invariants the property theorems are about.
They run on the model state after every operation; in `--monitor` mode they run on states loaded
from the implementation's dump.
-/
namespace Hub.Model
open Hub.SDK

def monitorLines (_s : State) : List String := []

end Hub.Model
