import Hub.Model.Dump
import Hub.Model.Inv
import Hub.Generated.Coin
/-
Executable monitors: the decidable (Bool) form of the invariants of `Inv.lean`, evaluated on
finite tables.  They run on the model state after every operation (the driver prints a line
`V <monitor> <detail>` for each failing one) and, in the search for a failing input, on states
loaded from the implementation's dump.
-/
namespace Hub.Model
open Hub.SDK
open Hub.Generated (Status Gigabyte AmountForBytes)

def allDenoms (s : State) : List Denom :=
  ((s.bank.keys.map (·.2)) ++ (s.deposits.vals.flatMap (·.map (·.denom))) ++ s.supply.keys).eraseDups

/-- C01: escrow balance = sum of deposit records, per denomination. -/
def backedB (s : State) : Bool :=
  (allDenoms s).all fun d => balance s depositAddr d == totalDeposits s d

/-- C01/C14: recorded supply = sum of balances, per denomination. -/
def supplyB (s : State) : Bool :=
  (allDenoms s).all fun d => supplyOf s d == bankTotal s d

def keysNodupB {κ α : Type} [DecidableEq κ] (t : Tbl κ α) : Bool := t.keys.eraseDups.length == t.keys.length

/-- C18. -/
def countersB (s : State) : Bool :=
  let pc := s.planCount.getD 0
  let sc := s.subCount.getD 0
  let ec := s.sessCount.getD 0
  (s.planActive ++ s.planInactive).all (fun (i, p) => p.id == i && 1 ≤ i && i ≤ pc) &&
  s.subs.all (fun (i, x) => x.id == i && 1 ≤ i && i ≤ sc) &&
  s.allocs.all (fun ((i, a), al) => al.id == i && al.addr == a && 1 ≤ i && i ≤ sc) &&
  s.payouts.all (fun (i, p) => p.id == i && 1 ≤ i && i ≤ sc) &&
  s.sessions.all (fun (i, x) => x.id == i && 1 ≤ i && i ≤ ec && 1 ≤ x.sub && x.sub ≤ sc) &&
  s.planForProv.keys.all (·.2 ≤ pc) && s.nodeForPlan.keys.all (·.1 ≤ pc) &&
  s.subQ.keys.all (·.2 ≤ sc) && s.subForAcc.keys.all (·.2 ≤ sc) && s.subForNode.keys.all (·.2 ≤ sc) &&
  s.subForPlan.keys.all (·.2 ≤ sc) && s.payQ.keys.all (·.2 ≤ sc) && s.payForAcc.keys.all (·.2 ≤ sc) &&
  s.payForNode.keys.all (·.2 ≤ sc) && s.payForAccNode.keys.all (·.2.2 ≤ sc) &&
  s.sessQ.keys.all (·.2 ≤ ec) && s.sessForAcc.keys.all (·.2 ≤ ec) && s.sessForNode.keys.all (·.2 ≤ ec) &&
  s.sessForSub.keys.all (·.2 ≤ ec) && s.sessForAlloc.keys.all (·.2.2 ≤ ec)

/-- RecInv: partitions. -/
def partitionsB (s : State) : Bool :=
  s.nodeActive.all (fun (a, n) => n.addr == a && n.status == .StatusActive && !s.nodeInactive.has a) &&
  s.nodeInactive.all (fun (a, n) => n.addr == a && n.status == .StatusInactive && n.inactiveAt == zeroTime) &&
  s.provActive.all (fun (a, p) => p.addr == a && p.status == .StatusActive && !s.provInactive.has a) &&
  s.provInactive.all (fun (a, p) => p.addr == a && p.status == .StatusInactive) &&
  s.planActive.all (fun (i, p) => p.id == i && p.status == .StatusActive && !s.planInactive.has i) &&
  s.planInactive.all (fun (i, p) => p.id == i && p.status == .StatusInactive)

/-- Two-way agreement between an index table and the set computed from the primary records. -/
def idxAgrees {κ : Type} [DecidableEq κ] (idx : Tbl κ Unit) (expected : List κ) : Bool :=
  idx.keys.all (expected.contains ·) && expected.all (idx.has ·) && keysNodupB idx

/-- NodeIdx. -/
def nodeIdxB (s : State) : Bool :=
  idxAgrees s.nodeQ (s.nodeActive.map fun (a, n) => (n.inactiveAt, a)) &&
  idxAgrees s.planForProv ((s.planActive ++ s.planInactive).map fun (i, p) => (p.prov, i)) &&
  s.nodeForPlan.keys.all (fun (i, n) => (getPlan s i).isSome && hasNode s n) &&
  keysNodupB s.nodeForPlan && keysNodupB s.nodeActive && keysNodupB s.nodeInactive && keysNodupB s.provActive &&
  keysNodupB s.provInactive && keysNodupB s.planActive && keysNodupB s.planInactive

/-- SessIdx (C09, session side). -/
def sessIdxB (s : State) : Bool :=
  idxAgrees s.sessQ (s.sessions.map fun (i, x) => (x.inactiveAt, i)) &&
  idxAgrees s.sessForAcc (s.sessions.map fun (i, x) => (x.addr, i)) &&
  idxAgrees s.sessForNode (s.sessions.map fun (i, x) => (x.node, i)) &&
  idxAgrees s.sessForSub (s.sessions.map fun (i, x) => (x.sub, i)) &&
  idxAgrees s.sessForAlloc (s.sessions.map fun (i, x) => (x.sub, x.addr, i)) &&
  keysNodupB s.sessions

def subNode (x : Sub) : Option Addr := match x.kind with | .node n _ _ _ => some n | _ => none
def subPlan (x : Sub) : Option Nat := match x.kind with | .plan p _ => some p | _ => none

/-- SubIdx (C09, subscription side). -/
def subIdxB (s : State) : Bool :=
  idxAgrees s.subQ (s.subs.map fun (i, x) => (x.inactiveAt, i)) &&
  idxAgrees s.subForNode (s.subs.filterMap fun (i, x) => (subNode x).map (·, i)) &&
  idxAgrees s.subForPlan (s.subs.filterMap fun (i, x) => (subPlan x).map (·, i)) &&
  idxAgrees s.subForAcc ((s.subs.map fun ((i, x) : Nat × Sub) => (x.addr, i)) ++ (s.allocs.keys.map fun ((i, a) : Nat × Addr) => (a, i))).eraseDups &&
  s.allocs.keys.all (fun (i, _) => s.subs.has i) &&
  s.subs.all (fun (i, x) => if isHourly x then s.allocs.keys.all (·.1 ≠ i) else s.allocs.has (i, x.addr)) &&
  s.subs.all (fun (i, x) => isPlanSub x || s.allocs.keys.all (fun (j, a) => j ≠ i || a == x.addr)) &&
  s.subs.all (fun (i, x) => isHourly x == s.payouts.has i) && s.payouts.keys.all (s.subs.has ·) &&
  s.payouts.all (fun (i, p) => match s.subs.get i with
    | some x => (match x.kind with | .node n _ hr _ => n == p.node && hr ≠ 0 && x.addr == p.addr | _ => false) && 0 ≤ p.hours
    | none => false) &&
  idxAgrees s.payForAcc (s.payouts.map fun (i, p) => (p.addr, i)) &&
  idxAgrees s.payForNode (s.payouts.map fun (i, p) => (p.node, i)) &&
  idxAgrees s.payForAccNode (s.payouts.filterMap fun (i, p) =>
    match s.subs.get i with | some x => if x.status == .StatusActive then some (p.addr, p.node, i) else none | none => none) &&
  idxAgrees s.payQ (s.payouts.filterMap fun (i, p) =>
    match s.subs.get i with | some x => if x.status == .StatusActive && 0 < p.hours then some (p.nextAt, i) else none | none => none) &&
  keysNodupB s.subs && keysNodupB s.allocs && keysNodupB s.payouts

/-- C06: bounds. -/
def allocBoundsB (s : State) : Bool := s.allocs.all fun (_, al) => 0 ≤ al.used && al.used ≤ al.granted

/-- C06: conservation. -/
def quotaConservedB (s : State) : Bool :=
  s.subs.all fun (i, x) => bought s x == some (grantedTotal s i)

/-- LifeInv without the bound `M` (the coupling between a session and its subscription; C03). -/
def lifecycleB (s : State) : Bool :=
  s.sessions.all (fun (_, x) =>
    match s.subs.get x.sub with
    | none => false
    | some y => (x.status != .StatusActive || y.status == .StatusActive) &&
                (y.status != .StatusInactivePending || x.inactiveAt ≤ y.inactiveAt))

/-- C04/C08: stored sessions and subscriptions are active or inactive-pending, and a holder has at
most one active session per subscription, which is the latest one. -/
def statusesB (s : State) : Bool :=
  s.sessions.all (fun (_, x) => x.status == .StatusActive || x.status == .StatusInactivePending) &&
  s.subs.all (fun (_, y) => y.status == .StatusActive || y.status == .StatusInactivePending) &&
  s.sessions.all (fun (i, x) => x.status != .StatusActive ||
    s.sessions.all (fun (j, z) => !(z.sub == x.sub && z.addr == x.addr) || j ≤ i))

def okOr {α} (d : α) : M α → α
  | .ok a => a
  | .error _ => d

/-- What of its deposit a live node subscription has not yet settled (C02). -/
def remaining (s : State) (i : Nat) (x : Sub) : Option Coin :=
  match x.kind with
  | .node _ gb hr dep =>
    if gb ≠ 0 then
      match s.allocs.get (i, x.addr) with
      | some al => some ⟨dep.denom, dep.amount - okOr 0 (AmountForBytes (Int.tdiv dep.amount gb) al.used)⟩
      | none => none
    else if hr ≠ 0 then
      match s.payouts.get i with
      | some p => some ⟨p.price.denom, p.price.amount * p.hours⟩
      | none => none
    else none
  | .plan _ _ => some ⟨"", 0⟩

/-- C02: every account's escrow record = the sum of the unsettled parts of its live node subscriptions. -/
def escrowSplitB (s : State) : Bool :=
  let accounts := (s.deposits.keys ++ s.subs.vals.map (·.addr)).eraseDups
  accounts.all fun a =>
    (allDenoms s).all fun d =>
      let rec_ := ((s.deposits.get a).getD []).amountOf d
      let owed := (s.subs.filterMap fun (i, x) =>
        if x.addr == a then (remaining s i x).map (fun c => if c.denom == d then c.amount else 0) else none).foldl (· + ·) 0
      rec_ == owed && s.subs.all (fun (i, x) => (remaining s i x).isSome)

/-- C11: node prices within the bounds that are not exempt by a pending re-pricing sweep. -/
def pricesB (s : State) : Bool :=
  (s.nodeActive ++ s.nodeInactive).all fun (_, n) =>
    (s.modified.maxGB || s.params.maxGB.all (fun c => n.gb.amountOf c.denom ≤ c.amount)) &&
    (s.modified.minGB || s.params.minGB.all (fun c => c.amount ≤ n.gb.amountOf c.denom)) &&
    (s.modified.maxHr || s.params.maxHr.all (fun c => n.hr.amountOf c.denom ≤ c.amount)) &&
    (s.modified.minHr || s.params.minHr.all (fun c => c.amount ≤ n.hr.amountOf c.denom))

/-- C04 (timeliness): after the end of a block no deadline is at or before the block time. -/
def deadlinesFutureB (s : State) : Bool :=
  s.nodeQ.keys.all (fun k => s.time < k.1) && s.subQ.keys.all (fun k => s.time < k.1) && s.sessQ.keys.all (fun k => s.time < k.1)

/-- C14: recorded swaps have distinct hashes (`Tbl` keys) and positive amounts in one denomination each. -/
def swapsB (s : State) : Bool := keysNodupB s.swaps && s.swaps.all (fun (h, w) => w.hash == h && 0 ≤ w.amt.amount)

/-- The state monitors, by name. -/
def stateMonitors (s : State) : List (String × Bool) := [
  ("backed", backedB s), ("supply", supplyB s), ("counters", countersB s), ("partitions", partitionsB s),
  ("nodeIdx", nodeIdxB s), ("sessIdx", sessIdxB s), ("subIdx", subIdxB s), ("allocBounds", allocBoundsB s),
  ("quotaConserved", quotaConservedB s), ("lifecycle", lifecycleB s), ("statuses", statusesB s), ("escrowSplit", escrowSplitB s),
  ("prices", pricesB s), ("swaps", swapsB s)]

/-- `V` lines for the failing monitors (`afterEnd` adds the block-boundary monitors). -/
def monitorLines (s : State) (afterEnd : Bool := false) : List String :=
  let ms := stateMonitors s ++ (if afterEnd then [("deadlinesFuture", deadlinesFutureB s)] else [])
  ms.filterMap fun (n, ok) => if ok then none else some ("V " ++ n)

end Hub.Model
