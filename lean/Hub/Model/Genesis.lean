import Hub.Model.Dump
import Hub.Model.Run
/-
Genesis export, validation and import of the three hub modules (property C12), mirrored from
`x/vpn/genesis.go`, `x/{deposit,provider,node,plan,session,subscription,swap,mint}/genesis.go`,
`x/*/types/genesis.go` and the records' `Validate()` functions.

* `exportGenesis`   = `vpn.ExportGenesis`, `swap.ExportGenesis`, `custommint.ExportGenesis`: every list in the
  store's iteration order (`sortKeys` with the generated key functions; the `0x10` record prefix holds
  the active partition `0x10 0x01` before the inactive one `0x10 0x02`).
* `validateGenesis` = `vpn GenesisState.Validate`, `swap GenesisState.Validate`, `custommint GenesisState.Validate`
  (`none` = valid, otherwise `<module>:<error text>` of the first failing check, in the order of the code).
* `initGenesis`     = `vpn.InitGenesis` (deposit, node, plan, provider, session, subscription),
  `swap.InitGenesis`, `custommint.InitGenesis`.
* `reimport`        = export → validate → init on a fresh chain that keeps the SDK side
  (time, height, balances, supply, SDK mint parameters, registered keys), as the harness does.

Modelling notes.
* Stored address strings are bech32 texts of the bytes the model holds; "is a well-formed bech32 string
  of the right prefix" is modelled as "1..255 bytes" (`addrOK`), the rule of `TextAddr.parse`. Two address
  strings are equal iff their bytes are (bech32 is injective, C17).
* URL well-formedness of a stored `remote_url` / `website` (`url.ParseRequestURI`, https scheme, port) is
  taken as true: every stored value passed the same check in `ValidateBasic` (`urlok`/`webok`).
* `GetNodesForPlan` panics on a link whose node record is missing; `exportPanics` says whether that
  happens (never in a reachable state: nodes are never deleted), `exportGenesis` itself is total.
* F5: `subscription.ExportGenesis` reads the subscriptions and then returns an EMPTY list;
  `subscription.InitGenesis` stores the parameters only.
-/
namespace Hub.Model
open Hub.SDK
open Hub.Generated (Status)
open Hub.Generated.Keys

/-! ## Genesis values -/

structure ProviderParams where
  deposit : Coin
  share : Dec
  deriving Repr, DecidableEq, Inhabited

structure NodeParams where
  deposit : Coin
  activeDur : Dur
  maxGB : Coins
  minGB : Coins
  maxHr : Coins
  minHr : Coins
  maxSubGB : Int
  minSubGB : Int
  maxSubHr : Int
  minSubHr : Int
  share : Dec
  deriving Repr, DecidableEq, Inhabited

structure SubscriptionParams where
  delay : Dur
  deriving Repr, DecidableEq, Inhabited

structure SessionParams where
  delay : Dur
  proof : Bool
  deriving Repr, DecidableEq, Inhabited

structure SwapParams where
  on : Bool
  denom : Denom
  approveBy : Addr
  deriving Repr, DecidableEq, Inhabited

/-- `plan/types.GenesisPlan`: the plan and the addresses of its linked nodes. -/
structure GenesisPlan where
  plan : Plan
  nodes : List Addr
  deriving Repr, DecidableEq, Inhabited

/-- `vpn/types.GenesisState`. `subscriptions` is the exported `GenesisSubscriptions` list: the export
builds it with length zero (F5), so its element type carries no information here. -/
structure VpnGenesis where
  deposits : List (Addr × Coins)
  providers : List Provider
  providerParams : ProviderParams
  nodes : List Node
  nodeParams : NodeParams
  plans : List GenesisPlan
  subscriptions : List Sub
  subscriptionParams : SubscriptionParams
  sessions : List Session
  sessionParams : SessionParams
  deriving Repr, DecidableEq, Inhabited

structure SwapGenesis where
  swaps : List Swap
  params : SwapParams
  deriving Repr, DecidableEq, Inhabited

structure MintGenesis where
  inflations : List Inflation
  deriving Repr, DecidableEq, Inhabited

/-! ## Export -/

/-- The key/value pairs of a table in the store's iteration order. -/
def exportTbl {κ α : Type} [DecidableEq κ] (enc : κ → Bytes) (t : Tbl κ α) : List (κ × α) :=
  (sortKeys enc t.keys).filterMap fun k => (t.get k).map fun v => (k, v)

/-- The values of a table in the store's iteration order. -/
def exportVals {κ α : Type} [DecidableEq κ] (enc : κ → Bytes) (t : Tbl κ α) : List α :=
  (exportTbl enc t).map (·.2)

/-- `GetProviders`: prefix `0x10` = active partition, then inactive. -/
def exportProviders (s : State) : List Provider :=
  exportVals provider.ActiveProviderKey s.provActive ++ exportVals provider.InactiveProviderKey s.provInactive

/-- `GetNodes`. -/
def exportNodes (s : State) : List Node :=
  exportVals node.ActiveNodeKey s.nodeActive ++ exportVals node.InactiveNodeKey s.nodeInactive

/-- `GetPlans`. -/
def exportPlanRecs (s : State) : List Plan :=
  exportVals plan.ActivePlanKey s.planActive ++ exportVals plan.InactivePlanKey s.planInactive

/-- The link keys of one plan in store order (prefix `0x12 ‖ id`). -/
def linkedAddrs (s : State) (id : Nat) : List Addr :=
  sortKeys (fun a => node.NodeForPlanKey id a) ((s.nodeForPlan.keys.filter (·.1 = id)).map (·.2))

/-- `GetNodesForPlan(id)` mapped to `node.Address`: the stored address of every linked node. -/
def exportPlanNodes (s : State) (id : Nat) : List Addr :=
  (linkedAddrs s id).filterMap fun a => (getNode s a).map (·.addr)

def exportPlans (s : State) : List GenesisPlan :=
  (exportPlanRecs s).map fun p => { plan := p, nodes := exportPlanNodes s p.id }

/-- `GetNodesForPlan` panics (`node for plan key … does not exist`) for some exported plan. -/
def exportPanics (s : State) : Bool :=
  (exportPlanRecs s).any fun p => (linkedAddrs s p.id).any fun a => (getNode s a).isNone

def Params.provider (p : Params) : ProviderParams := { deposit := p.provDeposit, share := p.provShare }
def Params.node (p : Params) : NodeParams :=
  { deposit := p.nodeDeposit, activeDur := p.activeDur, maxGB := p.maxGB, minGB := p.minGB, maxHr := p.maxHr, minHr := p.minHr,
    maxSubGB := p.maxSubGB, minSubGB := p.minSubGB, maxSubHr := p.maxSubHr, minSubHr := p.minSubHr, share := p.nodeShare }
def Params.subscription (p : Params) : SubscriptionParams := { delay := p.subDelay }
def Params.session (p : Params) : SessionParams := { delay := p.sessDelay, proof := p.proof }
def Params.swap (p : Params) : SwapParams := { on := p.swapOn, denom := p.swapDenom, approveBy := p.approveBy }

def exportVpn (s : State) : VpnGenesis :=
  { deposits := exportTbl deposit.DepositKey s.deposits
    providers := exportProviders s
    providerParams := s.params.provider
    nodes := exportNodes s
    nodeParams := s.params.node
    plans := exportPlans s
    subscriptions := []            -- F5: `items = make(GenesisSubscriptions, 0, len(subscriptions))`, never appended to
    subscriptionParams := s.params.subscription
    sessions := exportVals session.SessionKey s.sessions
    sessionParams := s.params.session }

def exportSwap (s : State) : SwapGenesis :=
  { swaps := exportVals swap.SwapKey s.swaps, params := s.params.swap }

def exportMint (s : State) : MintGenesis :=
  { inflations := exportVals mint.InflationKey s.inflations }

def exportGenesis (s : State) : VpnGenesis × SwapGenesis × MintGenesis :=
  (exportVpn s, exportSwap s, exportMint s)

/-! ## Validation -/

/-- `if !c { return error(msg) }` for a validation chain: `none` = passed. -/
def chk (c : Bool) (msg : String) : Option String := if c then none else some msg

/-- First error of a list of checks (in order). -/
def firstOf : List (Option String) → Option String
  | [] => none
  | some e :: _ => some e
  | none :: rest => firstOf rest

/-- First error over the items of a list. -/
def firstErr {α : Type} (l : List α) (f : α → Option String) : Option String := firstOf (l.map f)

/-- The `m := make(map[..]bool)` duplicate scan. -/
def hasDup {κ : Type} [DecidableEq κ] : List κ → Bool
  | [] => false
  | x :: xs => xs.contains x || hasDup xs

/-- A stored address string parses with the expected prefix (see the modelling notes). -/
def addrOK (a : Addr) : Bool := a.length ≠ 0 && decide (a.length ≤ 255)

/-- non-nil, non-empty, valid coins (`x == nil`, `Len() == 0`, `IsAnyNil`, `!IsValid`). -/
def coinsField (name : String) (cs : Coins) : Option String :=
  firstOf [chk (cs.length ≠ 0) (name ++ " cannot be empty"), chk cs.isValid (name ++ " must be valid")]

def validateDeposit (d : Addr × Coins) : Option String :=
  firstOf [chk (d.1.length ≠ 0) "address cannot be empty", chk (addrOK d.1) "invalid address",
           chk (d.2.length ≠ 0) "coins cannot be empty", chk d.2.isValid "coins must be valid"]

def validateDepositGenesis (ds : List (Addr × Coins)) : Option String :=
  firstOf [chk (!hasDup (ds.map (·.1))) "found a duplicate deposit for address", firstErr ds validateDeposit]

def ProviderParams.validate (p : ProviderParams) : Option String :=
  firstOf [chk (decide (0 ≤ p.deposit.amount)) "deposit cannot be negative", chk (validCoinParam p.deposit) "invalid deposit",
           chk (decide (0 ≤ p.share)) "staking_share cannot be negative", chk (validShare p.share) "staking_share cannot be greater than 1"]

def Provider.validate (m : Provider) : Option String :=
  firstOf [chk (m.addr.length ≠ 0) "address cannot be empty", chk (addrOK m.addr) "invalid address",
           chk (m.name.length ≠ 0) "name cannot be empty",
           chk (decide (m.name.length ≤ 64)) "name length cannot be greater than 64 chars",
           chk (decide (m.identity.length ≤ 64)) "identity length cannot be greater than 64 chars",
           chk (decide (m.website.length ≤ 64)) "website length cannot be greater than 64 chars",
           chk (decide (m.desc.length ≤ 256)) "description length cannot be greater than 256 chars",
           chk (m.status.IsOneOf [.StatusActive, .StatusInactive]) "status must be one of [active, inactive]"]

def validateProviderGenesis (ps : List Provider) (p : ProviderParams) : Option String :=
  firstOf [p.validate, chk (!hasDup (ps.map (·.addr))) "found a duplicate provider", firstErr ps Provider.validate]

def NodeParams.validate (p : NodeParams) : Option String :=
  firstOf [chk (decide (0 ≤ p.deposit.amount)) "deposit cannot be negative", chk (validCoinParam p.deposit) "invalid deposit",
           chk (decide (0 < p.activeDur)) "active_duration cannot be zero",
           chk p.maxGB.isValid "max_gigabyte_prices must be valid", chk p.minGB.isValid "min_gigabyte_prices must be valid",
           chk p.maxHr.isValid "max_hourly_prices must be valid", chk p.minHr.isValid "min_hourly_prices must be valid",
           chk (decide (0 < p.maxSubGB)) "max_subscription_gigabytes cannot be zero",
           chk (decide (0 < p.minSubGB)) "min_subscription_gigabytes cannot be zero",
           chk (decide (0 < p.maxSubHr)) "max_subscription_hours cannot be zero",
           chk (decide (0 < p.minSubHr)) "min_subscription_hours cannot be zero",
           chk (decide (0 ≤ p.share)) "staking_share cannot be negative", chk (validShare p.share) "staking_share cannot be greater than 1"]

def Node.validate (m : Node) : Option String :=
  firstOf [chk (m.addr.length ≠ 0) "address cannot be empty", chk (addrOK m.addr) "invalid address",
           coinsField "gigabyte_prices" m.gb, coinsField "hourly_prices" m.hr,
           chk (m.url.length ≠ 0) "remote_url cannot be empty",
           chk (decide (m.url.length ≤ 64)) "remote_url length cannot be greater than 64 chars",
           chk (!(decide (m.inactiveAt = zeroTime)) || m.status.Equal .StatusInactive) "invalid inactive_at; expected positive",
           chk (decide (m.inactiveAt = zeroTime) || m.status.Equal .StatusActive) "invalid inactive_at; expected zero",
           chk (m.status.IsOneOf [.StatusActive, .StatusInactive]) "status must be one of [active, inactive]",
           chk (m.statusAt ≠ zeroTime) "status_at cannot be zero"]

def validateNodeGenesis (ns : List Node) (p : NodeParams) : Option String :=
  firstOf [p.validate, chk (!hasDup (ns.map (·.addr))) "found a duplicate node for address", firstErr ns Node.validate]

def Plan.validate (m : Plan) : Option String :=
  firstOf [chk (m.id ≠ 0) "id cannot be zero",
           chk (m.prov.length ≠ 0) "provider_address cannot be empty", chk (addrOK m.prov) "invalid provider_address",
           chk (decide (0 ≤ m.dur)) "duration cannot be negative", chk (m.dur ≠ 0) "duration cannot be zero",
           chk (decide (0 ≤ m.gb)) "gigabytes cannot be negative", chk (m.gb ≠ 0) "gigabytes cannot be zero",
           coinsField "prices" m.prices,
           chk (m.status.IsOneOf [.StatusActive, .StatusInactive]) "status must be one of [active, inactive]",
           chk (m.statusAt ≠ zeroTime) "status_at cannot be zero"]

def validatePlanGenesis (ps : List GenesisPlan) : Option String :=
  firstOf [chk (!hasDup (ps.map (·.plan.id))) "found a duplicate plan for id",
           firstErr ps (fun it => chk (!hasDup it.nodes) "found a duplicate node for the plan"),
           firstErr ps (fun it => it.plan.validate)]

def SubscriptionParams.validate (p : SubscriptionParams) : Option String :=
  firstOf [chk (decide (0 ≤ p.delay)) "status_change_delay cannot be negative", chk (p.delay ≠ 0) "status_change_delay cannot be zero"]

/-- The exported list is always empty (F5); a non-empty list is outside what this model imports, its
per-item checks (`BaseSubscription.Validate`, allocations) are not modelled. -/
def validateSubscriptionGenesis (subs : List Sub) (p : SubscriptionParams) : Option String :=
  firstOf [p.validate, chk (!hasDup (subs.map (·.id))) "found a duplicate subscription for id"]

def SessionParams.validate (p : SessionParams) : Option String :=
  firstOf [chk (decide (0 ≤ p.delay)) "status_change_delay cannot be negative", chk (p.delay ≠ 0) "status_change_delay cannot be zero"]

def Session.validate (m : Session) : Option String :=
  firstOf [chk (m.id ≠ 0) "id cannot be zero", chk (m.sub ≠ 0) "subscription_id cannot be zero",
           chk (m.node.length ≠ 0) "node_address cannot be empty", chk (addrOK m.node) "invalid node_address",
           chk (m.addr.length ≠ 0) "address cannot be empty", chk (addrOK m.addr) "invalid address",
           chk (decide (0 ≤ m.up) && decide (0 ≤ m.down)) "bandwidth cannot be negative",
           chk (decide (0 ≤ m.dur)) "duration cannot be negative",
           chk (m.inactiveAt ≠ zeroTime) "inactive_at cannot be zero",
           chk (m.status.IsOneOf [.StatusActive, .StatusInactivePending]) "status must be oneof [active, inactive_pending]",
           chk (m.statusAt ≠ zeroTime) "status_at cannot be zero"]

def validateSessionGenesis (xs : List Session) (p : SessionParams) : Option String :=
  firstOf [p.validate, chk (!hasDup (xs.map (·.id))) "found a duplicate session", firstErr xs Session.validate]

def pfx (m : String) : Option String → Option String
  | none => none
  | some e => some (m ++ e)

/-- `vpn GenesisState.Validate`. -/
def validateVpn (g : VpnGenesis) : Option String :=
  firstOf [pfx "invalid deposit genesis: " (validateDepositGenesis g.deposits),
           pfx "invalid provider genesis: " (validateProviderGenesis g.providers g.providerParams),
           pfx "invalid node genesis: " (validateNodeGenesis g.nodes g.nodeParams),
           pfx "invalid plan genesis: " (validatePlanGenesis g.plans),
           pfx "invalid subscription genesis: " (validateSubscriptionGenesis g.subscriptions g.subscriptionParams),
           pfx "invalid session genesis: " (validateSessionGenesis g.sessions g.sessionParams)]

def SwapParams.validate (p : SwapParams) : Option String :=
  firstOf [chk (p.denom ≠ "") "swap_denom cannot be empty", chk (validDenom p.denom) "invalid swap_denom",
           chk (p.approveBy.length ≠ 0) "approve_by cannot be empty", chk (addrOK p.approveBy) "invalid approve_by"]

/-- `Swap.Validate`; `PrecisionLoss = 100`. -/
def Swap.validate (m : Swap) : Option String :=
  firstOf [chk (m.hash.length ≠ 0) "tx_hash cannot be empty",
           chk (decide (32 ≤ m.hash.length)) "tx_hash length cannot be less than 32",
           chk (decide (m.hash.length ≤ 32)) "tx_hash length cannot be greater than 32",
           chk (m.recv.length ≠ 0) "receiver cannot be empty", chk (addrOK m.recv) "invalid receiver",
           chk (decide (0 ≤ m.amt.amount)) "amount cannot be negative", chk (m.amt.amount ≠ 0) "amount cannot be zero",
           chk (decide (100 ≤ m.amt.amount)) "amount cannot be less than 100",
           chk (validDenom m.amt.denom) "amount must be valid"]

def validateSwap (w : SwapGenesis) : Option String :=
  firstOf [w.params.validate, chk (!hasDup (w.swaps.map (·.hash))) "found duplicate swap for tx_hash", firstErr w.swaps Swap.validate]

def Inflation.validate (i : Inflation) : Option String :=
  firstOf [chk (decide (0 ≤ i.max)) "max cannot be negative", chk (decide (i.max ≤ decUnit)) "max cannot be greater than one",
           chk (decide (0 ≤ i.min)) "min cannot be negative", chk (decide (i.min ≤ decUnit)) "min cannot be greater than one",
           chk (decide (i.min ≤ i.max)) "min cannot be greater than max",
           chk (decide (0 ≤ i.rate)) "rate_change cannot be negative", chk (decide (i.rate ≤ decUnit)) "rate_change cannot be greater than one",
           chk (i.ts ≠ zeroTime) "timestamp cannot be zero"]

def validateMint (m : MintGenesis) : Option String :=
  firstOf [chk (!hasDup (m.inflations.map (·.ts))) "found a duplicate inflation for timestamp", firstErr m.inflations Inflation.validate]

/-- All three sections; `none` = the exported genesis is valid. -/
def validateGenesis (g : VpnGenesis) (w : SwapGenesis) (m : MintGenesis) : Option String :=
  firstOf [pfx "vpn:" (validateVpn g), pfx "swap:" (validateSwap w), pfx "custommint:" (validateMint m)]

/-- C12's monitor: the genesis exported from this state passes validation.  It is the Bool form of the
`export validates` conjunct of `roundtrip_reachable` (Props/C12Reach; `Hub.Props.C12Export.exportValid_of_reachable` proves it for every reachable state, with no condition on the swaps) for the vpn and custommint sections
and the swap parameters; the swap *records* are left out because of the listed finding F4 (a recorded
swap of less than 100 fails `Swap.Validate`), which the round-trip check reports by itself. -/
def exportValidB (s : State) : Bool :=
  !exportPanics s && (validateVpn (exportVpn s)).isNone && (validateMint (exportMint s)).isNone
    && (s.params.swap.validate).isNone && !hasDup ((exportSwap s).swaps.map (·.hash))


/-! ## Import -/

/-- The SDK side a re-import keeps (bank balances and supply, block time and height, SDK mint
parameters and minter, registered public keys); every hub table empty, no counters, no parameters. -/
def sdkSide (s : State) : State :=
  { time := s.time, height := s.height, bank := s.bank, supply := s.supply, keyed := s.keyed,
    mintMax := s.mintMax, mintMin := s.mintMin, mintRate := s.mintRate, minterInfl := s.minterInfl }

/-- `deposit.InitGenesis`. -/
def initDeposits (ds : List (Addr × Coins)) (s : State) : State :=
  { s with deposits := ds.foldl (fun t d => t.set d.1 d.2) s.deposits }

/-- `k.SetParams` of the node module, as `node.InitGenesis` calls it: every parameter is written, and the params
subspace marks every written key as modified in its *transient* store. A genesis and the first block after it
share one commit (the transient store is reset at Commit), so all four price-bound flags are set in the imported
state — as in `Genesis.base` (Run.lean) — and the first `endBlock` after an import runs the node price sweep. -/
def setNodeParams (s : State) (p : NodeParams) : State :=
  { s with params := { s.params with nodeDeposit := p.deposit, activeDur := p.activeDur, maxGB := p.maxGB, minGB := p.minGB,
                                       maxHr := p.maxHr, minHr := p.minHr, maxSubGB := p.maxSubGB, minSubGB := p.minSubGB,
                                       maxSubHr := p.maxSubHr, minSubHr := p.minSubHr, nodeShare := p.share }
           modified := { maxGB := true, minGB := true, maxHr := true, minHr := true } }

def initNodeStep (s : State) (n : Node) : M State := do
  let s1 ← setNode s n
  pure (if n.status = .StatusActive then { s1 with nodeQ := s1.nodeQ.set (n.inactiveAt, n.addr) () } else s1)

/-- `node.InitGenesis`: parameters; every node into its partition; a queue entry for the active ones. -/
def initNodes (ns : List Node) (p : NodeParams) (s : State) : M State :=
  ns.foldlM initNodeStep (setNodeParams s p)

def initPlanStep (s : State) (it : GenesisPlan) : M State := do
  let s1 ← setPlan s it.plan
  let s2 := { s1 with planForProv := s1.planForProv.set (it.plan.prov, it.plan.id) () }
  pure { s2 with nodeForPlan := it.nodes.foldl (fun t a => t.set (it.plan.id, a) ()) s2.nodeForPlan }

def maxId (ids : List Nat) : Nat := ids.foldl (fun c i => if i > c then i else c) 0

/-- `plan.InitGenesis`: plans, provider index, links; counter = largest id. -/
def initPlans (ps : List GenesisPlan) (s : State) : M State := do
  let s1 ← ps.foldlM initPlanStep s
  pure { s1 with planCount := some (maxId (ps.map (·.plan.id))) }

/-- `provider.InitGenesis`. -/
def initProviders (ps : List Provider) (p : ProviderParams) (s : State) : M State :=
  ps.foldlM setProvider { s with params := { s.params with provDeposit := p.deposit, provShare := p.share } }

def initSessionStep (s : State) (x : Session) : State :=
  let s := { s with sessions := s.sessions.set x.id x }
  let s := { s with sessForAcc := s.sessForAcc.set (x.addr, x.id) () }
  let s := { s with sessForNode := s.sessForNode.set (x.node, x.id) () }
  let s := { s with sessForSub := s.sessForSub.set (x.sub, x.id) () }
  let s := { s with sessForAlloc := s.sessForAlloc.set (x.sub, x.addr, x.id) () }
  { s with sessQ := s.sessQ.set (x.inactiveAt, x.id) () }

/-- `session.InitGenesis`: parameters; record and the six index entries of every session; counter =
largest id among the imported (= live) sessions (F9). -/
def initSessions (xs : List Session) (p : SessionParams) (s : State) : State :=
  let s := { s with params := { s.params with sessDelay := p.delay, proof := p.proof } }
  let s := xs.foldl initSessionStep s
  { s with sessCount := some (maxId (xs.map (·.id))) }

/-- `subscription.InitGenesis`: `k.SetParams(ctx, state.Params)` and nothing else (F5). -/
def initSubscriptions (_subs : List Sub) (p : SubscriptionParams) (s : State) : State :=
  { s with params := { s.params with subDelay := p.delay } }

/-- `vpn.InitGenesis`. -/
def initVpn (g : VpnGenesis) (s : State) : M State := do
  let s1 := initDeposits g.deposits s
  let s2 ← initNodes g.nodes g.nodeParams s1
  let s3 ← initPlans g.plans s2
  let s4 ← initProviders g.providers g.providerParams s3
  let s5 := initSessions g.sessions g.sessionParams s4
  pure (initSubscriptions g.subscriptions g.subscriptionParams s5)

/-- `swap.InitGenesis`. -/
def initSwap (w : SwapGenesis) (s : State) : State :=
  { s with params := { s.params with swapOn := w.params.on, swapDenom := w.params.denom, approveBy := w.params.approveBy }
           swaps := w.swaps.foldl (fun t x => t.set x.hash x) s.swaps }

/-- `custommint.InitGenesis`. -/
def initMint (m : MintGenesis) (s : State) : State :=
  { s with inflations := m.inflations.foldl (fun t i => t.set i.ts i) s.inflations }

/-- A fresh chain (the SDK side given by `base`, hub tables empty) initialised from a genesis. A record
whose status is neither active nor inactive makes `Set{Node,Plan,Provider}` panic. -/
def initGenesis (base : State) (g : VpnGenesis) (w : SwapGenesis) (m : MintGenesis) : M State := do
  let s ← initVpn g base
  pure (initMint m (initSwap w s))

/-- Export, validate, import. `none`: the export panics, the exported genesis is invalid, or the import panics.
The imported state is a genesis that has not been committed yet: its four `modified` flags are set
(`setNodeParams`), so the next `endBlock` re-prices every node against the imported bounds. -/
def reimport (s : State) : Option State :=
  if exportPanics s then none else
  match validateGenesis (exportVpn s) (exportSwap s) (exportMint s) with
  | some _ => none
  | none =>
    match initGenesis (sdkSide s) (exportVpn s) (exportSwap s) (exportMint s) with
    | .ok s' => some s'
    | .error _ => none

/-! ## Executable well-formedness check

The Boolean form of the hypotheses of the round-trip theorem (`Hub.Props.C12.GenWF`; soundness:
`Hub.Props.C12.genWF_of_check`). It can be evaluated on every state of a run (model side, or a state loaded
from the implementation's dump) as a monitor: `genWFViolations s = []` says the theorem applies to `s`. -/

def genNodupKeys {κ α : Type} [DecidableEq κ] (t : Tbl κ α) : Bool := !hasDup t.keys

/-- Both partitions duplicate-free, records under their own key and status, no key in both. -/
def genPartOKb {κ α : Type} [DecidableEq κ] (tA tI : Tbl κ α) (key : α → κ) (st : α → Status) : Bool :=
  genNodupKeys tA && genNodupKeys tI &&
  tA.all (fun p => decide (key p.2 = p.1) && decide (st p.2 = .StatusActive)) &&
  tI.all (fun p => decide (key p.2 = p.1) && decide (st p.2 = .StatusInactive)) &&
  tA.all (fun p => !tI.has p.1)

/-- `idx` holds exactly the keys `proj k v` of the records of `t`. -/
def genIndexOKb {κ α ι : Type} [DecidableEq κ] [DecidableEq ι] (idx : Tbl ι Unit) (t : Tbl κ α) (recOf : ι → κ) (proj : κ → α → ι) : Bool :=
  idx.all (fun p => match t.get (recOf p.1) with | some v => decide (proj (recOf p.1) v = p.1) | none => false) &&
  t.all (fun p => idx.has (proj p.1 p.2))

def genPlanAt (s : State) (i : Nat) : Option Plan := match s.planActive.get i with | some p => some p | none => s.planInactive.get i

def genWFChecks (s : State) : List (String × Bool) :=
  [ ("deposits nodup", genNodupKeys s.deposits), ("links nodup", genNodupKeys s.nodeForPlan), ("sessions nodup", genNodupKeys s.sessions),
    ("swaps nodup", genNodupKeys s.swaps), ("inflations nodup", genNodupKeys s.inflations),
    ("providers partition", genPartOKb s.provActive s.provInactive (·.addr) (·.status)),
    ("nodes partition", genPartOKb s.nodeActive s.nodeInactive (·.addr) (·.status)),
    ("plans partition", genPartOKb s.planActive s.planInactive (·.id) (·.status)),
    ("session key", s.sessions.all fun p => decide (p.2.id = p.1)),
    ("swap key", s.swaps.all fun p => decide (p.2.hash = p.1)),
    ("inflation key", s.inflations.all fun p => decide (p.2.ts = p.1)),
    ("node queue", genIndexOKb s.nodeQ s.nodeActive (·.2) (fun a n => (n.inactiveAt, a))),
    ("plan index", s.planForProv.all (fun p => match genPlanAt s p.1.2 with | some pl => decide (pl.prov = p.1.1) | none => false) &&
                   s.planActive.all (fun p => s.planForProv.has (p.2.prov, p.1)) && s.planInactive.all (fun p => s.planForProv.has (p.2.prov, p.1))),
    ("links", s.nodeForPlan.all fun p => (s.planActive.has p.1.1 || s.planInactive.has p.1.1) && (s.nodeActive.has p.1.2 || s.nodeInactive.has p.1.2)),
    ("session queue", genIndexOKb s.sessQ s.sessions (·.2) (fun i x => (x.inactiveAt, i))),
    ("session by account", genIndexOKb s.sessForAcc s.sessions (·.2) (fun i x => (x.addr, i))),
    ("session by node", genIndexOKb s.sessForNode s.sessions (·.2) (fun i x => (x.node, i))),
    ("session by subscription", genIndexOKb s.sessForSub s.sessions (·.2) (fun i x => (x.sub, i))),
    ("session by allocation", genIndexOKb s.sessForAlloc s.sessions (·.2.2) (fun i x => (x.sub, x.addr, i))),
    ("plan counter", match s.planCount with
      | some c => s.planActive.all (fun p => decide (p.1 ≤ c)) && s.planInactive.all (fun p => decide (p.1 ≤ c)) &&
                  (decide (c = 0) || s.planActive.has c || s.planInactive.has c)
      | none => false),
    ("deposit records valid", s.deposits.all fun p => (validateDeposit p).isNone),
    ("provider records valid", s.provActive.all (fun p => p.2.validate.isNone) && s.provInactive.all (fun p => p.2.validate.isNone)),
    ("node records valid", s.nodeActive.all (fun p => p.2.validate.isNone) && s.nodeInactive.all (fun p => p.2.validate.isNone)),
    ("plan records valid", s.planActive.all (fun p => p.2.validate.isNone) && s.planInactive.all (fun p => p.2.validate.isNone)),
    ("session records valid", s.sessions.all fun p => p.2.validate.isNone),
    ("swap records valid (F4: amount >= 100)", s.swaps.all fun p => p.2.validate.isNone),
    ("inflation records valid", s.inflations.all fun p => p.2.validate.isNone),
    ("parameters valid", s.params.provider.validate.isNone && s.params.node.validate.isNone && s.params.subscription.validate.isNone &&
                         s.params.session.validate.isNone && s.params.swap.validate.isNone) ]

/-- Names of the failing checks. -/
def genWFViolations (s : State) : List String := (genWFChecks s).filterMap fun c => if c.2 then none else some c.1

def genWFb (s : State) : Bool := (genWFChecks s).all (·.2)

/-! ## Line protocol (`export` / `reimport`) -/

def addrList (r : Role) (as : List Addr) : String :=
  if as.isEmpty then "-" else ",".intercalate (as.map (addrTxt r))

def genesisLines (g : VpnGenesis) (w : SwapGenesis) (m : MintGenesis) : List String :=
  (g.deposits.map fun d => s!"G deposit addr={addrTxt .acc d.1} coins={d.2.fmt}") ++
  (g.providers.map fun p => "G provider " ++ providerVal p) ++
  (g.nodes.map fun n => "G node " ++ nodeVal n) ++
  (g.plans.map fun it => "G plan " ++ planVal it.plan ++ " nodes=" ++ addrList .node it.nodes) ++
  [s!"G subscription count={g.subscriptions.length}"] ++
  (g.sessions.map fun x => "G session " ++ sessionVal x) ++
  (w.swaps.map fun x => s!"G swap hash={toHex x.hash} recv={addrTxt .acc x.recv} amt={x.amt.fmt}") ++
  (m.inflations.map fun i => s!"G inflation ts={i.ts} max={i.max} min={i.min} rate={i.rate}") ++
  [ s!"G params provider deposit={g.providerParams.deposit.fmt} share={g.providerParams.share}",
    (let p := g.nodeParams
     s!"G params node deposit={p.deposit.fmt} activeDur={p.activeDur} maxGB={p.maxGB.fmt} minGB={p.minGB.fmt} maxHr={p.maxHr.fmt} minHr={p.minHr.fmt} maxSubGB={p.maxSubGB} minSubGB={p.minSubGB} maxSubHr={p.maxSubHr} minSubHr={p.minSubHr} share={p.share}"),
    s!"G params subscription delay={g.subscriptionParams.delay}",
    s!"G params session delay={g.sessionParams.delay} proof={b01 g.sessionParams.proof}",
    s!"G params swap on={b01 w.params.on} denom={w.params.denom} approveBy={addrTxt .acc w.params.approveBy}" ]

/-- The answer to `export`: the result (`accept`, or `reject:<module>:<error>`; the harness and the
model are compared on the `accept|reject` class) and the `G` lines. -/
def exportLines (s : State) : String × List String :=
  if exportPanics s then ("reject:export:panic:_node_for_plan_key_does_not_exist", []) else
  let (g, w, m) := exportGenesis s
  match validateGenesis g w m with
  | none => ("accept", genesisLines g w m)
  | some e => ("reject:" ++ e.replace " " "_", genesisLines g w m)

/-- The answer to `reimport`: the new state, or why it is refused (the driver prints `reject:<why>`; the
old state keeps running): `export:panic`, `invalid:<module>` (`vpn` / `swap` / `custommint`, as the
harness prints), `boot:…`. The events of the new state are empty. -/
def reimportState (s : State) : Except String State :=
  if exportPanics s then .error "export:panic" else
  match validateGenesis (exportVpn s) (exportSwap s) (exportMint s) with
  | some e => .error ("invalid:" ++ (e.splitOn ":").headD "")
  | none =>
    match initGenesis (sdkSide s) (exportVpn s) (exportSwap s) (exportMint s) with
    | .ok s' => .ok s'
    | .error (.panic e) => .error ("boot:panic: " ++ e)
    | .error (.reject e) => .error ("boot:" ++ e)

end Hub.Model
