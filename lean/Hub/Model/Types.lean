import Hub.SDK.Coins
import Hub.SDK.Time
import Hub.Generated.Status
import Hub.Generated.Bandwidth
/-
Records, parameters, messages and the state of the hand-written model of the hub
(DESIGN.md §6).  Every record has exactly the fields of the stored protobuf record; every table is
one key prefix of the `vpn` / `swap` / `custommint` stores, *including every secondary index*.
-/
namespace Hub.Model
open Hub.SDK
open Hub.Generated (Status)

abbrev Addr := Bytes

/-- An association list; `set` replaces in place or appends, iteration sorts by the encoded key. -/
abbrev Tbl (κ α : Type) := List (κ × α)

namespace Tbl
variable {κ α : Type} [DecidableEq κ]

def get (t : Tbl κ α) (k : κ) : Option α :=
  match t with
  | [] => none
  | (k', v) :: rest => if k' = k then some v else get rest k

def has (t : Tbl κ α) (k : κ) : Bool := (get t k).isSome

def erase (t : Tbl κ α) (k : κ) : Tbl κ α := t.filter (fun p => p.1 ≠ k)

def set (t : Tbl κ α) (k : κ) (v : α) : Tbl κ α :=
  match t with
  | [] => [(k, v)]
  | (k', v') :: rest => if k' = k then (k, v) :: rest else (k', v') :: set rest k v

/-- Sum of `f key value` over all entries. -/
def sumKV (f : κ → α → Int) (t : Tbl κ α) : Int := (t.map (fun p => f p.1 p.2)).sum

/-- Keys are pairwise distinct. -/
def Nodup (t : Tbl κ α) : Prop := (t.map (·.1)).Nodup

def keys (t : Tbl κ α) : List κ := t.map (·.1)
def vals (t : Tbl κ α) : List α := t.map (·.2)
end Tbl

inductive Role where
  | acc | node | prov
  deriving Repr, DecidableEq, Inhabited

/-- An address as it appears in a message: the role whose bech32 prefix the text carries, the
bytes, and whether the text is malformed (bad checksum). -/
structure TextAddr where
  role : Role
  bytes : Addr
  bad : Bool := false
  deriving Repr, DecidableEq, Inhabited

/-- `XAddressFromBech32`: succeeds iff the text is well-formed, carries the expected prefix and
holds 1..255 bytes. -/
def TextAddr.parse (want : Role) (t : TextAddr) : Option Addr :=
  if t.bad ∨ t.role ≠ want ∨ t.bytes.length = 0 ∨ t.bytes.length > 255 then none else some t.bytes

structure Provider where
  addr : Addr
  name : Bytes
  identity : Bytes
  website : Bytes
  desc : Bytes
  status : Status
  statusAt : Time
  deriving Repr, DecidableEq, Inhabited

structure Node where
  addr : Addr
  gb : Coins
  hr : Coins
  url : Bytes
  inactiveAt : Time
  status : Status
  statusAt : Time
  deriving Repr, DecidableEq, Inhabited

structure Plan where
  id : Nat
  prov : Addr
  dur : Dur
  gb : Int
  prices : Coins
  status : Status
  statusAt : Time
  deriving Repr, DecidableEq, Inhabited

inductive SubKind where
  | node (node : Addr) (gb hr : Int) (dep : Coin)
  | plan (planId : Nat) (denom : Denom)
  deriving Repr, DecidableEq, Inhabited

structure Sub where
  id : Nat
  addr : Addr
  inactiveAt : Time
  status : Status
  statusAt : Time
  kind : SubKind
  deriving Repr, DecidableEq, Inhabited

structure Alloc where
  id : Nat
  addr : Addr
  granted : Int
  used : Int
  deriving Repr, DecidableEq, Inhabited

structure Payout where
  id : Nat
  addr : Addr
  node : Addr
  hours : Int
  price : Coin
  nextAt : Time
  deriving Repr, DecidableEq, Inhabited

structure Session where
  id : Nat
  sub : Nat
  node : Addr
  addr : Addr
  up : Int
  down : Int
  dur : Int
  inactiveAt : Time
  status : Status
  statusAt : Time
  deriving Repr, DecidableEq, Inhabited

structure Swap where
  hash : Bytes
  recv : Addr
  amt : Coin
  deriving Repr, DecidableEq, Inhabited

structure Inflation where
  ts : Time
  max : Dec
  min : Dec
  rate : Dec
  deriving Repr, DecidableEq, Inhabited

structure Params where
  provDeposit : Coin
  provShare : Dec
  nodeDeposit : Coin
  activeDur : Dur
  maxGB : Coins
  minGB : Coins
  maxHr : Coins
  minHr : Coins
  maxSubGB : Int
  minSubGB : Int
  maxSubHr : Int
  minSubHr : Int
  nodeShare : Dec
  subDelay : Dur
  sessDelay : Dur
  proof : Bool
  swapOn : Bool
  swapDenom : Denom
  approveBy : Addr
  deriving Repr, DecidableEq, Inhabited

/-- Which of the four node price-bound parameters were set in this block (the params transient store). -/
structure Modified where
  maxGB : Bool := false
  minGB : Bool := false
  maxHr : Bool := false
  minHr : Bool := false
  deriving Repr, DecidableEq, Inhabited

structure State where
  time : Time := 0
  height : Nat := 1
  bank : Tbl (Addr × Denom) Int := []
  supply : Tbl Denom Int := []
  deposits : Tbl Addr Coins := []
  provActive : Tbl Addr Provider := []
  provInactive : Tbl Addr Provider := []
  nodeActive : Tbl Addr Node := []
  nodeInactive : Tbl Addr Node := []
  nodeQ : Tbl (Time × Addr) Unit := []
  nodeForPlan : Tbl (Nat × Addr) Unit := []
  planActive : Tbl Nat Plan := []
  planInactive : Tbl Nat Plan := []
  planForProv : Tbl (Addr × Nat) Unit := []
  planCount : Option Nat := none
  subs : Tbl Nat Sub := []
  subQ : Tbl (Time × Nat) Unit := []
  subForAcc : Tbl (Addr × Nat) Unit := []
  subForNode : Tbl (Addr × Nat) Unit := []
  subForPlan : Tbl (Nat × Nat) Unit := []
  allocs : Tbl (Nat × Addr) Alloc := []
  payouts : Tbl Nat Payout := []
  payQ : Tbl (Time × Nat) Unit := []
  payForAcc : Tbl (Addr × Nat) Unit := []
  payForNode : Tbl (Addr × Nat) Unit := []
  payForAccNode : Tbl (Addr × Addr × Nat) Unit := []
  subCount : Option Nat := none
  sessions : Tbl Nat Session := []
  sessQ : Tbl (Time × Nat) Unit := []
  sessForAcc : Tbl (Addr × Nat) Unit := []
  sessForNode : Tbl (Addr × Nat) Unit := []
  sessForSub : Tbl (Nat × Nat) Unit := []
  sessForAlloc : Tbl (Nat × Addr × Nat) Unit := []
  sessCount : Option Nat := none
  swaps : Tbl Bytes Swap := []
  inflations : Tbl Time Inflation := []
  mintMax : Dec := 0
  mintMin : Dec := 0
  mintRate : Dec := 0
  minterInfl : Dec := 0
  params : Params := default
  modified : Modified := {}
  keyed : Tbl Addr Nat := []
  events : List String := []
  deriving Repr, Inhabited

/-- Module accounts (sha256(name)[:20]) – all of them are blocked recipients (`BlockedAccAddrs`). -/
def depositAddr : Addr := [0xc3,0xb9,0xfb,0x78,0xa4,0x52,0xce,0x2f,0xc9,0x0c,0xff,0x16,0x08,0x51,0x02,0x35,0x50,0x3e,0x3b,0x72]
def feeCollectorAddr : Addr := [0xf1,0x82,0x96,0x76,0xdb,0x57,0x76,0x82,0xe9,0x44,0xfc,0x34,0x93,0xd4,0x51,0xb6,0x7f,0xf3,0xe2,0x9f]
def distrAddr : Addr := [0x93,0x35,0x48,0x45,0x03,0x02,0x74,0xcd,0x4b,0xf1,0x68,0x6a,0xbd,0x60,0xab,0x28,0xec,0x52,0xe1,0xa7]
def swapAddr : Addr := [0xda,0x47,0xc2,0xf4,0x50,0xa4,0xf9,0xd5,0x38,0xd8,0x6d,0x60,0x0d,0x55,0x14,0x9a,0xfd,0x39,0xd6,0x67]

def otherModuleAddrs : List Addr := [
  [0x7b,0x5f,0xe2,0x2b,0x54,0x46,0xf7,0xc6,0x2e,0xa2,0x7b,0x8b,0xd7,0x1c,0xef,0x94,0xe0,0x3f,0x3d,0xf2], -- gov
  [0xdc,0x6f,0x17,0xbb,0xec,0x82,0x4f,0xff,0x8f,0x86,0x58,0x79,0x66,0xb2,0x04,0x7d,0xb6,0xab,0x73,0x67], -- mint
  [0xb8,0xcb,0x10,0x0b,0x12,0x80,0x7b,0xd8,0xa8,0x26,0x78,0x00,0x47,0x7e,0xe5,0xba,0x4b,0xd3,0x87,0xe8], -- nft
  [0x4f,0xea,0x76,0x42,0x7b,0x83,0x45,0x86,0x1e,0x80,0xa3,0x54,0x0a,0x8a,0x9d,0x93,0x6f,0xd3,0x93,0x91], -- bonded_tokens_pool
  [0x59,0x11,0xb8,0x44,0xd7,0xbc,0x22,0x46,0x54,0xfe,0x0d,0xcd,0x16,0xba,0xbd,0x2d,0x25,0x3f,0x2f,0xdf], -- not_bonded_tokens_pool
  [0x67,0xd7,0x74,0x74,0xca,0x8e,0x3a,0x58,0x12,0xde,0x32,0x3a,0x28,0xd7,0xc6,0xda,0x6b,0x3e,0x4f,0x29], -- interchainaccounts
  [0xf6,0x87,0x82,0x26,0x74,0xb1,0x5a,0xf7,0x60,0xd9,0xfc,0x6d,0xb7,0x30,0xd7,0x7d,0xc9,0x13,0x61,0xd9], -- feeibc
  [0x27,0xf5,0x76,0xca,0xfb,0xb2,0x63,0xed,0x44,0xbe,0x8b,0xd0,0x94,0xf6,0x61,0x14,0xda,0x26,0x87,0x77], -- transfer
  [0x44,0x20,0xb5,0xfb,0x0a,0x39,0x6a,0xc7,0xd9,0x9d,0xb3,0x73,0x6a,0x33,0x0b,0xc5,0x90,0x77,0xe2,0xef], -- custommint
  [0x33,0x61,0x54,0xbf,0x67,0xf7,0x65,0xf8,0xf7,0x5d,0x16,0xa0,0xac,0xce,0xe6,0x1b,0x5e,0xe5,0xf6,0xa7]] -- wasm

def blockedAddrs : List Addr := [depositAddr, feeCollectorAddr, distrAddr, swapAddr] ++ otherModuleAddrs

def isBlocked (a : Addr) : Bool := blockedAddrs.contains a

/-- Events are kept as canonical text: type name and `key=value` attributes. -/
abbrev Event := String

/-- How a usage report is signed (`sig=` of the line protocol): no signature, a 63-byte one, 64 zero
bytes, the key with index `i` over exactly the reported proof, or that key over a different proof. -/
inductive SigSpec where
  | none | short | zero
  | good (i : Nat)
  | badmsg (i : Nat)
  deriving Repr, DecidableEq, Inhabited

/-- The messages of the hub (17 handlers). Texts are byte strings; `urlok`/`webok` carry the
harness's independent statement of URL well-formedness (cross-checked by the correspondence). -/
inductive Msg where
  | provRegister (frm : TextAddr) (name identity website desc : Bytes) (webok : Bool)
  | provUpdate (frm : TextAddr) (name identity website desc : Bytes) (status : Int) (webok : Bool)
  | nodeRegister (frm : TextAddr) (gb hr : Option Coins) (url : Bytes) (urlok : Bool)
  | nodeUpdate (frm : TextAddr) (gb hr : Option Coins) (url : Bytes) (urlok : Bool)
  | nodeStatus (frm : TextAddr) (status : Int)
  | nodeSubscribe (frm : TextAddr) (node : TextAddr) (gb hr : Int) (denom : Denom)
  | planCreate (frm : TextAddr) (dur : Int) (gb : Int) (prices : Option Coins)
  | planStatus (frm : TextAddr) (id : Nat) (status : Int)
  | planLink (frm : TextAddr) (id : Nat) (node : TextAddr)
  | planUnlink (frm : TextAddr) (id : Nat) (node : TextAddr)
  | planSubscribe (frm : TextAddr) (id : Nat) (denom : Denom)
  | subCancel (frm : TextAddr) (id : Nat)
  | subAllocate (frm : TextAddr) (id : Nat) (to : TextAddr) (bytes : Int)
  | sessStart (frm : TextAddr) (id : Nat) (node : TextAddr)
  | sessUpdate (frm : TextAddr) (id : Nat) (up down : Int) (dur : Int) (sig : SigSpec)
  | sessEnd (frm : TextAddr) (id : Nat) (rating : Nat)
  | swap (frm : TextAddr) (hash : Bytes) (recv : TextAddr) (amt : Int)
  deriving Repr, Inhabited

end Hub.Model
