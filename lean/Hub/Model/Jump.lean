import Hub.Model.Run
/-
The driver's `jump` operation: one module's identifier counter is moved forwards (the keepers' own
`SetCount`), which puts a history at the width boundaries of the 8-byte identifiers without issuing
2^32 or 2^56 identifiers one by one.  It is not an `Op` of the configuration domain; `Hub.Props.C18Jump`
proves that it preserves every invariant of the development, so histories with jumps stay inside what
the theorems cover.
-/
namespace Hub.Model

inductive Counter | plan | subscription | session
  deriving DecidableEq, Repr

def counterOf (s : State) : Counter → Nat
  | .plan => s.planCount.getD 0
  | .subscription => s.subCount.getD 0
  | .session => s.sessCount.getD 0

def jump (s : State) (c : Counter) (n : Nat) : State :=
  match c with
  | .plan => { s with planCount := some n }
  | .subscription => { s with subCount := some n }
  | .session => { s with sessCount := some n }

/-- Forwards only: `none` when the counter would move backwards. -/
def jumpOp (s : State) (c : Counter) (n : Nat) : Option State :=
  if counterOf s c ≤ n then some (jump s c n) else none

/-- An operation of a history with jumps. -/
inductive OpJ
  | op (o : Op)
  | jump (c : Counter) (n : Nat)

def stepJ (s : State) : OpJ → Option State
  | .op o => step s o
  | .jump c n => jumpOp s c n

def runJ (s : State) : List OpJ → Option State
  | [] => some s
  | o :: rest => match stepJ s o with
    | some s' => runJ s' rest
    | none => none

end Hub.Model
