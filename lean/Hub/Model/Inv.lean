import Hub.Model.Block
/-
Statements of the invariants the property theorems are about (DESIGN.md §6.5), as `Prop`s over
the model state.  Kept in a core-only file so the monitors can share the definitions.
-/
namespace Hub.Model
open Hub.SDK

/-- Sum of the per-account deposit records in one denomination. -/
def totalDeposits (s : State) (d : Denom) : Int := s.deposits.sumKV (fun _ cs => cs.amountOf d)

/-- Sum of all bank balances in one denomination. -/
def bankTotal (s : State) (d : Denom) : Int := s.bank.sumKV (fun k v => if k.2 = d then v else 0)

/-- C01: the escrow module account holds, per denomination, exactly the sum of the deposit records. -/
def Backed (s : State) : Prop := ∀ d, balance s depositAddr d = totalDeposits s d

/-- The recorded supply is the sum of all balances (nothing is created or destroyed unnoticed). -/
def SupplyOK (s : State) : Prop := ∀ d, supplyOf s d = bankTotal s d

theorem getPlan_mem {s : State} {id : Nat} {p : Plan} (h : getPlan s id = some p) :
    s.planActive.get id = some p ∨ s.planInactive.get id = some p := by
  unfold getPlan at h
  cases ha : s.planActive.get id with
  | some a => simp only [ha] at h; left; exact h
  | none => simp only [ha] at h; right; exact h

/-- `σ` is the supply table the state must have: a step that preserves `MoneyInv σ` neither mints nor burns. -/
structure MoneyInv (σ : Tbl Denom Int) (s : State) : Prop where
  backed : Backed s
  depNodup : Tbl.Nodup s.deposits
  depNonneg : ∀ a cs, s.deposits.get a = some cs → Coins.Nonneg cs
  bankNodup : Tbl.Nodup s.bank
  supplyOK : SupplyOK s
  /-- no plan's provider is the escrow account (providers register by signing, D2) -/
  provOK : ∀ id p, (s.planActive.get id = some p ∨ s.planInactive.get id = some p) → p.prov ≠ depositAddr
  supplyEq : s.supply = σ

end Hub.Model

namespace Hub.Model
open Hub.SDK

/-- C18: every identifier in use was issued by its counter (ids start at 1), records are stored
under their own identifier, allocations, payouts and sessions carry an issued subscription id, and
no index or queue entry mentions an identifier that has not been issued yet. -/
structure CountInv (s : State) : Prop where
  plans : ∀ i p, (s.planActive.get i = some p ∨ s.planInactive.get i = some p) → p.id = i ∧ 1 ≤ i ∧ i ≤ s.planCount.getD 0
  subs : ∀ i x, s.subs.get i = some x → x.id = i ∧ 1 ≤ i ∧ i ≤ s.subCount.getD 0
  allocs : ∀ i a al, s.allocs.get (i, a) = some al → al.id = i ∧ al.addr = a ∧ 1 ≤ i ∧ i ≤ s.subCount.getD 0
  payouts : ∀ i p, s.payouts.get i = some p → p.id = i ∧ 1 ≤ i ∧ i ≤ s.subCount.getD 0
  sessions : ∀ i x, s.sessions.get i = some x → x.id = i ∧ 1 ≤ i ∧ i ≤ s.sessCount.getD 0 ∧ 1 ≤ x.sub ∧ x.sub ≤ s.subCount.getD 0
  planIdx : (∀ a i, s.planForProv.has (a, i) = true → i ≤ s.planCount.getD 0) ∧
            (∀ i n, s.nodeForPlan.has (i, n) = true → i ≤ s.planCount.getD 0)
  subIdx : (∀ t i, s.subQ.has (t, i) = true → i ≤ s.subCount.getD 0) ∧
           (∀ a i, s.subForAcc.has (a, i) = true → i ≤ s.subCount.getD 0) ∧
           (∀ a i, s.subForNode.has (a, i) = true → i ≤ s.subCount.getD 0) ∧
           (∀ p i, s.subForPlan.has (p, i) = true → i ≤ s.subCount.getD 0) ∧
           (∀ t i, s.payQ.has (t, i) = true → i ≤ s.subCount.getD 0) ∧
           (∀ a i, s.payForAcc.has (a, i) = true → i ≤ s.subCount.getD 0) ∧
           (∀ a i, s.payForNode.has (a, i) = true → i ≤ s.subCount.getD 0) ∧
           (∀ a n i, s.payForAccNode.has (a, n, i) = true → i ≤ s.subCount.getD 0)
  sessIdx : (∀ t i, s.sessQ.has (t, i) = true → i ≤ s.sessCount.getD 0) ∧
            (∀ a i, s.sessForAcc.has (a, i) = true → i ≤ s.sessCount.getD 0) ∧
            (∀ a i, s.sessForNode.has (a, i) = true → i ≤ s.sessCount.getD 0) ∧
            (∀ u i, s.sessForSub.has (u, i) = true → i ≤ s.sessCount.getD 0) ∧
            (∀ u a i, s.sessForAlloc.has (u, a, i) = true → i ≤ s.sessCount.getD 0)

/-- Records of the partitioned tables sit under their own address in the partition of their status,
and never in both partitions. -/
structure RecInv (s : State) : Prop where
  nodeA : ∀ a n, s.nodeActive.get a = some n → n.addr = a ∧ n.status = .StatusActive
  nodeI : ∀ a n, s.nodeInactive.get a = some n → n.addr = a ∧ n.status = .StatusInactive ∧ n.inactiveAt = zeroTime
  nodeX : ∀ a, ¬ (s.nodeActive.has a = true ∧ s.nodeInactive.has a = true)
  provA : ∀ a p, s.provActive.get a = some p → p.addr = a ∧ p.status = .StatusActive
  provI : ∀ a p, s.provInactive.get a = some p → p.addr = a ∧ p.status = .StatusInactive
  provX : ∀ a, ¬ (s.provActive.has a = true ∧ s.provInactive.has a = true)
  planA : ∀ i p, s.planActive.get i = some p → p.id = i ∧ p.status = .StatusActive
  planI : ∀ i p, s.planInactive.get i = some p → p.id = i ∧ p.status = .StatusInactive
  planX : ∀ i, ¬ (s.planActive.has i = true ∧ s.planInactive.has i = true)

/-- C09 (node/plan side): the node expiry queue holds exactly the active nodes at their deadline;
the by-provider plan index holds exactly the plans; links point at existing plans and nodes. -/
structure NodeIdx (s : State) : Prop where
  nodeQ : ∀ t a, s.nodeQ.has (t, a) = true ↔ ∃ n, s.nodeActive.get a = some n ∧ n.inactiveAt = t
  planForProv : ∀ a i, s.planForProv.has (a, i) = true ↔ ∃ p, getPlan s i = some p ∧ p.prov = a
  links : ∀ i n, s.nodeForPlan.has (i, n) = true → (getPlan s i).isSome ∧ hasNode s n = true
  nodupQ : Tbl.Nodup s.nodeQ ∧ Tbl.Nodup s.planForProv ∧ Tbl.Nodup s.nodeForPlan ∧ Tbl.Nodup s.nodeActive ∧
           Tbl.Nodup s.nodeInactive ∧ Tbl.Nodup s.provActive ∧ Tbl.Nodup s.provInactive ∧ Tbl.Nodup s.planActive ∧ Tbl.Nodup s.planInactive

/-- C09 (session side): every secondary key of a session exists exactly while the session does. -/
structure SessIdx (s : State) : Prop where
  q : ∀ t i, s.sessQ.has (t, i) = true ↔ ∃ x, s.sessions.get i = some x ∧ x.inactiveAt = t
  acc : ∀ a i, s.sessForAcc.has (a, i) = true ↔ ∃ x, s.sessions.get i = some x ∧ x.addr = a
  node : ∀ a i, s.sessForNode.has (a, i) = true ↔ ∃ x, s.sessions.get i = some x ∧ x.node = a
  sub : ∀ u i, s.sessForSub.has (u, i) = true ↔ ∃ x, s.sessions.get i = some x ∧ x.sub = u
  alloc : ∀ u a i, s.sessForAlloc.has (u, a, i) = true ↔ ∃ x, s.sessions.get i = some x ∧ x.sub = u ∧ x.addr = a
  nodup : Tbl.Nodup s.sessions ∧ Tbl.Nodup s.sessQ ∧ Tbl.Nodup s.sessForAcc ∧ Tbl.Nodup s.sessForNode ∧
          Tbl.Nodup s.sessForSub ∧ Tbl.Nodup s.sessForAlloc

/-- Is this the record of a per-hour node subscription of `a` on node `n`? -/
def Sub.hourlyOn (x : Sub) (a n : Addr) : Prop := ∃ gb hr dep, x.kind = .node n gb hr dep ∧ hr ≠ 0 ∧ x.addr = a

/-- C09 (subscription side): queue, by-account/node/plan indices, allocations, payouts and the
lease index agree with the subscription records. -/
structure SubIdx (s : State) : Prop where
  q : ∀ t i, s.subQ.has (t, i) = true ↔ ∃ x, s.subs.get i = some x ∧ x.inactiveAt = t
  node : ∀ n i, s.subForNode.has (n, i) = true ↔ ∃ x gb hr dep, s.subs.get i = some x ∧ x.kind = .node n gb hr dep
  plan : ∀ p i, s.subForPlan.has (p, i) = true ↔ ∃ x d, s.subs.get i = some x ∧ x.kind = .plan p d
  acc : ∀ a i, s.subForAcc.has (a, i) = true ↔ ∃ x, s.subs.get i = some x ∧ (x.addr = a ∨ s.allocs.has (i, a) = true)
  allocSub : ∀ i a, s.allocs.has (i, a) = true → s.subs.has i = true
  ownerAlloc : ∀ i x, s.subs.get i = some x → isHourly x = false → s.allocs.has (i, x.addr) = true
  hourlyNoAlloc : ∀ i x a, s.subs.get i = some x → isHourly x = true → s.allocs.has (i, a) = false
  nodeSubAlloc : ∀ i x a, s.subs.get i = some x → isPlanSub x = false → s.allocs.has (i, a) = true → a = x.addr
  payout : ∀ i, s.payouts.has i = true ↔ ∃ x, s.subs.get i = some x ∧ isHourly x = true
  payoutRec : ∀ i p x, s.payouts.get i = some p → s.subs.get i = some x → x.hourlyOn p.addr p.node ∧ 0 ≤ p.hours
  payAcc : ∀ a i, s.payForAcc.has (a, i) = true ↔ ∃ p, s.payouts.get i = some p ∧ p.addr = a
  payNode : ∀ n i, s.payForNode.has (n, i) = true ↔ ∃ p, s.payouts.get i = some p ∧ p.node = n
  lease : ∀ a n i, s.payForAccNode.has (a, n, i) = true ↔
            ∃ p x, s.payouts.get i = some p ∧ p.addr = a ∧ p.node = n ∧ s.subs.get i = some x ∧ x.status = .StatusActive
  payQ : ∀ t i, s.payQ.has (t, i) = true ↔
            ∃ p x, s.payouts.get i = some p ∧ p.nextAt = t ∧ 0 < p.hours ∧ s.subs.get i = some x ∧ x.status = .StatusActive
  nodup : Tbl.Nodup s.subs ∧ Tbl.Nodup s.subQ ∧ Tbl.Nodup s.subForAcc ∧ Tbl.Nodup s.subForNode ∧ Tbl.Nodup s.subForPlan ∧
          Tbl.Nodup s.allocs ∧ Tbl.Nodup s.payouts ∧ Tbl.Nodup s.payQ ∧ Tbl.Nodup s.payForAcc ∧ Tbl.Nodup s.payForNode ∧
          Tbl.Nodup s.payForAccNode

/-- C06 (bounds): every allocation has `0 ≤ used ≤ granted`. -/
def AllocBounds (s : State) : Prop := ∀ k al, s.allocs.get k = some al → 0 ≤ al.used ∧ al.used ≤ al.granted

/-- Granted bytes of all allocations of subscription `i`. -/
def grantedTotal (s : State) (i : Nat) : Int := s.allocs.sumKV (fun k al => if k.1 = i then al.granted else 0)

/-- What was bought: purchased gigabytes for a node subscription, the plan's gigabytes for a plan one. -/
def bought (s : State) (x : Sub) : Option Int :=
  match x.kind with
  | .node _ gb _ _ => some (Hub.Generated.Gigabyte * gb)
  | .plan p _ => (getPlan s p).map (fun pl => Hub.Generated.Gigabyte * pl.gb)

/-- C06 (conservation): the grants of a subscription add up to what was bought. -/
def QuotaConserved (s : State) : Prop := ∀ i x, s.subs.get i = some x → bought s x = some (grantedTotal s i)

/-- C04/C03 (lifecycle coupling), for a bound `M` with `sessDelay ≤ M ≤ subDelay` throughout the
history (the monotone delay coupling H_delay of DESIGN.md §5 D7): a session's subscription exists; an
active session's subscription is active; a session that is winding down ends no later than its
subscription is removed; sessions and subscriptions have one of the three statuses. -/
structure LifeInv (M : Dur) (s : State) : Prop where
  delays : 0 < s.params.sessDelay ∧ s.params.sessDelay ≤ M ∧ M ≤ s.params.subDelay
  sessSub : ∀ i x, s.sessions.get i = some x → ∃ y, s.subs.get x.sub = some y
  sessStatus : ∀ i x, s.sessions.get i = some x → x.status = .StatusActive ∨ x.status = .StatusInactivePending
  subStatus : ∀ i y, s.subs.get i = some y → y.status = .StatusActive ∨ y.status = .StatusInactivePending
  activeSess : ∀ i x y, s.sessions.get i = some x → s.subs.get x.sub = some y → x.status = .StatusActive → y.status = .StatusActive
  pendingSess : ∀ i x y, s.sessions.get i = some x → s.subs.get x.sub = some y → y.status = .StatusInactivePending →
                  x.inactiveAt ≤ y.inactiveAt
  sessBound : ∀ i x, s.sessions.get i = some x → x.inactiveAt ≤ s.time + M

end Hub.Model
