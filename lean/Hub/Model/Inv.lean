import Hub.Model.Block
/-
Statements of the invariants the property theorems are about (DESIGN.md §6.5), as `Prop`s over
the model state.  Kept in a core-only file so the monitors can share the definitions.
-/
namespace Hub.Model
open Hub.SDK

/-- Sum of the per-account deposit records in one denomination. -/
def totalDeposits (s : State) (d : Denom) : Int := s.deposits.sumKV (fun _ cs => cs.amountOf d)

/-- Sum of all bank balances in one denomination. -/
def bankTotal (s : State) (d : Denom) : Int := s.bank.sumKV (fun k v => if k.2 = d then v else 0)

/-- C01: the escrow module account holds, per denomination, exactly the sum of the deposit records. -/
def Backed (s : State) : Prop := ∀ d, balance s depositAddr d = totalDeposits s d

/-- The recorded supply is the sum of all balances (nothing is created or destroyed unnoticed). -/
def SupplyOK (s : State) : Prop := ∀ d, supplyOf s d = bankTotal s d

theorem getPlan_mem {s : State} {id : Nat} {p : Plan} (h : getPlan s id = some p) :
    s.planActive.get id = some p ∨ s.planInactive.get id = some p := by
  unfold getPlan at h
  cases ha : s.planActive.get id with
  | some a => simp only [ha] at h; left; exact h
  | none => simp only [ha] at h; right; exact h

/-- `σ` is the supply table the state must have: a step that preserves `MoneyInv σ` neither mints nor burns. -/
structure MoneyInv (σ : Tbl Denom Int) (s : State) : Prop where
  backed : Backed s
  depNodup : Tbl.Nodup s.deposits
  depNonneg : ∀ a cs, s.deposits.get a = some cs → Coins.Nonneg cs
  bankNodup : Tbl.Nodup s.bank
  supplyOK : SupplyOK s
  /-- no plan's provider is the escrow account (providers register by signing, D2) -/
  provOK : ∀ id p, (s.planActive.get id = some p ∨ s.planInactive.get id = some p) → p.prov ≠ depositAddr
  supplyEq : s.supply = σ

end Hub.Model
