import Hub.Model.Keeper
/-
Message validation (`ValidateBasic`) and the 17 message handlers, mirrored statement by statement
from x/*/types/msg.go and x/*/keeper/msg_server.go (and the keeper functions they call).
A handler returns the new state or a rejection; `deliver` keeps the old state on any error.
-/
namespace Hub.Model
open Hub.SDK
open Hub.Generated (Status AmountForBytes GetProportionOfCoin Gigabyte)

def day : Dur := 24 * hour

def statusOfInt (i : Int) : Option Status := Status.ofInt32 i

/-! ## ValidateBasic -/

def needAddr (want : Role) (t : TextAddr) : M Addr := do
  require (!t.bytes.isEmpty) "validate: address cannot be empty"
  orReject (t.parse want) "validate: invalid address"

def validCoinsField (name : String) (c : Option Coins) (required : Bool) : M Unit :=
  match c with
  | none => require (!required) ("validate: " ++ name ++ " cannot be nil")
  | some cs => do
    require (cs.length != 0) ("validate: " ++ name ++ " length cannot be zero")
    require cs.isValid ("validate: " ++ name ++ " must be valid")

def validDenomField (d : Denom) : M Unit := do
  require (d != "") "validate: denom cannot be empty"
  require (validDenom d) "validate: invalid denom"

def validStatus (status : Int) (allowed : List Status) : M Unit :=
  match statusOfInt status with
  | some st => require (st.IsOneOf allowed) "validate: status"
  | none => reject "validate: status"

def Msg.validateBasic : Msg → M Unit
  | .provRegister frm name identity website desc webok => do
    let _ ← needAddr .acc frm
    require (name.length != 0) "validate: name cannot be empty"
    require (decide (name.length ≤ 64)) "validate: name length"
    require (decide (identity.length ≤ 64)) "validate: identity length"
    require (decide (website.length ≤ 64)) "validate: website length"
    require (website.length == 0 || webok) "validate: website"
    require (decide (desc.length ≤ 256)) "validate: description length"
  | .provUpdate frm name identity website desc status webok => do
    let _ ← needAddr .prov frm
    require (decide (name.length ≤ 64)) "validate: name length"
    require (decide (identity.length ≤ 64)) "validate: identity length"
    require (decide (website.length ≤ 64)) "validate: website length"
    require (website.length == 0 || webok) "validate: website"
    require (decide (desc.length ≤ 256)) "validate: description length"
    validStatus status [.StatusUnspecified, .StatusActive, .StatusInactive]
  | .nodeRegister frm gb hr url urlok => do
    let _ ← needAddr .acc frm
    validCoinsField "gigabyte_prices" gb true
    validCoinsField "hourly_prices" hr true
    require (url.length != 0) "validate: remote_url cannot be empty"
    require (decide (url.length ≤ 64)) "validate: remote_url length"
    require urlok "validate: remote_url"
  | .nodeUpdate frm gb hr url urlok => do
    let _ ← needAddr .node frm
    validCoinsField "gigabyte_prices" gb false
    validCoinsField "hourly_prices" hr false
    require (url.length == 0 || decide (url.length ≤ 64)) "validate: remote_url length"
    require (url.length == 0 || urlok) "validate: remote_url"
  | .nodeStatus frm status => do
    let _ ← needAddr .node frm
    validStatus status [.StatusActive, .StatusInactive]
  | .nodeSubscribe frm node gb hr denom => do
    let _ ← needAddr .acc frm
    let _ ← needAddr .node node
    require (!(gb == 0 && hr == 0)) "validate: [gigabytes, hours] cannot be empty"
    require (!(gb != 0 && hr != 0)) "validate: [gigabytes, hours] cannot be non-empty"
    require (decide (0 ≤ gb)) "validate: gigabytes cannot be negative"
    require (decide (0 ≤ hr)) "validate: hours cannot be negative"
    validDenomField denom
  | .planCreate frm dur gb prices => do
    let _ ← needAddr .prov frm
    require (decide (0 ≤ dur)) "validate: duration cannot be negative"
    require (dur != 0) "validate: duration cannot be zero"
    require (decide (0 ≤ gb)) "validate: gigabytes cannot be negative"
    require (gb != 0) "validate: gigabytes cannot be zero"
    validCoinsField "prices" prices true
  | .planStatus frm id status => do
    let _ ← needAddr .prov frm
    require (id != 0) "validate: id cannot be zero"
    validStatus status [.StatusActive, .StatusInactive]
  | .planLink frm id node => do
    let _ ← needAddr .prov frm
    require (id != 0) "validate: id cannot be zero"
    let _ ← needAddr .node node
  | .planUnlink frm id node => do
    let _ ← needAddr .prov frm
    require (id != 0) "validate: id cannot be zero"
    let _ ← needAddr .node node
  | .planSubscribe frm id denom => do
    let _ ← needAddr .acc frm
    require (id != 0) "validate: id cannot be zero"
    validDenomField denom
  | .subCancel frm id => do
    let _ ← needAddr .acc frm
    require (id != 0) "validate: id cannot be zero"
  | .subAllocate frm id to bytes => do
    let _ ← needAddr .acc frm
    require (id != 0) "validate: id cannot be zero"
    let _ ← needAddr .acc to
    require (decide (0 ≤ bytes)) "validate: bytes cannot be negative"
  | .sessStart frm id node => do
    let _ ← needAddr .acc frm
    require (id != 0) "validate: id cannot be zero"
    let _ ← needAddr .node node
  | .sessUpdate frm id up down dur sig => do
    let _ ← needAddr .node frm
    require (id != 0) "validate: proof.id cannot be zero"
    require (decide (0 ≤ up) && decide (0 ≤ down)) "validate: proof.bandwidth cannot be negative"
    require (decide (up.natAbs < 340282366920938463463374607431768211456) && decide (down.natAbs < 340282366920938463463374607431768211456))
      "validate: proof.bandwidth cannot be greater than 2^128 bytes"
    require (decide (0 ≤ dur)) "validate: proof.duration cannot be negative"
    require (sig != .short) "validate: signature length"
  | .sessEnd frm id rating => do
    let _ ← needAddr .acc frm
    require (id != 0) "validate: id cannot be zero"
    require (decide (rating ≤ 10)) "validate: rating"
  | .swap frm hash recv amt => do
    let _ ← needAddr .acc frm
    let _ ← needAddr .acc recv
    require (hash.length == 32) "validate: tx_hash length"
    require (decide (0 ≤ amt)) "validate: amount cannot be negative"
    require (amt != 0) "validate: amount cannot be zero"
    require (decide (100 ≤ amt)) "validate: amount cannot be less than 100"

/-! ## provider -/

def provRegister (s : State) (frm : Addr) (name identity website desc : Bytes) : M State := do
  require (!hasProvider s frm) "duplicate provider"
  let s1 ← fundCommunityPool s frm s.params.provDeposit
  let s2 ← setProvider s1 { addr := frm, name, identity, website, desc, status := .StatusInactive, statusAt := s.time }
  pure (emit s2 (ev "sentinel.provider.v2.EventRegister" [("address", addrTxt .prov frm)]))

/-- The record after `MsgUpdate`'s field assignments. -/
def provUpdated (p : Provider) (name identity website desc : Bytes) (status : Status) (now : Time) : Provider :=
  let p := if name.length > 0 then { p with name } else p
  let p := { p with identity, website, desc }
  if status ≠ .StatusUnspecified then { p with status, statusAt := now } else p

def provUpdate (s : State) (frm : Addr) (name identity website desc : Bytes) (status : Status) : M State := do
  let p ← orReject (getProvider s frm) "provider not found"
  let s1 := if status ≠ .StatusUnspecified ∧ p.status = .StatusActive ∧ status = .StatusInactive
            then { s with provActive := s.provActive.erase frm } else s
  let s2 := if status ≠ .StatusUnspecified ∧ p.status = .StatusInactive ∧ status = .StatusActive
            then { s1 with provInactive := s1.provInactive.erase frm } else s1
  let s3 ← setProvider s2 (provUpdated p name identity website desc status s.time)
  pure (emit s3 (ev "sentinel.provider.v2.EventUpdate" [("address", addrTxt .prov frm)]))

/-! ## node -/

def nodeRegister (s : State) (frm : Addr) (gb hr : Coins) (url : Bytes) : M State := do
  require (pricesWithin s.params.maxGB s.params.minGB gb) "invalid prices"
  require (pricesWithin s.params.maxHr s.params.minHr hr) "invalid prices"
  require (!hasNode s frm) "duplicate node"
  let s1 ← fundCommunityPool s frm s.params.nodeDeposit
  let s2 ← setNode s1 { addr := frm, gb, hr, url, inactiveAt := zeroTime, status := .StatusInactive, statusAt := s.time }
  pure (emit s2 (ev "sentinel.node.v2.EventRegister" [("address", addrTxt .node frm)]))

def nodeUpdated (n : Node) (gb hr : Option Coins) (url : Bytes) : Node :=
  let n := match gb with | some g => { n with gb := g } | none => n
  let n := match hr with | some h => { n with hr := h } | none => n
  if url.length ≠ 0 then { n with url } else n

def nodeUpdate (s : State) (frm : Addr) (gb hr : Option Coins) (url : Bytes) : M State := do
  require (match gb with | some g => pricesWithin s.params.maxGB s.params.minGB g | none => true) "invalid prices"
  require (match hr with | some h => pricesWithin s.params.maxHr s.params.minHr h | none => true) "invalid prices"
  let n ← orReject (getNode s frm) "node not found"
  let s1 ← setNode s (nodeUpdated n gb hr url)
  pure (emit s1 (ev "sentinel.node.v2.EventUpdateDetails"
    [("address", addrTxt .node frm), ("gigabyte_prices", "-"), ("hourly_prices", "-"), ("remote_url", "-")]))

def nodeStatus (s : State) (frm : Addr) (status : Status) : M State := do
  let n ← orReject (getNode s frm) "node not found"
  let s1 := if n.status = .StatusActive then { s with nodeQ := s.nodeQ.erase (n.inactiveAt, frm) } else s
  let s2 := if n.status = .StatusActive ∧ status = .StatusInactive then { s1 with nodeActive := s1.nodeActive.erase frm } else s1
  let s3 := if n.status = .StatusInactive ∧ status = .StatusActive then { s2 with nodeInactive := s2.nodeInactive.erase frm } else s2
  let s4 := if status = .StatusActive then { s3 with nodeQ := s3.nodeQ.set (s.time + s.params.activeDur, frm) () } else s3
  let inactiveAt := if status = .StatusActive then s.time + s.params.activeDur
                    else if status = .StatusInactive then zeroTime else n.inactiveAt
  let s5 ← setNode s4 { n with inactiveAt, status, statusAt := s.time }
  pure (emit s5 (ev "sentinel.node.v2.EventUpdateStatus" [("status", status.String), ("address", addrTxt .node frm)]))

/-! ## subscription keeper: CreateSubscriptionForNode / ForPlan -/

def setAllocation (s : State) (a : Alloc) : State := { s with allocs := s.allocs.set (a.id, a.addr) a }

def evAllocate (a : Alloc) : Event :=
  ev "sentinel.subscription.v2.EventAllocate"
    [("address", addrTxt .acc a.addr), ("granted_bytes", toString a.granted), ("utilised_bytes", toString a.used), ("id", toString a.id)]

/-- The subscription record and its four index entries (`SetSubscription`, `…ForAccount`,
`…ForNode`/`…ForPlan`, `…ForInactiveAt`) and the counter. -/
def insertSub (s : State) (sub : Sub) : State :=
  let s := { s with subCount := some sub.id }
  let s := { s with subs := s.subs.set sub.id sub }
  let s := { s with subForAcc := s.subForAcc.set (sub.addr, sub.id) () }
  let s := match sub.kind with
    | .node node _ _ _ => { s with subForNode := s.subForNode.set (node, sub.id) () }
    | .plan planId _ => { s with subForPlan := s.subForPlan.set (planId, sub.id) () }
  { s with subQ := s.subQ.set (sub.inactiveAt, sub.id) () }

def insertPayout (s : State) (p : Payout) : State :=
  let s := { s with payouts := s.payouts.set p.id p }
  let s := { s with payForAcc := s.payForAcc.set (p.addr, p.id) () }
  let s := { s with payForNode := s.payForNode.set (p.node, p.id) () }
  let s := { s with payForAccNode := s.payForAccNode.set (p.addr, p.node, p.id) () }
  let s := { s with payQ := s.payQ.set (p.nextAt, p.id) () }
  emit s (ev "sentinel.subscription.v2.EventCreatePayout"
    [("address", addrTxt .acc p.addr), ("node_address", addrTxt .node p.node), ("id", toString p.id)])

/-- Per-gigabyte purchase: deposit `AmountForBytes(price, 10^9·gb)`, lease of 90 days, one allocation. -/
def createNodeSubGB (s : State) (acc node : Addr) (n : Node) (gb : Int) (denom : Denom) : M (State × Sub) := do
  let price ← orReject (n.gigabytePrice denom) "price not found"
  let bytes ← SInt.mul Gigabyte gb
  let amt ← AmountForBytes price.amount bytes
  let dep ← newCoin price.denom amt
  let id := s.subCount.getD 0 + 1
  let sub : Sub := { id, addr := acc, inactiveAt := s.time + 90 * day, status := .StatusActive, statusAt := s.time, kind := .node node gb 0 dep }
  let s1 ← addDeposit s acc dep
  let s2 := insertSub s1 sub
  let granted ← SInt.mul Gigabyte gb
  let a : Alloc := { id, addr := acc, granted, used := 0 }
  pure (emit (setAllocation s2 a) (evAllocate a), sub)

/-- Per-hour purchase: deposit `price·hours`, lease of `hours`, one payout record due now. -/
def createNodeSubHr (s : State) (acc node : Addr) (n : Node) (hr : Int) (denom : Denom) : M (State × Sub) := do
  let price ← orReject (n.hourlyPrice denom) "price not found"
  let amt ← SInt.mul price.amount hr
  let dep ← newCoin price.denom amt
  let id := s.subCount.getD 0 + 1
  let sub : Sub := { id, addr := acc, inactiveAt := s.time + hr * hour, status := .StatusActive, statusAt := s.time, kind := .node node 0 hr dep }
  let s1 ← addDeposit s acc dep
  let s2 := insertSub s1 sub
  let priceAmt ← SInt.quo dep.amount hr
  let hourly ← newCoin dep.denom priceAmt
  pure (insertPayout s2 { id, addr := acc, node, hours := hr, price := hourly, nextAt := s.time }, sub)

/-- `CreateSubscriptionForNode`; `ValidateBasic` guarantees exactly one of `gb`, `hr` is non-zero. -/
def createSubscriptionForNode (s : State) (acc node : Addr) (gb hr : Int) (denom : Denom) : M (State × Sub) := do
  let n ← orReject (getNode s node) "node not found"
  require (n.status = .StatusActive) "invalid node status"
  if gb ≠ 0 then createNodeSubGB s acc node n gb denom else createNodeSubHr s acc node n hr denom

def nodeSubscribe (s : State) (frm node : Addr) (gb hr : Int) (denom : Denom) : M State := do
  require (gb == 0 || (decide (s.params.minSubGB ≤ gb) && decide (gb ≤ s.params.maxSubGB))) "invalid gigabytes"
  require (hr == 0 || (decide (s.params.minSubHr ≤ hr) && decide (hr ≤ s.params.maxSubHr))) "invalid hours"
  let r ← createSubscriptionForNode s frm node gb hr denom
  pure (emit r.1 (ev "sentinel.node.v2.EventCreateSubscription"
    [("address", addrTxt .acc frm), ("node_address", addrTxt .node node), ("id", toString r.2.id)]))

def createSubscriptionForPlan (s : State) (acc : Addr) (planId : Nat) (denom : Denom) : M (State × Sub) := do
  let plan ← orReject (getPlan s planId) "plan not found"
  require (plan.status = .StatusActive) "invalid plan status"
  let price ← orReject (plan.price denom) "price not found"
  let reward ← GetProportionOfCoin price s.params.provShare
  let s1 ← sendCoinFromAccountToModule s acc feeCollectorAddr reward
  let payAmt ← SInt.sub price.amount reward.amount
  requireP (decide (0 ≤ payAmt)) "negative coin amount"
  let payment : Coin := ⟨price.denom, payAmt⟩
  let s2 ← sendCoin s1 acc plan.prov payment
  let s3 := emit s2 (ev "sentinel.subscription.v2.EventPayForPlan"
    [("address", addrTxt .acc acc), ("payment", payment.sdkString), ("provider_address", addrTxt .prov plan.prov),
     ("staking_reward", reward.sdkString), ("id", toString plan.id)])
  let id := s.subCount.getD 0 + 1
  let sub : Sub := { id, addr := acc, inactiveAt := s.time + plan.dur, status := .StatusActive, statusAt := s.time, kind := .plan plan.id price.denom }
  let s4 := insertSub s3 sub
  let granted ← SInt.mul Gigabyte plan.gb
  let a : Alloc := { id, addr := acc, granted, used := 0 }
  pure (emit (setAllocation s4 a) (evAllocate a), sub)

/-! ## plan -/

def planCreate (s : State) (frm : Addr) (dur : Dur) (gb : Int) (prices : Coins) : M State := do
  require (hasProvider s frm) "provider not found"
  let id := s.planCount.getD 0 + 1
  let s1 ← setPlan { s with planCount := some id } { id, prov := frm, dur, gb, prices, status := .StatusInactive, statusAt := s.time }
  let s2 := { s1 with planForProv := s1.planForProv.set (frm, id) () }
  pure (emit s2 (ev "sentinel.plan.v2.EventCreate" [("address", addrTxt .prov frm), ("id", toString id)]))

def planStatus (s : State) (frm : Addr) (id : Nat) (status : Status) : M State := do
  let p ← orReject (getPlan s id) "plan not found"
  require (frm = p.prov) "unauthorized"
  let s1 := if p.status = .StatusActive ∧ status = .StatusInactive then { s with planActive := s.planActive.erase id } else s
  let s2 := if p.status = .StatusInactive ∧ status = .StatusActive then { s1 with planInactive := s1.planInactive.erase id } else s1
  let s3 ← setPlan s2 { p with status, statusAt := s.time }
  pure (emit s3 (ev "sentinel.plan.v2.EventUpdateStatus"
    [("status", status.String), ("address", addrTxt .prov p.prov), ("id", toString id)]))

def planLink (s : State) (frm : Addr) (id : Nat) (node : Addr) : M State := do
  let p ← orReject (getPlan s id) "plan not found"
  require (frm = p.prov) "unauthorized"
  require (hasNode s node) "node not found"
  pure (emit { s with nodeForPlan := s.nodeForPlan.set (id, node) () } (ev "sentinel.plan.v2.EventLinkNode"
    [("address", addrTxt .prov p.prov), ("node_address", addrTxt .node node), ("id", toString id)]))

def planUnlink (s : State) (frm : Addr) (id : Nat) (node : Addr) : M State := do
  let p ← orReject (getPlan s id) "plan not found"
  require (frm = p.prov) "unauthorized"
  pure (emit { s with nodeForPlan := s.nodeForPlan.erase (id, node) } (ev "sentinel.plan.v2.EventUnlinkNode"
    [("address", addrTxt .prov p.prov), ("node_address", addrTxt .node node), ("id", toString id)]))

def planSubscribe (s : State) (frm : Addr) (id : Nat) (denom : Denom) : M State := do
  let r ← createSubscriptionForPlan s frm id denom
  pure (emit r.1 (ev "sentinel.plan.v2.EventCreateSubscription"
    [("address", addrTxt .acc frm), ("provider_address", "-"), ("id", toString r.2.id), ("plan_id", toString id)]))

/-! ## session keeper pieces used by subscription -/

def evSessionStatus (x : Session) (st : Status) : Event :=
  ev "sentinel.session.v2.EventUpdateStatus"
    [("status", st.String), ("address", addrTxt .acc x.addr), ("node_address", addrTxt .node x.node),
     ("id", toString x.id), ("plan_id", "0"), ("subscription_id", toString x.sub)]

/-- Session ids indexed under a subscription, in the order of `IterateSessionsForSubscription`:
a *reverse* prefix iterator (ids are fixed width, so descending numeric order). -/
def sessionIdsForSub (s : State) (subId : Nat) : List Nat :=
  (((s.sessForSub.keys.filter (·.1 = subId)).map (·.2)).mergeSort (· ≤ ·)).reverse

/-- Move a session to inactive-pending with a fresh deadline (record, queue entry, event). -/
def sessionToPending (s : State) (x : Session) : State :=
  let s := { s with sessQ := s.sessQ.erase (x.inactiveAt, x.id) }
  let x := { x with inactiveAt := s.time + s.params.sessDelay, status := .StatusInactivePending, statusAt := s.time }
  let s := { s with sessions := s.sessions.set x.id x }
  let s := { s with sessQ := s.sessQ.set (x.inactiveAt, x.id) () }
  emit s (evSessionStatus x .StatusInactivePending)

/-- `SubscriptionInactivePendingHook` (x/session/keeper/hooks.go): every active session of the
subscription becomes inactive-pending; a dangling index entry panics inside the iterator. -/
def subscriptionInactivePendingHook (s : State) (subId : Nat) : M State :=
  (sessionIdsForSub s subId).foldlM (init := s) fun s sid => do
    let x ← orPanic (s.sessions.get sid) "session for subscription key does not exist"
    pure (if x.status = .StatusActive then sessionToPending s x else s)

/-! ## subscription -/

def evSubStatus (sub : Sub) (st : Status) : Event :=
  ev "sentinel.subscription.v2.EventUpdateStatus"
    [("status", st.String), ("address", addrTxt .acc sub.addr), ("id", toString sub.id), ("plan_id", "0")]

def isHourly (sub : Sub) : Bool := match sub.kind with | .node _ _ hr _ => hr ≠ 0 | _ => false

/-- Unlink a payout from the schedule and the lease index. -/
def detachPayoutRec (s : State) (p : Payout) : State :=
  let s := { s with payForAccNode := s.payForAccNode.erase (p.addr, p.node, p.id) }
  let s := { s with payQ := s.payQ.erase (p.nextAt, p.id) }
  { s with payouts := s.payouts.set p.id { p with nextAt := zeroTime } }

/-- The tail shared by `MsgCancel` and the expiry branch of `EndBlock`. `inHook` says what a missing
payout is: an error in the handler, a panic in the hook. -/
def detachPayout (s : State) (sub : Sub) (inHook : Bool) : M State :=
  if isHourly sub then do
    let p ← (if inHook then orPanic (s.payouts.get sub.id) "payout for subscription does not exist"
             else orReject (s.payouts.get sub.id) "payout not found")
    pure (detachPayoutRec s p)
  else pure s

/-- Status change active → inactive-pending of a subscription record (record, queue, event). -/
def subToPending (s : State) (sub : Sub) (delay : Dur) : State × Sub :=
  let sub' := { sub with inactiveAt := s.time + delay, status := .StatusInactivePending, statusAt := s.time }
  let s := { s with subs := s.subs.set sub.id sub' }
  let s := { s with subQ := s.subQ.set (sub'.inactiveAt, sub.id) () }
  (emit s (evSubStatus sub' .StatusInactivePending), sub')

def subCancel (s : State) (frm : Addr) (id : Nat) : M State := do
  let sub ← orReject (s.subs.get id) "subscription not found"
  require (sub.status = .StatusActive) "invalid subscription status"
  require (frm = sub.addr) "unauthorized"
  let s1 ← subscriptionInactivePendingHook { s with subQ := s.subQ.erase (sub.inactiveAt, sub.id) } sub.id
  detachPayout (subToPending s1 sub s.params.subDelay).1 sub false

def isPlanSub (sub : Sub) : Bool := match sub.kind with | .plan .. => true | .node .. => false

def subAllocate (s : State) (frm : Addr) (id : Nat) (to : Addr) (bytes : Int) : M State := do
  let sub ← orReject (s.subs.get id) "subscription not found"
  require (isPlanSub sub) "invalid subscription"
  require (frm = sub.addr) "unauthorized"
  let fromAlloc ← orReject (s.allocs.get (id, frm)) "allocation not found"
  require (frm != to) "invalid allocation"
  let toAlloc : Alloc := (s.allocs.get (id, to)).getD { id, addr := to, granted := 0, used := 0 }
  let s1 := if (s.allocs.get (id, to)).isNone then { s with subForAcc := s.subForAcc.set (to, id) () } else s
  let granted ← SInt.add fromAlloc.granted toAlloc.granted
  let utilised ← SInt.add fromAlloc.used toAlloc.used
  let available ← SInt.sub granted utilised
  require (decide (bytes ≤ available)) "insufficient bytes"
  let fg ← SInt.sub granted bytes
  require (decide (fromAlloc.used ≤ fg)) "invalid allocation"
  let fromAlloc' := { fromAlloc with granted := fg }
  let s2 := emit (setAllocation s1 fromAlloc') (evAllocate fromAlloc')
  require (decide (toAlloc.used ≤ bytes)) "invalid allocation"
  let toAlloc' := { toAlloc with granted := bytes }
  pure (emit (setAllocation s2 toAlloc') (evAllocate toAlloc'))

/-! ## session -/

/-- `GetLatestPayoutForAccountByNode`: is there any lease-index entry for (account, node)?
(the found payout itself is not used by the caller). -/
def hasPayoutForAccountByNode (s : State) (acc node : Addr) : M Bool :=
  match (((s.payForAccNode.keys.filter (fun k => k.1 = acc ∧ k.2.1 = node)).map (·.2.2)).mergeSort (· ≤ ·)).getLast? with
  | none => pure false
  | some id => do
    let _ ← orPanic (s.payouts.get id) "payout for account by node key does not exist"
    pure true

/-- `GetLatestSessionForAllocation`. -/
def latestSessionForAllocation (s : State) (subId : Nat) (acc : Addr) : M (Option Session) :=
  match (((s.sessForAlloc.keys.filter (fun k => k.1 = subId ∧ k.2.1 = acc)).map (·.2.2)).mergeSort (· ≤ ·)).getLast? with
  | none => pure none
  | some id => do
    let x ← orPanic (s.sessions.get id) "session for subscription allocation key does not exist"
    pure (some x)

/-- The node/plan part of the admission check of `MsgStart`. -/
def sessStartNodeCheck (s : State) (sub : Sub) (n : Node) (node : Addr) : M Unit :=
  match sub.kind with
  | .node snode _ _ _ => require (n.addr = snode) "invalid node"
  | .plan planId _ => do
    let plan ← orReject (getPlan s planId) "plan not found"
    let leased ← hasPayoutForAccountByNode s plan.prov node
    require leased "payout for address by node not found"
    require (s.nodeForPlan.has (planId, node)) "invalid node"

/-- Ownership and quota part: a node subscription only by its owner; quota unless hourly. -/
def sessStartQuotaCheck (s : State) (sub : Sub) (acc : Addr) : M Unit := do
  match sub.kind with
  | .node _ _ _ _ => require (acc = sub.addr) "unauthorized"
  | .plan _ _ => pure ()
  if isHourly sub then pure () else do
    let a ← orReject (s.allocs.get (sub.id, acc)) "allocation not found"
    require (decide (a.used < a.granted)) "invalid allocation"

def insertSession (s : State) (x : Session) : State :=
  let s := { s with sessCount := some x.id }
  let s := { s with sessions := s.sessions.set x.id x }
  let s := { s with sessForAcc := s.sessForAcc.set (x.addr, x.id) () }
  let s := { s with sessForNode := s.sessForNode.set (x.node, x.id) () }
  let s := { s with sessForSub := s.sessForSub.set (x.sub, x.id) () }
  let s := { s with sessForAlloc := s.sessForAlloc.set (x.sub, x.addr, x.id) () }
  { s with sessQ := s.sessQ.set (x.inactiveAt, x.id) () }

def sessStart (s : State) (frmT : TextAddr) (id : Nat) (node : Addr) : M State := do
  let sub ← orReject (s.subs.get id) "subscription not found"
  require (sub.status = .StatusActive) "invalid subscription status"
  let n ← orReject (getNode s node) "node not found"
  require (n.status = .StatusActive) "invalid node status"
  sessStartNodeCheck s sub n node
  sessStartQuotaCheck s sub frmT.bytes
  let latest ← latestSessionForAllocation s id frmT.bytes
  require (match latest with | some x => x.status ≠ .StatusActive | none => true) "duplicate active session"
  let x : Session := { id := s.sessCount.getD 0 + 1, sub := id, node, addr := frmT.bytes, up := 0, down := 0, dur := 0,
                       inactiveAt := s.time + s.params.sessDelay, status := .StatusActive, statusAt := s.time }
  pure (emit (insertSession s x) (ev "sentinel.session.v2.EventStart"
    [("address", addrTxt .acc x.addr), ("node_address", addrTxt .node node), ("id", toString x.id), ("plan_id", "0"),
     ("subscription_id", toString id)]))

/-- `VerifySignature`, with the signature as an oracle: a report is accepted only when it was signed
by the key registered for the session's account over exactly the reported figures. -/
def signatureOk (s : State) (acc : Addr) (sig : SigSpec) : Bool :=
  match sig, s.keyed.get acc with
  | .good i, some j => i = j
  | _, _ => false

def sessUpdate (s : State) (frm : Addr) (id : Nat) (up down dur : Int) (sig : SigSpec) : M State := do
  let x ← orReject (s.sessions.get id) "session not found"
  require (x.status ≠ .StatusInactive) "invalid session status"
  require (frm = x.node) "unauthorized"
  require (!s.params.proof || signatureOk s x.addr sig) "invalid signature"
  let inactiveAt := if x.status = .StatusActive then s.time + s.params.sessDelay else x.inactiveAt
  let s1 := if x.status = .StatusActive
            then { s with sessQ := (s.sessQ.erase (x.inactiveAt, x.id)).set (inactiveAt, x.id) () } else s
  let x' := { x with inactiveAt, up, down, dur }
  pure (emit { s1 with sessions := s1.sessions.set x.id x' } (ev "sentinel.session.v2.EventUpdateDetails"
    [("address", addrTxt .acc x.addr), ("node_address", addrTxt .node x.node), ("id", toString x.id), ("plan_id", "0"),
     ("subscription_id", toString x.sub)]))

def sessEnd (s : State) (frm : Addr) (id : Nat) : M State := do
  let x ← orReject (s.sessions.get id) "session not found"
  require (x.status = .StatusActive) "invalid session status"
  require (frm = x.addr) "unauthorized"
  pure (sessionToPending s x)

/-! ## swap -/

def swap (s : State) (frm : Addr) (hash : Bytes) (recv : Addr) (amt : Int) : M State := do
  require s.params.swapOn "swap is disabled"
  require (s.params.approveBy = frm) "unauthorized"
  require (!s.swaps.has hash) "duplicate swap"
  let q ← SInt.quo amt 100
  let coin ← newCoin s.params.swapDenom q
  let s1 ← mintCoins s swapAddr coin
  let s2 ← sendModuleToAccount s1 swapAddr recv coin
  pure (emit { s2 with swaps := s2.swaps.set hash { hash, recv, amt := coin } }
    (ev "sentinel.swap.v1.EventSwap" [("tx_hash", toHex hash), ("receiver", addrTxt .acc recv)]))

/-! ## routing -/

def Msg.handle (s : State) : Msg → M State
  | .provRegister frm name identity website desc _ => Hub.Model.provRegister s frm.bytes name identity website desc
  | .provUpdate frm name identity website desc status _ => Hub.Model.provUpdate s frm.bytes name identity website desc ((statusOfInt status).getD .StatusUnspecified)
  | .nodeRegister frm gb hr url _ => Hub.Model.nodeRegister s frm.bytes (gb.getD []) (hr.getD []) url
  | .nodeUpdate frm gb hr url _ => Hub.Model.nodeUpdate s frm.bytes gb hr url
  | .nodeStatus frm status => Hub.Model.nodeStatus s frm.bytes ((statusOfInt status).getD .StatusUnspecified)
  | .nodeSubscribe frm node gb hr denom => Hub.Model.nodeSubscribe s frm.bytes node.bytes gb hr denom
  | .planCreate frm dur gb prices => Hub.Model.planCreate s frm.bytes dur gb (prices.getD [])
  | .planStatus frm id status => Hub.Model.planStatus s frm.bytes id ((statusOfInt status).getD .StatusUnspecified)
  | .planLink frm id node => Hub.Model.planLink s frm.bytes id node.bytes
  | .planUnlink frm id node => Hub.Model.planUnlink s frm.bytes id node.bytes
  | .planSubscribe frm id denom => Hub.Model.planSubscribe s frm.bytes id denom
  | .subCancel frm id => Hub.Model.subCancel s frm.bytes id
  | .subAllocate frm id to bytes => Hub.Model.subAllocate s frm.bytes id to.bytes bytes
  | .sessStart frm id node => Hub.Model.sessStart s frm id node.bytes
  | .sessUpdate frm id up down dur sig => Hub.Model.sessUpdate s frm.bytes id up down dur sig
  | .sessEnd frm id _ => Hub.Model.sessEnd s frm.bytes id
  | .swap frm hash recv amt => Hub.Model.swap s frm.bytes hash recv.bytes amt

/-- Result of delivering a message. -/
inductive Outcome where
  | accept
  | reject (class_ : String)
  deriving Repr, DecidableEq, Inhabited

/-- `runTx` for one message: stateless validation, then the handler in a cache that is written only
on success; an error or a panic leaves the state untouched. -/
def deliver (s : State) (m : Msg) : State × Outcome :=
  let s0 := { s with events := [] }
  match (do m.validateBasic; m.handle s0 : M State) with
  | .ok s' => (s', .accept)
  | .error (.reject msg) => (s0, .reject msg)
  | .error (.panic msg) => (s0, .reject ("panic: " ++ msg))

end Hub.Model
