import Hub.Model.Keeper
/-
Message validation (`ValidateBasic`) and the 17 message handlers, mirrored statement by statement
from x/*/types/msg.go and x/*/keeper/msg_server.go (and the keeper functions they call).
A handler returns the new state or a rejection; `deliver` keeps the old state on any error.
-/
namespace Hub.Model
open Hub.SDK
open Hub.Generated (Status AmountForBytes GetProportionOfCoin Gigabyte)

def day : Dur := 24 * hour

def statusOfInt (i : Int) : Option Status := Status.ofInt32 i

/-! ## ValidateBasic -/

def needAddr (want : Role) (t : TextAddr) : M Addr :=
  if t.bytes.isEmpty then reject "validate: address cannot be empty"
  else match t.parse want with
    | some a => pure a
    | none => reject "validate: invalid address"

def validCoinsField (name : String) (c : Option Coins) (required : Bool) : M Unit :=
  match c with
  | none => if required then reject ("validate: " ++ name ++ " cannot be nil") else pure ()
  | some cs =>
    if cs.length = 0 then reject ("validate: " ++ name ++ " length cannot be zero")
    else if !cs.isValid then reject ("validate: " ++ name ++ " must be valid")
    else pure ()

def validDenomField (d : Denom) : M Unit :=
  if d = "" then reject "validate: denom cannot be empty"
  else if !validDenom d then reject "validate: invalid denom"
  else pure ()

def Msg.validateBasic : Msg → M Unit
  | .provRegister frm name identity website desc webok => do
    let _ ← needAddr .acc frm
    if name.length = 0 then reject "validate: name cannot be empty"
    if name.length > 64 then reject "validate: name length"
    if identity.length > 64 then reject "validate: identity length"
    if website.length > 64 then reject "validate: website length"
    if website.length ≠ 0 ∧ !webok then reject "validate: website"
    if desc.length > 256 then reject "validate: description length"
  | .provUpdate frm name identity website desc status webok => do
    let _ ← needAddr .prov frm
    if name.length > 64 then reject "validate: name length"
    if identity.length > 64 then reject "validate: identity length"
    if website.length > 64 then reject "validate: website length"
    if website.length ≠ 0 ∧ !webok then reject "validate: website"
    if desc.length > 256 then reject "validate: description length"
    match statusOfInt status with
    | some st => if !st.IsOneOf [.StatusUnspecified, .StatusActive, .StatusInactive] then reject "validate: status"
    | none => reject "validate: status"
  | .nodeRegister frm gb hr url urlok => do
    let _ ← needAddr .acc frm
    validCoinsField "gigabyte_prices" gb true
    validCoinsField "hourly_prices" hr true
    if url.length = 0 then reject "validate: remote_url cannot be empty"
    if url.length > 64 then reject "validate: remote_url length"
    if !urlok then reject "validate: remote_url"
  | .nodeUpdate frm gb hr url urlok => do
    let _ ← needAddr .node frm
    validCoinsField "gigabyte_prices" gb false
    validCoinsField "hourly_prices" hr false
    if url.length ≠ 0 then
      if url.length > 64 then reject "validate: remote_url length"
      if !urlok then reject "validate: remote_url"
  | .nodeStatus frm status => do
    let _ ← needAddr .node frm
    match statusOfInt status with
    | some st => if !st.IsOneOf [.StatusActive, .StatusInactive] then reject "validate: status"
    | none => reject "validate: status"
  | .nodeSubscribe frm node gb hr denom => do
    let _ ← needAddr .acc frm
    let _ ← needAddr .node node
    if gb = 0 ∧ hr = 0 then reject "validate: [gigabytes, hours] cannot be empty"
    if gb ≠ 0 ∧ hr ≠ 0 then reject "validate: [gigabytes, hours] cannot be non-empty"
    if gb < 0 then reject "validate: gigabytes cannot be negative"
    if hr < 0 then reject "validate: hours cannot be negative"
    validDenomField denom
  | .planCreate frm dur gb prices => do
    let _ ← needAddr .prov frm
    if dur < 0 then reject "validate: duration cannot be negative"
    if dur = 0 then reject "validate: duration cannot be zero"
    if gb < 0 then reject "validate: gigabytes cannot be negative"
    if gb = 0 then reject "validate: gigabytes cannot be zero"
    validCoinsField "prices" prices true
  | .planStatus frm id status => do
    let _ ← needAddr .prov frm
    if id = 0 then reject "validate: id cannot be zero"
    match statusOfInt status with
    | some st => if !st.IsOneOf [.StatusActive, .StatusInactive] then reject "validate: status"
    | none => reject "validate: status"
  | .planLink frm id node => do
    let _ ← needAddr .prov frm
    if id = 0 then reject "validate: id cannot be zero"
    let _ ← needAddr .node node
  | .planUnlink frm id node => do
    let _ ← needAddr .prov frm
    if id = 0 then reject "validate: id cannot be zero"
    let _ ← needAddr .node node
  | .planSubscribe frm id denom => do
    let _ ← needAddr .acc frm
    if id = 0 then reject "validate: id cannot be zero"
    validDenomField denom
  | .subCancel frm id => do
    let _ ← needAddr .acc frm
    if id = 0 then reject "validate: id cannot be zero"
  | .subAllocate frm id to bytes => do
    let _ ← needAddr .acc frm
    if id = 0 then reject "validate: id cannot be zero"
    let _ ← needAddr .acc to
    if bytes < 0 then reject "validate: bytes cannot be negative"
  | .sessStart frm id node => do
    let _ ← needAddr .acc frm
    if id = 0 then reject "validate: id cannot be zero"
    let _ ← needAddr .node node
  | .sessUpdate frm id up down dur sig => do
    let _ ← needAddr .node frm
    if id = 0 then reject "validate: proof.id cannot be zero"
    if up < 0 ∨ down < 0 then reject "validate: proof.bandwidth cannot be negative"
    if dur < 0 then reject "validate: proof.duration cannot be negative"
    if sig = .short then reject "validate: signature length"
  | .sessEnd frm id rating => do
    let _ ← needAddr .acc frm
    if id = 0 then reject "validate: id cannot be zero"
    if rating > 10 then reject "validate: rating"
  | .swap frm hash recv amt => do
    let _ ← needAddr .acc frm
    let _ ← needAddr .acc recv
    if hash.length = 0 then reject "validate: tx_hash cannot be empty"
    if hash.length < 32 then reject "validate: tx_hash length"
    if hash.length > 32 then reject "validate: tx_hash length"
    if amt < 0 then reject "validate: amount cannot be negative"
    if amt = 0 then reject "validate: amount cannot be zero"
    if amt < 100 then reject "validate: amount cannot be less than 100"

/-! ## provider -/

def provRegister (s : State) (frm : Addr) (name identity website desc : Bytes) : M State := do
  if hasProvider s frm then reject "duplicate provider"
  let s ← fundCommunityPool s frm s.params.provDeposit
  let p : Provider := { addr := frm, name, identity, website, desc, status := .StatusInactive, statusAt := s.time }
  let s ← setProvider s p
  pure (emit s (ev "sentinel.provider.v2.EventRegister" [("address", addrTxt .prov frm)]))

def provUpdate (s : State) (frm : Addr) (name identity website desc : Bytes) (status : Status) : M State := do
  let some p := getProvider s frm | reject "provider not found"
  let p := if name.length > 0 then { p with name } else p
  let p := { p with identity, website, desc }
  let (s, p) :=
    if status ≠ .StatusUnspecified then
      let s := if p.status = .StatusActive ∧ status = .StatusInactive then { s with provActive := s.provActive.erase frm } else s
      let s := if p.status = .StatusInactive ∧ status = .StatusActive then { s with provInactive := s.provInactive.erase frm } else s
      (s, { p with status, statusAt := s.time })
    else (s, p)
  let s ← setProvider s p
  pure (emit s (ev "sentinel.provider.v2.EventUpdate" [("address", addrTxt .prov frm)]))

/-! ## node -/

def nodeRegister (s : State) (frm : Addr) (gb hr : Coins) (url : Bytes) : M State := do
  if !pricesWithin s.params.maxGB s.params.minGB gb then reject "invalid prices"
  if !pricesWithin s.params.maxHr s.params.minHr hr then reject "invalid prices"
  if hasNode s frm then reject "duplicate node"
  let s ← fundCommunityPool s frm s.params.nodeDeposit
  let n : Node := { addr := frm, gb, hr, url, inactiveAt := zeroTime, status := .StatusInactive, statusAt := s.time }
  let s ← setNode s n
  pure (emit s (ev "sentinel.node.v2.EventRegister" [("address", addrTxt .node frm)]))

def nodeUpdate (s : State) (frm : Addr) (gb hr : Option Coins) (url : Bytes) : M State := do
  if let some g := gb then
    if !pricesWithin s.params.maxGB s.params.minGB g then reject "invalid prices"
  if let some h := hr then
    if !pricesWithin s.params.maxHr s.params.minHr h then reject "invalid prices"
  let some n := getNode s frm | reject "node not found"
  let n := match gb with | some g => { n with gb := g } | none => n
  let n := match hr with | some h => { n with hr := h } | none => n
  let n := if url.length ≠ 0 then { n with url } else n
  let s ← setNode s n
  pure (emit s (ev "sentinel.node.v2.EventUpdateDetails"
    [("address", addrTxt .node frm), ("gigabyte_prices", "-"), ("hourly_prices", "-"), ("remote_url", "-")]))

def nodeStatus (s : State) (frm : Addr) (status : Status) : M State := do
  let some n := getNode s frm | reject "node not found"
  let s :=
    if n.status = .StatusActive then
      let s := { s with nodeQ := s.nodeQ.erase (n.inactiveAt, frm) }
      if status = .StatusInactive then { s with nodeActive := s.nodeActive.erase frm } else s
    else s
  let s :=
    if n.status = .StatusInactive ∧ status = .StatusActive then { s with nodeInactive := s.nodeInactive.erase frm } else s
  let (s, n) :=
    if status = .StatusActive then
      let n := { n with inactiveAt := s.time + s.params.activeDur }
      ({ s with nodeQ := s.nodeQ.set (n.inactiveAt, frm) () }, n)
    else (s, n)
  let n := if status = .StatusInactive then { n with inactiveAt := zeroTime } else n
  let n := { n with status, statusAt := s.time }
  let s ← setNode s n
  pure (emit s (ev "sentinel.node.v2.EventUpdateStatus" [("status", status.String), ("address", addrTxt .node frm)]))

/-! ## subscription keeper: CreateSubscriptionForNode / ForPlan -/

def setAllocation (s : State) (a : Alloc) : State := { s with allocs := s.allocs.set (a.id, a.addr) a }

def evAllocate (a : Alloc) : Event :=
  ev "sentinel.subscription.v2.EventAllocate"
    [("address", addrTxt .acc a.addr), ("granted_bytes", toString a.granted), ("utilised_bytes", toString a.used), ("id", toString a.id)]

def createSubscriptionForNode (s : State) (acc node : Addr) (gb hr : Int) (denom : Denom) : M (State × Sub) := do
  let some n := getNode s node | reject "node not found"
  if n.status ≠ .StatusActive then reject "invalid node status"
  let count := s.subCount.getD 0
  let id := count + 1
  let mut inactiveAt := zeroTime
  let mut dep : Coin := ⟨"", 0⟩
  if gb ≠ 0 then
    let some price := n.gigabytePrice denom | reject "price not found"
    inactiveAt := s.time + 90 * day
    let bytes ← SInt.mul Gigabyte gb
    let amt ← AmountForBytes price.amount bytes
    dep ← newCoin price.denom amt
  if hr ≠ 0 then
    let some price := n.hourlyPrice denom | reject "price not found"
    inactiveAt := s.time + hr * hour
    let amt ← SInt.mul price.amount hr
    dep ← newCoin price.denom amt
  let sub : Sub := { id, addr := acc, inactiveAt, status := .StatusActive, statusAt := s.time, kind := .node node gb hr dep }
  let s ← addDeposit s acc dep
  let s := { s with subCount := some id }
  let s := { s with subs := s.subs.set id sub }
  let s := { s with subForAcc := s.subForAcc.set (acc, id) () }
  let s := { s with subForNode := s.subForNode.set (node, id) () }
  let s := { s with subQ := s.subQ.set (inactiveAt, id) () }
  let mut s := s
  if gb ≠ 0 then
    let granted ← SInt.mul Gigabyte gb
    let a : Alloc := { id, addr := acc, granted, used := 0 }
    s := emit (setAllocation s a) (evAllocate a)
  if hr ≠ 0 then
    let priceAmt ← SInt.quo dep.amount hr
    let price ← newCoin dep.denom priceAmt
    let p : Payout := { id, addr := acc, node, hours := hr, price, nextAt := s.time }
    s := { s with payouts := s.payouts.set id p }
    s := { s with payForAcc := s.payForAcc.set (acc, id) () }
    s := { s with payForNode := s.payForNode.set (node, id) () }
    s := { s with payForAccNode := s.payForAccNode.set (acc, node, id) () }
    s := { s with payQ := s.payQ.set (p.nextAt, id) () }
    s := emit s (ev "sentinel.subscription.v2.EventCreatePayout"
      [("address", addrTxt .acc acc), ("node_address", addrTxt .node node), ("id", toString id)])
  pure (s, sub)

def nodeSubscribe (s : State) (frm node : Addr) (gb hr : Int) (denom : Denom) : M State := do
  if gb ≠ 0 then
    if gb < s.params.minSubGB ∨ gb > s.params.maxSubGB then reject "invalid gigabytes"
  if hr ≠ 0 then
    if hr < s.params.minSubHr ∨ hr > s.params.maxSubHr then reject "invalid hours"
  let (s, sub) ← createSubscriptionForNode s frm node gb hr denom
  pure (emit s (ev "sentinel.node.v2.EventCreateSubscription"
    [("address", addrTxt .acc frm), ("node_address", addrTxt .node node), ("id", toString sub.id)]))

def createSubscriptionForPlan (s : State) (acc : Addr) (planId : Nat) (denom : Denom) : M (State × Sub) := do
  let some plan := getPlan s planId | reject "plan not found"
  if plan.status ≠ .StatusActive then reject "invalid plan status"
  let some price := plan.price denom | reject "price not found"
  let reward ← GetProportionOfCoin price s.params.provShare
  let s ← sendCoinFromAccountToModule s acc feeCollectorAddr reward
  let payAmt ← SInt.sub price.amount reward.amount
  if payAmt < 0 then gopanic "negative coin amount"
  let payment : Coin := ⟨price.denom, payAmt⟩
  let s ← sendCoin s acc plan.prov payment
  let s := emit s (ev "sentinel.subscription.v2.EventPayForPlan"
    [("address", addrTxt .acc acc), ("payment", payment.sdkString), ("provider_address", addrTxt .prov plan.prov),
     ("staking_reward", reward.sdkString), ("id", toString plan.id)])
  let count := s.subCount.getD 0
  let id := count + 1
  let inactiveAt := s.time + plan.dur
  let sub : Sub := { id, addr := acc, inactiveAt, status := .StatusActive, statusAt := s.time, kind := .plan plan.id price.denom }
  let s := { s with subCount := some id }
  let s := { s with subs := s.subs.set id sub }
  let s := { s with subForAcc := s.subForAcc.set (acc, id) () }
  let s := { s with subForPlan := s.subForPlan.set (plan.id, id) () }
  let s := { s with subQ := s.subQ.set (inactiveAt, id) () }
  let granted ← SInt.mul Gigabyte plan.gb
  let a : Alloc := { id, addr := acc, granted, used := 0 }
  let s := emit (setAllocation s a) (evAllocate a)
  pure (s, sub)

/-! ## plan -/

def planCreate (s : State) (frm : Addr) (dur : Dur) (gb : Int) (prices : Coins) : M State := do
  if !hasProvider s frm then reject "provider not found"
  let count := s.planCount.getD 0
  let p : Plan := { id := count + 1, prov := frm, dur, gb, prices, status := .StatusInactive, statusAt := s.time }
  let s := { s with planCount := some (count + 1) }
  let s ← setPlan s p
  let s := { s with planForProv := s.planForProv.set (frm, p.id) () }
  pure (emit s (ev "sentinel.plan.v2.EventCreate" [("address", addrTxt .prov frm), ("id", toString p.id)]))

def planStatus (s : State) (frm : Addr) (id : Nat) (status : Status) : M State := do
  let some p := getPlan s id | reject "plan not found"
  if frm ≠ p.prov then reject "unauthorized"
  let s := if p.status = .StatusActive ∧ status = .StatusInactive then { s with planActive := s.planActive.erase id } else s
  let s := if p.status = .StatusInactive ∧ status = .StatusActive then { s with planInactive := s.planInactive.erase id } else s
  let p := { p with status, statusAt := s.time }
  let s ← setPlan s p
  pure (emit s (ev "sentinel.plan.v2.EventUpdateStatus"
    [("status", status.String), ("address", addrTxt .prov p.prov), ("id", toString id)]))

def planLink (s : State) (frm : Addr) (id : Nat) (node : Addr) : M State := do
  let some p := getPlan s id | reject "plan not found"
  if frm ≠ p.prov then reject "unauthorized"
  if !hasNode s node then reject "node not found"
  let s := { s with nodeForPlan := s.nodeForPlan.set (id, node) () }
  pure (emit s (ev "sentinel.plan.v2.EventLinkNode"
    [("address", addrTxt .prov p.prov), ("node_address", addrTxt .node node), ("id", toString id)]))

def planUnlink (s : State) (frm : Addr) (id : Nat) (node : Addr) : M State := do
  let some p := getPlan s id | reject "plan not found"
  if frm ≠ p.prov then reject "unauthorized"
  let s := { s with nodeForPlan := s.nodeForPlan.erase (id, node) }
  pure (emit s (ev "sentinel.plan.v2.EventUnlinkNode"
    [("address", addrTxt .prov p.prov), ("node_address", addrTxt .node node), ("id", toString id)]))

def planSubscribe (s : State) (frm : Addr) (id : Nat) (denom : Denom) : M State := do
  let (s, sub) ← createSubscriptionForPlan s frm id denom
  pure (emit s (ev "sentinel.plan.v2.EventCreateSubscription"
    [("address", addrTxt .acc frm), ("provider_address", "-"), ("id", toString sub.id), ("plan_id", toString id)]))

/-! ## session keeper pieces used by subscription -/

def evSessionStatus (x : Session) (st : Status) : Event :=
  ev "sentinel.session.v2.EventUpdateStatus"
    [("status", st.String), ("address", addrTxt .acc x.addr), ("node_address", addrTxt .node x.node),
     ("id", toString x.id), ("plan_id", "0"), ("subscription_id", toString x.sub)]

/-- Session ids indexed under a subscription, in the order of `IterateSessionsForSubscription`:
a *reverse* prefix iterator (ids are fixed width, so descending numeric order). -/
def sessionIdsForSub (s : State) (subId : Nat) : List Nat :=
  (((s.sessForSub.keys.filter (·.1 = subId)).map (·.2)).mergeSort (· ≤ ·)).reverse

/-- `SubscriptionInactivePendingHook` (x/session/keeper/hooks.go): every active session of the
subscription becomes inactive-pending; a dangling index entry panics inside the iterator. -/
def subscriptionInactivePendingHook (s : State) (subId : Nat) : M State :=
  (sessionIdsForSub s subId).foldlM (init := s) fun s sid => do
    let some x := s.sessions.get sid | gopanic "session for subscription key does not exist"
    if x.status ≠ .StatusActive then pure s else
    let s := { s with sessQ := s.sessQ.erase (x.inactiveAt, x.id) }
    let x := { x with inactiveAt := s.time + s.params.sessDelay, status := .StatusInactivePending, statusAt := s.time }
    let s := { s with sessions := s.sessions.set x.id x }
    let s := { s with sessQ := s.sessQ.set (x.inactiveAt, x.id) () }
    pure (emit s (evSessionStatus x .StatusInactivePending))

/-! ## subscription -/

def evSubStatus (sub : Sub) (st : Status) : Event :=
  ev "sentinel.subscription.v2.EventUpdateStatus"
    [("status", st.String), ("address", addrTxt .acc sub.addr), ("id", toString sub.id), ("plan_id", "0")]

def isHourly (sub : Sub) : Bool := match sub.kind with | .node _ _ hr _ => hr ≠ 0 | _ => false

/-- The tail shared by `MsgCancel` and the expiry branch of `EndBlock`: unlink the payout of an
hourly subscription from the schedule and the lease index. `missing` says what a missing payout is
(an error in the handler, a panic in the hook). -/
def detachPayout (s : State) (sub : Sub) (missing : M State) : M State :=
  if isHourly sub then
    match s.payouts.get sub.id with
    | none => missing
    | some p =>
      let s := { s with payForAccNode := s.payForAccNode.erase (p.addr, p.node, p.id) }
      let s := { s with payQ := s.payQ.erase (p.nextAt, p.id) }
      pure { s with payouts := s.payouts.set p.id { p with nextAt := zeroTime } }
  else pure s

def subCancel (s : State) (frm : Addr) (id : Nat) : M State := do
  let some sub := s.subs.get id | reject "subscription not found"
  if sub.status ≠ .StatusActive then reject "invalid subscription status"
  if frm ≠ sub.addr then reject "unauthorized"
  let delay := s.params.subDelay
  let s := { s with subQ := s.subQ.erase (sub.inactiveAt, sub.id) }
  let s ← subscriptionInactivePendingHook s sub.id
  let sub := { sub with inactiveAt := s.time + delay, status := .StatusInactivePending, statusAt := s.time }
  let s := { s with subs := s.subs.set sub.id sub }
  let s := { s with subQ := s.subQ.set (sub.inactiveAt, sub.id) () }
  let s := emit s (evSubStatus sub .StatusInactivePending)
  detachPayout s sub (reject "payout not found")

def subAllocate (s : State) (frm : Addr) (id : Nat) (to : Addr) (bytes : Int) : M State := do
  let some sub := s.subs.get id | reject "subscription not found"
  match sub.kind with
  | .node .. => reject "invalid subscription"
  | .plan .. => pure ()
  if frm ≠ sub.addr then reject "unauthorized"
  let some fromAlloc := s.allocs.get (id, frm) | reject "allocation not found"
  let (s, toAlloc) := match s.allocs.get (id, to) with
    | some a => (s, a)
    | none => ({ s with subForAcc := s.subForAcc.set (to, id) () }, ({ id, addr := to, granted := 0, used := 0 } : Alloc))
  let granted ← SInt.add fromAlloc.granted toAlloc.granted
  let utilised ← SInt.add fromAlloc.used toAlloc.used
  let available ← SInt.sub granted utilised
  if bytes > available then reject "insufficient bytes"
  let fg ← SInt.sub available bytes
  let fromAlloc := { fromAlloc with granted := fg }
  if fromAlloc.granted < fromAlloc.used then reject "invalid allocation"
  let s := emit (setAllocation s fromAlloc) (evAllocate fromAlloc)
  let toAlloc := { toAlloc with granted := bytes }
  if toAlloc.granted < toAlloc.used then reject "invalid allocation"
  let s := emit (setAllocation s toAlloc) (evAllocate toAlloc)
  pure s

/-! ## session -/

/-- `GetLatestPayoutForAccountByNode`: is there any lease-index entry for (account, node)?
(the found payout itself is not used by the caller). -/
def hasPayoutForAccountByNode (s : State) (acc node : Addr) : M Bool := do
  let ids := ((s.payForAccNode.keys.filter (fun k => k.1 = acc ∧ k.2.1 = node)).map (·.2.2)).mergeSort (· ≤ ·)
  match ids.getLast? with
  | none => pure false
  | some id => match s.payouts.get id with
    | some _ => pure true
    | none => gopanic "payout for account by node key does not exist"

/-- `GetLatestSessionForAllocation`. -/
def latestSessionForAllocation (s : State) (subId : Nat) (acc : Addr) : M (Option Session) := do
  let ids := ((s.sessForAlloc.keys.filter (fun k => k.1 = subId ∧ k.2.1 = acc)).map (·.2.2)).mergeSort (· ≤ ·)
  match ids.getLast? with
  | none => pure none
  | some id => match s.sessions.get id with
    | some x => pure (some x)
    | none => gopanic "session for subscription allocation key does not exist"

def sessStart (s : State) (frmT : TextAddr) (id : Nat) (node : Addr) : M State := do
  let some sub := s.subs.get id | reject "subscription not found"
  if sub.status ≠ .StatusActive then reject "invalid subscription status"
  let some n := getNode s node | reject "node not found"
  if n.status ≠ .StatusActive then reject "invalid node status"
  match sub.kind with
  | .node snode _ _ _ => if n.addr ≠ snode then reject "invalid node"
  | .plan planId _ =>
    let some plan := getPlan s planId | reject "plan not found"
    if !(← hasPayoutForAccountByNode s plan.prov node) then reject "payout for address by node not found"
    if !s.nodeForPlan.has (planId, node) then reject "invalid node"
  let acc := frmT.bytes
  let mut checkAllocation := true
  if let .node _ _ hr _ := sub.kind then
    if acc ≠ sub.addr then reject "unauthorized"
    if hr ≠ 0 then checkAllocation := false
  if checkAllocation then
    let some a := s.allocs.get (id, acc) | reject "allocation not found"
    if a.used ≥ a.granted then reject "invalid allocation"
  if let some x ← latestSessionForAllocation s id acc then
    if x.status = .StatusActive then reject "duplicate active session"
  let count := s.sessCount.getD 0
  let x : Session := { id := count + 1, sub := id, node, addr := acc, up := 0, down := 0, dur := 0,
                       inactiveAt := s.time + s.params.sessDelay, status := .StatusActive, statusAt := s.time }
  let s := { s with sessCount := some (count + 1) }
  let s := { s with sessions := s.sessions.set x.id x }
  let s := { s with sessForAcc := s.sessForAcc.set (acc, x.id) () }
  let s := { s with sessForNode := s.sessForNode.set (node, x.id) () }
  let s := { s with sessForSub := s.sessForSub.set (id, x.id) () }
  let s := { s with sessForAlloc := s.sessForAlloc.set (id, acc, x.id) () }
  let s := { s with sessQ := s.sessQ.set (x.inactiveAt, x.id) () }
  pure (emit s (ev "sentinel.session.v2.EventStart"
    [("address", addrTxt .acc acc), ("node_address", addrTxt .node node), ("id", toString x.id), ("plan_id", "0"),
     ("subscription_id", toString id)]))

/-- `VerifySignature`, with the signature as an oracle: a report is accepted only when it was signed
by the key registered for the session's account over exactly the reported figures. -/
def signatureOk (s : State) (acc : Addr) (sig : SigSpec) : Bool :=
  match sig, s.keyed.get acc with
  | .good i, some j => i = j
  | _, _ => false

def sessUpdate (s : State) (frm : Addr) (id : Nat) (up down dur : Int) (sig : SigSpec) : M State := do
  let some x := s.sessions.get id | reject "session not found"
  if x.status = .StatusInactive then reject "invalid session status"
  if frm ≠ x.node then reject "unauthorized"
  if s.params.proof then
    if !signatureOk s x.addr sig then reject "invalid signature"
  let (s, x) :=
    if x.status = .StatusActive then
      let s := { s with sessQ := s.sessQ.erase (x.inactiveAt, x.id) }
      let x := { x with inactiveAt := s.time + s.params.sessDelay }
      ({ s with sessQ := s.sessQ.set (x.inactiveAt, x.id) () }, x)
    else (s, x)
  let x := { x with up, down, dur }
  let s := { s with sessions := s.sessions.set x.id x }
  pure (emit s (ev "sentinel.session.v2.EventUpdateDetails"
    [("address", addrTxt .acc x.addr), ("node_address", addrTxt .node x.node), ("id", toString x.id), ("plan_id", "0"),
     ("subscription_id", toString x.sub)]))

def sessEnd (s : State) (frm : Addr) (id : Nat) : M State := do
  let some x := s.sessions.get id | reject "session not found"
  if x.status ≠ .StatusActive then reject "invalid session status"
  if frm ≠ x.addr then reject "unauthorized"
  let s := { s with sessQ := s.sessQ.erase (x.inactiveAt, x.id) }
  let x := { x with inactiveAt := s.time + s.params.sessDelay, status := .StatusInactivePending, statusAt := s.time }
  let s := { s with sessions := s.sessions.set x.id x }
  let s := { s with sessQ := s.sessQ.set (x.inactiveAt, x.id) () }
  pure (emit s (evSessionStatus x .StatusInactivePending))

/-! ## swap -/

def swap (s : State) (frm : Addr) (hash : Bytes) (recv : Addr) (amt : Int) : M State := do
  if !s.params.swapOn then reject "swap is disabled"
  if s.params.approveBy ≠ frm then reject "unauthorized"
  if s.swaps.has hash then reject "duplicate swap"
  let q ← SInt.quo amt 100
  let coin ← newCoin s.params.swapDenom q
  let w : Swap := { hash, recv, amt := coin }
  let s ← mintCoins s swapAddr coin
  let s ← sendModuleToAccount s swapAddr recv coin
  let s := { s with swaps := s.swaps.set hash w }
  pure (emit s (ev "sentinel.swap.v1.EventSwap" [("tx_hash", toHex hash), ("receiver", addrTxt .acc recv)]))

/-! ## routing -/

def Msg.handle (s : State) : Msg → M State
  | .provRegister frm name identity website desc _ => Hub.Model.provRegister s frm.bytes name identity website desc
  | .provUpdate frm name identity website desc status _ => Hub.Model.provUpdate s frm.bytes name identity website desc ((statusOfInt status).getD .StatusUnspecified)
  | .nodeRegister frm gb hr url _ => Hub.Model.nodeRegister s frm.bytes (gb.getD []) (hr.getD []) url
  | .nodeUpdate frm gb hr url _ => Hub.Model.nodeUpdate s frm.bytes gb hr url
  | .nodeStatus frm status => Hub.Model.nodeStatus s frm.bytes ((statusOfInt status).getD .StatusUnspecified)
  | .nodeSubscribe frm node gb hr denom => Hub.Model.nodeSubscribe s frm.bytes node.bytes gb hr denom
  | .planCreate frm dur gb prices => Hub.Model.planCreate s frm.bytes dur gb (prices.getD [])
  | .planStatus frm id status => Hub.Model.planStatus s frm.bytes id ((statusOfInt status).getD .StatusUnspecified)
  | .planLink frm id node => Hub.Model.planLink s frm.bytes id node.bytes
  | .planUnlink frm id node => Hub.Model.planUnlink s frm.bytes id node.bytes
  | .planSubscribe frm id denom => Hub.Model.planSubscribe s frm.bytes id denom
  | .subCancel frm id => Hub.Model.subCancel s frm.bytes id
  | .subAllocate frm id to bytes => Hub.Model.subAllocate s frm.bytes id to.bytes bytes
  | .sessStart frm id node => Hub.Model.sessStart s frm id node.bytes
  | .sessUpdate frm id up down dur sig => Hub.Model.sessUpdate s frm.bytes id up down dur sig
  | .sessEnd frm id _ => Hub.Model.sessEnd s frm.bytes id
  | .swap frm hash recv amt => Hub.Model.swap s frm.bytes hash recv.bytes amt

/-- Result of delivering a message. -/
inductive Outcome where
  | accept
  | reject (class_ : String)
  deriving Repr, DecidableEq, Inhabited

/-- `runTx` for one message: stateless validation, then the handler in a cache that is written only
on success; an error or a panic leaves the state untouched. -/
def deliver (s : State) (m : Msg) : State × Outcome :=
  let s0 := { s with events := [] }
  match (do m.validateBasic; m.handle s0 : M State) with
  | .ok s' => (s', .accept)
  | .error (.reject msg) => (s0, .reject msg)
  | .error (.panic msg) => (s0, .reject ("panic: " ++ msg))

end Hub.Model
