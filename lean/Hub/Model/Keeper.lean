import Hub.Model.Bank
import Hub.Generated.Coin
/-
Keeper-level functions of the hub modules, mirrored one-for-one from the Go keepers
(x/*/keeper/*.go).  Each `Set*/Delete*` touches exactly the key the Go function touches.
-/
namespace Hub.Model
open Hub.SDK
open Hub.Generated (Status AmountForBytes GetProportionOfCoin Gigabyte)

/-! ### Events (canonical text, the same rendering as the harness) -/

def roleTag : Role → String
  | .acc => "acc:" | .node => "node:" | .prov => "prov:"

def addrTxt (r : Role) (a : Addr) : String := if a.isEmpty then "-" else roleTag r ++ toHex a

def ev (ty : String) (attrs : List (String × String)) : Event :=
  let sorted := (attrs.map fun (k, v) => k ++ "=" ++ v).mergeSort (fun a b => a ≤ b)
  "E " ++ ty ++ " " ++ " ".intercalate sorted

def txt (s : String) : String := if s.isEmpty then "-" else s.replace " " "_"

/-! ### deposit (x/deposit/keeper/deposit.go) -/

def getDeposit (s : State) (a : Addr) : Option Coins := s.deposits.get a
def setDeposit (s : State) (a : Addr) (c : Coins) : State := { s with deposits := s.deposits.set a c }
def deleteDeposit (s : State) (a : Addr) : State := { s with deposits := s.deposits.erase a }
/-- After a subtraction: an emptied record is deleted, otherwise written back. -/
def putDeposit (s : State) (a : Addr) (c : Coins) : State := if c.isZero then deleteDeposit s a else setDeposit s a c

/-- `SendCoinsFromAccountToDeposit` with one coin. -/
def depositAdd (s : State) (frm to : Addr) (c : Coin) : M State := do
  let s1 ← sendCoins s frm depositAddr c
  require (!(((getDeposit s1 to).getD []).add c).isAnyNegative) "insufficient funds"
  pure (emit (setDeposit s1 to (((getDeposit s1 to).getD []).add c))
    (ev "sentinel.deposit.v1.EventAdd" [("address", addrTxt .acc to), ("coins", c.sdkString)]))

/-- `SendCoinsFromDepositToAccount` with one coin. -/
def depositToAccount (s : State) (frm to : Addr) (c : Coin) : M State := do
  let cur ← orReject (getDeposit s frm) "deposit not found"
  require (!(cur.sub c).isAnyNegative) "insufficient deposit"
  let s1 ← sendModuleToAccount s depositAddr to c
  pure (emit (putDeposit s1 frm (cur.sub c))
    (ev "sentinel.deposit.v1.EventSubtract" [("address", addrTxt .acc frm), ("coins", c.sdkString)]))

/-- `SendCoinsFromDepositToModule` with one coin (the only target is the fee collector). -/
def depositToModule (s : State) (frm module : Addr) (c : Coin) : M State := do
  let cur ← orReject (getDeposit s frm) "deposit not found"
  require (!(cur.sub c).isAnyNegative) "insufficient deposit"
  let s1 ← sendCoins s depositAddr module c
  pure (emit (putDeposit s1 frm (cur.sub c))
    (ev "sentinel.deposit.v1.EventSubtract" [("address", addrTxt .acc frm), ("coins", c.sdkString)]))

/-! ### subscription/keeper/alias.go: zero coins short-circuit -/

def sendCoin (s : State) (frm to : Addr) (c : Coin) : M State :=
  if c.amount = 0 then pure s else sendCoins s frm to c
def sendCoinFromAccountToModule (s : State) (frm module : Addr) (c : Coin) : M State :=
  if c.amount = 0 then pure s else sendCoins s frm module c
def addDeposit (s : State) (a : Addr) (c : Coin) : M State :=
  if c.amount = 0 then pure s else depositAdd s a a c
def subtractDeposit (s : State) (a : Addr) (c : Coin) : M State :=
  if c.amount = 0 then pure s else depositToAccount s a a c
def sendCoinFromDepositToAccount (s : State) (frm to : Addr) (c : Coin) : M State :=
  if c.amount = 0 then pure s else depositToAccount s frm to c
def sendCoinFromDepositToModule (s : State) (frm module : Addr) (c : Coin) : M State :=
  if c.amount = 0 then pure s else depositToModule s frm module c

/-! ### provider -/

def getProvider (s : State) (a : Addr) : Option Provider :=
  match s.provActive.get a with
  | some p => some p
  | none => s.provInactive.get a
def hasProvider (s : State) (a : Addr) : Bool := s.provActive.has a || s.provInactive.has a
def setProvider (s : State) (p : Provider) : M State :=
  match p.status with
  | .StatusActive => pure { s with provActive := s.provActive.set p.addr p }
  | .StatusInactive => pure { s with provInactive := s.provInactive.set p.addr p }
  | _ => gopanic "failed to set the provider"

/-! ### node -/

def getNode (s : State) (a : Addr) : Option Node :=
  match s.nodeActive.get a with
  | some n => some n
  | none => s.nodeInactive.get a
def hasNode (s : State) (a : Addr) : Bool := s.nodeActive.has a || s.nodeInactive.has a
def setNode (s : State) (n : Node) : M State :=
  match n.status with
  | .StatusActive => pure { s with nodeActive := s.nodeActive.set n.addr n }
  | .StatusInactive => pure { s with nodeInactive := s.nodeInactive.set n.addr n }
  | _ => gopanic "failed to set the node"

/-- `IsValidGigabytePrices` / `IsValidHourlyPrices`. -/
def pricesWithin (maxP minP prices : Coins) : Bool :=
  maxP.all (fun c => !(prices.amountOf c.denom > c.amount)) &&
  minP.all (fun c => !(prices.amountOf c.denom < c.amount))

def Node.gigabytePrice (n : Node) (d : Denom) : Option Coin := n.gb.find d
def Node.hourlyPrice (n : Node) (d : Denom) : Option Coin := n.hr.find d

/-! ### plan -/

def getPlan (s : State) (id : Nat) : Option Plan :=
  match s.planActive.get id with
  | some p => some p
  | none => s.planInactive.get id
def setPlan (s : State) (p : Plan) : M State :=
  match p.status with
  | .StatusActive => pure { s with planActive := s.planActive.set p.id p }
  | .StatusInactive => pure { s with planInactive := s.planInactive.set p.id p }
  | _ => gopanic "failed to set the plan"
def Plan.price (p : Plan) (d : Denom) : Option Coin := p.prices.find d

/-! ### iteration in store order -/

/-- Sort typed keys by their encoded bytes (the store's iteration order). -/
def sortKeys {κ : Type} (enc : κ → Bytes) (ks : List κ) : List κ :=
  ks.mergeSort (fun a b => bytesLe (enc a) (enc b))

end Hub.Model
