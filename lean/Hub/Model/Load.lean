import Hub.Model.Dump
/-
Loader: the inverse of `dump`.  It rebuilds a `State` from canonical dump lines, so that the
executable monitors (the Bool forms of the invariants the theorems are about) can be evaluated on
states *of the implementation* (the harness prints the same lines from the real stores).  This is
the "search the implementation for a failing input" half of the check: when the correspondence
breaks, the history up to the first implementation state on which a monitor fails is the replay.

A line that cannot be decoded (unknown prefix, key that does not re-encode to itself, value that
disagrees with its key) is reported as `bad` and makes the `wellFormed` monitor fail.
-/
namespace Hub.Model
open Hub.SDK
open Hub.Generated (Status)
open Hub.Generated.Keys

namespace Load

abbrev Fields := List (String × String)

def parseFields (parts : List String) : Fields :=
  parts.filterMap fun p =>
    match p.splitOn "=" with
    | k :: rest@(_ :: _) => some (k, "=".intercalate rest)
    | _ => none

def fget (f : Fields) (k : String) : String := ((f.find? (·.1 = k)).map (·.2)).getD ""
def fint (f : Fields) (k : String) : Int := (fget f k).toInt?.getD 0
def fnat (f : Fields) (k : String) : Nat := (fget f k).toNat?.getD 0
def fhex (f : Fields) (k : String) : Bytes := (ofHex (fget f k)).getD []

/-- `acc:hex` / `node:hex` / `prov:hex` / `-`. -/
def faddr (f : Fields) (k : String) : Addr :=
  match (fget f k).splitOn ":" with
  | [_, h] => (ofHex h).getD []
  | _ => []

def parseCoins (s : String) : Coins :=
  if s = "-" ∨ s = "" then []
  else (s.splitOn ",").map fun p =>
    let parts := p.splitOn ":"
    ⟨":".intercalate parts.dropLast, (parts.getLast?.getD "0").toInt?.getD 0⟩

def parseCoin (s : String) : Coin := (parseCoins s).headD ⟨"", 0⟩

def fstatus (f : Fields) (k : String) : Status :=
  match fint f k with
  | 1 => .StatusActive
  | 2 => .StatusInactivePending
  | 3 => .StatusInactive
  | _ => .StatusUnspecified

/-! ### key decoding: a key is a prefix followed by components -/

inductive Comp where | time | addr | u64
inductive CVal where | t (x : Time) | a (x : Addr) | n (x : Nat)

def daysFromCivil (y m d : Int) : Int :=
  let y := if m ≤ 2 then y - 1 else y
  let era := y / 400
  let yoe := y - era * 400
  let mp := if m > 2 then m - 3 else m + 9
  let doy := (153 * mp + 2) / 5 + d - 1
  let doe := yoe * 365 + yoe / 4 - yoe / 100 + doy
  era * 146097 + doe - 719468

def digitsVal (b : Bytes) : Option Int :=
  b.foldl (fun acc c => match acc with
    | none => none
    | some v => if 48 ≤ c.toNat ∧ c.toNat ≤ 57 then some (v * 10 + (c.toNat - 48 : Nat)) else none) (some 0)

/-- Inverse of `formatTimeBytes` on 29 bytes. -/
def parseTimeBytes (b : Bytes) : Option Time :=
  if b.length ≠ 29 then none else do
    let y ← digitsVal (b.take 4)
    let m ← digitsVal ((b.drop 5).take 2)
    let d ← digitsVal ((b.drop 8).take 2)
    let hh ← digitsVal ((b.drop 11).take 2)
    let mm ← digitsVal ((b.drop 14).take 2)
    let ss ← digitsVal ((b.drop 17).take 2)
    let ns ← digitsVal ((b.drop 20).take 9)
    some ((daysFromCivil y m d * 86400 + hh * 3600 + mm * 60 + ss) * 1000000000 + ns)

def decodeComps : List Comp → Bytes → Option (List CVal)
  | [], [] => some []
  | [], _ => none
  | .time :: cs, b => do
      let t ← parseTimeBytes (b.take 29)
      let rest ← decodeComps cs (b.drop 29)
      some (.t t :: rest)
  | .addr :: cs, b =>
      match b with
      | [] => none
      | l :: b' =>
        if b'.length < l.toNat then none else do
          let rest ← decodeComps cs (b'.drop l.toNat)
          some (.a (b'.take l.toNat) :: rest)
  | .u64 :: cs, b =>
      if b.length < 8 then none else do
        let rest ← decodeComps cs (b.drop 8)
        some (.n (beToNat (b.take 8)) :: rest)

def stripPrefix (p key : Bytes) : Option Bytes :=
  if p.isPrefixOf key then some (key.drop p.length) else none

end Load

open Load

/-- Result of loading: the state and the lines that could not be decoded. -/
structure Loaded where
  s : State := {}
  bad : List String := []

def Loaded.err (l : Loaded) (line : String) (why : String) : Loaded := { l with bad := (why ++ ": " ++ line) :: l.bad }

/-- A flag (index) entry: decode the key with `comps` after `pfx`, check it re-encodes, insert. -/
def loadFlag (l : Loaded) (line : String) (key pfx : Bytes) (comps : List Comp)
    (ins : State → List CVal → Option (State × Bytes)) : Loaded :=
  match stripPrefix pfx key with
  | none => l.err line "prefix"
  | some rest =>
    match decodeComps comps rest with
    | none => l.err line "undecodable key"
    | some vs =>
      match ins l.s vs with
      | none => l.err line "key shape"
      | some (s', again) => if again = key then { l with s := s' } else l.err line "key does not re-encode"

def providerOf (f : Fields) : Provider :=
  { addr := faddr f "addr", name := fhex f "name", identity := fhex f "identity", website := fhex f "website",
    desc := fhex f "desc", status := fstatus f "status", statusAt := fint f "statusAt" }

def nodeOf (f : Fields) : Node :=
  { addr := faddr f "addr", gb := parseCoins (fget f "gb"), hr := parseCoins (fget f "hr"), url := fhex f "url",
    inactiveAt := fint f "inactiveAt", status := fstatus f "status", statusAt := fint f "statusAt" }

def planOf (f : Fields) : Plan :=
  { id := fnat f "id", prov := faddr f "prov", dur := fint f "dur", gb := fint f "gb", prices := parseCoins (fget f "prices"),
    status := fstatus f "status", statusAt := fint f "statusAt" }

def subOf (f : Fields) : Sub :=
  { id := fnat f "id", addr := faddr f "addr", inactiveAt := fint f "inactiveAt", status := fstatus f "status",
    statusAt := fint f "statusAt",
    kind := if fget f "kind" = "node" then .node (faddr f "node") (fint f "gb") (fint f "hr") (parseCoin (fget f "dep"))
            else .plan (fnat f "plan") (fget f "denom") }

def allocOf (f : Fields) : Alloc :=
  { id := fnat f "id", addr := faddr f "addr", granted := fint f "granted", used := fint f "used" }

def payoutOf (f : Fields) : Payout :=
  { id := fnat f "id", addr := faddr f "addr", node := faddr f "node", hours := fint f "hours",
    price := parseCoin (fget f "price"), nextAt := fint f "nextAt" }

def sessionOf (f : Fields) : Session :=
  { id := fnat f "id", sub := fnat f "sub", node := faddr f "node", addr := faddr f "addr", up := fint f "up",
    down := fint f "down", dur := fint f "dur", inactiveAt := fint f "inactiveAt", status := fstatus f "status",
    statusAt := fint f "statusAt" }

/-- A primary record: the key is `pfx ++ comps`; the record is stored under the *key's* typed value
(a record whose own identity fields disagree with its key is what the monitors then see). -/
def loadVpn (l : Loaded) (line mod : String) (key : Bytes) (f : Fields) : Loaded :=
  let s := l.s
  let rec1 (pfx : Bytes) (c : Comp) (put : State → CVal → Option (State × Bytes)) : Loaded :=
    loadFlag l line key pfx [c] (fun s vs => match vs with | [v] => put s v | _ => none)
  match mod with
  | "deposit" =>
    rec1 deposit.DepositKeyPrefix .addr fun s v => match v with
      | .a a => some ({ s with deposits := s.deposits.set a (parseCoins (fget f "coins")) }, deposit.DepositKey a) | _ => none
  | "provider" =>
    if provider.ActiveProviderKeyPrefix.isPrefixOf key then
      rec1 provider.ActiveProviderKeyPrefix .addr fun s v => match v with
        | .a a => some ({ s with provActive := s.provActive.set a (providerOf f) }, provider.ActiveProviderKey a) | _ => none
    else
      rec1 provider.InactiveProviderKeyPrefix .addr fun s v => match v with
        | .a a => some ({ s with provInactive := s.provInactive.set a (providerOf f) }, provider.InactiveProviderKey a) | _ => none
  | "node" =>
    if node.ActiveNodeKeyPrefix.isPrefixOf key then
      rec1 node.ActiveNodeKeyPrefix .addr fun s v => match v with
        | .a a => some ({ s with nodeActive := s.nodeActive.set a (nodeOf f) }, node.ActiveNodeKey a) | _ => none
    else if node.InactiveNodeKeyPrefix.isPrefixOf key then
      rec1 node.InactiveNodeKeyPrefix .addr fun s v => match v with
        | .a a => some ({ s with nodeInactive := s.nodeInactive.set a (nodeOf f) }, node.InactiveNodeKey a) | _ => none
    else if node.NodeForInactiveAtKeyPrefix.isPrefixOf key then
      loadFlag l line key node.NodeForInactiveAtKeyPrefix [.time, .addr] fun s vs => match vs with
        | [.t t, .a a] => some ({ s with nodeQ := s.nodeQ.set (t, a) () }, node.NodeForInactiveAtKey t a) | _ => none
    else
      loadFlag l line key node.NodeForPlanKeyPrefix [.u64, .addr] fun s vs => match vs with
        | [.n i, .a a] => some ({ s with nodeForPlan := s.nodeForPlan.set (i, a) () }, node.NodeForPlanKey i a) | _ => none
  | "plan" =>
    if key = plan.CountKey then { l with s := { s with planCount := some (fnat f "n") } }
    else if plan.ActivePlanKeyPrefix.isPrefixOf key then
      rec1 plan.ActivePlanKeyPrefix .u64 fun s v => match v with
        | .n i => some ({ s with planActive := s.planActive.set i (planOf f) }, plan.ActivePlanKey i) | _ => none
    else if plan.InactivePlanKeyPrefix.isPrefixOf key then
      rec1 plan.InactivePlanKeyPrefix .u64 fun s v => match v with
        | .n i => some ({ s with planInactive := s.planInactive.set i (planOf f) }, plan.InactivePlanKey i) | _ => none
    else
      loadFlag l line key plan.PlanForProviderKeyPrefix [.addr, .u64] fun s vs => match vs with
        | [.a a, .n i] => some ({ s with planForProv := s.planForProv.set (a, i) () }, plan.PlanForProviderKey a i) | _ => none
  | "subscription" =>
    if key = subscription.CountKey then { l with s := { s with subCount := some (fnat f "n") } }
    else if subscription.SubscriptionKeyPrefix.isPrefixOf key then
      rec1 subscription.SubscriptionKeyPrefix .u64 fun s v => match v with
        | .n i => some ({ s with subs := s.subs.set i (subOf f) }, subscription.SubscriptionKey i) | _ => none
    else if subscription.SubscriptionForInactiveAtKeyPrefix.isPrefixOf key then
      loadFlag l line key subscription.SubscriptionForInactiveAtKeyPrefix [.time, .u64] fun s vs => match vs with
        | [.t t, .n i] => some ({ s with subQ := s.subQ.set (t, i) () }, subscription.SubscriptionForInactiveAtKey t i) | _ => none
    else if subscription.SubscriptionForAccountKeyPrefix.isPrefixOf key then
      loadFlag l line key subscription.SubscriptionForAccountKeyPrefix [.addr, .u64] fun s vs => match vs with
        | [.a a, .n i] => some ({ s with subForAcc := s.subForAcc.set (a, i) () }, subscription.SubscriptionForAccountKey a i) | _ => none
    else if subscription.SubscriptionForNodeKeyPrefix.isPrefixOf key then
      loadFlag l line key subscription.SubscriptionForNodeKeyPrefix [.addr, .u64] fun s vs => match vs with
        | [.a a, .n i] => some ({ s with subForNode := s.subForNode.set (a, i) () }, subscription.SubscriptionForNodeKey a i) | _ => none
    else if subscription.SubscriptionForPlanKeyPrefix.isPrefixOf key then
      loadFlag l line key subscription.SubscriptionForPlanKeyPrefix [.u64, .u64] fun s vs => match vs with
        | [.n p, .n i] => some ({ s with subForPlan := s.subForPlan.set (p, i) () }, subscription.SubscriptionForPlanKey p i) | _ => none
    else if subscription.AllocationKeyPrefix.isPrefixOf key then
      loadFlag l line key subscription.AllocationKeyPrefix [.u64, .addr] fun s vs => match vs with
        | [.n i, .a a] => some ({ s with allocs := s.allocs.set (i, a) (allocOf f) }, subscription.AllocationKey i a) | _ => none
    else if subscription.PayoutKeyPrefix.isPrefixOf key then
      rec1 subscription.PayoutKeyPrefix .u64 fun s v => match v with
        | .n i => some ({ s with payouts := s.payouts.set i (payoutOf f) }, subscription.PayoutKey i) | _ => none
    else if subscription.PayoutForNextAtKeyPrefix.isPrefixOf key then
      loadFlag l line key subscription.PayoutForNextAtKeyPrefix [.time, .u64] fun s vs => match vs with
        | [.t t, .n i] => some ({ s with payQ := s.payQ.set (t, i) () }, subscription.PayoutForNextAtKey t i) | _ => none
    else if subscription.PayoutForAccountKeyPrefix.isPrefixOf key then
      loadFlag l line key subscription.PayoutForAccountKeyPrefix [.addr, .u64] fun s vs => match vs with
        | [.a a, .n i] => some ({ s with payForAcc := s.payForAcc.set (a, i) () }, subscription.PayoutForAccountKey a i) | _ => none
    else if subscription.PayoutForNodeKeyPrefix.isPrefixOf key then
      loadFlag l line key subscription.PayoutForNodeKeyPrefix [.addr, .u64] fun s vs => match vs with
        | [.a a, .n i] => some ({ s with payForNode := s.payForNode.set (a, i) () }, subscription.PayoutForNodeKey a i) | _ => none
    else
      loadFlag l line key subscription.PayoutForAccountByNodeKeyPrefix [.addr, .addr, .u64] fun s vs => match vs with
        | [.a a, .a n, .n i] => some ({ s with payForAccNode := s.payForAccNode.set (a, n, i) () }, subscription.PayoutForAccountByNodeKey a n i) | _ => none
  | "session" =>
    if key = session.CountKey then { l with s := { s with sessCount := some (fnat f "n") } }
    else if session.SessionKeyPrefix.isPrefixOf key then
      rec1 session.SessionKeyPrefix .u64 fun s v => match v with
        | .n i => some ({ s with sessions := s.sessions.set i (sessionOf f) }, session.SessionKey i) | _ => none
    else if session.SessionForInactiveAtKeyPrefix.isPrefixOf key then
      loadFlag l line key session.SessionForInactiveAtKeyPrefix [.time, .u64] fun s vs => match vs with
        | [.t t, .n i] => some ({ s with sessQ := s.sessQ.set (t, i) () }, session.SessionForInactiveAtKey t i) | _ => none
    else if session.SessionForAccountKeyPrefix.isPrefixOf key then
      loadFlag l line key session.SessionForAccountKeyPrefix [.addr, .u64] fun s vs => match vs with
        | [.a a, .n i] => some ({ s with sessForAcc := s.sessForAcc.set (a, i) () }, session.SessionForAccountKey a i) | _ => none
    else if session.SessionForNodeKeyPrefix.isPrefixOf key then
      loadFlag l line key session.SessionForNodeKeyPrefix [.addr, .u64] fun s vs => match vs with
        | [.a a, .n i] => some ({ s with sessForNode := s.sessForNode.set (a, i) () }, session.SessionForNodeKey a i) | _ => none
    else if session.SessionForSubscriptionKeyPrefix.isPrefixOf key then
      loadFlag l line key session.SessionForSubscriptionKeyPrefix [.u64, .u64] fun s vs => match vs with
        | [.n p, .n i] => some ({ s with sessForSub := s.sessForSub.set (p, i) () }, session.SessionForSubscriptionKey p i) | _ => none
    else
      loadFlag l line key session.SessionForAllocationKeyPrefix [.u64, .addr, .u64] fun s vs => match vs with
        | [.n p, .a a, .n i] => some ({ s with sessForAlloc := s.sessForAlloc.set (p, a, i) () }, session.SessionForAllocationKey p a i) | _ => none
  | _ => l.err line "unknown module"

def loadParam (p : Params) (mod : String) (f : Fields) : Params :=
  match mod with
  | "provider" => { p with provDeposit := parseCoin (fget f "deposit"), provShare := fint f "share" }
  | "node" => { p with nodeDeposit := parseCoin (fget f "deposit"), activeDur := fint f "activeDur",
                       maxGB := parseCoins (fget f "maxGB"), minGB := parseCoins (fget f "minGB"),
                       maxHr := parseCoins (fget f "maxHr"), minHr := parseCoins (fget f "minHr"),
                       maxSubGB := fint f "maxSubGB", minSubGB := fint f "minSubGB", maxSubHr := fint f "maxSubHr",
                       minSubHr := fint f "minSubHr", nodeShare := fint f "share" }
  | "subscription" => { p with subDelay := fint f "delay" }
  | "session" => { p with sessDelay := fint f "delay", proof := fget f "proof" = "1" }
  | "swap" => { p with swapOn := fget f "on" = "1", swapDenom := fget f "denom", approveBy := faddr f "approveBy" }
  | _ => p

/-- Load one dump line (`S …`). -/
def loadLine (l : Loaded) (line : String) : Loaded :=
  let s := l.s
  match line.splitOn " " with
  | "S" :: "vpn" :: mod :: hexkey :: rest =>
    match ofHex hexkey with
    | some key => loadVpn l line mod key (parseFields rest)
    | none => l.err line "hex"
  | "S" :: "swap" :: hexkey :: rest =>
    let f := parseFields rest
    match (ofHex hexkey).bind (stripPrefix swap.SwapKeyPrefix) with
    | some h => if swap.SwapKey h = (ofHex hexkey).getD [] then
        { l with s := { s with swaps := s.swaps.set h { hash := fhex f "hash", recv := faddr f "recv", amt := parseCoin (fget f "amt") } } }
      else l.err line "key does not re-encode"
    | none => l.err line "prefix"
  | "S" :: "custommint" :: hexkey :: rest =>
    let f := parseFields rest
    let t := fint f "ts"
    if some (mint.InflationKey t) = ofHex hexkey then
      { l with s := { s with inflations := s.inflations.set t { ts := t, max := fint f "max", min := fint f "min", rate := fint f "rate" } } }
    else l.err line "key does not re-encode"
  | ["S", "bank", a, d, v] =>
    { l with s := { s with bank := s.bank.set ((ofHex a).getD [], d) (v.toInt?.getD 0) } }
  | ["S", "supply", d, v] => { l with s := { s with supply := s.supply.set d (v.toInt?.getD 0) } }
  | "S" :: "sdkmint" :: rest =>
    let f := parseFields rest
    { l with s := { s with mintMax := fint f "max", mintMin := fint f "min", mintRate := fint f "rate" } }
  | "S" :: "param" :: mod :: rest => { l with s := { s with params := loadParam s.params mod (parseFields rest) } }
  | _ => l.err line "unknown line"

/-- Load a whole dump.  `time` and the per-block `modified` flags are not part of the dump; the
caller supplies them from the operations seen so far. -/
def loadDump (lines : List String) (time : Time) (modified : Modified) : Loaded :=
  lines.foldl loadLine { s := { time := time, modified := modified } }

end Hub.Model
