import Hub.Model.Block
/-
Canonical observable state, in exactly the format the harness prints from the real stores:
one line per key/value of the hub stores (key = the *generated* key function applied to the typed
key, hex), tracked bank balances, supply, SDK mint parameters, hub parameters.
-/
namespace Hub.Model
open Hub.SDK
open Hub.Generated (Status)
open Hub.Generated.Keys

def st (x : Status) : String := toString x.toInt32

def vpnLine (mod : String) (key : Bytes) (val : String) : String :=
  "S vpn " ++ mod ++ " " ++ toHex key ++ " " ++ val

def flagLines {κ : Type} (mod : String) (enc : κ → Bytes) (t : Tbl κ Unit) : List String :=
  t.keys.map fun k => vpnLine mod (enc k) "1"

def countLine (mod : String) (key : Bytes) : Option Nat → List String
  | none => []
  | some n => [vpnLine mod key ("n=" ++ toString n)]

def providerVal (p : Provider) : String :=
  s!"addr={addrTxt .prov p.addr} name={toHex p.name} identity={toHex p.identity} website={toHex p.website} desc={toHex p.desc} status={st p.status} statusAt={p.statusAt}"

def nodeVal (n : Node) : String :=
  s!"addr={addrTxt .node n.addr} gb={n.gb.fmt} hr={n.hr.fmt} url={toHex n.url} inactiveAt={n.inactiveAt} status={st n.status} statusAt={n.statusAt}"

def planVal (p : Plan) : String :=
  s!"id={p.id} prov={addrTxt .prov p.prov} dur={p.dur} gb={p.gb} prices={p.prices.fmt} status={st p.status} statusAt={p.statusAt}"

def subVal (x : Sub) : String :=
  match x.kind with
  | .node node gb hr dep =>
    s!"kind=node id={x.id} addr={addrTxt .acc x.addr} inactiveAt={x.inactiveAt} status={st x.status} statusAt={x.statusAt} node={addrTxt .node node} gb={gb} hr={hr} dep={dep.fmt}"
  | .plan planId denom =>
    s!"kind=plan id={x.id} addr={addrTxt .acc x.addr} inactiveAt={x.inactiveAt} status={st x.status} statusAt={x.statusAt} plan={planId} denom={denom}"

def allocVal (a : Alloc) : String :=
  s!"id={a.id} addr={addrTxt .acc a.addr} granted={a.granted} used={a.used}"

def payoutVal (p : Payout) : String :=
  s!"id={p.id} addr={addrTxt .acc p.addr} node={addrTxt .node p.node} hours={p.hours} price={p.price.fmt} nextAt={p.nextAt}"

def sessionVal (x : Session) : String :=
  s!"id={x.id} sub={x.sub} node={addrTxt .node x.node} addr={addrTxt .acc x.addr} up={x.up} down={x.down} dur={x.dur} inactiveAt={x.inactiveAt} status={st x.status} statusAt={x.statusAt}"

def b01 (b : Bool) : String := if b then "1" else "0"

def paramLines (p : Params) : List String := [
  s!"S param provider deposit={p.provDeposit.fmt} share={p.provShare}",
  s!"S param node deposit={p.nodeDeposit.fmt} activeDur={p.activeDur} maxGB={p.maxGB.fmt} minGB={p.minGB.fmt} maxHr={p.maxHr.fmt} minHr={p.minHr.fmt} maxSubGB={p.maxSubGB} minSubGB={p.minSubGB} maxSubHr={p.maxSubHr} minSubHr={p.minSubHr} share={p.nodeShare}",
  s!"S param subscription delay={p.subDelay}",
  s!"S param session delay={p.sessDelay} proof={b01 p.proof}",
  s!"S param swap on={b01 p.swapOn} denom={p.swapDenom} approveBy={addrTxt .acc p.approveBy}"]

/-- All dump lines, sorted (byte order = `sort.Strings`). -/
def dump (s : State) : List String :=
  let ls : List String :=
    (s.deposits.map fun (a, c) => vpnLine "deposit" (deposit.DepositKey a) s!"addr={addrTxt .acc a} coins={c.fmt}") ++
    (s.provActive.map fun (a, p) => vpnLine "provider" (provider.ActiveProviderKey a) (providerVal p)) ++
    (s.provInactive.map fun (a, p) => vpnLine "provider" (provider.InactiveProviderKey a) (providerVal p)) ++
    (s.nodeActive.map fun (a, n) => vpnLine "node" (node.ActiveNodeKey a) (nodeVal n)) ++
    (s.nodeInactive.map fun (a, n) => vpnLine "node" (node.InactiveNodeKey a) (nodeVal n)) ++
    flagLines "node" (fun k : Time × Addr => node.NodeForInactiveAtKey k.1 k.2) s.nodeQ ++
    flagLines "node" (fun k : Nat × Addr => node.NodeForPlanKey k.1 k.2) s.nodeForPlan ++
    countLine "plan" plan.CountKey s.planCount ++
    (s.planActive.map fun (i, p) => vpnLine "plan" (plan.ActivePlanKey i) (planVal p)) ++
    (s.planInactive.map fun (i, p) => vpnLine "plan" (plan.InactivePlanKey i) (planVal p)) ++
    flagLines "plan" (fun k : Addr × Nat => plan.PlanForProviderKey k.1 k.2) s.planForProv ++
    countLine "subscription" subscription.CountKey s.subCount ++
    (s.subs.map fun (i, x) => vpnLine "subscription" (subscription.SubscriptionKey i) (subVal x)) ++
    flagLines "subscription" (fun k : Time × Nat => subscription.SubscriptionForInactiveAtKey k.1 k.2) s.subQ ++
    flagLines "subscription" (fun k : Addr × Nat => subscription.SubscriptionForAccountKey k.1 k.2) s.subForAcc ++
    flagLines "subscription" (fun k : Addr × Nat => subscription.SubscriptionForNodeKey k.1 k.2) s.subForNode ++
    flagLines "subscription" (fun k : Nat × Nat => subscription.SubscriptionForPlanKey k.1 k.2) s.subForPlan ++
    (s.allocs.map fun (k, a) => vpnLine "subscription" (subscription.AllocationKey k.1 k.2) (allocVal a)) ++
    (s.payouts.map fun (i, p) => vpnLine "subscription" (subscription.PayoutKey i) (payoutVal p)) ++
    flagLines "subscription" (fun k : Time × Nat => subscription.PayoutForNextAtKey k.1 k.2) s.payQ ++
    flagLines "subscription" (fun k : Addr × Nat => subscription.PayoutForAccountKey k.1 k.2) s.payForAcc ++
    flagLines "subscription" (fun k : Addr × Nat => subscription.PayoutForNodeKey k.1 k.2) s.payForNode ++
    flagLines "subscription" (fun k : Addr × Addr × Nat => subscription.PayoutForAccountByNodeKey k.1 k.2.1 k.2.2) s.payForAccNode ++
    countLine "session" session.CountKey s.sessCount ++
    (s.sessions.map fun (i, x) => vpnLine "session" (session.SessionKey i) (sessionVal x)) ++
    flagLines "session" (fun k : Time × Nat => session.SessionForInactiveAtKey k.1 k.2) s.sessQ ++
    flagLines "session" (fun k : Addr × Nat => session.SessionForAccountKey k.1 k.2) s.sessForAcc ++
    flagLines "session" (fun k : Addr × Nat => session.SessionForNodeKey k.1 k.2) s.sessForNode ++
    flagLines "session" (fun k : Nat × Nat => session.SessionForSubscriptionKey k.1 k.2) s.sessForSub ++
    flagLines "session" (fun k : Nat × Addr × Nat => session.SessionForAllocationKey k.1 k.2.1 k.2.2) s.sessForAlloc ++
    (s.swaps.map fun (h, w) => s!"S swap {toHex (swap.SwapKey h)} hash={toHex w.hash} recv={addrTxt .acc w.recv} amt={w.amt.fmt}") ++
    (s.inflations.map fun (t, i) => s!"S custommint {toHex (mint.InflationKey t)} ts={i.ts} max={i.max} min={i.min} rate={i.rate}") ++
    (s.bank.filterMap fun ((a, d), v) => if v = 0 then none else some s!"S bank {toHex a} {d} {v}") ++
    (s.supply.filterMap fun (d, v) => if v = 0 then none else some s!"S supply {d} {v}") ++
    [s!"S sdkmint max={s.mintMax} min={s.mintMin} rate={s.mintRate}"] ++
    paramLines s.params
  ls.mergeSort (fun a b => a ≤ b)

end Hub.Model
