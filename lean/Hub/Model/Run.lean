import Hub.Model.Inv
/-
Histories: a chain is driven by a list of operations — begin a block at a time, deliver a message,
apply a governance parameter change (at the position of the gov EndBlocker), end the block.
`runTrace` is the list of states after each operation, up to (excluding) a halting hook.
-/
namespace Hub.Model
open Hub.SDK

inductive Op where
  | tx (m : Msg)
  | begin (t : Time)
  | endB
  | gov (c : ParamChange)
  deriving Inhabited

def Msg.sender : Msg → Addr
  | .provRegister f .. | .provUpdate f .. | .nodeRegister f .. | .nodeUpdate f .. | .nodeStatus f ..
  | .nodeSubscribe f .. | .planCreate f .. | .planStatus f .. | .planLink f .. | .planUnlink f ..
  | .planSubscribe f .. | .subCancel f .. | .subAllocate f .. | .sessStart f .. | .sessUpdate f ..
  | .sessEnd f .. | .swap f .. => f.bytes

/-- One operation; `none` = the chain halted (an unrecovered panic in a block hook). -/
def step (s : State) : Op → Option State
  | .tx m => some (deliver s m).1
  | .begin t => match beginBlock s t with | .ok s' => some s' | .error _ => none
  | .endB => match endBlock s with | .ok s' => some s' | .error _ => none
  | .gov c => some ((gov s c).getD s)

/-- States after each operation of a history (stops at a halt). -/
def runTrace (s : State) : List Op → List State
  | [] => []
  | op :: rest => match step s op with
    | some s' => s' :: runTrace s' rest
    | none => []

/-- Final state of a history, `none` if it halted. -/
def run (s : State) : List Op → Option State
  | [] => some s
  | op :: rest => match step s op with
    | some s' => run s' rest
    | none => none

/-- D2: module accounts never sign hub messages; here: the escrow account does not. -/
def Op.senderOK : Op → Prop
  | .tx m => m.sender ≠ depositAddr
  | _ => True

def Op.isSwap : Op → Bool
  | .tx (.swap ..) => true
  | _ => false

/-- A genesis state of the configuration domain (D1): hub tables empty, any balances. -/
structure Genesis where
  time : Time
  params : Params
  balances : List (Addr × Denom × Int)
  keyed : Tbl Addr Nat := []
  inflations : List Inflation := []

def addBalance (s : State) (b : Addr × Denom × Int) : State :=
  if b.2.2 = 0 then s else
  let s1 := setBalance s b.1 b.2.1 (balance s b.1 b.2.1 + b.2.2)
  setSupply s1 b.2.1 (supplyOf s1 b.2.1 + b.2.2)

/-- The genesis state before balances: hub tables empty, counters written, SDK mint defaults. -/
def Genesis.base (g : Genesis) : State :=
  { time := g.time, params := g.params, keyed := g.keyed, planCount := some 0, sessCount := some 0,
    mintMax := 200000000000000000, mintMin := 70000000000000000, mintRate := 130000000000000000,
    minterInfl := 130000000000000000,
    -- InitGenesis writes every parameter (`SetParams`), which marks all four price-bound keys as modified in
    -- the params transient store; genesis and block 1 share one commit, so the first EndBlock runs the sweep
    modified := { maxGB := true, minGB := true, maxHr := true, minHr := true },
    inflations := g.inflations.foldl (fun t i => t.set i.ts i) [] }

def Genesis.state (g : Genesis) : State := g.balances.foldl addBalance g.base

end Hub.Model
