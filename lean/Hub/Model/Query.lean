import Hub.Model.Dump
import Hub.SDK.Paginate
/-
The gRPC query servers of the hub (x/{deposit,provider,node,plan,subscription,session,swap}/keeper/
query_server.go): 20 paged list handlers and 9 single-record getters, over the model state.

Every paged handler opens `prefix.NewStore(q.Store(ctx), P)` and hands it to the SDK paginator.  Here
the listing under `P` is built from the model tables: every record of the module store is keyed by its
GENERATED key function (`Hub.Generated.Keys`), `P` is stripped (`prefixStore`), and the rest is sorted
by key – which is what the prefix-store iterator yields.  The paginator is `Hub.SDK.Paginate`
(validated against the real `query.Paginate` / `query.FilteredPaginate`).

Per handler (file:line of /repo/x/<module>/keeper/query_server.go):

| kind                     | prefix store `P`                                   | paginator / callback                              |
|--------------------------|----------------------------------------------------|---------------------------------------------------|
| deposits                 | `DepositKeyPrefix` (deposit:56)                    | Paginate, unmarshal the value (59-67)             |
| providers                | status 1 → `ActiveProviderKeyPrefix`, 3 → `Inactive…`, else `ProviderKeyPrefix` (provider:60-69) | Paginate, unmarshal (70-78) |
| nodes                    | status 1 → `ActiveNodeKeyPrefix`, 3 → `Inactive…`, else `NodeKeyPrefix` (node:60-69) | Paginate, unmarshal (70-78)      |
| nodesForPlan             | `GetNodeForPlanKeyPrefix id` (node:95)             | FilteredPaginate, GATED: `!accumulate ⇒ false`; `GetNode key[1:]` (dangling ⇒ error); status test in the callback (98-114) |
| plans                    | status 1 → `ActivePlanKeyPrefix`, 3 → `Inactive…`, else `PlanKeyPrefix` (plan:60-69) | Paginate, unmarshal (70-78)      |
| plansForProvider         | `GetPlanForProviderKeyPrefix addr` (plan:95)       | FilteredPaginate, GATED; `GetPlan (BigEndianToUint64 key)` (dangling ⇒ error); status test in the callback (98-114) |
| subscriptions            | `SubscriptionKeyPrefix` (subscription:58)          | Paginate, unmarshal interface (61-74)             |
| subscriptionsForAccount  | `GetSubscriptionForAccountKeyPrefix addr` (96)     | Paginate, `GetSubscription (BigEndianToUint64 key)`, dangling ⇒ error (99-112) |
| subscriptionsForNode     | `GetSubscriptionForNodeKeyPrefix addr` (134)       | the same (137-150)                                |
| subscriptionsForPlan     | `GetSubscriptionForPlanKeyPrefix id` (167)         | the same (170-183)                                |
| allocations              | `GetAllocationForSubscriptionKeyPrefix id` (220)   | Paginate, unmarshal (223-231)                     |
| payouts                  | `PayoutKeyPrefix` (263)                            | Paginate, unmarshal (266-274)                     |
| payoutsForAccount        | `GetPayoutForAccountKeyPrefix addr` (296)          | Paginate, `GetPayout (BigEndianToUint64 key)`, dangling ⇒ error (299-307) |
| payoutsForNode           | `GetPayoutForNodeKeyPrefix addr` (329)             | the same (332-340)                                |
| sessions                 | `SessionKeyPrefix` (session:52)                    | Paginate, unmarshal (55-63)                       |
| sessionsForAccount       | `GetSessionForAccountKeyPrefix addr` (85)          | Paginate, `GetSession (BigEndianToUint64 key)`, dangling ⇒ error (88-96) |
| sessionsForNode          | `GetSessionForNodeKeyPrefix addr` (118)            | the same (121-129)                                |
| sessionsForSubscription  | `GetSessionForSubscriptionKeyPrefix id` (146)      | the same (149-157)                                |
| sessionsForAllocation    | `GetSessionForAllocationKeyPrefix id addr` (179)   | the same (182-190)                                |
| swaps                    | `SwapKeyPrefix` of the swap store (swap:53)        | FilteredPaginate, correct shape: always a hit, append iff `accumulate` (56-67) |

Only `providers`, `nodes`, `plans` select a partition by status (1 / 3; every other value, including
`STATUS_INACTIVE_PENDING`, lists both partitions – active records first); `nodesForPlan` and
`plansForProvider` compare the status inside the callback (`0` matches everything).

Core Lean only.
-/
namespace Hub.Model
open Hub.SDK
open Hub.SDK.Paginate
open Hub.Generated (Status)
open Hub.Generated.Keys

/-! ### Prefix stores over the model tables -/

/-- `some rest` when `key = pfx ++ rest`. -/
def stripPrefix : Bytes → Bytes → Option Bytes
  | [], k => some k
  | _ :: _, [] => none
  | p :: ps, k :: ks => if p = k then stripPrefix ps ks else none

/-- `prefix.NewStore(moduleStore, pfx)`: the records whose key starts with `pfx`, keyed by the rest,
in ascending key order. -/
def prefixStore {α : Type} (pfx : Bytes) (entries : List (Bytes × α)) : Store α :=
  (entries.filterMap fun (k, v) => (stripPrefix pfx k).map fun r => (r, v)).mergeSort
    (fun a b => bytesLe a.1 b.1)

/-! The records of each module store, under their full (generated) keys. -/

def depositEntries (s : State) : List (Bytes × (Addr × Coins)) :=
  s.deposits.map fun (a, c) => (deposit.DepositKey a, (a, c))

def providerEntries (s : State) : List (Bytes × Provider) :=
  (s.provActive.map fun (a, p) => (provider.ActiveProviderKey a, p)) ++
  (s.provInactive.map fun (a, p) => (provider.InactiveProviderKey a, p))

def nodeEntries (s : State) : List (Bytes × Node) :=
  (s.nodeActive.map fun (a, n) => (node.ActiveNodeKey a, n)) ++
  (s.nodeInactive.map fun (a, n) => (node.InactiveNodeKey a, n))

def nodeForPlanEntries (s : State) : List (Bytes × Unit) :=
  s.nodeForPlan.map fun (k, _) => (node.NodeForPlanKey k.1 k.2, ())

def planEntries (s : State) : List (Bytes × Plan) :=
  (s.planActive.map fun (i, p) => (plan.ActivePlanKey i, p)) ++
  (s.planInactive.map fun (i, p) => (plan.InactivePlanKey i, p))

def planForProvEntries (s : State) : List (Bytes × Unit) :=
  s.planForProv.map fun (k, _) => (plan.PlanForProviderKey k.1 k.2, ())

def subEntries (s : State) : List (Bytes × Sub) :=
  s.subs.map fun (i, x) => (subscription.SubscriptionKey i, x)

def subForAccEntries (s : State) : List (Bytes × Unit) :=
  s.subForAcc.map fun (k, _) => (subscription.SubscriptionForAccountKey k.1 k.2, ())

def subForNodeEntries (s : State) : List (Bytes × Unit) :=
  s.subForNode.map fun (k, _) => (subscription.SubscriptionForNodeKey k.1 k.2, ())

def subForPlanEntries (s : State) : List (Bytes × Unit) :=
  s.subForPlan.map fun (k, _) => (subscription.SubscriptionForPlanKey k.1 k.2, ())

def allocEntries (s : State) : List (Bytes × Alloc) :=
  s.allocs.map fun (k, a) => (subscription.AllocationKey k.1 k.2, a)

def payoutEntries (s : State) : List (Bytes × Payout) :=
  s.payouts.map fun (i, p) => (subscription.PayoutKey i, p)

def payForAccEntries (s : State) : List (Bytes × Unit) :=
  s.payForAcc.map fun (k, _) => (subscription.PayoutForAccountKey k.1 k.2, ())

def payForNodeEntries (s : State) : List (Bytes × Unit) :=
  s.payForNode.map fun (k, _) => (subscription.PayoutForNodeKey k.1 k.2, ())

def sessionEntries (s : State) : List (Bytes × Session) :=
  s.sessions.map fun (i, x) => (session.SessionKey i, x)

def sessForAccEntries (s : State) : List (Bytes × Unit) :=
  s.sessForAcc.map fun (k, _) => (session.SessionForAccountKey k.1 k.2, ())

def sessForNodeEntries (s : State) : List (Bytes × Unit) :=
  s.sessForNode.map fun (k, _) => (session.SessionForNodeKey k.1 k.2, ())

def sessForSubEntries (s : State) : List (Bytes × Unit) :=
  s.sessForSub.map fun (k, _) => (session.SessionForSubscriptionKey k.1 k.2, ())

def sessForAllocEntries (s : State) : List (Bytes × Unit) :=
  s.sessForAlloc.map fun (k, _) => (session.SessionForAllocationKey k.1 k.2.1 k.2.2, ())

def swapEntries (s : State) : List (Bytes × Swap) :=
  s.swaps.map fun (h, w) => (swap.SwapKey h, w)

/-! ### Record text (the text `dump.go` prints for the stored value) -/

def depositVal (d : Addr × Coins) : String := s!"addr={addrTxt .acc d.1} coins={d.2.fmt}"

def swapVal (w : Swap) : String := s!"hash={toHex w.hash} recv={addrTxt .acc w.recv} amt={w.amt.fmt}"

/-! ### The request -/

abbrev QFields := List (String × String)

def qget (f : QFields) (k : String) : Option String := (f.find? (·.1 = k)).map (·.2)
def qhas (f : QFields) (k : String) : Bool := (qget f k).isSome

/-- A decimal `uint64`; absent = 0. -/
def qU64 (f : QFields) (k : String) : Option Nat :=
  match qget f k with
  | none => some 0
  | some v =>
    if v.isEmpty ∨ !v.all Char.isDigit then none else
    match v.toNat? with
    | some n => if n < u64 then some n else none
    | none => none

/-- A decimal `int64` narrowed to `int32` the way Go's conversion does; absent = 0. -/
def qStatus (f : QFields) : Option Int :=
  match qget f "status" with
  | none => some 0
  | some v =>
    match v.toInt? with
    | some n =>
      if n < -9223372036854775808 ∨ n > 9223372036854775807 then none
      else
        let m := n.emod 4294967296
        some (if m ≥ 2147483648 then m - 4294967296 else m)
    | none => none

def qHexField (f : QFields) (k : String) : Option Bytes :=
  match qget f k with
  | none => some []
  | some v => ofHex v

def qRole (s : String) (dflt : Role) : Role :=
  if s = "acc" then .acc else if s = "node" then .node else if s = "prov" then .prov else dflt

/-- The address of the request as text: field `addr` (`node` when `addr` is absent), with the
`…role=` / `…bad=1` decorations of the line protocol. -/
def qAddrText (f : QFields) (dflt : Role) : Option TextAddr :=
  let k := if qhas f "addr" ∨ !qhas f "node" then "addr" else "node"
  match qHexField f k with
  | none => none
  | some b => some { role := qRole ((qget f (k ++ "role")).getD "") dflt, bytes := b, bad := qget f (k ++ "bad") = some "1" }

structure QReq where
  page : PageRequest
  status : Int
  id : Nat
  deriving Repr

/-- `none` = the line is malformed (the harness answers `reject:badreq`). -/
def parseQReq (f : QFields) : Option QReq := do
  let key ← match qget f "key" with
    | none => some none
    | some v => if v = "-" ∨ v = "" then some none else (ofHexChars v.toList).map some
  let offset ← qU64 f "offset"
  let limit ← qU64 f "limit"
  let status ← qStatus f
  let id ← if qhas f "id" then qU64 f "id" else qU64 f "sub"
  let _ ← qHexField f "addr"
  let _ ← qHexField f "node"
  let _ ← qHexField f "hash"
  pure { page := { key := key, offset := offset, limit := limit, countTotal := qget f "total" = some "1",
                   reverse := qget f "reverse" = some "1" },
         status := status, id := id }

/-! ### Answers -/

abbrev QAnswer := String × List String

def pageLine (r : PageResponse) : String := s!"Q page next={toHex (r.nextKey.getD [])} total={r.total}"

/-- A paginator error is an `Internal` gRPC error; the reverse-iterator panic is a panic. -/
def pagedAnswer {β : Type} (render : β → String) : Except String (List β × PageResponse) → QAnswer
  | .ok (items, resp) => ("accept", items.map (fun b => "Q item " ++ render b) ++ [pageLine resp])
  | .error e => if e.startsWith "panic" then ("reject:panic", []) else ("reject:internal", [])

def getterAnswer {β : Type} (render : β → String) : Option β → QAnswer
  | some b => ("accept", ["Q item " ++ render b])
  | none => ("reject:notfound", [])

def invalidAnswer : QAnswer := ("reject:invalid", [])

/-- `sdk.BigEndianToUint64(key)` followed by a keeper `Get…` (a short key panics in Go; index keys are 8 bytes). -/
def byIndexId {β : Type} (get : Nat → Option β) : Bytes → Unit → Option β := fun k _ =>
  match bigEndianToUint64 k with
  | .ok id => get id
  | .error _ => none

/-- The status selection of `QueryProviders` / `QueryNodes` / `QueryPlans`. -/
def statusPrefix (status : Int) (active inactive whole : Bytes) : Bytes :=
  if status = 1 then active else if status = 3 then inactive else whole

/-- `req.Status.Equal(StatusUnspecified) || item.Status.Equal(req.Status)`. -/
def statusMatches (req : Int) (item : Status) : Bool := req = 0 || item.toInt32 = req

/-- `types.BytesToHash`: the last 32 bytes, left-padded with zeros. -/
def toHash32 (b : Bytes) : Bytes :=
  if b.length > 32 then b.drop (b.length - 32) else List.replicate (32 - b.length) 0 ++ b

/-! ### The listings (exposed for proofs about paging) -/

def depositsStore (s : State) : Store (Addr × Coins) := prefixStore deposit.DepositKeyPrefix (depositEntries s)

def providersStore (s : State) (status : Int) : Store Provider :=
  prefixStore (statusPrefix status provider.ActiveProviderKeyPrefix provider.InactiveProviderKeyPrefix provider.ProviderKeyPrefix)
    (providerEntries s)

def nodesStore (s : State) (status : Int) : Store Node :=
  prefixStore (statusPrefix status node.ActiveNodeKeyPrefix node.InactiveNodeKeyPrefix node.NodeKeyPrefix) (nodeEntries s)

def nodesForPlanStore (s : State) (id : Nat) : Store Unit :=
  prefixStore (node.GetNodeForPlanKeyPrefix id) (nodeForPlanEntries s)

def plansStore (s : State) (status : Int) : Store Plan :=
  prefixStore (statusPrefix status plan.ActivePlanKeyPrefix plan.InactivePlanKeyPrefix plan.PlanKeyPrefix) (planEntries s)

def plansForProviderStore (s : State) (a : Addr) : Store Unit :=
  prefixStore (plan.GetPlanForProviderKeyPrefix a) (planForProvEntries s)

def subscriptionsStore (s : State) : Store Sub := prefixStore subscription.SubscriptionKeyPrefix (subEntries s)

def subscriptionsForAccountStore (s : State) (a : Addr) : Store Unit :=
  prefixStore (subscription.GetSubscriptionForAccountKeyPrefix a) (subForAccEntries s)

def subscriptionsForNodeStore (s : State) (a : Addr) : Store Unit :=
  prefixStore (subscription.GetSubscriptionForNodeKeyPrefix a) (subForNodeEntries s)

def subscriptionsForPlanStore (s : State) (id : Nat) : Store Unit :=
  prefixStore (subscription.GetSubscriptionForPlanKeyPrefix id) (subForPlanEntries s)

def allocationsStore (s : State) (id : Nat) : Store Alloc :=
  prefixStore (subscription.GetAllocationForSubscriptionKeyPrefix id) (allocEntries s)

def payoutsStore (s : State) : Store Payout := prefixStore subscription.PayoutKeyPrefix (payoutEntries s)

def payoutsForAccountStore (s : State) (a : Addr) : Store Unit :=
  prefixStore (subscription.GetPayoutForAccountKeyPrefix a) (payForAccEntries s)

def payoutsForNodeStore (s : State) (a : Addr) : Store Unit :=
  prefixStore (subscription.GetPayoutForNodeKeyPrefix a) (payForNodeEntries s)

def sessionsStore (s : State) : Store Session := prefixStore session.SessionKeyPrefix (sessionEntries s)

def sessionsForAccountStore (s : State) (a : Addr) : Store Unit :=
  prefixStore (session.GetSessionForAccountKeyPrefix a) (sessForAccEntries s)

def sessionsForNodeStore (s : State) (a : Addr) : Store Unit :=
  prefixStore (session.GetSessionForNodeKeyPrefix a) (sessForNodeEntries s)

def sessionsForSubscriptionStore (s : State) (id : Nat) : Store Unit :=
  prefixStore (session.GetSessionForSubscriptionKeyPrefix id) (sessForSubEntries s)

def sessionsForAllocationStore (s : State) (id : Nat) (a : Addr) : Store Unit :=
  prefixStore (session.GetSessionForAllocationKeyPrefix id a) (sessForAllocEntries s)

def swapsStore (s : State) : Store Swap := prefixStore swap.SwapKeyPrefix (swapEntries s)

/-! ### The paged handlers as functions of the state and the page request -/

def queryDeposits (s : State) (req : PageRequest) :=
  paginate (depositsStore s) req (Callback.appendAlways fun _ v => some v)

def queryProviders (s : State) (status : Int) (req : PageRequest) :=
  paginate (providersStore s status) req (Callback.appendAlways fun _ v => some v)

def queryNodes (s : State) (status : Int) (req : PageRequest) :=
  paginate (nodesStore s status) req (Callback.appendAlways fun _ v => some v)

/-- x/node/keeper/query_server.go:98-114 (`key[1:]` is the address behind its length byte). -/
def queryNodesForPlan (s : State) (id : Nat) (status : Int) (req : PageRequest) :=
  filteredPaginate (nodesForPlanStore s id) req
    (Callback.filter
      (fun k _ => match getNode s (k.drop 1) with | some n => statusMatches status n.status | none => false)
      (fun k _ => getNode s (k.drop 1)))

def queryPlans (s : State) (status : Int) (req : PageRequest) :=
  paginate (plansStore s status) req (Callback.appendAlways fun _ v => some v)

/-- x/plan/keeper/query_server.go:98-114. -/
def queryPlansForProvider (s : State) (a : Addr) (status : Int) (req : PageRequest) :=
  filteredPaginate (plansForProviderStore s a) req
    (Callback.filter
      (fun k v => match byIndexId (getPlan s) k v with | some p => statusMatches status p.status | none => false)
      (byIndexId (getPlan s)))

def querySubscriptions (s : State) (req : PageRequest) :=
  paginate (subscriptionsStore s) req (Callback.appendAlways fun _ v => some v)

def querySubscriptionsForAccount (s : State) (a : Addr) (req : PageRequest) :=
  paginate (subscriptionsForAccountStore s a) req (Callback.appendAlways (byIndexId s.subs.get))

def querySubscriptionsForNode (s : State) (a : Addr) (req : PageRequest) :=
  paginate (subscriptionsForNodeStore s a) req (Callback.appendAlways (byIndexId s.subs.get))

def querySubscriptionsForPlan (s : State) (id : Nat) (req : PageRequest) :=
  paginate (subscriptionsForPlanStore s id) req (Callback.appendAlways (byIndexId s.subs.get))

def queryAllocations (s : State) (id : Nat) (req : PageRequest) :=
  paginate (allocationsStore s id) req (Callback.appendAlways fun _ v => some v)

def queryPayouts (s : State) (req : PageRequest) :=
  paginate (payoutsStore s) req (Callback.appendAlways fun _ v => some v)

def queryPayoutsForAccount (s : State) (a : Addr) (req : PageRequest) :=
  paginate (payoutsForAccountStore s a) req (Callback.appendAlways (byIndexId s.payouts.get))

def queryPayoutsForNode (s : State) (a : Addr) (req : PageRequest) :=
  paginate (payoutsForNodeStore s a) req (Callback.appendAlways (byIndexId s.payouts.get))

def querySessions (s : State) (req : PageRequest) :=
  paginate (sessionsStore s) req (Callback.appendAlways fun _ v => some v)

def querySessionsForAccount (s : State) (a : Addr) (req : PageRequest) :=
  paginate (sessionsForAccountStore s a) req (Callback.appendAlways (byIndexId s.sessions.get))

def querySessionsForNode (s : State) (a : Addr) (req : PageRequest) :=
  paginate (sessionsForNodeStore s a) req (Callback.appendAlways (byIndexId s.sessions.get))

def querySessionsForSubscription (s : State) (id : Nat) (req : PageRequest) :=
  paginate (sessionsForSubscriptionStore s id) req (Callback.appendAlways (byIndexId s.sessions.get))

def querySessionsForAllocation (s : State) (id : Nat) (a : Addr) (req : PageRequest) :=
  paginate (sessionsForAllocationStore s id a) req (Callback.appendAlways (byIndexId s.sessions.get))

/-- x/swap/keeper/query_server.go:56-67. -/
def querySwaps (s : State) (req : PageRequest) :=
  filteredPaginate (swapsStore s) req (Callback.filter (fun _ _ => true) (fun _ v => some v))

/-! ### The line protocol -/

/-- With a parsed address of the wanted role, or the handler's `InvalidArgument`. -/
def withAddr (f : QFields) (want : Role) (k : Addr → QAnswer) : QAnswer :=
  match qAddrText f want with
  | none => ("reject:badreq", [])
  | some t =>
    match t.parse want with
    | some a => k a
    | none => invalidAnswer

/-- `query <kind> k=v …` ↦ the result class and the `Q` lines the harness prints from the real query
servers.  Only the part of the result before the first `:` is compared. -/
def runQuery (s : State) (kind : String) (fields : List (String × String)) : String × List String :=
  match parseQReq fields with
  | none => ("reject:badreq", [])
  | some r =>
    let pg := r.page
    match kind with
    | "deposits" => pagedAnswer depositVal (queryDeposits s pg)
    | "deposit" => withAddr fields .acc fun a => getterAnswer depositVal ((getDeposit s a).map fun c => (a, c))
    | "providers" => pagedAnswer providerVal (queryProviders s r.status pg)
    | "provider" => withAddr fields .prov fun a => getterAnswer providerVal (getProvider s a)
    | "nodes" => pagedAnswer nodeVal (queryNodes s r.status pg)
    | "nodesForPlan" => pagedAnswer nodeVal (queryNodesForPlan s r.id r.status pg)
    | "node" => withAddr fields .node fun a => getterAnswer nodeVal (getNode s a)
    | "plans" => pagedAnswer planVal (queryPlans s r.status pg)
    | "plansForProvider" => withAddr fields .prov fun a => pagedAnswer planVal (queryPlansForProvider s a r.status pg)
    | "plan" => getterAnswer planVal (getPlan s r.id)
    | "subscriptions" => pagedAnswer subVal (querySubscriptions s pg)
    | "subscriptionsForAccount" => withAddr fields .acc fun a => pagedAnswer subVal (querySubscriptionsForAccount s a pg)
    | "subscriptionsForNode" => withAddr fields .node fun a => pagedAnswer subVal (querySubscriptionsForNode s a pg)
    | "subscriptionsForPlan" => pagedAnswer subVal (querySubscriptionsForPlan s r.id pg)
    | "subscription" => getterAnswer subVal (s.subs.get r.id)
    | "allocations" => pagedAnswer allocVal (queryAllocations s r.id pg)
    | "allocation" => withAddr fields .acc fun a => getterAnswer allocVal (s.allocs.get (r.id, a))
    | "payouts" => pagedAnswer payoutVal (queryPayouts s pg)
    | "payoutsForAccount" => withAddr fields .acc fun a => pagedAnswer payoutVal (queryPayoutsForAccount s a pg)
    | "payoutsForNode" => withAddr fields .node fun a => pagedAnswer payoutVal (queryPayoutsForNode s a pg)
    | "payout" => getterAnswer payoutVal (s.payouts.get r.id)
    | "sessions" => pagedAnswer sessionVal (querySessions s pg)
    | "sessionsForAccount" => withAddr fields .acc fun a => pagedAnswer sessionVal (querySessionsForAccount s a pg)
    | "sessionsForNode" => withAddr fields .node fun a => pagedAnswer sessionVal (querySessionsForNode s a pg)
    | "sessionsForSubscription" => pagedAnswer sessionVal (querySessionsForSubscription s r.id pg)
    | "sessionsForAllocation" => withAddr fields .acc fun a => pagedAnswer sessionVal (querySessionsForAllocation s r.id a pg)
    | "session" => getterAnswer sessionVal (s.sessions.get r.id)
    | "swaps" => pagedAnswer swapVal (querySwaps s pg)
    | "swap" =>
      match qHexField fields "hash" with
      | some h => getterAnswer swapVal (s.swaps.get (toHash32 h))
      | none => ("reject:badreq", [])
    | _ => ("reject:error", [])

end Hub.Model
