import Hub.Model.Handlers
import Hub.Generated.Keys
/-
Begin/End-of-block processing: the hub's inflation hook, the payout hook, the node re-pricing sweep
and expiry, the session pass and the subscription pass, in the real module order
(app/module.go; x/vpn/abci.go; x/*/keeper/abci.go), plus governance parameter changes.
Hooks iterate a *snapshot* of the due queue keys (cachekv iterators copy the dirty set) and read
each record live; a missing record or a failing transfer is a panic, i.e. a chain halt.
-/
namespace Hub.Model
open Hub.SDK
open Hub.Generated (Status AmountForBytes GetProportionOfCoin Gigabyte)
open Hub.Generated.Keys

/-- A hook either completes or halts the chain (an unrecovered panic). -/
def haltOf {α} : M α → Except String α
  | .ok a => .ok a
  | .error (.reject m) => .error ("error: " ++ m)
  | .error (.panic m) => .error ("panic: " ++ m)

/-! ### custommint BeginBlock (x/mint/abci.go) -/

def inflationOrder (s : State) : List Inflation :=
  (sortKeys mint.InflationKey s.inflations.keys).filterMap (fun k => s.inflations.get k)

/-- Iterate the schedule in key order; stop at the first entry after the block time; apply and
delete every earlier one. -/
def mintBeginBlock (s : State) : State :=
  let rec go (s : State) : List Inflation → State
    | [] => s
    | item :: rest =>
      if item.ts > s.time then s
      else
        let s := { s with mintMax := item.max, mintMin := item.min, mintRate := item.rate, minterInfl := item.min }
        let s := { s with inflations := s.inflations.erase item.ts }
        go s rest
  go s (inflationOrder s)

/-! ### subscription BeginBlock: hourly payouts (x/subscription/keeper/abci.go) -/

/-- Keys of a `time|id` queue that are due at `t` (inclusive), in store order. -/
def dueIds (enc : Time → Nat → Bytes) (q : Tbl (Time × Nat) Unit) (t : Time) : List (Time × Nat) :=
  sortKeys (fun k => enc k.1 k.2) (q.keys.filter (fun k => k.1 ≤ t))

def payoutStep (s : State) (k : Time × Nat) : M State := do
  let some item := s.payouts.get k.2 | gopanic "payout for next at key does not exist"
  let s := { s with payQ := s.payQ.erase (item.nextAt, item.id) }
  let reward ← GetProportionOfCoin item.price s.params.nodeShare
  let s ← sendCoinFromDepositToModule s item.addr feeCollectorAddr reward
  let payAmt ← SInt.sub item.price.amount reward.amount
  if payAmt < 0 then gopanic "negative coin amount"
  let payment : Coin := ⟨item.price.denom, payAmt⟩
  let s ← sendCoinFromDepositToAccount s item.addr item.node payment
  let s := emit s (ev "sentinel.subscription.v2.EventPayForPayout"
    [("address", addrTxt .acc item.addr), ("node_address", addrTxt .node item.node), ("payment", payment.sdkString),
     ("staking_reward", reward.sdkString), ("id", toString item.id)])
  let item := { item with hours := item.hours - 1, nextAt := item.nextAt + hour }
  let item := if item.hours = 0 then { item with nextAt := zeroTime } else item
  let s := { s with payouts := s.payouts.set item.id item }
  pure (if item.hours > 0 then { s with payQ := s.payQ.set (item.nextAt, item.id) () } else s)

def subscriptionBeginBlock (s : State) : M State :=
  (dueIds subscription.PayoutForNextAtKey s.payQ s.time).foldlM payoutStep s

/-- BeginBlock of the whole application as far as the hub is concerned: custommint, then the SDK's
distribution sweep of the fee collector, then the vpn hook. -/
def beginBlock (s : State) (t : Time) : Except String State := do
  let s := { s with time := t, height := s.height + 1, events := [] }
  let s := mintBeginBlock s
  let s := distrSweep s
  haltOf (subscriptionBeginBlock s)

/-! ### node EndBlock (x/node/keeper/abci.go) -/

/-- One direction of the sweep for one price list: for every bound coin, replace the node's amount
when `viol amount bound`. `Sub` then `Add` of single coins. -/
def clampPrices (viol : Int → Int → Bool) (bounds : Coins) (prices : Coins) : Coins :=
  bounds.foldl (fun prices c =>
    let amount := prices.amountOf c.denom
    if viol amount c.amount then (prices.sub ⟨c.denom, amount⟩).add c else prices) prices

def nodeOrder (s : State) : List Addr :=
  sortKeys node.ActiveNodeKey s.nodeActive.keys ++ sortKeys node.InactiveNodeKey s.nodeInactive.keys

def nodeSweep (s : State) : M State :=
  let m := s.modified
  if !(m.maxGB || m.minGB || m.maxHr || m.minHr) then pure s else
  (nodeOrder s).foldlM (init := s) fun s a => do
    -- the iterator yields the snapshot value of the record
    let some item := getNode s a | gopanic "node vanished during sweep"
    let gb := if m.maxGB then clampPrices (· > ·) s.params.maxGB item.gb else item.gb
    let gb := if m.minGB then clampPrices (· < ·) s.params.minGB gb else gb
    let hr := if m.maxHr then clampPrices (· > ·) s.params.maxHr item.hr else item.hr
    let hr := if m.minHr then clampPrices (· < ·) s.params.minHr hr else hr
    let item := { item with gb, hr }
    let s ← setNode s item
    pure (emit s (ev "sentinel.node.v2.EventUpdateDetails"
      [("address", addrTxt .node item.addr), ("gigabyte_prices", txt item.gb.sdkString), ("hourly_prices", txt item.hr.sdkString),
       ("remote_url", "-")]))

def dueNodes (s : State) : List (Time × Addr) :=
  sortKeys (fun k => node.NodeForInactiveAtKey k.1 k.2) (s.nodeQ.keys.filter (fun k => k.1 ≤ s.time))

def nodeExpire (s : State) : M State :=
  (dueNodes s).foldlM (init := s) fun s k => do
    let some item := getNode s k.2 | gopanic "node for inactive at key does not exist"
    let s := { s with nodeActive := s.nodeActive.erase item.addr }
    let s := { s with nodeQ := s.nodeQ.erase (item.inactiveAt, item.addr) }
    let item := { item with inactiveAt := zeroTime, status := .StatusInactive, statusAt := s.time }
    let s ← setNode s item
    pure (emit s (ev "sentinel.node.v2.EventUpdateStatus" [("status", Status.StatusInactive.String), ("address", addrTxt .node item.addr)]))

def nodeEndBlock (s : State) : M State := do
  let s ← nodeSweep s
  nodeExpire s

/-! ### subscription hooks (x/subscription/keeper/hooks.go) -/

def subGigabytePrice (dep : Coin) (gb : Int) : M Coin := do
  let a ← SInt.quo dep.amount gb
  newCoin dep.denom a

/-- `SessionInactiveHook`: account the session's bytes against the allocation and, for a
per-gigabyte node subscription, pay the node and the fee collector out of the escrow. -/
def sessionInactiveHook (s : State) (id : Nat) (acc node : Addr) (bytes : Int) : M State := do
  let some x := s.sessions.get id | reject "session does not exist"
  if x.status ≠ .StatusInactivePending then reject "invalid status for session"
  let some sub := s.subs.get x.sub | reject "subscription does not exist"
  if isHourly sub then return s
  let some a := s.allocs.get (sub.id, acc) | reject "subscription allocation does not exist"
  let gbInfo : Option (Coin × Int) := match sub.kind with
    | .node _ gb _ dep => if gb ≠ 0 then some (dep, gb) else none
    | _ => none
  let mut price : Coin := ⟨"", 0⟩
  let mut previous : Int := 0
  if let some (dep, gb) := gbInfo then
    price ← subGigabytePrice dep gb
    previous ← AmountForBytes price.amount a.used
  let used ← SInt.add a.used bytes
  let a := { a with used := if used > a.granted then a.granted else used }
  let s := emit (setAllocation s a) (evAllocate a)
  if gbInfo.isSome then
    let current ← AmountForBytes price.amount a.used
    let payAmt ← SInt.sub current previous
    let payment ← newCoin price.denom payAmt
    let reward ← GetProportionOfCoin payment s.params.nodeShare
    let s ← sendCoinFromDepositToModule s acc feeCollectorAddr reward
    let netAmt ← SInt.sub payment.amount reward.amount
    if netAmt < 0 then gopanic "negative coin amount"
    let net : Coin := ⟨payment.denom, netAmt⟩
    let s ← sendCoinFromDepositToAccount s acc node net
    return emit s (ev "sentinel.subscription.v2.EventPayForSession"
      [("address", addrTxt .acc x.addr), ("node_address", addrTxt .node x.node), ("payment", net.sdkString),
       ("staking_reward", reward.sdkString), ("session_id", toString x.id), ("subscription_id", toString x.sub)])
  pure s

/-! ### session EndBlock (x/session/keeper/abci.go) -/

def sessionStep (s : State) (k : Time × Nat) : M State := do
  let some item := s.sessions.get k.2 | gopanic "session for inactive at key does not exist"
  let s := { s with sessQ := s.sessQ.erase (item.inactiveAt, item.id) }
  if item.status = .StatusActive then
    let item := { item with inactiveAt := s.time + s.params.sessDelay, status := .StatusInactivePending, statusAt := s.time }
    let s := { s with sessions := s.sessions.set item.id item }
    let s := { s with sessQ := s.sessQ.set (item.inactiveAt, item.id) () }
    return emit s (evSessionStatus item .StatusInactivePending)
  let bytes ← SInt.add item.up item.down
  let s ← match sessionInactiveHook s item.id item.addr item.node bytes with
    | .ok s => pure s
    | .error (.reject m) => gopanic m      -- `if err != nil { panic(err) }`
    | .error e => .error e
  let s := { s with sessions := s.sessions.erase item.id }
  let s := { s with sessForAcc := s.sessForAcc.erase (item.addr, item.id) }
  let s := { s with sessForNode := s.sessForNode.erase (item.node, item.id) }
  let s := { s with sessForSub := s.sessForSub.erase (item.sub, item.id) }
  let s := { s with sessForAlloc := s.sessForAlloc.erase (item.sub, item.addr, item.id) }
  pure (emit s (evSessionStatus item .StatusInactive))

def sessionEndBlock (s : State) : M State :=
  (dueIds session.SessionForInactiveAtKey s.sessQ s.time).foldlM sessionStep s

/-! ### subscription EndBlock (x/subscription/keeper/abci.go) -/

def panicIfErr (r : M State) : M State :=
  match r with
  | .error (.reject m) => gopanic m
  | r => r

def evRefund (sub : Sub) (c : Coin) : Event :=
  ev "sentinel.subscription.v2.EventRefund" [("address", addrTxt .acc sub.addr), ("amount", c.sdkString), ("id", toString sub.id)]

def allocAddrsForSub (s : State) (id : Nat) : List Addr :=
  (sortKeys (fun k => subscription.AllocationKey k.1 k.2) (s.allocs.keys.filter (·.1 = id))).map (·.2)

def subscriptionStep (delay : Dur) (s : State) (k : Time × Nat) : M State := do
  let some item := s.subs.get k.2 | gopanic "subscription for inactive at key does not exist"
  let s := { s with subQ := s.subQ.erase (item.inactiveAt, item.id) }
  if item.status = .StatusActive then
    let s ← panicIfErr (subscriptionInactivePendingHook s item.id)
    let item := { item with inactiveAt := s.time + delay, status := .StatusInactivePending, statusAt := s.time }
    let s := { s with subs := s.subs.set item.id item }
    let s := { s with subQ := s.subQ.set (item.inactiveAt, item.id) () }
    let s := emit s (evSubStatus item .StatusInactivePending)
    return ← detachPayout s item (gopanic "payout for subscription does not exist")
  let mut s := s
  if let .node _ gb hr dep := item.kind then
    if gb ≠ 0 then
      let price ← subGigabytePrice dep gb
      let some a := s.allocs.get (item.id, item.addr) | gopanic "subscription allocation does not exist"
      let paid ← AmountForBytes price.amount a.used
      let refundAmt ← SInt.sub dep.amount paid
      let refund ← newCoin dep.denom refundAmt
      s ← panicIfErr (subtractDeposit s item.addr refund)
      s := emit s (evRefund item refund)
    if hr ≠ 0 then
      let some p := s.payouts.get item.id | gopanic "payout for subscription does not exist"
      let refundAmt ← SInt.mul p.price.amount p.hours
      let refund ← newCoin p.price.denom refundAmt
      s ← panicIfErr (subtractDeposit s p.addr refund)
      s := emit s (evRefund item refund)
  match item.kind with
  | .node node _ _ _ =>
    s := { s with subForNode := s.subForNode.erase (node, item.id) }
    s := { s with allocs := s.allocs.erase (item.id, item.addr) }
    s := { s with subForAcc := s.subForAcc.erase (item.addr, item.id) }
  | .plan planId _ =>
    s := { s with subForPlan := s.subForPlan.erase (planId, item.id) }
    for a in allocAddrsForSub s item.id do
      s := { s with allocs := s.allocs.erase (item.id, a) }
      s := { s with subForAcc := s.subForAcc.erase (a, item.id) }
  s := { s with subs := s.subs.erase item.id }
  s := emit s (evSubStatus item .StatusInactive)
  if isHourly item then
    let some p := s.payouts.get item.id | gopanic "payout for subscription does not exist"
    s := { s with payouts := s.payouts.erase p.id }
    s := { s with payForAcc := s.payForAcc.erase (p.addr, p.id) }
    s := { s with payForNode := s.payForNode.erase (p.node, p.id) }
  pure s

def subscriptionEndBlock (s : State) : M State :=
  (dueIds subscription.SubscriptionForInactiveAtKey s.subQ s.time).foldlM (subscriptionStep s.params.subDelay) s

/-- vpn EndBlock (node, session, subscription) and Commit (the params transient store is reset). -/
def endBlock (s : State) : Except String State := do
  let s := { s with events := [] }
  let s ← haltOf (nodeEndBlock s)
  let s ← haltOf (sessionEndBlock s)
  let s ← haltOf (subscriptionEndBlock s)
  pure { s with modified := {} }

/-! ### governance: one parameter change (`Subspace.Update`) -/

inductive ParamChange where
  | provDeposit (c : Coin) | provShare (d : Dec)
  | nodeDeposit (c : Coin) | activeDur (d : Dur)
  | maxGB (c : Option Coins) | minGB (c : Option Coins) | maxHr (c : Option Coins) | minHr (c : Option Coins)
  | maxSubGB (i : Int) | minSubGB (i : Int) | maxSubHr (i : Int) | minSubHr (i : Int)
  | nodeShare (d : Dec)
  | subDelay (d : Dur) | sessDelay (d : Dur) | proof (b : Bool)
  | swapOn (b : Bool) | swapDenom (d : Denom) | approveBy (a : TextAddr)
  deriving Repr, Inhabited

def validCoinParam (c : Coin) : Bool := c.amount ≥ 0 && validDenom c.denom
def validShare (d : Dec) : Bool := d ≥ 0 && d ≤ decUnit
def validPriceParam : Option Coins → Bool
  | none => true
  | some cs => cs.isValid

/-- The registered validator of each key, then `Set` (which marks the key as modified). -/
def gov (s : State) (c : ParamChange) : Option State :=
  let p := s.params
  match c with
  | .provDeposit c => if validCoinParam c then some { s with params := { p with provDeposit := c } } else none
  | .provShare d => if validShare d then some { s with params := { p with provShare := d } } else none
  | .nodeDeposit c => if validCoinParam c then some { s with params := { p with nodeDeposit := c } } else none
  | .activeDur d => if d > 0 then some { s with params := { p with activeDur := d } } else none
  | .maxGB c => if validPriceParam c then some { s with params := { p with maxGB := c.getD [] }, modified := { s.modified with maxGB := true } } else none
  | .minGB c => if validPriceParam c then some { s with params := { p with minGB := c.getD [] }, modified := { s.modified with minGB := true } } else none
  | .maxHr c => if validPriceParam c then some { s with params := { p with maxHr := c.getD [] }, modified := { s.modified with maxHr := true } } else none
  | .minHr c => if validPriceParam c then some { s with params := { p with minHr := c.getD [] }, modified := { s.modified with minHr := true } } else none
  | .maxSubGB i => if i > 0 then some { s with params := { p with maxSubGB := i } } else none
  | .minSubGB i => if i > 0 then some { s with params := { p with minSubGB := i } } else none
  | .maxSubHr i => if i > 0 then some { s with params := { p with maxSubHr := i } } else none
  | .minSubHr i => if i > 0 then some { s with params := { p with minSubHr := i } } else none
  | .nodeShare d => if validShare d then some { s with params := { p with nodeShare := d } } else none
  | .subDelay d => if d > 0 then some { s with params := { p with subDelay := d } } else none
  | .sessDelay d => if d > 0 then some { s with params := { p with sessDelay := d } } else none
  | .proof b => some { s with params := { p with proof := b } }
  | .swapOn b => some { s with params := { p with swapOn := b } }
  | .swapDenom d => if validDenom d then some { s with params := { p with swapDenom := d } } else none
  | .approveBy a => match a.parse .acc with
    | some b => some { s with params := { p with approveBy := b } }
    | none => none

end Hub.Model
