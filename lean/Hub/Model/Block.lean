import Hub.Model.Handlers
import Hub.Generated.Keys
/-
Begin/End-of-block processing: the hub's inflation hook, the payout hook, the node re-pricing sweep
and expiry, the session pass and the subscription pass, in the real module order
(app/module.go; x/vpn/abci.go; x/*/keeper/abci.go), plus governance parameter changes.
Hooks iterate a *snapshot* of the due queue keys (cachekv iterators copy the dirty set) and read
each record live; a missing record or a failing transfer is a panic, i.e. a chain halt.
-/
namespace Hub.Model
open Hub.SDK
open Hub.Generated (Status AmountForBytes GetProportionOfCoin Gigabyte)
open Hub.Generated.Keys

/-- A hook either completes or halts the chain (an unrecovered panic). -/
def haltOf {α} : M α → Except String α
  | .ok a => .ok a
  | .error (.reject m) => .error ("error: " ++ m)
  | .error (.panic m) => .error ("panic: " ++ m)

/-! ### custommint BeginBlock (x/mint/abci.go) -/

def inflationOrder (s : State) : List Inflation :=
  (sortKeys mint.InflationKey s.inflations.keys).filterMap (fun k => s.inflations.get k)

/-- Iterate the schedule in key order; stop at the first entry after the block time; apply and
delete every earlier one. -/
def mintBeginBlock (s : State) : State :=
  let rec go (s : State) : List Inflation → State
    | [] => s
    | item :: rest =>
      if item.ts > s.time then s
      else
        let s := { s with mintMax := item.max, mintMin := item.min, mintRate := item.rate, minterInfl := item.min }
        let s := { s with inflations := s.inflations.erase item.ts }
        go s rest
  go s (inflationOrder s)

/-! ### subscription BeginBlock: hourly payouts (x/subscription/keeper/abci.go) -/

/-- Keys of a `time|id` queue that are due at `t` (inclusive), in store order. -/
def dueIds (enc : Time → Nat → Bytes) (q : Tbl (Time × Nat) Unit) (t : Time) : List (Time × Nat) :=
  sortKeys (fun k => enc k.1 k.2) (q.keys.filter (fun k => k.1 ≤ t))

/-- After an hourly payment: one hour fewer, next due one hour later (cleared when exhausted). -/
def payoutAdvance (p : Payout) : Payout :=
  let p := { p with hours := p.hours - 1, nextAt := p.nextAt + hour }
  if p.hours = 0 then { p with nextAt := zeroTime } else p

def payoutStep (s : State) (k : Time × Nat) : M State := do
  let item ← orPanic (s.payouts.get k.2) "payout for next at key does not exist"
  let s1 := { s with payQ := s.payQ.erase (item.nextAt, item.id) }
  let reward ← GetProportionOfCoin item.price s.params.nodeShare
  let s2 ← sendCoinFromDepositToModule s1 item.addr feeCollectorAddr reward
  let payAmt ← SInt.sub item.price.amount reward.amount
  requireP (decide (0 ≤ payAmt)) "negative coin amount"
  let payment : Coin := ⟨item.price.denom, payAmt⟩
  let s3 ← sendCoinFromDepositToAccount s2 item.addr item.node payment
  let s4 := emit s3 (ev "sentinel.subscription.v2.EventPayForPayout"
    [("address", addrTxt .acc item.addr), ("node_address", addrTxt .node item.node), ("payment", payment.sdkString),
     ("staking_reward", reward.sdkString), ("id", toString item.id)])
  let item' := payoutAdvance item
  let s5 := { s4 with payouts := s4.payouts.set item'.id item' }
  pure (if item'.hours > 0 then { s5 with payQ := s5.payQ.set (item'.nextAt, item'.id) () } else s5)

/-- In a hook an error returned by a keeper call is turned into a panic (`if err != nil { panic(err) }`). -/
def panicIfErr {α} (r : M α) : M α :=
  match r with
  | .error (.reject m) => gopanic m
  | r => r

def subscriptionBeginBlock (s : State) : M State :=
  (dueIds subscription.PayoutForNextAtKey s.payQ s.time).foldlM (fun s k => panicIfErr (payoutStep s k)) s

/-- BeginBlock of the whole application as far as the hub is concerned: custommint, then the SDK's
distribution sweep of the fee collector, then the vpn hook. -/
def beginBlock (s : State) (t : Time) : Except String State :=
  haltOf (subscriptionBeginBlock (distrSweep (mintBeginBlock { s with time := t, height := s.height + 1, events := [] })))

/-! ### node EndBlock (x/node/keeper/abci.go) -/

/-- One direction of the sweep for one price list: for every bound coin, replace the node's amount
when `viol amount bound`. `Sub` then `Add` of single coins. -/
def clampPrices (viol : Int → Int → Bool) (bounds : Coins) (prices : Coins) : Coins :=
  bounds.foldl (fun prices c =>
    if viol (prices.amountOf c.denom) c.amount then (prices.sub ⟨c.denom, prices.amountOf c.denom⟩).add c else prices) prices

def nodeOrder (s : State) : List Addr :=
  sortKeys node.ActiveNodeKey s.nodeActive.keys ++ sortKeys node.InactiveNodeKey s.nodeInactive.keys

/-- The node record after the re-pricing sweep. -/
def sweepNode (p : Params) (m : Modified) (item : Node) : Node :=
  let gb := if m.maxGB then clampPrices (· > ·) p.maxGB item.gb else item.gb
  let gb := if m.minGB then clampPrices (· < ·) p.minGB gb else gb
  let hr := if m.maxHr then clampPrices (· > ·) p.maxHr item.hr else item.hr
  let hr := if m.minHr then clampPrices (· < ·) p.minHr hr else hr
  { item with gb, hr }

def nodeSweep (s : State) : M State :=
  if !(s.modified.maxGB || s.modified.minGB || s.modified.maxHr || s.modified.minHr) then pure s else
  (nodeOrder s).foldlM (init := s) fun s a => do
    let item ← orPanic (getNode s a) "node vanished during sweep"
    let item' := sweepNode s.params s.modified item
    let s1 ← setNode s item'
    pure (emit s1 (ev "sentinel.node.v2.EventUpdateDetails"
      [("address", addrTxt .node item'.addr), ("gigabyte_prices", txt item'.gb.sdkString), ("hourly_prices", txt item'.hr.sdkString),
       ("remote_url", "-")]))

def dueNodes (s : State) : List (Time × Addr) :=
  sortKeys (fun k => node.NodeForInactiveAtKey k.1 k.2) (s.nodeQ.keys.filter (fun k => k.1 ≤ s.time))

def nodeExpireStep (s : State) (k : Time × Addr) : M State := do
  let item ← orPanic (getNode s k.2) "node for inactive at key does not exist"
  let s1 := { s with nodeActive := s.nodeActive.erase item.addr }
  let s2 := { s1 with nodeQ := s1.nodeQ.erase (item.inactiveAt, item.addr) }
  let s3 ← setNode s2 { item with inactiveAt := zeroTime, status := .StatusInactive, statusAt := s.time }
  pure (emit s3 (ev "sentinel.node.v2.EventUpdateStatus" [("status", Status.StatusInactive.String), ("address", addrTxt .node item.addr)]))

def nodeExpire (s : State) : M State := (dueNodes s).foldlM nodeExpireStep s

def nodeEndBlock (s : State) : M State := do
  let s1 ← nodeSweep s
  nodeExpire s1

/-! ### subscription hooks (x/subscription/keeper/hooks.go) -/

def subGigabytePrice (dep : Coin) (gb : Int) : M Coin := do
  let a ← SInt.quo dep.amount gb
  newCoin dep.denom a

/-- (deposit, gigabytes) of a per-gigabyte node subscription. -/
def gbInfo (sub : Sub) : Option (Coin × Int) :=
  match sub.kind with
  | .node _ gb _ dep => if gb ≠ 0 then some (dep, gb) else none
  | _ => none

/-- The allocation after accounting `bytes` more: clamped at the grant. -/
def allocAfterUse (a : Alloc) (used : Int) : Alloc := { a with used := if used > a.granted then a.granted else used }

/-- The payment part of `SessionInactiveHook` for a per-gigabyte node subscription. -/
def settleSession (s : State) (x : Session) (acc node : Addr) (dep : Coin) (gb : Int) (before after : Int) : M State := do
  let price ← subGigabytePrice dep gb
  let previous ← AmountForBytes price.amount before
  let current ← AmountForBytes price.amount after
  let payAmt ← SInt.sub current previous
  let payment ← newCoin price.denom payAmt
  let reward ← GetProportionOfCoin payment s.params.nodeShare
  let s1 ← sendCoinFromDepositToModule s acc feeCollectorAddr reward
  let netAmt ← SInt.sub payment.amount reward.amount
  requireP (decide (0 ≤ netAmt)) "negative coin amount"
  let net : Coin := ⟨payment.denom, netAmt⟩
  let s2 ← sendCoinFromDepositToAccount s1 acc node net
  pure (emit s2 (ev "sentinel.subscription.v2.EventPayForSession"
    [("address", addrTxt .acc x.addr), ("node_address", addrTxt .node x.node), ("payment", net.sdkString),
     ("staking_reward", reward.sdkString), ("session_id", toString x.id), ("subscription_id", toString x.sub)]))

/-- `SessionInactiveHook`: account the session's bytes against the allocation and, for a
per-gigabyte node subscription, pay the node and the fee collector out of the escrow. -/
def sessionInactiveHook (s : State) (id : Nat) (acc node : Addr) (bytes : Int) : M State := do
  let x ← orReject (s.sessions.get id) "session does not exist"
  require (x.status = .StatusInactivePending) "invalid status for session"
  let sub ← orReject (s.subs.get x.sub) "subscription does not exist"
  if isHourly sub then pure s else do
    let a ← orReject (s.allocs.get (sub.id, acc)) "subscription allocation does not exist"
    -- `previousAmount` is computed before the allocation is updated; it only reads `a.used`
    let used ← SInt.add a.used bytes
    let a' := allocAfterUse a used
    let s1 := emit (setAllocation s a') (evAllocate a')
    match gbInfo sub with
    | some (dep, gb) => settleSession s1 x acc node dep gb a.used a'.used
    | none => pure s1

/-! ### session EndBlock (x/session/keeper/abci.go) -/

def removeSession (s : State) (item : Session) : State :=
  let s := { s with sessions := s.sessions.erase item.id }
  let s := { s with sessForAcc := s.sessForAcc.erase (item.addr, item.id) }
  let s := { s with sessForNode := s.sessForNode.erase (item.node, item.id) }
  let s := { s with sessForSub := s.sessForSub.erase (item.sub, item.id) }
  let s := { s with sessForAlloc := s.sessForAlloc.erase (item.sub, item.addr, item.id) }
  emit s (evSessionStatus item .StatusInactive)

def sessionStep (s : State) (k : Time × Nat) : M State := do
  let item ← orPanic (s.sessions.get k.2) "session for inactive at key does not exist"
  if item.status = .StatusActive then pure (sessionToPending s item) else do
    let s1 := { s with sessQ := s.sessQ.erase (item.inactiveAt, item.id) }
    let bytes ← Hub.Generated.Bandwidth.Sum ⟨item.up, item.down⟩
    let s2 ← panicIfErr (sessionInactiveHook s1 item.id item.addr item.node bytes)
    pure (removeSession s2 item)

def sessionEndBlock (s : State) : M State :=
  (dueIds session.SessionForInactiveAtKey s.sessQ s.time).foldlM sessionStep s

/-! ### subscription EndBlock (x/subscription/keeper/abci.go) -/

def evRefund (sub : Sub) (c : Coin) : Event :=
  ev "sentinel.subscription.v2.EventRefund" [("address", addrTxt .acc sub.addr), ("amount", c.sdkString), ("id", toString sub.id)]

def allocAddrsForSub (s : State) (id : Nat) : List Addr :=
  (sortKeys (fun k => subscription.AllocationKey k.1 k.2) (s.allocs.keys.filter (·.1 = id))).map (·.2)

/-- Refund of a removed per-gigabyte node subscription: deposit minus the price of the used bytes. -/
def refundGB (s : State) (item : Sub) (dep : Coin) (gb : Int) : M State := do
  let price ← subGigabytePrice dep gb
  let a ← orPanic (s.allocs.get (item.id, item.addr)) "subscription allocation does not exist"
  let paid ← AmountForBytes price.amount a.used
  let refundAmt ← SInt.sub dep.amount paid
  let refund ← newCoin dep.denom refundAmt
  let s1 ← panicIfErr (subtractDeposit s item.addr refund)
  pure (emit s1 (evRefund item refund))

/-- Refund of a removed per-hour node subscription: hourly price times the hours not paid out. -/
def refundHr (s : State) (item : Sub) : M State := do
  let p ← orPanic (s.payouts.get item.id) "payout for subscription does not exist"
  let refundAmt ← SInt.mul p.price.amount p.hours
  let refund ← newCoin p.price.denom refundAmt
  let s1 ← panicIfErr (subtractDeposit s p.addr refund)
  pure (emit s1 (evRefund item refund))

def refundSub (s : State) (item : Sub) : M State :=
  match item.kind with
  | .node _ gb hr dep => do
    let s1 ← (if gb ≠ 0 then refundGB s item dep gb else pure s)
    if hr ≠ 0 then refundHr s1 item else pure s1
  | .plan _ _ => pure s

/-- Delete the allocations of a subscription (and the holders' by-account index entries). -/
def removeAllocs (s : State) (id : Nat) (addrs : List Addr) : State :=
  addrs.foldl (fun s a =>
    let s := { s with allocs := s.allocs.erase (id, a) }
    { s with subForAcc := s.subForAcc.erase (a, id) }) s

/-- Delete the subscription record with its allocations and index entries. -/
def removeSubRecords (s : State) (item : Sub) : State :=
  let s := match item.kind with
    | .node node _ _ _ =>
      let s := { s with subForNode := s.subForNode.erase (node, item.id) }
      let s := { s with allocs := s.allocs.erase (item.id, item.addr) }
      { s with subForAcc := s.subForAcc.erase (item.addr, item.id) }
    | .plan planId _ =>
      let s := { s with subForPlan := s.subForPlan.erase (planId, item.id) }
      removeAllocs s item.id (allocAddrsForSub s item.id)
  let s := { s with subs := s.subs.erase item.id }
  emit s (evSubStatus item .StatusInactive)

def removePayout (s : State) (item : Sub) : M State :=
  if isHourly item then do
    let p ← orPanic (s.payouts.get item.id) "payout for subscription does not exist"
    let s := { s with payouts := s.payouts.erase p.id }
    let s := { s with payForAcc := s.payForAcc.erase (p.addr, p.id) }
    pure { s with payForNode := s.payForNode.erase (p.node, p.id) }
  else pure s

def subscriptionStep (delay : Dur) (s : State) (k : Time × Nat) : M State := do
  let item ← orPanic (s.subs.get k.2) "subscription for inactive at key does not exist"
  let s1 := { s with subQ := s.subQ.erase (item.inactiveAt, item.id) }
  if item.status = .StatusActive then do
    let s2 ← panicIfErr (subscriptionInactivePendingHook s1 item.id)
    detachPayout (subToPending s2 item delay).1 item true
  else do
    let s2 ← refundSub s1 item
    removePayout (removeSubRecords s2 item) item

def subscriptionEndBlock (s : State) : M State :=
  (dueIds subscription.SubscriptionForInactiveAtKey s.subQ s.time).foldlM (subscriptionStep s.params.subDelay) s

/-- vpn EndBlock (node, session, subscription) and Commit (the params transient store is reset). -/
def vpnEndBlock (s : State) : M State := do
  let s1 ← nodeEndBlock s
  let s2 ← sessionEndBlock s1
  subscriptionEndBlock s2

def endBlock (s : State) : Except String State :=
  match haltOf (vpnEndBlock { s with events := [] }) with
  | .ok s' => .ok { s' with modified := {} }
  | .error e => .error e

/-! ### governance: one parameter change (`Subspace.Update`) -/

inductive ParamChange where
  | provDeposit (c : Coin) | provShare (d : Dec)
  | nodeDeposit (c : Coin) | activeDur (d : Dur)
  | maxGB (c : Option Coins) | minGB (c : Option Coins) | maxHr (c : Option Coins) | minHr (c : Option Coins)
  | maxSubGB (i : Int) | minSubGB (i : Int) | maxSubHr (i : Int) | minSubHr (i : Int)
  | nodeShare (d : Dec)
  | subDelay (d : Dur) | sessDelay (d : Dur) | proof (b : Bool)
  | swapOn (b : Bool) | swapDenom (d : Denom) | approveBy (a : TextAddr)
  deriving Repr, Inhabited

def validCoinParam (c : Coin) : Bool := c.amount ≥ 0 && validDenom c.denom
def validShare (d : Dec) : Bool := d ≥ 0 && d ≤ decUnit
def validPriceParam : Option Coins → Bool
  | none => true
  | some cs => cs.isValid

/-- The registered validator of each key, then `Set` (which marks the key as modified). -/
def gov (s : State) (c : ParamChange) : Option State :=
  let p := s.params
  match c with
  | .provDeposit c => if validCoinParam c then some { s with params := { p with provDeposit := c } } else none
  | .provShare d => if validShare d then some { s with params := { p with provShare := d } } else none
  | .nodeDeposit c => if validCoinParam c then some { s with params := { p with nodeDeposit := c } } else none
  | .activeDur d => if d > 0 then some { s with params := { p with activeDur := d } } else none
  | .maxGB c => if validPriceParam c then some { s with params := { p with maxGB := c.getD [] }, modified := { s.modified with maxGB := true } } else none
  | .minGB c => if validPriceParam c then some { s with params := { p with minGB := c.getD [] }, modified := { s.modified with minGB := true } } else none
  | .maxHr c => if validPriceParam c then some { s with params := { p with maxHr := c.getD [] }, modified := { s.modified with maxHr := true } } else none
  | .minHr c => if validPriceParam c then some { s with params := { p with minHr := c.getD [] }, modified := { s.modified with minHr := true } } else none
  | .maxSubGB i => if i > 0 then some { s with params := { p with maxSubGB := i } } else none
  | .minSubGB i => if i > 0 then some { s with params := { p with minSubGB := i } } else none
  | .maxSubHr i => if i > 0 then some { s with params := { p with maxSubHr := i } } else none
  | .minSubHr i => if i > 0 then some { s with params := { p with minSubHr := i } } else none
  | .nodeShare d => if validShare d then some { s with params := { p with nodeShare := d } } else none
  | .subDelay d => if d > 0 then some { s with params := { p with subDelay := d } } else none
  | .sessDelay d => if d > 0 then some { s with params := { p with sessDelay := d } } else none
  | .proof b => some { s with params := { p with proof := b } }
  | .swapOn b => some { s with params := { p with swapOn := b } }
  | .swapDenom d => if validDenom d then some { s with params := { p with swapDenom := d } } else none
  | .approveBy a => match a.parse .acc with
    | some b => some { s with params := { p with approveBy := b } }
    | none => none

end Hub.Model
