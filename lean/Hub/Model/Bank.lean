import Hub.Model.Types
/-
Modelled environment: the part of x/bank, x/distribution and x/deposit's account handling that
the hub relies on (DESIGN.md §6.4).  Dependencies, written by hand from the SDK v0.47.10 sources.
-/
namespace Hub.Model
open Hub.SDK

def emit (s : State) (e : Event) : State := { s with events := s.events ++ [e] }

def balance (s : State) (a : Addr) (d : Denom) : Int := (s.bank.get (a, d)).getD 0

def setBalance (s : State) (a : Addr) (d : Denom) (v : Int) : State :=
  { s with bank := if v = 0 then s.bank.erase (a, d) else s.bank.set (a, d) v }

/-- `bank.SendCoins` of one coin: insufficient funds is an error; the credit is checked for
256-bit overflow like `sdkmath.Int.Add`. Zero-amount coins are filtered by the hub before. -/
def sendCoins (s : State) (frm to : Addr) (c : Coin) : M State := do
  require (!(balance s frm c.denom < c.amount)) "insufficient funds"
  let s1 := setBalance s frm c.denom (balance s frm c.denom - c.amount)
  let nb ← SInt.add (balance s1 to c.denom) c.amount
  pure (setBalance s1 to c.denom nb)

/-- `SendCoinsFromModuleToAccount`: refuses blocked recipients. -/
def sendModuleToAccount (s : State) (module to : Addr) (c : Coin) : M State :=
  if isBlocked to then reject "is not allowed to receive funds" else sendCoins s module to c

def supplyOf (s : State) (d : Denom) : Int := (s.supply.get d).getD 0

/-- `bank.MintCoins` into a module account. -/
def setSupply (s : State) (d : Denom) (v : Int) : State :=
  { s with supply := if v = 0 then s.supply.erase d else s.supply.set d v }

def mintCoins (s : State) (module : Addr) (c : Coin) : M State := do
  let nb ← SInt.add (balance s module c.denom) c.amount
  let ns ← SInt.add (supplyOf s c.denom) c.amount
  pure (setSupply (setBalance s module c.denom nb) c.denom ns)

/-- `distribution.FundCommunityPool` of one coin (account → distribution module account). -/
def fundCommunityPool (s : State) (frm : Addr) (c : Coin) : M State :=
  if c.amount = 0 then pure s else sendCoins s frm distrAddr c

/-- Move the whole fee-collector balance of one denomination to the distribution module account. -/
def sweepDenom (s : State) (d : Denom) : State :=
  setBalance (setBalance s feeCollectorAddr d 0) distrAddr d (balance s distrAddr d + balance s feeCollectorAddr d)

/-- The distribution BeginBlocker (height > 1) moves the whole fee-collector balance to the
distribution module account, in every denomination it holds. -/
def distrSweep (s : State) : State :=
  ((s.bank.filter (fun p => p.1.1 = feeCollectorAddr)).map (·.1.2)).foldl sweepDenom s

end Hub.Model
