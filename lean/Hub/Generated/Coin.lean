import Hub.SDK.Coins
/- GENERATED from utils/coin.go (and the constants of types/bandwidth.go) by /verif/translator; do not edit. -/
namespace Hub.Generated
open Hub.SDK

/-- `types.Kilobyte = sdkmath.NewInt(1000)` -/
def Kilobyte : SInt := 1000
/-- `types.Megabyte = sdkmath.NewInt(1000).Mul(Kilobyte)` -/
def Megabyte : SInt := 1000 * Kilobyte
/-- `types.Gigabyte = sdkmath.NewInt(1000).Mul(Megabyte)` -/
def Gigabyte : SInt := 1000 * Megabyte

/-- `func AmountForBytes(gigabytePrice, bytes sdkmath.Int) sdkmath.Int` -/
def AmountForBytes (gigabytePrice bytes : SInt) : M SInt := do
  let t1 ← SInt.quo gigabytePrice Gigabyte
  let whole ← SInt.mul t1 bytes
  let t2 ← SInt.mod gigabytePrice Gigabyte
  let part ← SInt.mul t2 bytes
  let t3 ← SInt.add part Gigabyte
  let t4 ← SInt.sub t3 1
  let t5 ← SInt.quo t4 Gigabyte
  SInt.add whole t5

/-- `func GetProportionOfCoin(coin sdk.Coin, share sdkmath.LegacyDec) sdk.Coin` -/
def GetProportionOfCoin (coin : Coin) (share : Dec) : M Coin := do
  let t1 ← Dec.mul (Dec.ofInt coin.amount) share
  let t2 ← Dec.roundInt t1
  newCoin coin.denom t2

end Hub.Generated
