import Hub.SDK.Math
/- GENERATED from types/bandwidth.go by /verif/translator; do not edit. -/
namespace Hub.Generated
open Hub.SDK

structure Bandwidth where
  Upload : SInt
  Download : SInt
  deriving Repr, DecidableEq, Inhabited

namespace Bandwidth

/-- `func NewBandwidth(upload, download sdkmath.Int) Bandwidth` -/
def NewBandwidth (upload download : SInt) : Bandwidth := { Upload := upload, Download := download }

def IsAnyZero (b : Bandwidth) : Bool := b.Upload = 0 || b.Download = 0
def IsAllZero (b : Bandwidth) : Bool := b.Upload = 0 && b.Download = 0
def IsAnyNegative (b : Bandwidth) : Bool := b.Upload < 0 || b.Download < 0
def IsAllPositive (b : Bandwidth) : Bool := b.Upload > 0 && b.Download > 0

/-- `func (b Bandwidth) Sum() sdkmath.Int` -/
def Sum (b : Bandwidth) : M SInt := SInt.add b.Upload b.Download

/-- `func (b Bandwidth) Add(v Bandwidth) Bandwidth` -/
def Add (b v : Bandwidth) : M Bandwidth := do
  let u ← SInt.add b.Upload v.Upload
  let b := { b with Upload := u }
  let d ← SInt.add b.Download v.Download
  let b := { b with Download := d }
  pure b

/-- `func (b Bandwidth) Sub(v Bandwidth) Bandwidth` -/
def Sub (b v : Bandwidth) : M Bandwidth := do
  let u ← SInt.sub b.Upload v.Upload
  let b := { b with Upload := u }
  let d ← SInt.sub b.Download v.Download
  let b := { b with Download := d }
  pure b

def IsAllLTE (b v : Bandwidth) : Bool := b.Upload ≤ v.Upload && b.Download ≤ v.Download
def IsAnyGT (b v : Bandwidth) : Bool := b.Upload > v.Upload || b.Download > v.Download

/-- `func (b Bandwidth) CeilTo(pre sdkmath.Int) Bandwidth` -/
def CeilTo (b : Bandwidth) (pre : SInt) : M Bandwidth := do
  if !(pre > 0) then return b
  let m1 ← SInt.mod b.Upload pre
  let d1 ← SInt.sub pre m1
  let m2 ← SInt.mod b.Download pre
  let d2 ← SInt.sub pre m2
  let diff := NewBandwidth d1 d2
  let diff := if diff.Upload = pre then { diff with Upload := 0 } else diff
  let diff := if diff.Download = pre then { diff with Download := 0 } else diff
  b.Add diff

end Bandwidth
end Hub.Generated
