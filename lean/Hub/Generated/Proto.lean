/- GENERATED from proto/sentinel/**/*.proto by /verif/translator; do not edit. -/
import Hub.SDK.ProtoWire
namespace Hub.Generated.Proto
open Hub.SDK.ProtoWire

/-- 264 messages of 78 files. -/
def messages : List MsgDesc := [
  ⟨"sentinel.deposit.v1.Deposit", [
    { num := 1, name := "address", kind := .scalar .string },
    { num := 2, name := "coins", kind := .message "cosmos.base.v1beta1.Coin" .none, repeated := true, nullable := false, opts := [("castrepeated", "github.com/cosmos/cosmos-sdk/types.Coins")] }]⟩,
  ⟨"sentinel.deposit.v1.EventAdd", [
    { num := 1, name := "address", kind := .scalar .string, opts := [("moretags", "yaml:\"address\"")] },
    { num := 2, name := "coins", kind := .scalar .string, opts := [("moretags", "yaml:\"coins\"")] }]⟩,
  ⟨"sentinel.deposit.v1.EventSubtract", [
    { num := 1, name := "address", kind := .scalar .string, opts := [("moretags", "yaml:\"address\"")] },
    { num := 2, name := "coins", kind := .scalar .string, opts := [("moretags", "yaml:\"coins\"")] }]⟩,
  ⟨"sentinel.deposit.v1.QueryDepositsRequest", [
    { num := 1, name := "pagination", kind := .message "cosmos.base.query.v1beta1.PageRequest" .none, nullable := true }]⟩,
  ⟨"sentinel.deposit.v1.QueryDepositRequest", [
    { num := 1, name := "address", kind := .scalar .string }]⟩,
  ⟨"sentinel.deposit.v1.QueryDepositsResponse", [
    { num := 1, name := "deposits", kind := .message "sentinel.deposit.v1.Deposit" .none, repeated := true, nullable := false },
    { num := 2, name := "pagination", kind := .message "cosmos.base.query.v1beta1.PageResponse" .none, nullable := true }]⟩,
  ⟨"sentinel.deposit.v1.QueryDepositResponse", [
    { num := 1, name := "deposit", kind := .message "sentinel.deposit.v1.Deposit" .none, nullable := false }]⟩,
  ⟨"sentinel.mint.v1.GenesisState", [
    { num := 1, name := "inflations", kind := .message "sentinel.mint.v1.Inflation" .none, repeated := true, nullable := false, opts := [("moretags", "yaml:\"inflations\"")] }]⟩,
  ⟨"sentinel.mint.v1.Inflation", [
    { num := 1, name := "max", kind := .scalar .sdkDec, opts := [("customtype", "cosmossdk.io/math.LegacyDec"), ("moretags", "yaml:\"max\"")] },
    { num := 2, name := "min", kind := .scalar .sdkDec, opts := [("customtype", "cosmossdk.io/math.LegacyDec"), ("moretags", "yaml:\"min\"")] },
    { num := 3, name := "rate_change", kind := .scalar .sdkDec, opts := [("customtype", "cosmossdk.io/math.LegacyDec"), ("moretags", "yaml:\"rate_change\"")] },
    { num := 4, name := "timestamp", kind := .message "google.protobuf.Timestamp" .time, nullable := false, opts := [("moretags", "yaml:\"timestamp\"")] }]⟩,
  ⟨"sentinel.node.v1.EventRegister", [
    { num := 1, name := "address", kind := .scalar .string, opts := [("moretags", "yaml:\"address\"")] },
    { num := 2, name := "provider", kind := .scalar .string, opts := [("moretags", "yaml:\"provider\"")] }]⟩,
  ⟨"sentinel.node.v1.EventUpdate", [
    { num := 1, name := "address", kind := .scalar .string, opts := [("moretags", "yaml:\"address\"")] },
    { num := 2, name := "provider", kind := .scalar .string, opts := [("moretags", "yaml:\"provider\"")] }]⟩,
  ⟨"sentinel.node.v1.EventSetStatus", [
    { num := 1, name := "address", kind := .scalar .string, opts := [("moretags", "yaml:\"address\"")] },
    { num := 2, name := "status", kind := .scalar (.enum "sentinel.types.v1.Status"), opts := [("moretags", "yaml:\"status\"")] }]⟩,
  ⟨"sentinel.node.v1.GenesisState", [
    { num := 1, name := "nodes", kind := .message "sentinel.node.v1.Node" .none, repeated := true, nullable := false, opts := [("jsontag", "_,omitempty")] },
    { num := 2, name := "params", kind := .message "sentinel.node.v1.Params" .none, nullable := false }]⟩,
  ⟨"sentinel.node.v1.MsgRegisterRequest", [
    { num := 1, name := "from", kind := .scalar .string },
    { num := 2, name := "provider", kind := .scalar .string },
    { num := 3, name := "price", kind := .message "cosmos.base.v1beta1.Coin" .none, repeated := true, nullable := false, opts := [("castrepeated", "github.com/cosmos/cosmos-sdk/types.Coins")] },
    { num := 4, name := "remote_url", kind := .scalar .string, opts := [("customname", "RemoteURL")] }]⟩,
  ⟨"sentinel.node.v1.MsgUpdateRequest", [
    { num := 1, name := "from", kind := .scalar .string },
    { num := 2, name := "provider", kind := .scalar .string },
    { num := 3, name := "price", kind := .message "cosmos.base.v1beta1.Coin" .none, repeated := true, nullable := false, opts := [("castrepeated", "github.com/cosmos/cosmos-sdk/types.Coins")] },
    { num := 4, name := "remote_url", kind := .scalar .string, opts := [("customname", "RemoteURL")] }]⟩,
  ⟨"sentinel.node.v1.MsgSetStatusRequest", [
    { num := 1, name := "from", kind := .scalar .string },
    { num := 2, name := "status", kind := .scalar (.enum "sentinel.types.v1.Status") }]⟩,
  ⟨"sentinel.node.v1.MsgRegisterResponse", []⟩,
  ⟨"sentinel.node.v1.MsgUpdateResponse", []⟩,
  ⟨"sentinel.node.v1.MsgSetStatusResponse", []⟩,
  ⟨"sentinel.node.v1.Node", [
    { num := 1, name := "address", kind := .scalar .string },
    { num := 2, name := "provider", kind := .scalar .string },
    { num := 3, name := "price", kind := .message "cosmos.base.v1beta1.Coin" .none, repeated := true, nullable := false, opts := [("castrepeated", "github.com/cosmos/cosmos-sdk/types.Coins")] },
    { num := 4, name := "remote_url", kind := .scalar .string, opts := [("customname", "RemoteURL")] },
    { num := 5, name := "status", kind := .scalar (.enum "sentinel.types.v1.Status") },
    { num := 6, name := "status_at", kind := .message "google.protobuf.Timestamp" .time, nullable := false }]⟩,
  ⟨"sentinel.node.v1.Params", [
    { num := 1, name := "deposit", kind := .message "cosmos.base.v1beta1.Coin" .none, nullable := false },
    { num := 2, name := "inactive_duration", kind := .message "google.protobuf.Duration" .duration, nullable := false },
    { num := 3, name := "max_price", kind := .message "cosmos.base.v1beta1.Coin" .none, repeated := true, nullable := false, opts := [("castrepeated", "github.com/cosmos/cosmos-sdk/types.Coins")] },
    { num := 4, name := "min_price", kind := .message "cosmos.base.v1beta1.Coin" .none, repeated := true, nullable := false, opts := [("castrepeated", "github.com/cosmos/cosmos-sdk/types.Coins")] },
    { num := 5, name := "staking_share", kind := .scalar .sdkDec, opts := [("customtype", "github.com/cosmos/cosmos-sdk/types.Dec")] }]⟩,
  ⟨"sentinel.node.v1.QueryNodesRequest", [
    { num := 1, name := "status", kind := .scalar (.enum "sentinel.types.v1.Status") },
    { num := 2, name := "pagination", kind := .message "cosmos.base.query.v1beta1.PageRequest" .none, nullable := true }]⟩,
  ⟨"sentinel.node.v1.QueryNodesForProviderRequest", [
    { num := 1, name := "address", kind := .scalar .string },
    { num := 2, name := "status", kind := .scalar (.enum "sentinel.types.v1.Status") },
    { num := 3, name := "pagination", kind := .message "cosmos.base.query.v1beta1.PageRequest" .none, nullable := true }]⟩,
  ⟨"sentinel.node.v1.QueryNodeRequest", [
    { num := 1, name := "address", kind := .scalar .string }]⟩,
  ⟨"sentinel.node.v1.QueryParamsRequest", []⟩,
  ⟨"sentinel.node.v1.QueryNodesResponse", [
    { num := 1, name := "nodes", kind := .message "sentinel.node.v1.Node" .none, repeated := true, nullable := false },
    { num := 2, name := "pagination", kind := .message "cosmos.base.query.v1beta1.PageResponse" .none, nullable := true }]⟩,
  ⟨"sentinel.node.v1.QueryNodesForProviderResponse", [
    { num := 1, name := "nodes", kind := .message "sentinel.node.v1.Node" .none, repeated := true, nullable := false },
    { num := 2, name := "pagination", kind := .message "cosmos.base.query.v1beta1.PageResponse" .none, nullable := true }]⟩,
  ⟨"sentinel.node.v1.QueryNodeResponse", [
    { num := 1, name := "node", kind := .message "sentinel.node.v1.Node" .none, nullable := false }]⟩,
  ⟨"sentinel.node.v1.QueryParamsResponse", [
    { num := 1, name := "params", kind := .message "sentinel.node.v1.Params" .none, nullable := false }]⟩,
  ⟨"sentinel.node.v2.EventRegister", [
    { num := 1, name := "address", kind := .scalar .string, opts := [("moretags", "yaml:\"address\"")] }]⟩,
  ⟨"sentinel.node.v2.EventUpdateDetails", [
    { num := 1, name := "address", kind := .scalar .string, opts := [("moretags", "yaml:\"address\"")] },
    { num := 2, name := "gigabyte_prices", kind := .scalar .string, opts := [("moretags", "yaml:\"gigabyte_prices\"")] },
    { num := 3, name := "hourly_prices", kind := .scalar .string, opts := [("moretags", "yaml:\"hourly_prices\"")] },
    { num := 4, name := "remote_url", kind := .scalar .string, opts := [("customname", "RemoteURL")] }]⟩,
  ⟨"sentinel.node.v2.EventUpdateStatus", [
    { num := 1, name := "status", kind := .scalar (.enum "sentinel.types.v1.Status"), opts := [("moretags", "yaml:\"status\"")] },
    { num := 2, name := "address", kind := .scalar .string, opts := [("moretags", "yaml:\"address\"")] }]⟩,
  ⟨"sentinel.node.v2.EventCreateSubscription", [
    { num := 1, name := "address", kind := .scalar .string, opts := [("moretags", "yaml:\"address\"")] },
    { num := 2, name := "node_address", kind := .scalar .string, opts := [("moretags", "yaml:\"node_address\"")] },
    { num := 3, name := "id", kind := .scalar .uint64, opts := [("customname", "ID"), ("moretags", "yaml:\"id\"")] }]⟩,
  ⟨"sentinel.node.v2.GenesisState", [
    { num := 1, name := "nodes", kind := .message "sentinel.node.v2.Node" .none, repeated := true, nullable := false },
    { num := 2, name := "params", kind := .message "sentinel.node.v2.Params" .none, nullable := false }]⟩,
  ⟨"sentinel.node.v2.MsgRegisterRequest", [
    { num := 1, name := "from", kind := .scalar .string },
    { num := 2, name := "gigabyte_prices", kind := .message "cosmos.base.v1beta1.Coin" .none, repeated := true, nullable := false, opts := [("castrepeated", "github.com/cosmos/cosmos-sdk/types.Coins")] },
    { num := 3, name := "hourly_prices", kind := .message "cosmos.base.v1beta1.Coin" .none, repeated := true, nullable := false, opts := [("castrepeated", "github.com/cosmos/cosmos-sdk/types.Coins")] },
    { num := 4, name := "remote_url", kind := .scalar .string, opts := [("customname", "RemoteURL")] }]⟩,
  ⟨"sentinel.node.v2.MsgUpdateDetailsRequest", [
    { num := 1, name := "from", kind := .scalar .string },
    { num := 2, name := "gigabyte_prices", kind := .message "cosmos.base.v1beta1.Coin" .none, repeated := true, nullable := false, opts := [("castrepeated", "github.com/cosmos/cosmos-sdk/types.Coins")] },
    { num := 3, name := "hourly_prices", kind := .message "cosmos.base.v1beta1.Coin" .none, repeated := true, nullable := false, opts := [("castrepeated", "github.com/cosmos/cosmos-sdk/types.Coins")] },
    { num := 4, name := "remote_url", kind := .scalar .string, opts := [("customname", "RemoteURL")] }]⟩,
  ⟨"sentinel.node.v2.MsgUpdateStatusRequest", [
    { num := 1, name := "from", kind := .scalar .string },
    { num := 2, name := "status", kind := .scalar (.enum "sentinel.types.v1.Status") }]⟩,
  ⟨"sentinel.node.v2.MsgSubscribeRequest", [
    { num := 1, name := "from", kind := .scalar .string },
    { num := 2, name := "node_address", kind := .scalar .string },
    { num := 3, name := "gigabytes", kind := .scalar .int64 },
    { num := 4, name := "hours", kind := .scalar .int64 },
    { num := 5, name := "denom", kind := .scalar .string }]⟩,
  ⟨"sentinel.node.v2.MsgRegisterResponse", []⟩,
  ⟨"sentinel.node.v2.MsgUpdateDetailsResponse", []⟩,
  ⟨"sentinel.node.v2.MsgUpdateStatusResponse", []⟩,
  ⟨"sentinel.node.v2.MsgSubscribeResponse", []⟩,
  ⟨"sentinel.node.v2.Node", [
    { num := 1, name := "address", kind := .scalar .string },
    { num := 2, name := "gigabyte_prices", kind := .message "cosmos.base.v1beta1.Coin" .none, repeated := true, nullable := false, opts := [("castrepeated", "github.com/cosmos/cosmos-sdk/types.Coins")] },
    { num := 3, name := "hourly_prices", kind := .message "cosmos.base.v1beta1.Coin" .none, repeated := true, nullable := false, opts := [("castrepeated", "github.com/cosmos/cosmos-sdk/types.Coins")] },
    { num := 4, name := "remote_url", kind := .scalar .string, opts := [("customname", "RemoteURL")] },
    { num := 5, name := "inactive_at", kind := .message "google.protobuf.Timestamp" .time, nullable := false },
    { num := 6, name := "status", kind := .scalar (.enum "sentinel.types.v1.Status") },
    { num := 7, name := "status_at", kind := .message "google.protobuf.Timestamp" .time, nullable := false }]⟩,
  ⟨"sentinel.node.v2.Params", [
    { num := 1, name := "deposit", kind := .message "cosmos.base.v1beta1.Coin" .none, nullable := false },
    { num := 2, name := "active_duration", kind := .message "google.protobuf.Duration" .duration, nullable := false },
    { num := 3, name := "max_gigabyte_prices", kind := .message "cosmos.base.v1beta1.Coin" .none, repeated := true, nullable := false, opts := [("castrepeated", "github.com/cosmos/cosmos-sdk/types.Coins")] },
    { num := 4, name := "min_gigabyte_prices", kind := .message "cosmos.base.v1beta1.Coin" .none, repeated := true, nullable := false, opts := [("castrepeated", "github.com/cosmos/cosmos-sdk/types.Coins")] },
    { num := 5, name := "max_hourly_prices", kind := .message "cosmos.base.v1beta1.Coin" .none, repeated := true, nullable := false, opts := [("castrepeated", "github.com/cosmos/cosmos-sdk/types.Coins")] },
    { num := 6, name := "min_hourly_prices", kind := .message "cosmos.base.v1beta1.Coin" .none, repeated := true, nullable := false, opts := [("castrepeated", "github.com/cosmos/cosmos-sdk/types.Coins")] },
    { num := 7, name := "max_subscription_gigabytes", kind := .scalar .int64 },
    { num := 8, name := "min_subscription_gigabytes", kind := .scalar .int64 },
    { num := 9, name := "max_subscription_hours", kind := .scalar .int64 },
    { num := 10, name := "min_subscription_hours", kind := .scalar .int64 },
    { num := 11, name := "staking_share", kind := .scalar .sdkDec, opts := [("customtype", "cosmossdk.io/math.LegacyDec")] }]⟩,
  ⟨"sentinel.node.v2.QueryNodesRequest", [
    { num := 1, name := "status", kind := .scalar (.enum "sentinel.types.v1.Status") },
    { num := 2, name := "pagination", kind := .message "cosmos.base.query.v1beta1.PageRequest" .none, nullable := true }]⟩,
  ⟨"sentinel.node.v2.QueryNodesForPlanRequest", [
    { num := 1, name := "id", kind := .scalar .uint64 },
    { num := 2, name := "status", kind := .scalar (.enum "sentinel.types.v1.Status") },
    { num := 3, name := "pagination", kind := .message "cosmos.base.query.v1beta1.PageRequest" .none, nullable := true }]⟩,
  ⟨"sentinel.node.v2.QueryNodeRequest", [
    { num := 1, name := "address", kind := .scalar .string }]⟩,
  ⟨"sentinel.node.v2.QueryParamsRequest", []⟩,
  ⟨"sentinel.node.v2.QueryNodesResponse", [
    { num := 1, name := "nodes", kind := .message "sentinel.node.v2.Node" .none, repeated := true, nullable := false },
    { num := 2, name := "pagination", kind := .message "cosmos.base.query.v1beta1.PageResponse" .none, nullable := true }]⟩,
  ⟨"sentinel.node.v2.QueryNodesForPlanResponse", [
    { num := 1, name := "nodes", kind := .message "sentinel.node.v2.Node" .none, repeated := true, nullable := false },
    { num := 2, name := "pagination", kind := .message "cosmos.base.query.v1beta1.PageResponse" .none, nullable := true }]⟩,
  ⟨"sentinel.node.v2.QueryNodeResponse", [
    { num := 1, name := "node", kind := .message "sentinel.node.v2.Node" .none, nullable := false }]⟩,
  ⟨"sentinel.node.v2.QueryParamsResponse", [
    { num := 1, name := "params", kind := .message "sentinel.node.v2.Params" .none, nullable := false }]⟩,
  ⟨"sentinel.plan.v1.EventAdd", [
    { num := 1, name := "id", kind := .scalar .uint64, opts := [("moretags", "yaml:\"id\"")] },
    { num := 2, name := "provider", kind := .scalar .string, opts := [("moretags", "yaml:\"provider\"")] }]⟩,
  ⟨"sentinel.plan.v1.EventSetStatus", [
    { num := 1, name := "id", kind := .scalar .uint64, opts := [("moretags", "yaml:\"id\"")] },
    { num := 2, name := "provider", kind := .scalar .string, opts := [("moretags", "yaml:\"provider\"")] },
    { num := 3, name := "status", kind := .scalar (.enum "sentinel.types.v1.Status"), opts := [("moretags", "yaml:\"status\"")] }]⟩,
  ⟨"sentinel.plan.v1.EventAddNode", [
    { num := 1, name := "id", kind := .scalar .uint64, opts := [("moretags", "yaml:\"id\"")] },
    { num := 2, name := "node", kind := .scalar .string, opts := [("moretags", "yaml:\"node\"")] },
    { num := 3, name := "provider", kind := .scalar .string, opts := [("moretags", "yaml:\"provider\"")] }]⟩,
  ⟨"sentinel.plan.v1.EventRemoveNode", [
    { num := 1, name := "id", kind := .scalar .uint64, opts := [("moretags", "yaml:\"id\"")] },
    { num := 2, name := "node", kind := .scalar .string, opts := [("moretags", "yaml:\"node\"")] },
    { num := 3, name := "provider", kind := .scalar .string, opts := [("moretags", "yaml:\"provider\"")] }]⟩,
  ⟨"sentinel.plan.v1.GenesisPlan", [
    { num := 1, name := "plan", kind := .message "sentinel.plan.v1.Plan" .none, nullable := false, opts := [("jsontag", "_,omitempty")] },
    { num := 2, name := "nodes", kind := .scalar .string, repeated := true }]⟩,
  ⟨"sentinel.plan.v1.MsgAddRequest", [
    { num := 1, name := "from", kind := .scalar .string },
    { num := 2, name := "price", kind := .message "cosmos.base.v1beta1.Coin" .none, repeated := true, nullable := false, opts := [("castrepeated", "github.com/cosmos/cosmos-sdk/types.Coins")] },
    { num := 3, name := "validity", kind := .message "google.protobuf.Duration" .duration, nullable := false },
    { num := 4, name := "bytes", kind := .scalar .sdkInt, opts := [("customtype", "github.com/cosmos/cosmos-sdk/types.Int")] }]⟩,
  ⟨"sentinel.plan.v1.MsgSetStatusRequest", [
    { num := 1, name := "from", kind := .scalar .string },
    { num := 2, name := "id", kind := .scalar .uint64 },
    { num := 3, name := "status", kind := .scalar (.enum "sentinel.types.v1.Status") }]⟩,
  ⟨"sentinel.plan.v1.MsgAddNodeRequest", [
    { num := 1, name := "from", kind := .scalar .string },
    { num := 2, name := "id", kind := .scalar .uint64 },
    { num := 3, name := "address", kind := .scalar .string }]⟩,
  ⟨"sentinel.plan.v1.MsgRemoveNodeRequest", [
    { num := 1, name := "from", kind := .scalar .string },
    { num := 2, name := "id", kind := .scalar .uint64 },
    { num := 3, name := "address", kind := .scalar .string }]⟩,
  ⟨"sentinel.plan.v1.MsgAddResponse", []⟩,
  ⟨"sentinel.plan.v1.MsgSetStatusResponse", []⟩,
  ⟨"sentinel.plan.v1.MsgAddNodeResponse", []⟩,
  ⟨"sentinel.plan.v1.MsgRemoveNodeResponse", []⟩,
  ⟨"sentinel.plan.v1.Plan", [
    { num := 1, name := "id", kind := .scalar .uint64 },
    { num := 2, name := "provider", kind := .scalar .string },
    { num := 3, name := "price", kind := .message "cosmos.base.v1beta1.Coin" .none, repeated := true, nullable := false, opts := [("castrepeated", "github.com/cosmos/cosmos-sdk/types.Coins")] },
    { num := 4, name := "validity", kind := .message "google.protobuf.Duration" .duration, nullable := false },
    { num := 5, name := "bytes", kind := .scalar .sdkInt, opts := [("customtype", "github.com/cosmos/cosmos-sdk/types.Int")] },
    { num := 6, name := "status", kind := .scalar (.enum "sentinel.types.v1.Status") },
    { num := 7, name := "status_at", kind := .message "google.protobuf.Timestamp" .time, nullable := false }]⟩,
  ⟨"sentinel.plan.v1.QueryPlansRequest", [
    { num := 1, name := "status", kind := .scalar (.enum "sentinel.types.v1.Status") },
    { num := 2, name := "pagination", kind := .message "cosmos.base.query.v1beta1.PageRequest" .none, nullable := true }]⟩,
  ⟨"sentinel.plan.v1.QueryPlansForProviderRequest", [
    { num := 1, name := "address", kind := .scalar .string },
    { num := 2, name := "status", kind := .scalar (.enum "sentinel.types.v1.Status") },
    { num := 3, name := "pagination", kind := .message "cosmos.base.query.v1beta1.PageRequest" .none, nullable := true }]⟩,
  ⟨"sentinel.plan.v1.QueryPlanRequest", [
    { num := 1, name := "id", kind := .scalar .uint64 }]⟩,
  ⟨"sentinel.plan.v1.QueryNodesForPlanRequest", [
    { num := 1, name := "id", kind := .scalar .uint64 },
    { num := 2, name := "pagination", kind := .message "cosmos.base.query.v1beta1.PageRequest" .none, nullable := true }]⟩,
  ⟨"sentinel.plan.v1.QueryPlansResponse", [
    { num := 1, name := "plans", kind := .message "sentinel.plan.v1.Plan" .none, repeated := true, nullable := false },
    { num := 2, name := "pagination", kind := .message "cosmos.base.query.v1beta1.PageResponse" .none, nullable := true }]⟩,
  ⟨"sentinel.plan.v1.QueryPlansForProviderResponse", [
    { num := 1, name := "plans", kind := .message "sentinel.plan.v1.Plan" .none, repeated := true, nullable := false },
    { num := 2, name := "pagination", kind := .message "cosmos.base.query.v1beta1.PageResponse" .none, nullable := true }]⟩,
  ⟨"sentinel.plan.v1.QueryPlanResponse", [
    { num := 1, name := "plan", kind := .message "sentinel.plan.v1.Plan" .none, nullable := false }]⟩,
  ⟨"sentinel.plan.v1.QueryNodesForPlanResponse", [
    { num := 1, name := "nodes", kind := .message "sentinel.node.v1.Node" .none, repeated := true, nullable := false },
    { num := 2, name := "pagination", kind := .message "cosmos.base.query.v1beta1.PageResponse" .none, nullable := true }]⟩,
  ⟨"sentinel.plan.v2.EventCreate", [
    { num := 1, name := "address", kind := .scalar .string, opts := [("moretags", "yaml:\"address\"")] },
    { num := 2, name := "id", kind := .scalar .uint64, opts := [("customname", "ID"), ("moretags", "yaml:\"id\"")] }]⟩,
  ⟨"sentinel.plan.v2.EventUpdateStatus", [
    { num := 1, name := "status", kind := .scalar (.enum "sentinel.types.v1.Status"), opts := [("moretags", "yaml:\"status\"")] },
    { num := 2, name := "address", kind := .scalar .string, opts := [("moretags", "yaml:\"address\"")] },
    { num := 3, name := "id", kind := .scalar .uint64, opts := [("customname", "ID"), ("moretags", "yaml:\"id\"")] }]⟩,
  ⟨"sentinel.plan.v2.EventLinkNode", [
    { num := 1, name := "address", kind := .scalar .string, opts := [("moretags", "yaml:\"address\"")] },
    { num := 2, name := "node_address", kind := .scalar .string, opts := [("moretags", "yaml:\"node_address\"")] },
    { num := 3, name := "id", kind := .scalar .uint64, opts := [("customname", "ID"), ("moretags", "yaml:\"id\"")] }]⟩,
  ⟨"sentinel.plan.v2.EventUnlinkNode", [
    { num := 1, name := "address", kind := .scalar .string, opts := [("moretags", "yaml:\"address\"")] },
    { num := 2, name := "node_address", kind := .scalar .string, opts := [("moretags", "yaml:\"node_address\"")] },
    { num := 3, name := "id", kind := .scalar .uint64, opts := [("customname", "ID"), ("moretags", "yaml:\"id\"")] }]⟩,
  ⟨"sentinel.plan.v2.EventCreateSubscription", [
    { num := 1, name := "address", kind := .scalar .string, opts := [("moretags", "yaml:\"address\"")] },
    { num := 2, name := "provider_address", kind := .scalar .string, opts := [("moretags", "yaml:\"provider_address\"")] },
    { num := 3, name := "id", kind := .scalar .uint64, opts := [("customname", "ID"), ("moretags", "yaml:\"id\"")] },
    { num := 4, name := "plan_id", kind := .scalar .uint64, opts := [("customname", "PlanID"), ("moretags", "yaml:\"plan_id\"")] }]⟩,
  ⟨"sentinel.plan.v2.GenesisPlan", [
    { num := 1, name := "plan", kind := .message "sentinel.plan.v2.Plan" .none, nullable := false },
    { num := 2, name := "nodes", kind := .scalar .string, repeated := true }]⟩,
  ⟨"sentinel.plan.v2.MsgCreateRequest", [
    { num := 1, name := "from", kind := .scalar .string },
    { num := 2, name := "duration", kind := .message "google.protobuf.Duration" .duration, nullable := false },
    { num := 3, name := "gigabytes", kind := .scalar .int64 },
    { num := 4, name := "prices", kind := .message "cosmos.base.v1beta1.Coin" .none, repeated := true, nullable := false, opts := [("castrepeated", "github.com/cosmos/cosmos-sdk/types.Coins")] }]⟩,
  ⟨"sentinel.plan.v2.MsgUpdateStatusRequest", [
    { num := 1, name := "from", kind := .scalar .string },
    { num := 2, name := "id", kind := .scalar .uint64, opts := [("customname", "ID")] },
    { num := 3, name := "status", kind := .scalar (.enum "sentinel.types.v1.Status") }]⟩,
  ⟨"sentinel.plan.v2.MsgLinkNodeRequest", [
    { num := 1, name := "from", kind := .scalar .string },
    { num := 2, name := "id", kind := .scalar .uint64, opts := [("customname", "ID")] },
    { num := 3, name := "node_address", kind := .scalar .string }]⟩,
  ⟨"sentinel.plan.v2.MsgUnlinkNodeRequest", [
    { num := 1, name := "from", kind := .scalar .string },
    { num := 2, name := "id", kind := .scalar .uint64, opts := [("customname", "ID")] },
    { num := 3, name := "node_address", kind := .scalar .string }]⟩,
  ⟨"sentinel.plan.v2.MsgSubscribeRequest", [
    { num := 1, name := "from", kind := .scalar .string },
    { num := 2, name := "id", kind := .scalar .uint64, opts := [("customname", "ID")] },
    { num := 3, name := "denom", kind := .scalar .string }]⟩,
  ⟨"sentinel.plan.v2.MsgCreateResponse", []⟩,
  ⟨"sentinel.plan.v2.MsgUpdateStatusResponse", []⟩,
  ⟨"sentinel.plan.v2.MsgLinkNodeResponse", []⟩,
  ⟨"sentinel.plan.v2.MsgUnlinkNodeResponse", []⟩,
  ⟨"sentinel.plan.v2.MsgSubscribeResponse", []⟩,
  ⟨"sentinel.plan.v2.Plan", [
    { num := 1, name := "id", kind := .scalar .uint64, opts := [("customname", "ID")] },
    { num := 2, name := "provider_address", kind := .scalar .string },
    { num := 3, name := "duration", kind := .message "google.protobuf.Duration" .duration, nullable := false },
    { num := 4, name := "gigabytes", kind := .scalar .int64 },
    { num := 5, name := "prices", kind := .message "cosmos.base.v1beta1.Coin" .none, repeated := true, nullable := false, opts := [("castrepeated", "github.com/cosmos/cosmos-sdk/types.Coins")] },
    { num := 6, name := "status", kind := .scalar (.enum "sentinel.types.v1.Status") },
    { num := 7, name := "status_at", kind := .message "google.protobuf.Timestamp" .time, nullable := false }]⟩,
  ⟨"sentinel.plan.v2.QueryPlansRequest", [
    { num := 1, name := "status", kind := .scalar (.enum "sentinel.types.v1.Status") },
    { num := 2, name := "pagination", kind := .message "cosmos.base.query.v1beta1.PageRequest" .none, nullable := true }]⟩,
  ⟨"sentinel.plan.v2.QueryPlansForProviderRequest", [
    { num := 1, name := "address", kind := .scalar .string },
    { num := 2, name := "status", kind := .scalar (.enum "sentinel.types.v1.Status") },
    { num := 3, name := "pagination", kind := .message "cosmos.base.query.v1beta1.PageRequest" .none, nullable := true }]⟩,
  ⟨"sentinel.plan.v2.QueryPlanRequest", [
    { num := 1, name := "id", kind := .scalar .uint64 }]⟩,
  ⟨"sentinel.plan.v2.QueryPlansResponse", [
    { num := 1, name := "plans", kind := .message "sentinel.plan.v2.Plan" .none, repeated := true, nullable := false },
    { num := 2, name := "pagination", kind := .message "cosmos.base.query.v1beta1.PageResponse" .none, nullable := true }]⟩,
  ⟨"sentinel.plan.v2.QueryPlansForProviderResponse", [
    { num := 1, name := "plans", kind := .message "sentinel.plan.v2.Plan" .none, repeated := true, nullable := false },
    { num := 2, name := "pagination", kind := .message "cosmos.base.query.v1beta1.PageResponse" .none, nullable := true }]⟩,
  ⟨"sentinel.plan.v2.QueryPlanResponse", [
    { num := 1, name := "plan", kind := .message "sentinel.plan.v2.Plan" .none, nullable := false }]⟩,
  ⟨"sentinel.provider.v1.EventRegister", [
    { num := 1, name := "address", kind := .scalar .string, opts := [("moretags", "yaml:\"address\"")] }]⟩,
  ⟨"sentinel.provider.v1.EventUpdate", [
    { num := 1, name := "address", kind := .scalar .string, opts := [("moretags", "yaml:\"address\"")] }]⟩,
  ⟨"sentinel.provider.v1.GenesisState", [
    { num := 1, name := "providers", kind := .message "sentinel.provider.v1.Provider" .none, repeated := true, nullable := false, opts := [("jsontag", "_,omitempty")] },
    { num := 2, name := "params", kind := .message "sentinel.provider.v1.Params" .none, nullable := false }]⟩,
  ⟨"sentinel.provider.v1.MsgRegisterRequest", [
    { num := 1, name := "from", kind := .scalar .string },
    { num := 2, name := "name", kind := .scalar .string },
    { num := 3, name := "identity", kind := .scalar .string },
    { num := 4, name := "website", kind := .scalar .string },
    { num := 5, name := "description", kind := .scalar .string }]⟩,
  ⟨"sentinel.provider.v1.MsgUpdateRequest", [
    { num := 1, name := "from", kind := .scalar .string },
    { num := 2, name := "name", kind := .scalar .string },
    { num := 3, name := "identity", kind := .scalar .string },
    { num := 4, name := "website", kind := .scalar .string },
    { num := 5, name := "description", kind := .scalar .string }]⟩,
  ⟨"sentinel.provider.v1.MsgRegisterResponse", []⟩,
  ⟨"sentinel.provider.v1.MsgUpdateResponse", []⟩,
  ⟨"sentinel.provider.v1.Params", [
    { num := 1, name := "deposit", kind := .message "cosmos.base.v1beta1.Coin" .none, nullable := false },
    { num := 2, name := "staking_share", kind := .scalar .sdkDec, opts := [("customtype", "github.com/cosmos/cosmos-sdk/types.Dec")] }]⟩,
  ⟨"sentinel.provider.v1.Provider", [
    { num := 1, name := "address", kind := .scalar .string },
    { num := 2, name := "name", kind := .scalar .string },
    { num := 3, name := "identity", kind := .scalar .string },
    { num := 4, name := "website", kind := .scalar .string },
    { num := 5, name := "description", kind := .scalar .string }]⟩,
  ⟨"sentinel.provider.v1.QueryProvidersRequest", [
    { num := 1, name := "pagination", kind := .message "cosmos.base.query.v1beta1.PageRequest" .none, nullable := true }]⟩,
  ⟨"sentinel.provider.v1.QueryProviderRequest", [
    { num := 1, name := "address", kind := .scalar .string }]⟩,
  ⟨"sentinel.provider.v1.QueryParamsRequest", []⟩,
  ⟨"sentinel.provider.v1.QueryProvidersResponse", [
    { num := 1, name := "providers", kind := .message "sentinel.provider.v1.Provider" .none, repeated := true, nullable := false },
    { num := 2, name := "pagination", kind := .message "cosmos.base.query.v1beta1.PageResponse" .none, nullable := true }]⟩,
  ⟨"sentinel.provider.v1.QueryProviderResponse", [
    { num := 1, name := "provider", kind := .message "sentinel.provider.v1.Provider" .none, nullable := false }]⟩,
  ⟨"sentinel.provider.v1.QueryParamsResponse", [
    { num := 1, name := "params", kind := .message "sentinel.provider.v1.Params" .none, nullable := false }]⟩,
  ⟨"sentinel.provider.v2.EventRegister", [
    { num := 1, name := "address", kind := .scalar .string, opts := [("moretags", "yaml:\"address\"")] }]⟩,
  ⟨"sentinel.provider.v2.EventUpdate", [
    { num := 1, name := "address", kind := .scalar .string, opts := [("moretags", "yaml:\"address\"")] }]⟩,
  ⟨"sentinel.provider.v2.GenesisState", [
    { num := 1, name := "providers", kind := .message "sentinel.provider.v2.Provider" .none, repeated := true, nullable := false },
    { num := 2, name := "params", kind := .message "sentinel.provider.v2.Params" .none, nullable := false }]⟩,
  ⟨"sentinel.provider.v2.MsgRegisterRequest", [
    { num := 1, name := "from", kind := .scalar .string },
    { num := 2, name := "name", kind := .scalar .string },
    { num := 3, name := "identity", kind := .scalar .string },
    { num := 4, name := "website", kind := .scalar .string },
    { num := 5, name := "description", kind := .scalar .string }]⟩,
  ⟨"sentinel.provider.v2.MsgUpdateRequest", [
    { num := 1, name := "from", kind := .scalar .string },
    { num := 2, name := "name", kind := .scalar .string },
    { num := 3, name := "identity", kind := .scalar .string },
    { num := 4, name := "website", kind := .scalar .string },
    { num := 5, name := "description", kind := .scalar .string },
    { num := 6, name := "status", kind := .scalar (.enum "sentinel.types.v1.Status") }]⟩,
  ⟨"sentinel.provider.v2.MsgRegisterResponse", []⟩,
  ⟨"sentinel.provider.v2.MsgUpdateResponse", []⟩,
  ⟨"sentinel.provider.v2.Params", [
    { num := 1, name := "deposit", kind := .message "cosmos.base.v1beta1.Coin" .none, nullable := false },
    { num := 2, name := "staking_share", kind := .scalar .sdkDec, opts := [("customtype", "cosmossdk.io/math.LegacyDec")] }]⟩,
  ⟨"sentinel.provider.v2.Provider", [
    { num := 1, name := "address", kind := .scalar .string },
    { num := 2, name := "name", kind := .scalar .string },
    { num := 3, name := "identity", kind := .scalar .string },
    { num := 4, name := "website", kind := .scalar .string },
    { num := 5, name := "description", kind := .scalar .string },
    { num := 6, name := "status", kind := .scalar (.enum "sentinel.types.v1.Status") },
    { num := 7, name := "status_at", kind := .message "google.protobuf.Timestamp" .time, nullable := false }]⟩,
  ⟨"sentinel.provider.v2.QueryProvidersRequest", [
    { num := 1, name := "pagination", kind := .message "cosmos.base.query.v1beta1.PageRequest" .none, nullable := true },
    { num := 2, name := "status", kind := .scalar (.enum "sentinel.types.v1.Status") }]⟩,
  ⟨"sentinel.provider.v2.QueryProviderRequest", [
    { num := 1, name := "address", kind := .scalar .string }]⟩,
  ⟨"sentinel.provider.v2.QueryParamsRequest", []⟩,
  ⟨"sentinel.provider.v2.QueryProvidersResponse", [
    { num := 1, name := "providers", kind := .message "sentinel.provider.v2.Provider" .none, repeated := true, nullable := false },
    { num := 2, name := "pagination", kind := .message "cosmos.base.query.v1beta1.PageResponse" .none, nullable := true }]⟩,
  ⟨"sentinel.provider.v2.QueryProviderResponse", [
    { num := 1, name := "provider", kind := .message "sentinel.provider.v2.Provider" .none, nullable := false }]⟩,
  ⟨"sentinel.provider.v2.QueryParamsResponse", [
    { num := 1, name := "params", kind := .message "sentinel.provider.v2.Params" .none, nullable := false }]⟩,
  ⟨"sentinel.session.v1.EventStart", [
    { num := 1, name := "id", kind := .scalar .uint64, opts := [("moretags", "yaml:\"id\"")] },
    { num := 2, name := "node", kind := .scalar .string, opts := [("moretags", "yaml:\"node\"")] },
    { num := 3, name := "subscription", kind := .scalar .uint64, opts := [("moretags", "yaml:\"subscription\"")] }]⟩,
  ⟨"sentinel.session.v1.EventUpdate", [
    { num := 1, name := "id", kind := .scalar .uint64, opts := [("moretags", "yaml:\"id\"")] },
    { num := 2, name := "node", kind := .scalar .string, opts := [("moretags", "yaml:\"node\"")] },
    { num := 3, name := "subscription", kind := .scalar .uint64, opts := [("moretags", "yaml:\"subscription\"")] }]⟩,
  ⟨"sentinel.session.v1.EventSetStatus", [
    { num := 1, name := "id", kind := .scalar .uint64, opts := [("moretags", "yaml:\"id\"")] },
    { num := 2, name := "node", kind := .scalar .string, opts := [("moretags", "yaml:\"node\"")] },
    { num := 3, name := "subscription", kind := .scalar .uint64, opts := [("moretags", "yaml:\"subscription\"")] },
    { num := 4, name := "status", kind := .scalar (.enum "sentinel.types.v1.Status"), opts := [("moretags", "yaml:\"status\"")] }]⟩,
  ⟨"sentinel.session.v1.EventPay", [
    { num := 1, name := "id", kind := .scalar .uint64, opts := [("moretags", "yaml:\"id\"")] },
    { num := 2, name := "node", kind := .scalar .string, opts := [("moretags", "yaml:\"node\"")] },
    { num := 3, name := "subscription", kind := .scalar .uint64, opts := [("moretags", "yaml:\"subscription\"")] },
    { num := 4, name := "amount", kind := .message "cosmos.base.v1beta1.Coin" .none, nullable := false, opts := [("moretags", "yaml:\"amount\"")] }]⟩,
  ⟨"sentinel.session.v1.GenesisState", [
    { num := 1, name := "sessions", kind := .message "sentinel.session.v1.Session" .none, repeated := true, nullable := false, opts := [("jsontag", "_,omitempty")] },
    { num := 2, name := "params", kind := .message "sentinel.session.v1.Params" .none, nullable := false }]⟩,
  ⟨"sentinel.session.v1.MsgStartRequest", [
    { num := 1, name := "from", kind := .scalar .string },
    { num := 2, name := "id", kind := .scalar .uint64 },
    { num := 3, name := "node", kind := .scalar .string }]⟩,
  ⟨"sentinel.session.v1.MsgUpdateRequest", [
    { num := 1, name := "from", kind := .scalar .string },
    { num := 2, name := "proof", kind := .message "sentinel.session.v1.Proof" .none, nullable := false },
    { num := 3, name := "signature", kind := .scalar .bytes }]⟩,
  ⟨"sentinel.session.v1.MsgEndRequest", [
    { num := 1, name := "from", kind := .scalar .string },
    { num := 2, name := "id", kind := .scalar .uint64 },
    { num := 3, name := "rating", kind := .scalar .uint64 }]⟩,
  ⟨"sentinel.session.v1.MsgStartResponse", []⟩,
  ⟨"sentinel.session.v1.MsgUpdateResponse", []⟩,
  ⟨"sentinel.session.v1.MsgEndResponse", []⟩,
  ⟨"sentinel.session.v1.Params", [
    { num := 1, name := "inactive_duration", kind := .message "google.protobuf.Duration" .duration, nullable := false },
    { num := 2, name := "proof_verification_enabled", kind := .scalar .bool }]⟩,
  ⟨"sentinel.session.v1.Proof", [
    { num := 1, name := "id", kind := .scalar .uint64 },
    { num := 2, name := "duration", kind := .message "google.protobuf.Duration" .duration, nullable := false },
    { num := 3, name := "bandwidth", kind := .message "sentinel.types.v1.Bandwidth" .none, nullable := false }]⟩,
  ⟨"sentinel.session.v1.QuerySessionsRequest", [
    { num := 1, name := "pagination", kind := .message "cosmos.base.query.v1beta1.PageRequest" .none, nullable := true }]⟩,
  ⟨"sentinel.session.v1.QuerySessionsForAddressRequest", [
    { num := 1, name := "address", kind := .scalar .string },
    { num := 2, name := "status", kind := .scalar (.enum "sentinel.types.v1.Status") },
    { num := 3, name := "pagination", kind := .message "cosmos.base.query.v1beta1.PageRequest" .none, nullable := true }]⟩,
  ⟨"sentinel.session.v1.QuerySessionRequest", [
    { num := 1, name := "id", kind := .scalar .uint64 }]⟩,
  ⟨"sentinel.session.v1.QueryParamsRequest", []⟩,
  ⟨"sentinel.session.v1.QuerySessionsResponse", [
    { num := 1, name := "sessions", kind := .message "sentinel.session.v1.Session" .none, repeated := true, nullable := false },
    { num := 2, name := "pagination", kind := .message "cosmos.base.query.v1beta1.PageResponse" .none, nullable := true }]⟩,
  ⟨"sentinel.session.v1.QuerySessionsForAddressResponse", [
    { num := 1, name := "sessions", kind := .message "sentinel.session.v1.Session" .none, repeated := true, nullable := false },
    { num := 2, name := "pagination", kind := .message "cosmos.base.query.v1beta1.PageResponse" .none, nullable := true }]⟩,
  ⟨"sentinel.session.v1.QuerySessionResponse", [
    { num := 1, name := "session", kind := .message "sentinel.session.v1.Session" .none, nullable := false }]⟩,
  ⟨"sentinel.session.v1.QueryParamsResponse", [
    { num := 1, name := "params", kind := .message "sentinel.session.v1.Params" .none, nullable := false }]⟩,
  ⟨"sentinel.session.v1.Session", [
    { num := 1, name := "id", kind := .scalar .uint64 },
    { num := 2, name := "subscription", kind := .scalar .uint64 },
    { num := 3, name := "node", kind := .scalar .string },
    { num := 4, name := "address", kind := .scalar .string },
    { num := 5, name := "duration", kind := .message "google.protobuf.Duration" .duration, nullable := false },
    { num := 6, name := "bandwidth", kind := .message "sentinel.types.v1.Bandwidth" .none, nullable := false },
    { num := 7, name := "status", kind := .scalar (.enum "sentinel.types.v1.Status") },
    { num := 8, name := "status_at", kind := .message "google.protobuf.Timestamp" .time, nullable := false }]⟩,
  ⟨"sentinel.session.v2.EventStart", [
    { num := 1, name := "address", kind := .scalar .string, opts := [("moretags", "yaml:\"address\"")] },
    { num := 2, name := "node_address", kind := .scalar .string, opts := [("moretags", "yaml:\"node_address\"")] },
    { num := 3, name := "id", kind := .scalar .uint64, opts := [("customname", "ID"), ("moretags", "yaml:\"id\"")] },
    { num := 4, name := "plan_id", kind := .scalar .uint64, opts := [("customname", "PlanID"), ("moretags", "yaml:\"plan_id\"")] },
    { num := 5, name := "subscription_id", kind := .scalar .uint64, opts := [("customname", "SubscriptionID"), ("moretags", "yaml:\"subscription_id\"")] }]⟩,
  ⟨"sentinel.session.v2.EventUpdateDetails", [
    { num := 1, name := "address", kind := .scalar .string, opts := [("moretags", "yaml:\"address\"")] },
    { num := 2, name := "node_address", kind := .scalar .string, opts := [("moretags", "yaml:\"node_address\"")] },
    { num := 3, name := "id", kind := .scalar .uint64, opts := [("customname", "ID"), ("moretags", "yaml:\"id\"")] },
    { num := 4, name := "plan_id", kind := .scalar .uint64, opts := [("customname", "PlanID"), ("moretags", "yaml:\"plan_id\"")] },
    { num := 5, name := "subscription_id", kind := .scalar .uint64, opts := [("customname", "SubscriptionID"), ("moretags", "yaml:\"subscription_id\"")] }]⟩,
  ⟨"sentinel.session.v2.EventUpdateStatus", [
    { num := 1, name := "status", kind := .scalar (.enum "sentinel.types.v1.Status"), opts := [("moretags", "yaml:\"status\"")] },
    { num := 2, name := "address", kind := .scalar .string, opts := [("moretags", "yaml:\"address\"")] },
    { num := 3, name := "node_address", kind := .scalar .string, opts := [("moretags", "yaml:\"node_address\"")] },
    { num := 4, name := "id", kind := .scalar .uint64, opts := [("customname", "ID"), ("moretags", "yaml:\"id\"")] },
    { num := 5, name := "plan_id", kind := .scalar .uint64, opts := [("customname", "PlanID"), ("moretags", "yaml:\"plan_id\"")] },
    { num := 6, name := "subscription_id", kind := .scalar .uint64, opts := [("customname", "SubscriptionID"), ("moretags", "yaml:\"subscription_id\"")] }]⟩,
  ⟨"sentinel.session.v2.GenesisState", [
    { num := 1, name := "sessions", kind := .message "sentinel.session.v2.Session" .none, repeated := true, nullable := false },
    { num := 2, name := "params", kind := .message "sentinel.session.v2.Params" .none, nullable := false }]⟩,
  ⟨"sentinel.session.v2.MsgStartRequest", [
    { num := 1, name := "from", kind := .scalar .string },
    { num := 2, name := "id", kind := .scalar .uint64, opts := [("customname", "ID")] },
    { num := 3, name := "address", kind := .scalar .string }]⟩,
  ⟨"sentinel.session.v2.MsgUpdateDetailsRequest", [
    { num := 1, name := "from", kind := .scalar .string },
    { num := 2, name := "proof", kind := .message "sentinel.session.v2.Proof" .none, nullable := false },
    { num := 3, name := "signature", kind := .scalar .bytes }]⟩,
  ⟨"sentinel.session.v2.MsgEndRequest", [
    { num := 1, name := "from", kind := .scalar .string },
    { num := 2, name := "id", kind := .scalar .uint64, opts := [("customname", "ID")] },
    { num := 3, name := "rating", kind := .scalar .uint64 }]⟩,
  ⟨"sentinel.session.v2.MsgStartResponse", []⟩,
  ⟨"sentinel.session.v2.MsgUpdateDetailsResponse", []⟩,
  ⟨"sentinel.session.v2.MsgEndResponse", []⟩,
  ⟨"sentinel.session.v2.Params", [
    { num := 1, name := "status_change_delay", kind := .message "google.protobuf.Duration" .duration, nullable := false },
    { num := 2, name := "proof_verification_enabled", kind := .scalar .bool }]⟩,
  ⟨"sentinel.session.v2.Proof", [
    { num := 1, name := "id", kind := .scalar .uint64, opts := [("customname", "ID")] },
    { num := 2, name := "bandwidth", kind := .message "sentinel.types.v1.Bandwidth" .none, nullable := false },
    { num := 3, name := "duration", kind := .message "google.protobuf.Duration" .duration, nullable := false }]⟩,
  ⟨"sentinel.session.v2.QuerySessionsRequest", [
    { num := 1, name := "pagination", kind := .message "cosmos.base.query.v1beta1.PageRequest" .none, nullable := true }]⟩,
  ⟨"sentinel.session.v2.QuerySessionsForAccountRequest", [
    { num := 1, name := "address", kind := .scalar .string },
    { num := 2, name := "pagination", kind := .message "cosmos.base.query.v1beta1.PageRequest" .none, nullable := true }]⟩,
  ⟨"sentinel.session.v2.QuerySessionsForNodeRequest", [
    { num := 1, name := "address", kind := .scalar .string },
    { num := 2, name := "pagination", kind := .message "cosmos.base.query.v1beta1.PageRequest" .none, nullable := true }]⟩,
  ⟨"sentinel.session.v2.QuerySessionsForSubscriptionRequest", [
    { num := 1, name := "id", kind := .scalar .uint64 },
    { num := 2, name := "pagination", kind := .message "cosmos.base.query.v1beta1.PageRequest" .none, nullable := true }]⟩,
  ⟨"sentinel.session.v2.QuerySessionsForAllocationRequest", [
    { num := 1, name := "id", kind := .scalar .uint64 },
    { num := 2, name := "address", kind := .scalar .string },
    { num := 3, name := "pagination", kind := .message "cosmos.base.query.v1beta1.PageRequest" .none, nullable := true }]⟩,
  ⟨"sentinel.session.v2.QuerySessionRequest", [
    { num := 1, name := "id", kind := .scalar .uint64 }]⟩,
  ⟨"sentinel.session.v2.QueryParamsRequest", []⟩,
  ⟨"sentinel.session.v2.QuerySessionsResponse", [
    { num := 1, name := "sessions", kind := .message "sentinel.session.v2.Session" .none, repeated := true, nullable := false },
    { num := 2, name := "pagination", kind := .message "cosmos.base.query.v1beta1.PageResponse" .none, nullable := true }]⟩,
  ⟨"sentinel.session.v2.QuerySessionsForAccountResponse", [
    { num := 1, name := "sessions", kind := .message "sentinel.session.v2.Session" .none, repeated := true, nullable := false },
    { num := 2, name := "pagination", kind := .message "cosmos.base.query.v1beta1.PageResponse" .none, nullable := true }]⟩,
  ⟨"sentinel.session.v2.QuerySessionsForNodeResponse", [
    { num := 1, name := "sessions", kind := .message "sentinel.session.v2.Session" .none, repeated := true, nullable := false },
    { num := 2, name := "pagination", kind := .message "cosmos.base.query.v1beta1.PageResponse" .none, nullable := true }]⟩,
  ⟨"sentinel.session.v2.QuerySessionsForSubscriptionResponse", [
    { num := 1, name := "sessions", kind := .message "sentinel.session.v2.Session" .none, repeated := true, nullable := false },
    { num := 2, name := "pagination", kind := .message "cosmos.base.query.v1beta1.PageResponse" .none, nullable := true }]⟩,
  ⟨"sentinel.session.v2.QuerySessionsForAllocationResponse", [
    { num := 1, name := "sessions", kind := .message "sentinel.session.v2.Session" .none, repeated := true, nullable := false },
    { num := 2, name := "pagination", kind := .message "cosmos.base.query.v1beta1.PageResponse" .none, nullable := true }]⟩,
  ⟨"sentinel.session.v2.QuerySessionResponse", [
    { num := 1, name := "session", kind := .message "sentinel.session.v2.Session" .none, nullable := false }]⟩,
  ⟨"sentinel.session.v2.QueryParamsResponse", [
    { num := 1, name := "params", kind := .message "sentinel.session.v2.Params" .none, nullable := false }]⟩,
  ⟨"sentinel.session.v2.Session", [
    { num := 1, name := "id", kind := .scalar .uint64, opts := [("customname", "ID")] },
    { num := 2, name := "subscription_id", kind := .scalar .uint64, opts := [("customname", "SubscriptionID")] },
    { num := 3, name := "node_address", kind := .scalar .string },
    { num := 4, name := "address", kind := .scalar .string },
    { num := 5, name := "bandwidth", kind := .message "sentinel.types.v1.Bandwidth" .none, nullable := false },
    { num := 6, name := "duration", kind := .message "google.protobuf.Duration" .duration, nullable := false },
    { num := 7, name := "inactive_at", kind := .message "google.protobuf.Timestamp" .time, nullable := false },
    { num := 8, name := "status", kind := .scalar (.enum "sentinel.types.v1.Status") },
    { num := 9, name := "status_at", kind := .message "google.protobuf.Timestamp" .time, nullable := false }]⟩,
  ⟨"sentinel.subscription.v1.EventSubscribe", [
    { num := 1, name := "id", kind := .scalar .uint64, opts := [("moretags", "yaml:\"id\"")] },
    { num := 2, name := "node", kind := .scalar .string, opts := [("moretags", "yaml:\"node\"")] },
    { num := 3, name := "plan", kind := .scalar .uint64, opts := [("moretags", "yaml:\"plan\"")] }]⟩,
  ⟨"sentinel.subscription.v1.EventSetStatus", [
    { num := 1, name := "id", kind := .scalar .uint64, opts := [("moretags", "yaml:\"id\"")] },
    { num := 2, name := "status", kind := .scalar (.enum "sentinel.types.v1.Status"), opts := [("moretags", "yaml:\"status\"")] }]⟩,
  ⟨"sentinel.subscription.v1.EventAddQuota", [
    { num := 1, name := "id", kind := .scalar .uint64, opts := [("moretags", "yaml:\"id\"")] },
    { num := 2, name := "address", kind := .scalar .string, opts := [("moretags", "yaml:\"address\"")] }]⟩,
  ⟨"sentinel.subscription.v1.EventUpdateQuota", [
    { num := 1, name := "id", kind := .scalar .uint64, opts := [("moretags", "yaml:\"id\"")] },
    { num := 2, name := "address", kind := .scalar .string, opts := [("moretags", "yaml:\"address\"")] }]⟩,
  ⟨"sentinel.subscription.v1.GenesisSubscription", [
    { num := 1, name := "subscription", kind := .message "sentinel.subscription.v1.Subscription" .none, nullable := false, opts := [("jsontag", "_")] },
    { num := 2, name := "quotas", kind := .message "sentinel.subscription.v1.Quota" .none, repeated := true, nullable := false }]⟩,
  ⟨"sentinel.subscription.v1.GenesisState", [
    { num := 1, name := "subscriptions", kind := .message "sentinel.subscription.v1.GenesisSubscription" .none, repeated := true, nullable := false, opts := [("jsontag", "_,omitempty")] },
    { num := 2, name := "params", kind := .message "sentinel.subscription.v1.Params" .none, nullable := false }]⟩,
  ⟨"sentinel.subscription.v1.MsgSubscribeToNodeRequest", [
    { num := 1, name := "from", kind := .scalar .string },
    { num := 2, name := "address", kind := .scalar .string },
    { num := 3, name := "deposit", kind := .message "cosmos.base.v1beta1.Coin" .none, nullable := false }]⟩,
  ⟨"sentinel.subscription.v1.MsgSubscribeToPlanRequest", [
    { num := 1, name := "from", kind := .scalar .string },
    { num := 2, name := "id", kind := .scalar .uint64 },
    { num := 3, name := "denom", kind := .scalar .string }]⟩,
  ⟨"sentinel.subscription.v1.MsgCancelRequest", [
    { num := 1, name := "from", kind := .scalar .string },
    { num := 2, name := "id", kind := .scalar .uint64 }]⟩,
  ⟨"sentinel.subscription.v1.MsgAddQuotaRequest", [
    { num := 1, name := "from", kind := .scalar .string },
    { num := 2, name := "id", kind := .scalar .uint64 },
    { num := 3, name := "address", kind := .scalar .string },
    { num := 4, name := "bytes", kind := .scalar .sdkInt, opts := [("customtype", "github.com/cosmos/cosmos-sdk/types.Int")] }]⟩,
  ⟨"sentinel.subscription.v1.MsgUpdateQuotaRequest", [
    { num := 1, name := "from", kind := .scalar .string },
    { num := 2, name := "id", kind := .scalar .uint64 },
    { num := 3, name := "address", kind := .scalar .string },
    { num := 4, name := "bytes", kind := .scalar .sdkInt, opts := [("customtype", "github.com/cosmos/cosmos-sdk/types.Int")] }]⟩,
  ⟨"sentinel.subscription.v1.MsgSubscribeToNodeResponse", []⟩,
  ⟨"sentinel.subscription.v1.MsgSubscribeToPlanResponse", []⟩,
  ⟨"sentinel.subscription.v1.MsgCancelResponse", []⟩,
  ⟨"sentinel.subscription.v1.MsgAddQuotaResponse", []⟩,
  ⟨"sentinel.subscription.v1.MsgUpdateQuotaResponse", []⟩,
  ⟨"sentinel.subscription.v1.Params", [
    { num := 1, name := "inactive_duration", kind := .message "google.protobuf.Duration" .duration, nullable := false }]⟩,
  ⟨"sentinel.subscription.v1.QuerySubscriptionsRequest", [
    { num := 1, name := "pagination", kind := .message "cosmos.base.query.v1beta1.PageRequest" .none, nullable := true }]⟩,
  ⟨"sentinel.subscription.v1.QuerySubscriptionsForAddressRequest", [
    { num := 1, name := "address", kind := .scalar .string },
    { num := 2, name := "status", kind := .scalar (.enum "sentinel.types.v1.Status") },
    { num := 3, name := "pagination", kind := .message "cosmos.base.query.v1beta1.PageRequest" .none, nullable := true }]⟩,
  ⟨"sentinel.subscription.v1.QuerySubscriptionRequest", [
    { num := 1, name := "id", kind := .scalar .uint64 }]⟩,
  ⟨"sentinel.subscription.v1.QueryQuotaRequest", [
    { num := 1, name := "id", kind := .scalar .uint64 },
    { num := 2, name := "address", kind := .scalar .string }]⟩,
  ⟨"sentinel.subscription.v1.QueryQuotasRequest", [
    { num := 1, name := "id", kind := .scalar .uint64 },
    { num := 2, name := "pagination", kind := .message "cosmos.base.query.v1beta1.PageRequest" .none, nullable := true }]⟩,
  ⟨"sentinel.subscription.v1.QueryParamsRequest", []⟩,
  ⟨"sentinel.subscription.v1.QuerySubscriptionsResponse", [
    { num := 1, name := "subscriptions", kind := .message "sentinel.subscription.v1.Subscription" .none, repeated := true, nullable := false },
    { num := 2, name := "pagination", kind := .message "cosmos.base.query.v1beta1.PageResponse" .none, nullable := true }]⟩,
  ⟨"sentinel.subscription.v1.QuerySubscriptionsForAddressResponse", [
    { num := 1, name := "subscriptions", kind := .message "sentinel.subscription.v1.Subscription" .none, repeated := true, nullable := false },
    { num := 2, name := "pagination", kind := .message "cosmos.base.query.v1beta1.PageResponse" .none, nullable := true }]⟩,
  ⟨"sentinel.subscription.v1.QuerySubscriptionResponse", [
    { num := 1, name := "subscription", kind := .message "sentinel.subscription.v1.Subscription" .none, nullable := false }]⟩,
  ⟨"sentinel.subscription.v1.QueryQuotaResponse", [
    { num := 1, name := "quota", kind := .message "sentinel.subscription.v1.Quota" .none, nullable := false }]⟩,
  ⟨"sentinel.subscription.v1.QueryQuotasResponse", [
    { num := 1, name := "quotas", kind := .message "sentinel.subscription.v1.Quota" .none, repeated := true, nullable := false },
    { num := 2, name := "pagination", kind := .message "cosmos.base.query.v1beta1.PageResponse" .none, nullable := true }]⟩,
  ⟨"sentinel.subscription.v1.QueryParamsResponse", [
    { num := 1, name := "params", kind := .message "sentinel.subscription.v1.Params" .none, nullable := false }]⟩,
  ⟨"sentinel.subscription.v1.Quota", [
    { num := 1, name := "address", kind := .scalar .string },
    { num := 2, name := "allocated", kind := .scalar .sdkInt, opts := [("customtype", "github.com/cosmos/cosmos-sdk/types.Int")] },
    { num := 3, name := "consumed", kind := .scalar .sdkInt, opts := [("customtype", "github.com/cosmos/cosmos-sdk/types.Int")] }]⟩,
  ⟨"sentinel.subscription.v1.Subscription", [
    { num := 1, name := "id", kind := .scalar .uint64 },
    { num := 2, name := "owner", kind := .scalar .string },
    { num := 3, name := "node", kind := .scalar .string },
    { num := 4, name := "price", kind := .message "cosmos.base.v1beta1.Coin" .none, nullable := false },
    { num := 5, name := "deposit", kind := .message "cosmos.base.v1beta1.Coin" .none, nullable := false },
    { num := 6, name := "plan", kind := .scalar .uint64 },
    { num := 7, name := "denom", kind := .scalar .string },
    { num := 8, name := "expiry", kind := .message "google.protobuf.Timestamp" .time, nullable := false },
    { num := 9, name := "free", kind := .scalar .sdkInt, opts := [("customtype", "github.com/cosmos/cosmos-sdk/types.Int")] },
    { num := 10, name := "status", kind := .scalar (.enum "sentinel.types.v1.Status") },
    { num := 11, name := "status_at", kind := .message "google.protobuf.Timestamp" .time, nullable := false }]⟩,
  ⟨"sentinel.subscription.v2.Allocation", [
    { num := 1, name := "id", kind := .scalar .uint64, opts := [("customname", "ID")] },
    { num := 2, name := "address", kind := .scalar .string },
    { num := 3, name := "granted_bytes", kind := .scalar .sdkInt, opts := [("customtype", "cosmossdk.io/math.Int")] },
    { num := 4, name := "utilised_bytes", kind := .scalar .sdkInt, opts := [("customtype", "cosmossdk.io/math.Int")] }]⟩,
  ⟨"sentinel.subscription.v2.EventUpdateStatus", [
    { num := 1, name := "status", kind := .scalar (.enum "sentinel.types.v1.Status"), opts := [("moretags", "yaml:\"status\"")] },
    { num := 2, name := "address", kind := .scalar .string, opts := [("moretags", "yaml:\"address\"")] },
    { num := 3, name := "id", kind := .scalar .uint64, opts := [("customname", "ID"), ("moretags", "yaml:\"id\"")] },
    { num := 4, name := "plan_id", kind := .scalar .uint64, opts := [("customname", "PlanID"), ("moretags", "yaml:\"plan_id\"")] }]⟩,
  ⟨"sentinel.subscription.v2.EventAllocate", [
    { num := 1, name := "address", kind := .scalar .string, opts := [("moretags", "yaml:\"address\"")] },
    { num := 2, name := "granted_bytes", kind := .scalar .sdkInt, opts := [("customtype", "cosmossdk.io/math.Int")] },
    { num := 3, name := "utilised_bytes", kind := .scalar .sdkInt, opts := [("customtype", "cosmossdk.io/math.Int")] },
    { num := 4, name := "id", kind := .scalar .uint64, opts := [("customname", "ID"), ("moretags", "yaml:\"id\"")] }]⟩,
  ⟨"sentinel.subscription.v2.EventCreatePayout", [
    { num := 1, name := "address", kind := .scalar .string, opts := [("moretags", "yaml:\"address\"")] },
    { num := 2, name := "node_address", kind := .scalar .string, opts := [("moretags", "yaml:\"node_address\"")] },
    { num := 3, name := "id", kind := .scalar .uint64, opts := [("customname", "ID"), ("moretags", "yaml:\"id\"")] }]⟩,
  ⟨"sentinel.subscription.v2.EventPayForPayout", [
    { num := 1, name := "address", kind := .scalar .string, opts := [("moretags", "yaml:\"address\"")] },
    { num := 2, name := "node_address", kind := .scalar .string, opts := [("moretags", "yaml:\"node_address\"")] },
    { num := 3, name := "payment", kind := .scalar .string, opts := [("moretags", "yaml:\"payment\"")] },
    { num := 4, name := "staking_reward", kind := .scalar .string, opts := [("moretags", "yaml:\"staking_reward\"")] },
    { num := 5, name := "id", kind := .scalar .uint64, opts := [("customname", "ID"), ("moretags", "yaml:\"id\"")] }]⟩,
  ⟨"sentinel.subscription.v2.EventPayForPlan", [
    { num := 1, name := "address", kind := .scalar .string, opts := [("moretags", "yaml:\"address\"")] },
    { num := 2, name := "payment", kind := .scalar .string, opts := [("moretags", "yaml:\"payment\"")] },
    { num := 3, name := "provider_address", kind := .scalar .string, opts := [("moretags", "yaml:\"provider_address\"")] },
    { num := 4, name := "staking_reward", kind := .scalar .string, opts := [("moretags", "yaml:\"staking_reward\"")] },
    { num := 5, name := "id", kind := .scalar .uint64, opts := [("customname", "ID"), ("moretags", "yaml:\"id\"")] }]⟩,
  ⟨"sentinel.subscription.v2.EventPayForSession", [
    { num := 1, name := "address", kind := .scalar .string, opts := [("moretags", "yaml:\"address\"")] },
    { num := 2, name := "node_address", kind := .scalar .string, opts := [("moretags", "yaml:\"node_address\"")] },
    { num := 3, name := "payment", kind := .scalar .string, opts := [("moretags", "yaml:\"payment\"")] },
    { num := 4, name := "staking_reward", kind := .scalar .string, opts := [("moretags", "yaml:\"staking_reward\"")] },
    { num := 5, name := "session_id", kind := .scalar .uint64, opts := [("customname", "SessionID"), ("moretags", "yaml:\"session_id\"")] },
    { num := 6, name := "subscription_id", kind := .scalar .uint64, opts := [("customname", "SubscriptionID"), ("moretags", "yaml:\"subscription_id\"")] }]⟩,
  ⟨"sentinel.subscription.v2.EventRefund", [
    { num := 1, name := "address", kind := .scalar .string, opts := [("moretags", "yaml:\"address\"")] },
    { num := 2, name := "amount", kind := .scalar .string, opts := [("moretags", "yaml:\"amount\"")] },
    { num := 3, name := "id", kind := .scalar .uint64, opts := [("customname", "ID"), ("moretags", "yaml:\"id\"")] }]⟩,
  ⟨"sentinel.subscription.v2.GenesisSubscription", [
    { num := 1, name := "subscription", kind := .message "google.protobuf.Any" .none, nullable := true },
    { num := 2, name := "allocations", kind := .message "sentinel.subscription.v2.Allocation" .none, repeated := true, nullable := false }]⟩,
  ⟨"sentinel.subscription.v2.GenesisState", [
    { num := 1, name := "subscriptions", kind := .message "sentinel.subscription.v2.GenesisSubscription" .none, repeated := true, nullable := false },
    { num := 2, name := "params", kind := .message "sentinel.subscription.v2.Params" .none, nullable := false }]⟩,
  ⟨"sentinel.subscription.v2.MsgCancelRequest", [
    { num := 1, name := "from", kind := .scalar .string },
    { num := 2, name := "id", kind := .scalar .uint64, opts := [("customname", "ID")] }]⟩,
  ⟨"sentinel.subscription.v2.MsgAllocateRequest", [
    { num := 1, name := "from", kind := .scalar .string },
    { num := 2, name := "id", kind := .scalar .uint64, opts := [("customname", "ID")] },
    { num := 3, name := "address", kind := .scalar .string },
    { num := 4, name := "bytes", kind := .scalar .sdkInt, opts := [("customtype", "cosmossdk.io/math.Int")] }]⟩,
  ⟨"sentinel.subscription.v2.MsgCancelResponse", []⟩,
  ⟨"sentinel.subscription.v2.MsgAllocateResponse", []⟩,
  ⟨"sentinel.subscription.v2.Params", [
    { num := 1, name := "status_change_delay", kind := .message "google.protobuf.Duration" .duration, nullable := false }]⟩,
  ⟨"sentinel.subscription.v2.Payout", [
    { num := 1, name := "id", kind := .scalar .uint64, opts := [("customname", "ID")] },
    { num := 2, name := "address", kind := .scalar .string },
    { num := 3, name := "node_address", kind := .scalar .string },
    { num := 4, name := "hours", kind := .scalar .int64 },
    { num := 5, name := "price", kind := .message "cosmos.base.v1beta1.Coin" .none, nullable := false },
    { num := 6, name := "next_at", kind := .message "google.protobuf.Timestamp" .time, nullable := false }]⟩,
  ⟨"sentinel.subscription.v2.QuerySubscriptionsRequest", [
    { num := 1, name := "pagination", kind := .message "cosmos.base.query.v1beta1.PageRequest" .none, nullable := true }]⟩,
  ⟨"sentinel.subscription.v2.QuerySubscriptionsForAccountRequest", [
    { num := 1, name := "address", kind := .scalar .string },
    { num := 2, name := "pagination", kind := .message "cosmos.base.query.v1beta1.PageRequest" .none, nullable := true }]⟩,
  ⟨"sentinel.subscription.v2.QuerySubscriptionsForNodeRequest", [
    { num := 1, name := "address", kind := .scalar .string },
    { num := 2, name := "pagination", kind := .message "cosmos.base.query.v1beta1.PageRequest" .none, nullable := true }]⟩,
  ⟨"sentinel.subscription.v2.QuerySubscriptionsForPlanRequest", [
    { num := 1, name := "id", kind := .scalar .uint64 },
    { num := 2, name := "pagination", kind := .message "cosmos.base.query.v1beta1.PageRequest" .none, nullable := true }]⟩,
  ⟨"sentinel.subscription.v2.QuerySubscriptionRequest", [
    { num := 1, name := "id", kind := .scalar .uint64 }]⟩,
  ⟨"sentinel.subscription.v2.QueryAllocationRequest", [
    { num := 1, name := "id", kind := .scalar .uint64 },
    { num := 2, name := "address", kind := .scalar .string }]⟩,
  ⟨"sentinel.subscription.v2.QueryAllocationsRequest", [
    { num := 1, name := "id", kind := .scalar .uint64 },
    { num := 2, name := "pagination", kind := .message "cosmos.base.query.v1beta1.PageRequest" .none, nullable := true }]⟩,
  ⟨"sentinel.subscription.v2.QueryPayoutsRequest", [
    { num := 1, name := "pagination", kind := .message "cosmos.base.query.v1beta1.PageRequest" .none, nullable := true }]⟩,
  ⟨"sentinel.subscription.v2.QueryPayoutsForAccountRequest", [
    { num := 1, name := "address", kind := .scalar .string },
    { num := 2, name := "pagination", kind := .message "cosmos.base.query.v1beta1.PageRequest" .none, nullable := true }]⟩,
  ⟨"sentinel.subscription.v2.QueryPayoutsForNodeRequest", [
    { num := 1, name := "address", kind := .scalar .string },
    { num := 2, name := "pagination", kind := .message "cosmos.base.query.v1beta1.PageRequest" .none, nullable := true }]⟩,
  ⟨"sentinel.subscription.v2.QueryPayoutRequest", [
    { num := 1, name := "id", kind := .scalar .uint64 }]⟩,
  ⟨"sentinel.subscription.v2.QueryParamsRequest", []⟩,
  ⟨"sentinel.subscription.v2.QuerySubscriptionsResponse", [
    { num := 1, name := "subscriptions", kind := .message "google.protobuf.Any" .none, repeated := true, nullable := true },
    { num := 2, name := "pagination", kind := .message "cosmos.base.query.v1beta1.PageResponse" .none, nullable := true }]⟩,
  ⟨"sentinel.subscription.v2.QuerySubscriptionsForAccountResponse", [
    { num := 1, name := "subscriptions", kind := .message "google.protobuf.Any" .none, repeated := true, nullable := true },
    { num := 2, name := "pagination", kind := .message "cosmos.base.query.v1beta1.PageResponse" .none, nullable := true }]⟩,
  ⟨"sentinel.subscription.v2.QuerySubscriptionsForNodeResponse", [
    { num := 1, name := "subscriptions", kind := .message "google.protobuf.Any" .none, repeated := true, nullable := true },
    { num := 2, name := "pagination", kind := .message "cosmos.base.query.v1beta1.PageResponse" .none, nullable := true }]⟩,
  ⟨"sentinel.subscription.v2.QuerySubscriptionsForPlanResponse", [
    { num := 1, name := "subscriptions", kind := .message "google.protobuf.Any" .none, repeated := true, nullable := true },
    { num := 2, name := "pagination", kind := .message "cosmos.base.query.v1beta1.PageResponse" .none, nullable := true }]⟩,
  ⟨"sentinel.subscription.v2.QuerySubscriptionResponse", [
    { num := 1, name := "subscription", kind := .message "google.protobuf.Any" .none, nullable := true }]⟩,
  ⟨"sentinel.subscription.v2.QueryAllocationResponse", [
    { num := 1, name := "allocation", kind := .message "sentinel.subscription.v2.Allocation" .none, nullable := false }]⟩,
  ⟨"sentinel.subscription.v2.QueryAllocationsResponse", [
    { num := 1, name := "allocations", kind := .message "sentinel.subscription.v2.Allocation" .none, repeated := true, nullable := false },
    { num := 2, name := "pagination", kind := .message "cosmos.base.query.v1beta1.PageResponse" .none, nullable := true }]⟩,
  ⟨"sentinel.subscription.v2.QueryPayoutsResponse", [
    { num := 1, name := "payouts", kind := .message "sentinel.subscription.v2.Payout" .none, repeated := true, nullable := false },
    { num := 2, name := "pagination", kind := .message "cosmos.base.query.v1beta1.PageResponse" .none, nullable := true }]⟩,
  ⟨"sentinel.subscription.v2.QueryPayoutsForAccountResponse", [
    { num := 1, name := "payouts", kind := .message "sentinel.subscription.v2.Payout" .none, repeated := true, nullable := false },
    { num := 2, name := "pagination", kind := .message "cosmos.base.query.v1beta1.PageResponse" .none, nullable := true }]⟩,
  ⟨"sentinel.subscription.v2.QueryPayoutsForNodeResponse", [
    { num := 1, name := "payouts", kind := .message "sentinel.subscription.v2.Payout" .none, repeated := true, nullable := false },
    { num := 2, name := "pagination", kind := .message "cosmos.base.query.v1beta1.PageResponse" .none, nullable := true }]⟩,
  ⟨"sentinel.subscription.v2.QueryPayoutResponse", [
    { num := 1, name := "payout", kind := .message "sentinel.subscription.v2.Payout" .none, nullable := false }]⟩,
  ⟨"sentinel.subscription.v2.QueryParamsResponse", [
    { num := 1, name := "params", kind := .message "sentinel.subscription.v2.Params" .none, nullable := false }]⟩,
  ⟨"sentinel.subscription.v2.BaseSubscription", [
    { num := 1, name := "id", kind := .scalar .uint64, opts := [("customname", "ID")] },
    { num := 2, name := "address", kind := .scalar .string },
    { num := 3, name := "inactive_at", kind := .message "google.protobuf.Timestamp" .time, nullable := false },
    { num := 4, name := "status", kind := .scalar (.enum "sentinel.types.v1.Status") },
    { num := 5, name := "status_at", kind := .message "google.protobuf.Timestamp" .time, nullable := false }]⟩,
  ⟨"sentinel.subscription.v2.NodeSubscription", [
    { num := 1, name := "base", kind := .message "sentinel.subscription.v2.BaseSubscription" .none, nullable := true, opts := [("embed", "true")] },
    { num := 2, name := "node_address", kind := .scalar .string },
    { num := 3, name := "gigabytes", kind := .scalar .int64 },
    { num := 4, name := "hours", kind := .scalar .int64 },
    { num := 5, name := "deposit", kind := .message "cosmos.base.v1beta1.Coin" .none, nullable := false }]⟩,
  ⟨"sentinel.subscription.v2.PlanSubscription", [
    { num := 1, name := "base", kind := .message "sentinel.subscription.v2.BaseSubscription" .none, nullable := true, opts := [("embed", "true")] },
    { num := 2, name := "plan_id", kind := .scalar .uint64, opts := [("customname", "PlanID")] },
    { num := 3, name := "denom", kind := .scalar .string }]⟩,
  ⟨"sentinel.swap.v1.EventSwap", [
    { num := 1, name := "tx_hash", kind := .scalar .bytes, opts := [("moretags", "yaml:\"tx_hash\"")] },
    { num := 2, name := "receiver", kind := .scalar .string, opts := [("moretags", "yaml:\"receiver\"")] }]⟩,
  ⟨"sentinel.swap.v1.GenesisState", [
    { num := 1, name := "swaps", kind := .message "sentinel.swap.v1.Swap" .none, repeated := true, nullable := false, opts := [("jsontag", "_,omitempty")] },
    { num := 2, name := "params", kind := .message "sentinel.swap.v1.Params" .none, nullable := false }]⟩,
  ⟨"sentinel.swap.v1.MsgSwapRequest", [
    { num := 1, name := "from", kind := .scalar .string },
    { num := 2, name := "tx_hash", kind := .scalar .bytes },
    { num := 3, name := "receiver", kind := .scalar .string },
    { num := 4, name := "amount", kind := .scalar .sdkInt, opts := [("customtype", "cosmossdk.io/math.Int")] }]⟩,
  ⟨"sentinel.swap.v1.MsgSwapResponse", []⟩,
  ⟨"sentinel.swap.v1.Params", [
    { num := 1, name := "swap_enabled", kind := .scalar .bool },
    { num := 2, name := "swap_denom", kind := .scalar .string },
    { num := 3, name := "approve_by", kind := .scalar .string }]⟩,
  ⟨"sentinel.swap.v1.QuerySwapsRequest", [
    { num := 1, name := "pagination", kind := .message "cosmos.base.query.v1beta1.PageRequest" .none, nullable := true }]⟩,
  ⟨"sentinel.swap.v1.QuerySwapRequest", [
    { num := 1, name := "tx_hash", kind := .scalar .bytes }]⟩,
  ⟨"sentinel.swap.v1.QueryParamsRequest", []⟩,
  ⟨"sentinel.swap.v1.QuerySwapsResponse", [
    { num := 1, name := "swaps", kind := .message "sentinel.swap.v1.Swap" .none, repeated := true, nullable := false },
    { num := 2, name := "pagination", kind := .message "cosmos.base.query.v1beta1.PageResponse" .none, nullable := true }]⟩,
  ⟨"sentinel.swap.v1.QuerySwapResponse", [
    { num := 1, name := "swap", kind := .message "sentinel.swap.v1.Swap" .none, nullable := false }]⟩,
  ⟨"sentinel.swap.v1.QueryParamsResponse", [
    { num := 1, name := "params", kind := .message "sentinel.swap.v1.Params" .none, nullable := false }]⟩,
  ⟨"sentinel.swap.v1.Swap", [
    { num := 1, name := "tx_hash", kind := .scalar .bytes },
    { num := 2, name := "receiver", kind := .scalar .string },
    { num := 3, name := "amount", kind := .message "cosmos.base.v1beta1.Coin" .none, nullable := false }]⟩,
  ⟨"sentinel.types.v1.Bandwidth", [
    { num := 1, name := "upload", kind := .scalar .sdkInt, opts := [("customtype", "cosmossdk.io/math.Int")] },
    { num := 2, name := "download", kind := .scalar .sdkInt, opts := [("customtype", "cosmossdk.io/math.Int")] }]⟩,
  ⟨"sentinel.vpn.v1.GenesisState", [
    { num := 1, name := "deposits", kind := .message "sentinel.deposit.v1.Deposit" .none, repeated := true, nullable := false },
    { num := 2, name := "nodes", kind := .message "sentinel.node.v2.GenesisState" .none, nullable := true },
    { num := 3, name := "plans", kind := .message "sentinel.plan.v2.GenesisPlan" .none, repeated := true, nullable := false },
    { num := 4, name := "providers", kind := .message "sentinel.provider.v2.GenesisState" .none, nullable := true },
    { num := 5, name := "sessions", kind := .message "sentinel.session.v2.GenesisState" .none, nullable := true },
    { num := 6, name := "subscriptions", kind := .message "sentinel.subscription.v2.GenesisState" .none, nullable := true }]⟩
]

/-- 2 enums. -/
def enums : List EnumDesc := [
  ⟨"sentinel.subscription.v2.SubscriptionType", [("TYPE_UNSPECIFIED", 0), ("TYPE_NODE", 1), ("TYPE_PLAN", 2)]⟩,
  ⟨"sentinel.types.v1.Status", [("STATUS_UNSPECIFIED", 0), ("STATUS_ACTIVE", 1), ("STATUS_INACTIVE_PENDING", 2), ("STATUS_INACTIVE", 3)]⟩
]

/-- 23 services. -/
def services : List ServiceDesc := [
  ⟨"sentinel.deposit.v1.QueryService", [
    ⟨"QueryDeposits", "sentinel.deposit.v1.QueryDepositsRequest", "sentinel.deposit.v1.QueryDepositsResponse"⟩,
    ⟨"QueryDeposit", "sentinel.deposit.v1.QueryDepositRequest", "sentinel.deposit.v1.QueryDepositResponse"⟩]⟩,
  ⟨"sentinel.node.v1.MsgService", [
    ⟨"MsgRegister", "sentinel.node.v1.MsgRegisterRequest", "sentinel.node.v1.MsgRegisterResponse"⟩,
    ⟨"MsgUpdate", "sentinel.node.v1.MsgUpdateRequest", "sentinel.node.v1.MsgUpdateResponse"⟩,
    ⟨"MsgSetStatus", "sentinel.node.v1.MsgSetStatusRequest", "sentinel.node.v1.MsgSetStatusResponse"⟩]⟩,
  ⟨"sentinel.node.v1.QueryService", [
    ⟨"QueryNodes", "sentinel.node.v1.QueryNodesRequest", "sentinel.node.v1.QueryNodesResponse"⟩,
    ⟨"QueryNodesForProvider", "sentinel.node.v1.QueryNodesForProviderRequest", "sentinel.node.v1.QueryNodesForProviderResponse"⟩,
    ⟨"QueryNode", "sentinel.node.v1.QueryNodeRequest", "sentinel.node.v1.QueryNodeResponse"⟩,
    ⟨"QueryParams", "sentinel.node.v1.QueryParamsRequest", "sentinel.node.v1.QueryParamsResponse"⟩]⟩,
  ⟨"sentinel.node.v2.MsgService", [
    ⟨"MsgRegister", "sentinel.node.v2.MsgRegisterRequest", "sentinel.node.v2.MsgRegisterResponse"⟩,
    ⟨"MsgUpdateDetails", "sentinel.node.v2.MsgUpdateDetailsRequest", "sentinel.node.v2.MsgUpdateDetailsResponse"⟩,
    ⟨"MsgUpdateStatus", "sentinel.node.v2.MsgUpdateStatusRequest", "sentinel.node.v2.MsgUpdateStatusResponse"⟩,
    ⟨"MsgSubscribe", "sentinel.node.v2.MsgSubscribeRequest", "sentinel.node.v2.MsgSubscribeResponse"⟩]⟩,
  ⟨"sentinel.node.v2.QueryService", [
    ⟨"QueryNodes", "sentinel.node.v2.QueryNodesRequest", "sentinel.node.v2.QueryNodesResponse"⟩,
    ⟨"QueryNodesForPlan", "sentinel.node.v2.QueryNodesForPlanRequest", "sentinel.node.v2.QueryNodesForPlanResponse"⟩,
    ⟨"QueryNode", "sentinel.node.v2.QueryNodeRequest", "sentinel.node.v2.QueryNodeResponse"⟩,
    ⟨"QueryParams", "sentinel.node.v2.QueryParamsRequest", "sentinel.node.v2.QueryParamsResponse"⟩]⟩,
  ⟨"sentinel.plan.v1.MsgService", [
    ⟨"MsgAdd", "sentinel.plan.v1.MsgAddRequest", "sentinel.plan.v1.MsgAddResponse"⟩,
    ⟨"MsgSetStatus", "sentinel.plan.v1.MsgSetStatusRequest", "sentinel.plan.v1.MsgSetStatusResponse"⟩,
    ⟨"MsgAddNode", "sentinel.plan.v1.MsgAddNodeRequest", "sentinel.plan.v1.MsgAddNodeResponse"⟩,
    ⟨"MsgRemoveNode", "sentinel.plan.v1.MsgRemoveNodeRequest", "sentinel.plan.v1.MsgRemoveNodeResponse"⟩]⟩,
  ⟨"sentinel.plan.v1.QueryService", [
    ⟨"QueryPlans", "sentinel.plan.v1.QueryPlansRequest", "sentinel.plan.v1.QueryPlansResponse"⟩,
    ⟨"QueryPlansForProvider", "sentinel.plan.v1.QueryPlansForProviderRequest", "sentinel.plan.v1.QueryPlansForProviderResponse"⟩,
    ⟨"QueryPlan", "sentinel.plan.v1.QueryPlanRequest", "sentinel.plan.v1.QueryPlanResponse"⟩,
    ⟨"QueryNodesForPlan", "sentinel.plan.v1.QueryNodesForPlanRequest", "sentinel.plan.v1.QueryNodesForPlanResponse"⟩]⟩,
  ⟨"sentinel.plan.v2.MsgService", [
    ⟨"MsgCreate", "sentinel.plan.v2.MsgCreateRequest", "sentinel.plan.v2.MsgCreateResponse"⟩,
    ⟨"MsgUpdateStatus", "sentinel.plan.v2.MsgUpdateStatusRequest", "sentinel.plan.v2.MsgUpdateStatusResponse"⟩,
    ⟨"MsgLinkNode", "sentinel.plan.v2.MsgLinkNodeRequest", "sentinel.plan.v2.MsgLinkNodeResponse"⟩,
    ⟨"MsgUnlinkNode", "sentinel.plan.v2.MsgUnlinkNodeRequest", "sentinel.plan.v2.MsgUnlinkNodeResponse"⟩,
    ⟨"MsgSubscribe", "sentinel.plan.v2.MsgSubscribeRequest", "sentinel.plan.v2.MsgSubscribeResponse"⟩]⟩,
  ⟨"sentinel.plan.v2.QueryService", [
    ⟨"QueryPlans", "sentinel.plan.v2.QueryPlansRequest", "sentinel.plan.v2.QueryPlansResponse"⟩,
    ⟨"QueryPlansForProvider", "sentinel.plan.v2.QueryPlansForProviderRequest", "sentinel.plan.v2.QueryPlansForProviderResponse"⟩,
    ⟨"QueryPlan", "sentinel.plan.v2.QueryPlanRequest", "sentinel.plan.v2.QueryPlanResponse"⟩]⟩,
  ⟨"sentinel.provider.v1.MsgService", [
    ⟨"MsgRegister", "sentinel.provider.v1.MsgRegisterRequest", "sentinel.provider.v1.MsgRegisterResponse"⟩,
    ⟨"MsgUpdate", "sentinel.provider.v1.MsgUpdateRequest", "sentinel.provider.v1.MsgUpdateResponse"⟩]⟩,
  ⟨"sentinel.provider.v1.QueryService", [
    ⟨"QueryProviders", "sentinel.provider.v1.QueryProvidersRequest", "sentinel.provider.v1.QueryProvidersResponse"⟩,
    ⟨"QueryProvider", "sentinel.provider.v1.QueryProviderRequest", "sentinel.provider.v1.QueryProviderResponse"⟩,
    ⟨"QueryParams", "sentinel.provider.v1.QueryParamsRequest", "sentinel.provider.v1.QueryParamsResponse"⟩]⟩,
  ⟨"sentinel.provider.v2.MsgService", [
    ⟨"MsgRegister", "sentinel.provider.v2.MsgRegisterRequest", "sentinel.provider.v2.MsgRegisterResponse"⟩,
    ⟨"MsgUpdate", "sentinel.provider.v2.MsgUpdateRequest", "sentinel.provider.v2.MsgUpdateResponse"⟩]⟩,
  ⟨"sentinel.provider.v2.QueryService", [
    ⟨"QueryProviders", "sentinel.provider.v2.QueryProvidersRequest", "sentinel.provider.v2.QueryProvidersResponse"⟩,
    ⟨"QueryProvider", "sentinel.provider.v2.QueryProviderRequest", "sentinel.provider.v2.QueryProviderResponse"⟩,
    ⟨"QueryParams", "sentinel.provider.v2.QueryParamsRequest", "sentinel.provider.v2.QueryParamsResponse"⟩]⟩,
  ⟨"sentinel.session.v1.MsgService", [
    ⟨"MsgStart", "sentinel.session.v1.MsgStartRequest", "sentinel.session.v1.MsgStartResponse"⟩,
    ⟨"MsgUpdate", "sentinel.session.v1.MsgUpdateRequest", "sentinel.session.v1.MsgUpdateResponse"⟩,
    ⟨"MsgEnd", "sentinel.session.v1.MsgEndRequest", "sentinel.session.v1.MsgEndResponse"⟩]⟩,
  ⟨"sentinel.session.v1.QueryService", [
    ⟨"QuerySessions", "sentinel.session.v1.QuerySessionsRequest", "sentinel.session.v1.QuerySessionsResponse"⟩,
    ⟨"QuerySessionsForAddress", "sentinel.session.v1.QuerySessionsForAddressRequest", "sentinel.session.v1.QuerySessionsForAddressResponse"⟩,
    ⟨"QuerySession", "sentinel.session.v1.QuerySessionRequest", "sentinel.session.v1.QuerySessionResponse"⟩,
    ⟨"QueryParams", "sentinel.session.v1.QueryParamsRequest", "sentinel.session.v1.QueryParamsResponse"⟩]⟩,
  ⟨"sentinel.session.v2.MsgService", [
    ⟨"MsgStart", "sentinel.session.v2.MsgStartRequest", "sentinel.session.v2.MsgStartResponse"⟩,
    ⟨"MsgUpdateDetails", "sentinel.session.v2.MsgUpdateDetailsRequest", "sentinel.session.v2.MsgUpdateDetailsResponse"⟩,
    ⟨"MsgEnd", "sentinel.session.v2.MsgEndRequest", "sentinel.session.v2.MsgEndResponse"⟩]⟩,
  ⟨"sentinel.session.v2.QueryService", [
    ⟨"QuerySessions", "sentinel.session.v2.QuerySessionsRequest", "sentinel.session.v2.QuerySessionsResponse"⟩,
    ⟨"QuerySessionsForAccount", "sentinel.session.v2.QuerySessionsForAccountRequest", "sentinel.session.v2.QuerySessionsForAccountResponse"⟩,
    ⟨"QuerySessionsForNode", "sentinel.session.v2.QuerySessionsForNodeRequest", "sentinel.session.v2.QuerySessionsForNodeResponse"⟩,
    ⟨"QuerySessionsForSubscription", "sentinel.session.v2.QuerySessionsForSubscriptionRequest", "sentinel.session.v2.QuerySessionsForSubscriptionResponse"⟩,
    ⟨"QuerySessionsForAllocation", "sentinel.session.v2.QuerySessionsForAllocationRequest", "sentinel.session.v2.QuerySessionsForAllocationResponse"⟩,
    ⟨"QuerySession", "sentinel.session.v2.QuerySessionRequest", "sentinel.session.v2.QuerySessionResponse"⟩,
    ⟨"QueryParams", "sentinel.session.v2.QueryParamsRequest", "sentinel.session.v2.QueryParamsResponse"⟩]⟩,
  ⟨"sentinel.subscription.v1.MsgService", [
    ⟨"MsgSubscribeToNode", "sentinel.subscription.v1.MsgSubscribeToNodeRequest", "sentinel.subscription.v1.MsgSubscribeToNodeResponse"⟩,
    ⟨"MsgSubscribeToPlan", "sentinel.subscription.v1.MsgSubscribeToPlanRequest", "sentinel.subscription.v1.MsgSubscribeToPlanResponse"⟩,
    ⟨"MsgCancel", "sentinel.subscription.v1.MsgCancelRequest", "sentinel.subscription.v1.MsgCancelResponse"⟩,
    ⟨"MsgAddQuota", "sentinel.subscription.v1.MsgAddQuotaRequest", "sentinel.subscription.v1.MsgAddQuotaResponse"⟩,
    ⟨"MsgUpdateQuota", "sentinel.subscription.v1.MsgUpdateQuotaRequest", "sentinel.subscription.v1.MsgUpdateQuotaResponse"⟩]⟩,
  ⟨"sentinel.subscription.v1.QueryService", [
    ⟨"QuerySubscriptions", "sentinel.subscription.v1.QuerySubscriptionsRequest", "sentinel.subscription.v1.QuerySubscriptionsResponse"⟩,
    ⟨"QuerySubscriptionsForAddress", "sentinel.subscription.v1.QuerySubscriptionsForAddressRequest", "sentinel.subscription.v1.QuerySubscriptionsForAddressResponse"⟩,
    ⟨"QuerySubscription", "sentinel.subscription.v1.QuerySubscriptionRequest", "sentinel.subscription.v1.QuerySubscriptionResponse"⟩,
    ⟨"QueryQuota", "sentinel.subscription.v1.QueryQuotaRequest", "sentinel.subscription.v1.QueryQuotaResponse"⟩,
    ⟨"QueryQuotas", "sentinel.subscription.v1.QueryQuotasRequest", "sentinel.subscription.v1.QueryQuotasResponse"⟩,
    ⟨"QueryParams", "sentinel.subscription.v1.QueryParamsRequest", "sentinel.subscription.v1.QueryParamsResponse"⟩]⟩,
  ⟨"sentinel.subscription.v2.MsgService", [
    ⟨"MsgCancel", "sentinel.subscription.v2.MsgCancelRequest", "sentinel.subscription.v2.MsgCancelResponse"⟩,
    ⟨"MsgAllocate", "sentinel.subscription.v2.MsgAllocateRequest", "sentinel.subscription.v2.MsgAllocateResponse"⟩]⟩,
  ⟨"sentinel.subscription.v2.QueryService", [
    ⟨"QuerySubscriptions", "sentinel.subscription.v2.QuerySubscriptionsRequest", "sentinel.subscription.v2.QuerySubscriptionsResponse"⟩,
    ⟨"QuerySubscriptionsForAccount", "sentinel.subscription.v2.QuerySubscriptionsForAccountRequest", "sentinel.subscription.v2.QuerySubscriptionsForAccountResponse"⟩,
    ⟨"QuerySubscriptionsForNode", "sentinel.subscription.v2.QuerySubscriptionsForNodeRequest", "sentinel.subscription.v2.QuerySubscriptionsForNodeResponse"⟩,
    ⟨"QuerySubscriptionsForPlan", "sentinel.subscription.v2.QuerySubscriptionsForPlanRequest", "sentinel.subscription.v2.QuerySubscriptionsForPlanResponse"⟩,
    ⟨"QuerySubscription", "sentinel.subscription.v2.QuerySubscriptionRequest", "sentinel.subscription.v2.QuerySubscriptionResponse"⟩,
    ⟨"QueryAllocations", "sentinel.subscription.v2.QueryAllocationsRequest", "sentinel.subscription.v2.QueryAllocationsResponse"⟩,
    ⟨"QueryAllocation", "sentinel.subscription.v2.QueryAllocationRequest", "sentinel.subscription.v2.QueryAllocationResponse"⟩,
    ⟨"QueryPayouts", "sentinel.subscription.v2.QueryPayoutsRequest", "sentinel.subscription.v2.QueryPayoutsResponse"⟩,
    ⟨"QueryPayoutsForAccount", "sentinel.subscription.v2.QueryPayoutsForAccountRequest", "sentinel.subscription.v2.QueryPayoutsForAccountResponse"⟩,
    ⟨"QueryPayoutsForNode", "sentinel.subscription.v2.QueryPayoutsForNodeRequest", "sentinel.subscription.v2.QueryPayoutsForNodeResponse"⟩,
    ⟨"QueryPayout", "sentinel.subscription.v2.QueryPayoutRequest", "sentinel.subscription.v2.QueryPayoutResponse"⟩,
    ⟨"QueryParams", "sentinel.subscription.v2.QueryParamsRequest", "sentinel.subscription.v2.QueryParamsResponse"⟩]⟩,
  ⟨"sentinel.swap.v1.MsgService", [
    ⟨"MsgSwap", "sentinel.swap.v1.MsgSwapRequest", "sentinel.swap.v1.MsgSwapResponse"⟩]⟩,
  ⟨"sentinel.swap.v1.QueryService", [
    ⟨"QuerySwaps", "sentinel.swap.v1.QuerySwapsRequest", "sentinel.swap.v1.QuerySwapsResponse"⟩,
    ⟨"QuerySwap", "sentinel.swap.v1.QuerySwapRequest", "sentinel.swap.v1.QuerySwapResponse"⟩,
    ⟨"QueryParams", "sentinel.swap.v1.QueryParamsRequest", "sentinel.swap.v1.QueryParamsResponse"⟩]⟩
]

/-- Descriptor environment: the hand-written stubs of imported messages, then the hub's messages. -/
def env : Env := stubs ++ messages

/-- Model bytes for one line of the differential probe (see `runProtoProbeWith`). -/
def runProtoProbe (line : String) : String := runProtoProbeWith env line

/-- Verdict for one line of the decode probe (see `runProtoDecodeProbeWith`). -/
def runProtoDecodeProbe (line : String) : String := runProtoDecodeProbeWith env line

end Hub.Generated.Proto
