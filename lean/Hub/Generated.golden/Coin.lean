import Hub.SDK.Coins
/- GENERATED from utils/coin.go (and the constants of types/bandwidth.go) by /verif/translator; do not edit. -/
namespace Hub.Generated
open Hub.SDK

/-- `types.Kilobyte = sdkmath.NewInt(1000)` -/
def Kilobyte : SInt := 1000
/-- `types.Megabyte = sdkmath.NewInt(1000).Mul(Kilobyte)` -/
def Megabyte : SInt := 1000 * Kilobyte
/-- `types.Gigabyte = sdkmath.NewInt(1000).Mul(Megabyte)` -/
def Gigabyte : SInt := 1000 * Megabyte

/-- `func AmountForBytes(gigabytePrice, bytes sdkmath.Int) sdkmath.Int` -/
def AmountForBytes (gigabytePrice bytes : SInt) : M SInt := do
  let bytePrice ← Dec.quoInt (Dec.ofInt gigabytePrice) Gigabyte
  let t1 ← Dec.mul (Dec.ofInt bytes) bytePrice
  let t2 ← Dec.ceil t1
  Dec.truncateInt t2

/-- `func GetProportionOfCoin(coin sdk.Coin, share sdkmath.LegacyDec) sdk.Coin` -/
def GetProportionOfCoin (coin : Coin) (share : Dec) : M Coin := do
  let t1 ← Dec.mul (Dec.ofInt coin.amount) share
  let t2 ← Dec.roundInt t1
  newCoin coin.denom t2

end Hub.Generated
