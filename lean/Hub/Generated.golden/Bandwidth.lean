import Hub.SDK.Math
/- GENERATED from types/bandwidth.go (struct from types/bandwidth.pb.go) by /verif/translator; do not edit. -/
namespace Hub.Generated
open Hub.SDK

structure Bandwidth where
  Upload : SInt
  Download : SInt
  deriving Repr, DecidableEq, Inhabited

namespace Bandwidth

/-- `func NewBandwidth(upload, download sdkmath.Int) Bandwidth` -/
def NewBandwidth (upload download : SInt) : Bandwidth :=
  { Upload := upload, Download := download }

/-- `func (b Bandwidth) IsAnyZero() bool` -/
def IsAnyZero (b : Bandwidth) : Bool := b.Upload = 0 || b.Download = 0

/-- `func (b Bandwidth) IsAllZero() bool` -/
def IsAllZero (b : Bandwidth) : Bool := b.Upload = 0 && b.Download = 0

/-- `func (b Bandwidth) IsAnyNegative() bool` -/
def IsAnyNegative (b : Bandwidth) : Bool := b.Upload < 0 || b.Download < 0

/-- `func (b Bandwidth) IsAllPositive() bool` -/
def IsAllPositive (b : Bandwidth) : Bool := b.Upload > 0 && b.Download > 0

/-- `func (b Bandwidth) Sum() sdkmath.Int` -/
def Sum (b : Bandwidth) : M SInt := SInt.add b.Upload b.Download

/-- `func (b Bandwidth) Add(v Bandwidth) Bandwidth` -/
def Add (b v : Bandwidth) : M Bandwidth := do
  let t1 ← SInt.add b.Upload v.Upload
  let b := { b with Upload := t1 }
  let t2 ← SInt.add b.Download v.Download
  let b := { b with Download := t2 }
  pure b

/-- `func (b Bandwidth) Sub(v Bandwidth) Bandwidth` -/
def Sub (b v : Bandwidth) : M Bandwidth := do
  let t1 ← SInt.sub b.Upload v.Upload
  let b := { b with Upload := t1 }
  let t2 ← SInt.sub b.Download v.Download
  let b := { b with Download := t2 }
  pure b

/-- `func (b Bandwidth) IsAllLTE(v Bandwidth) bool` -/
def IsAllLTE (b v : Bandwidth) : Bool := b.Upload ≤ v.Upload && b.Download ≤ v.Download

/-- `func (b Bandwidth) IsAnyGT(v Bandwidth) bool` -/
def IsAnyGT (b v : Bandwidth) : Bool := b.Upload > v.Upload || b.Download > v.Download

/-- `func (b Bandwidth) CeilTo(pre sdkmath.Int) Bandwidth` -/
def CeilTo (b : Bandwidth) (pre : SInt) : M Bandwidth := do
  if !(pre > 0) then return b
  let t1 ← SInt.mod b.Upload pre
  let t2 ← SInt.sub pre t1
  let t3 ← SInt.mod b.Download pre
  let t4 ← SInt.sub pre t3
  let diff := NewBandwidth t2 t4
  let diff := if diff.Upload = pre then { diff with Upload := 0 } else diff
  let diff := if diff.Download = pre then { diff with Download := 0 } else diff
  b.Add diff

end Bandwidth

/- skipped (explicit skip list; no nil / int64 in the model): IsAnyNil, NewBandwidthFromInt64
   package variables emitted in Coin.lean: Kilobyte, Megabyte, Gigabyte -/
end Hub.Generated
