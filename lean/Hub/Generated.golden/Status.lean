/- GENERATED from types/status.go and types/status.pb.go by /verif/translator; do not edit. -/
namespace Hub.Generated

inductive Status where
  | StatusUnspecified
  | StatusActive
  | StatusInactivePending
  | StatusInactive
  deriving Repr, DecidableEq, Inhabited

namespace Status

def toInt32 : Status → Int
  | .StatusUnspecified => 0
  | .StatusActive => 1
  | .StatusInactivePending => 2
  | .StatusInactive => 3

def ofInt32 : Int → Option Status
  | 0 => some .StatusUnspecified
  | 1 => some .StatusActive
  | 2 => some .StatusInactivePending
  | 3 => some .StatusInactive
  | _ => none

/-- `Status_name` (jsonpb prints an enum by this table). -/
def Status_name : List (Int × _root_.String) :=
  [(0, "STATUS_UNSPECIFIED"), (1, "STATUS_ACTIVE"), (2, "STATUS_INACTIVE_PENDING"), (3, "STATUS_INACTIVE")]

/-- `Status_value` (jsonpb parses an enum string by this table). -/
def Status_value : List (_root_.String × Int) :=
  [("STATUS_ACTIVE", 1), ("STATUS_INACTIVE", 3), ("STATUS_INACTIVE_PENDING", 2), ("STATUS_UNSPECIFIED", 0)]

/-- `func (s Status) String() string` -/
def String (s : Status) : _root_.String :=
  match s with
  | .StatusActive => "active"
  | .StatusInactivePending => "inactive_pending"
  | .StatusInactive => "inactive"
  | _ => "unspecified"

/-- `func (s Status) IsValid() bool` -/
def IsValid (s : Status) : Bool := s == .StatusActive || s == .StatusInactivePending || s == .StatusInactive

/-- `func (s Status) Equal(v Status) bool` -/
def Equal (s v : Status) : Bool := s == v

/-- `func (s Status) IsOneOf(items ...Status) bool` -/
def IsOneOf (s : Status) (items : List Status) : Bool := items.any (fun item => s.Equal item)

/-- `func StatusFromString(s string) Status` -/
def StatusFromString (s : _root_.String) : Status :=
  match s.toLower with
  | "active" => .StatusActive
  | "inactive_pending" => .StatusInactivePending
  | "inactive" => .StatusInactive
  | _ => .StatusUnspecified

end Status
end Hub.Generated
