import Hub.SDK.Time
/- GENERATED from x/*/types/keys.go by /verif/translator; do not edit. -/
namespace Hub.Generated.Keys
open Hub.SDK

namespace deposit
def DepositKeyPrefix : Bytes := [0x10]
def DepositKey (addr : Bytes) : Bytes := DepositKeyPrefix ++ lp addr
end deposit

namespace provider
def ProviderKeyPrefix : Bytes := [0x10]
def ActiveProviderKeyPrefix : Bytes := [0x10, 0x01]
def InactiveProviderKeyPrefix : Bytes := [0x10, 0x02]
def ActiveProviderKey (addr : Bytes) : Bytes := ActiveProviderKeyPrefix ++ lp addr
def InactiveProviderKey (addr : Bytes) : Bytes := InactiveProviderKeyPrefix ++ lp addr
end provider

namespace node
def NodeKeyPrefix : Bytes := [0x10]
def ActiveNodeKeyPrefix : Bytes := [0x10, 0x01]
def InactiveNodeKeyPrefix : Bytes := [0x10, 0x02]
def NodeForInactiveAtKeyPrefix : Bytes := [0x11]
def NodeForPlanKeyPrefix : Bytes := [0x12]
def ActiveNodeKey (addr : Bytes) : Bytes := ActiveNodeKeyPrefix ++ lp addr
def InactiveNodeKey (addr : Bytes) : Bytes := InactiveNodeKeyPrefix ++ lp addr
def GetNodeForPlanKeyPrefix (id : Nat) : Bytes := NodeForPlanKeyPrefix ++ u64be id
def NodeForPlanKey (id : Nat) (addr : Bytes) : Bytes := GetNodeForPlanKeyPrefix id ++ lp addr
def GetNodeForInactiveAtKeyPrefix (atT : Time) : Bytes := NodeForInactiveAtKeyPrefix ++ formatTimeBytes atT
def NodeForInactiveAtKey (atT : Time) (addr : Bytes) : Bytes := GetNodeForInactiveAtKeyPrefix atT ++ lp addr
def AddressFromNodeForPlanKey (key : Bytes) : Except String Bytes := do
  let addrLen ← idx key 9
  if key.length != 10 + addrLen then throw "invalid key length"
  sliceFrom key 10
def AddressFromNodeForInactiveAtKey (key : Bytes) : Except String Bytes := do
  let addrLen ← idx key 30
  if key.length != 31 + addrLen then throw "invalid key length"
  sliceFrom key 31
end node

namespace plan
def CountKey : Bytes := [0x00]
def PlanKeyPrefix : Bytes := [0x10]
def ActivePlanKeyPrefix : Bytes := PlanKeyPrefix ++ [0x01]
def InactivePlanKeyPrefix : Bytes := PlanKeyPrefix ++ [0x02]
def PlanForProviderKeyPrefix : Bytes := [0x11]
def ActivePlanKey (id : Nat) : Bytes := ActivePlanKeyPrefix ++ u64be id
def InactivePlanKey (id : Nat) : Bytes := InactivePlanKeyPrefix ++ u64be id
def GetPlanForProviderKeyPrefix (addr : Bytes) : Bytes := PlanForProviderKeyPrefix ++ lp addr
def PlanForProviderKey (addr : Bytes) (id : Nat) : Bytes := GetPlanForProviderKeyPrefix addr ++ u64be id
def IDFromPlanForProviderKey (key : Bytes) : Except String Nat := do
  let addrLen ← idx key 1
  if key.length != 10 + addrLen then throw "invalid key length"
  bigEndianToUint64 (← sliceFrom key (2 + addrLen))
end plan

namespace subscription
def CountKey : Bytes := [0x00]
def SubscriptionKeyPrefix : Bytes := [0x10]
def SubscriptionForInactiveAtKeyPrefix : Bytes := [0x11]
def SubscriptionForAccountKeyPrefix : Bytes := [0x12]
def SubscriptionForNodeKeyPrefix : Bytes := [0x13]
def SubscriptionForPlanKeyPrefix : Bytes := [0x14]
def AllocationKeyPrefix : Bytes := [0x20]
def PayoutKeyPrefix : Bytes := [0x30]
def PayoutForNextAtKeyPrefix : Bytes := [0x31]
def PayoutForAccountKeyPrefix : Bytes := [0x32]
def PayoutForNodeKeyPrefix : Bytes := [0x33]
def PayoutForAccountByNodeKeyPrefix : Bytes := [0x34]
def SubscriptionKey (id : Nat) : Bytes := SubscriptionKeyPrefix ++ u64be id
def GetSubscriptionForAccountKeyPrefix (addr : Bytes) : Bytes := SubscriptionForAccountKeyPrefix ++ lp addr
def SubscriptionForAccountKey (addr : Bytes) (id : Nat) : Bytes := GetSubscriptionForAccountKeyPrefix addr ++ u64be id
def GetSubscriptionForNodeKeyPrefix (addr : Bytes) : Bytes := SubscriptionForNodeKeyPrefix ++ lp addr
def SubscriptionForNodeKey (addr : Bytes) (id : Nat) : Bytes := GetSubscriptionForNodeKeyPrefix addr ++ u64be id
def GetSubscriptionForPlanKeyPrefix (id : Nat) : Bytes := SubscriptionForPlanKeyPrefix ++ u64be id
def SubscriptionForPlanKey (planID subscriptionID : Nat) : Bytes := GetSubscriptionForPlanKeyPrefix planID ++ u64be subscriptionID
def GetSubscriptionForInactiveAtKeyPrefix (atT : Time) : Bytes := SubscriptionForInactiveAtKeyPrefix ++ formatTimeBytes atT
def SubscriptionForInactiveAtKey (atT : Time) (id : Nat) : Bytes := GetSubscriptionForInactiveAtKeyPrefix atT ++ u64be id
def GetAllocationForSubscriptionKeyPrefix (id : Nat) : Bytes := AllocationKeyPrefix ++ u64be id
def AllocationKey (id : Nat) (addr : Bytes) : Bytes := GetAllocationForSubscriptionKeyPrefix id ++ lp addr
def PayoutKey (id : Nat) : Bytes := PayoutKeyPrefix ++ u64be id
def GetPayoutForNextAtKeyPrefix (atT : Time) : Bytes := PayoutForNextAtKeyPrefix ++ formatTimeBytes atT
def PayoutForNextAtKey (atT : Time) (id : Nat) : Bytes := GetPayoutForNextAtKeyPrefix atT ++ u64be id
def GetPayoutForAccountKeyPrefix (addr : Bytes) : Bytes := PayoutForAccountKeyPrefix ++ lp addr
def PayoutForAccountKey (addr : Bytes) (id : Nat) : Bytes := GetPayoutForAccountKeyPrefix addr ++ u64be id
def GetPayoutForNodeKeyPrefix (addr : Bytes) : Bytes := PayoutForNodeKeyPrefix ++ lp addr
def PayoutForNodeKey (addr : Bytes) (id : Nat) : Bytes := GetPayoutForNodeKeyPrefix addr ++ u64be id
def GetPayoutForAccountByNodeKeyPrefix (accAddr nodeAddr : Bytes) : Bytes := (PayoutForAccountByNodeKeyPrefix ++ lp accAddr) ++ lp nodeAddr
def PayoutForAccountByNodeKey (accAddr nodeAddr : Bytes) (id : Nat) : Bytes := GetPayoutForAccountByNodeKeyPrefix accAddr nodeAddr ++ u64be id
def AccAddrFromSubscriptionForAccountKey (key : Bytes) : Except String Bytes := do
  let addrLen ← idx key 1
  if key.length != 10 + addrLen then throw "invalid key length"
  slice key 2 (2 + addrLen)
def IDFromSubscriptionForAccountKey (key : Bytes) : Except String Nat := do
  let addrLen ← idx key 1
  if key.length != 10 + addrLen then throw "invalid key length"
  bigEndianToUint64 (← sliceFrom key (2 + addrLen))
def IDFromSubscriptionForNodeKey (key : Bytes) : Except String Nat := do
  let addrLen ← idx key 1
  if key.length != 10 + addrLen then throw "invalid key length"
  bigEndianToUint64 (← sliceFrom key (2 + addrLen))
def IDFromSubscriptionForPlanKey (key : Bytes) : Except String Nat := do
  if key.length != 17 then throw "invalid key length"
  bigEndianToUint64 (← sliceFrom key 9)
def IDFromSubscriptionForInactiveAtKey (key : Bytes) : Except String Nat := do
  if key.length != 38 then throw "invalid key length"
  bigEndianToUint64 (← sliceFrom key 30)
def IDFromPayoutForAccountKey (key : Bytes) : Except String Nat := do
  let addrLen ← idx key 1
  if key.length != 10 + addrLen then throw "invalid key length"
  bigEndianToUint64 (← sliceFrom key (2 + addrLen))
def IDFromPayoutForNodeKey (key : Bytes) : Except String Nat := do
  let addrLen ← idx key 1
  if key.length != 10 + addrLen then throw "invalid key length"
  bigEndianToUint64 (← sliceFrom key (2 + addrLen))
def IDFromPayoutForAccountByNodeKey (key : Bytes) : Except String Nat := do
  let accAddrLen ← idx key 1
  let nodeAddrLen ← idx key (2 + (← idx key 1))
  if key.length != 11 + accAddrLen + nodeAddrLen then throw "invalid key length"
  bigEndianToUint64 (← sliceFrom key (3 + accAddrLen + nodeAddrLen))
def IDFromPayoutForNextAtKey (key : Bytes) : Except String Nat := do
  if key.length != 38 then throw "invalid key length"
  bigEndianToUint64 (← sliceFrom key 30)
end subscription

namespace session
def CountKey : Bytes := [0x00]
def SessionKeyPrefix : Bytes := [0x10]
def SessionForInactiveAtKeyPrefix : Bytes := [0x11]
def SessionForAccountKeyPrefix : Bytes := [0x12]
def SessionForNodeKeyPrefix : Bytes := [0x13]
def SessionForSubscriptionKeyPrefix : Bytes := [0x14]
def SessionForAllocationKeyPrefix : Bytes := [0x15]
def SessionKey (id : Nat) : Bytes := SessionKeyPrefix ++ u64be id
def GetSessionForAccountKeyPrefix (addr : Bytes) : Bytes := SessionForAccountKeyPrefix ++ lp addr
def SessionForAccountKey (addr : Bytes) (id : Nat) : Bytes := GetSessionForAccountKeyPrefix addr ++ u64be id
def GetSessionForNodeKeyPrefix (addr : Bytes) : Bytes := SessionForNodeKeyPrefix ++ lp addr
def SessionForNodeKey (addr : Bytes) (id : Nat) : Bytes := GetSessionForNodeKeyPrefix addr ++ u64be id
def GetSessionForSubscriptionKeyPrefix (id : Nat) : Bytes := SessionForSubscriptionKeyPrefix ++ u64be id
def SessionForSubscriptionKey (subscriptionID sessionID : Nat) : Bytes := GetSessionForSubscriptionKeyPrefix subscriptionID ++ u64be sessionID
def GetSessionForAllocationKeyPrefix (id : Nat) (addr : Bytes) : Bytes := SessionForAllocationKeyPrefix ++ (u64be id ++ lp addr)
def SessionForAllocationKey (subscriptionID : Nat) (addr : Bytes) (sessionID : Nat) : Bytes := GetSessionForAllocationKeyPrefix subscriptionID addr ++ u64be sessionID
def GetSessionForInactiveAtKeyPrefix (atT : Time) : Bytes := SessionForInactiveAtKeyPrefix ++ formatTimeBytes atT
def SessionForInactiveAtKey (atT : Time) (id : Nat) : Bytes := GetSessionForInactiveAtKeyPrefix atT ++ u64be id
def IDFromSessionForAccountKey (key : Bytes) : Except String Nat := do
  let addrLen ← idx key 1
  if key.length != 10 + addrLen then throw "invalid key length"
  bigEndianToUint64 (← sliceFrom key (2 + addrLen))
def IDFromSessionForNodeKey (key : Bytes) : Except String Nat := do
  let addrLen ← idx key 1
  if key.length != 10 + addrLen then throw "invalid key length"
  bigEndianToUint64 (← sliceFrom key (2 + addrLen))
def IDFromSessionForSubscriptionKey (key : Bytes) : Except String Nat := do
  if key.length != 17 then throw "invalid key length"
  bigEndianToUint64 (← sliceFrom key 9)
def IDFromSessionForAllocationKey (key : Bytes) : Except String Nat := do
  let addrLen ← idx key 9
  if key.length != 18 + addrLen then throw "invalid key length"
  bigEndianToUint64 (← sliceFrom key (10 + addrLen))
def IDFromSessionForInactiveAtKey (key : Bytes) : Except String Nat := do
  if key.length != 38 then throw "invalid key length"
  bigEndianToUint64 (← sliceFrom key 30)
end session

namespace swap
def SwapKeyPrefix : Bytes := [0x10]
def SwapKey (hash : Bytes) : Bytes := SwapKeyPrefix ++ hash
end swap

namespace mint
def InflationKeyPrefix : Bytes := [0x01]
def InflationKey (t : Time) : Bytes := InflationKeyPrefix ++ formatTimeBytes t
end mint

/- ignored:
   deposit: const ModuleName
   provider: const ModuleName
   node: const ModuleName
   plan: const ModuleName
   subscription: const ModuleName
   subscription: const Day
   session: const ModuleName
   swap: const ModuleName
   swap: const StoreKey
   swap: var PrecisionLoss = sdkmath.NewInt(100) (not a []byte)
   mint: const ModuleName
   mint: const StoreKey
   notes:
   plan: var ActivePlanKeyPrefix is built by append, so the Go slice may have spare capacity and a later append(…) of few bytes can write into the shared backing array; modelled as a pure value
   plan: var InactivePlanKeyPrefix is built by append, so the Go slice may have spare capacity and a later append(…) of few bytes can write into the shared backing array; modelled as a pure value -/
end Hub.Generated.Keys
