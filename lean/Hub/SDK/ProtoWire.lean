import Hub.SDK.Bytes
/-
C19 — executable model of the protobuf binary wire encoding as produced and consumed by the
gogoproto-generated `MarshalToSizedBuffer` / `Unmarshal` methods of the hub's `*.pb.go` files
(core Lean only: this file is linked into an executable).

Layers
* varints / tags                      `putVarint`, `getVarint`, `tagOf`
* wire entries (tag + payload)        `Entry`, `encEntries`, `tokenize` (incl. the generated `skipX`)
* descriptors (regenerated table)     `Scalar`, `FieldKind`, `Field`, `MsgDesc`, `Env`
* values                              `Val` — a message is the *positional* list of the values of its
                                      descriptor's fields, like the Go struct (every field has a value)
* `encodeAt` / `decodeAt`             descriptor-directed, fuel = nesting depth of descriptors
* `wfAt` / `canonAt`                  Bool checkers: supported descriptor / well-typed value
* probe text                          `runProtoProbeWith`

Identifications ("same meaning") built into `Val`:
* a nil and an empty repeated field / byte string are the same value (`.list []`, `.bytes []`);
* a nil `math.Int` / `LegacyDec` (zero Go value) is the integer 0 (`Int.Marshal` writes "0" for nil);
* a `time.Time` is its instant `(Unix seconds, nanoseconds)`; location and monotonic reading are dropped
  (`StdTimeUnmarshal` returns `time.Unix(s, n).UTC()`).

Known deviations (none of them reachable from `encodeAt` output):
* the text of an `Int`/`Dec` is parsed as `-?[0-9]+` without leading zeros; Go's `big.Int.UnmarshalText`
  (base 0) also accepts `+`, `0x…`, `0b…`, `0o…`, `0…` (octal) and `_` separators — the model rejects them;
* `google.protobuf.Any` keeps unknown fields in `XXX_unrecognized` and re-emits them; the model drops them.
-/
namespace Hub.SDK.ProtoWire
open Hub.SDK

/-! ## constants (written as literals: big powers in hypotheses hurt `omega`/kernel) -/

scoped notation "P64" => 18446744073709551616
scoped notation "P63" => 9223372036854775808
scoped notation "P32" => 4294967296
scoped notation "P31" => 2147483648
/-- `2^29`: field numbers are below this. -/
scoped notation "P29" => 536870912

/-! ## varints -/

/-- `encodeVarintX(dAtA, i, v)`: 7-bit groups, least significant first. `k` = continuation bytes allowed. -/
def putVarintAux : Nat → Nat → Bytes
  | 0, n => [UInt8.ofNat n]
  | k+1, n => if n < 128 then [UInt8.ofNat n] else UInt8.ofNat (n % 128 + 128) :: putVarintAux k (n / 128)

/-- Varint of `uint64(v)`. -/
def putVarint (n : Nat) : Bytes := putVarintAux 9 (n % P64)

/-- The generated read loop: at most `k` bytes (`shift >= 64` → `ErrIntOverflow`), EOF → error.
Returns the unbounded value of the groups. -/
def getVarintAux : Nat → Bytes → Option (Nat × Bytes)
  | 0, _ => none
  | _+1, [] => none
  | k+1, b :: bs =>
    if b.toNat < 128 then some (b.toNat, bs)
    else (getVarintAux k bs).map (fun p => ((b.toNat - 128) + 128 * p.1, p.2))

/-- `x |= uint64(b&0x7F) << shift` over at most 10 bytes: the value modulo `2^64`. -/
def getVarint (bs : Bytes) : Option (Nat × Bytes) :=
  match getVarintAux 10 bs with
  | some (v, r) => some (v % P64, r)
  | none => none

/-- Tag of field `num` with wire type `wt`. -/
def tagOf (num wt : Nat) : Nat := num * 8 + wt

/-- `fieldNum := int32(wire >> 3)`, `wireType := int(wire & 7)`; `fieldNum <= 0` is an error. -/
def splitTag (w : Nat) : Option (Nat × Nat) :=
  let fn := (w / 8) % P32
  if fn = 0 ∨ P31 ≤ fn then none else some (fn, w % 8)

/-! ## wire entries -/

inductive Payload where
  | varint (n : Nat)
  | len (b : Bytes)
  /-- wire types 1, 5 and a complete group (3…4): skipped for unknown fields, an error for known ones -/
  | other (wt : Nat)
  deriving Repr, DecidableEq

structure Entry where
  num : Nat
  p : Payload
  deriving Repr, DecidableEq

def encEntry (e : Entry) : Bytes :=
  match e.p with
  | .varint n => putVarint (tagOf e.num 0) ++ putVarint n
  | .len b => putVarint (tagOf e.num 2) ++ (putVarint b.length ++ b)
  | .other _ => []

def encEntries : List Entry → Bytes
  | [] => []
  | e :: es => encEntry e ++ encEntries es

/-- The rest of `skipX` once inside a group (`depth ≥ 1`): returns what follows the matching end-group. -/
def skipGroup : Nat → Nat → Bytes → Option Bytes
  | 0, _, _ => none
  | k+1, depth, bs =>
    match getVarint bs with
    | none => none
    | some (w, r) =>
      let wt := w % 8
      if wt = 0 then
        match getVarint r with
        | some (_, r') => skipGroup k depth r'
        | none => none
      else if wt = 1 then (if r.length < 8 then none else skipGroup k depth (r.drop 8))
      else if wt = 2 then
        match getVarint r with
        | some (l, r') => if P63 ≤ l ∨ r'.length < l then none else skipGroup k depth (r'.drop l)
        | none => none
      else if wt = 3 then skipGroup k (depth + 1) r
      else if wt = 4 then (if depth ≤ 1 then some r else skipGroup k (depth - 1) r)
      else if wt = 5 then (if r.length < 4 then none else skipGroup k depth (r.drop 4))
      else none

/-- One iteration of the generated `Unmarshal` loop, up to the `switch fieldNum`. -/
def readEntry (bs : Bytes) : Option (Entry × Bytes) :=
  match getVarint bs with
  | none => none
  | some (w, r) =>
    match splitTag w with
    | none => none
    | some (fn, wt) =>
      if wt = 0 then
        match getVarint r with
        | some (n, r') => some (⟨fn, .varint n⟩, r')
        | none => none
      else if wt = 2 then
        match getVarint r with
        | some (l, r') => if P63 ≤ l ∨ r'.length < l then none else some (⟨fn, .len (r'.take l)⟩, r'.drop l)
        | none => none
      else if wt = 1 then (if r.length < 8 then none else some (⟨fn, .other 1⟩, r.drop 8))
      else if wt = 5 then (if r.length < 4 then none else some (⟨fn, .other 5⟩, r.drop 4))
      else if wt = 3 then
        match skipGroup r.length 1 r with
        | some r' => some (⟨fn, .other 3⟩, r')
        | none => none
      else none   -- 4: "wiretype end group for non-group"; 6, 7: illegal

/-- The whole loop `for iNdEx < l`: the entries of a buffer (`fuel ≥ length`). -/
def tokenize : Nat → Bytes → Option (List Entry)
  | _, [] => some []
  | 0, _ :: _ => none
  | k+1, b :: bs =>
    match readEntry (b :: bs) with
    | none => none
    | some (e, r) =>
      match tokenize k r with
      | some es => some (e :: es)
      | none => none

/-! ## descriptors -/

inductive Scalar where
  | uint64 | int64 | int32 | bool | string | bytes
  | enum (name : String)
  /-- `(gogoproto.customtype) = "cosmossdk.io/math.Int"` (also the legacy alias `cosmos-sdk/types.Int`) -/
  | sdkInt
  /-- `(gogoproto.customtype) = "cosmossdk.io/math.LegacyDec"` (legacy alias `cosmos-sdk/types.Dec`) -/
  | sdkDec
  deriving Repr, DecidableEq, Inhabited

/-- `(gogoproto.stdtime)` / `(gogoproto.stdduration)` -/
inductive Std where
  | none | time | duration
  deriving Repr, DecidableEq, Inhabited

inductive FieldKind where
  | scalar (s : Scalar)
  | message (name : String) (std : Std)
  deriving Repr, DecidableEq, Inhabited

structure Field where
  num : Nat
  name : String
  kind : FieldKind
  repeated : Bool := false
  /-- message kinds only: a Go pointer unless `(gogoproto.nullable) = false` -/
  nullable : Bool := false
  /-- wire-irrelevant gogoproto options, kept for the record: customname, castrepeated, embed, moretags, jsontag -/
  opts : List (String × String) := []
  deriving Repr, DecidableEq, Inhabited

structure MsgDesc where
  name : String
  fields : List Field
  deriving Repr, DecidableEq, Inhabited

structure EnumDesc where
  name : String
  values : List (String × Int)
  deriving Repr, DecidableEq

structure RpcDesc where
  name : String
  request : String
  response : String
  deriving Repr, DecidableEq

structure ServiceDesc where
  name : String
  rpcs : List RpcDesc
  deriving Repr, DecidableEq

abbrev Env := List MsgDesc

def lookup (env : Env) (name : String) : Option MsgDesc := env.find? (fun d => d.name == name)

/-- How a field travels on the wire; everything else about a field is irrelevant to the codec. -/
inductive Cls where
  | varint (s : Scalar)          -- uint64 int64 int32 bool enum, singular
  | len                          -- string bytes, singular
  | big (bits : Nat)             -- customtype Int (256) / LegacyDec (315), non-nullable
  | repLen                       -- repeated string / bytes
  | msg (name : String)          -- embedded message, value (non-nullable)
  | optMsg (name : String)       -- embedded message, pointer
  | stdMsg (name : String) (std : Std)  -- stdtime / stdduration, value
  | repMsg (name : String)       -- repeated message
  | bad                          -- not used by the hub (packed repeated numerics, nullable std …)
  deriving Repr, DecidableEq

def Field.cls (f : Field) : Cls :=
  match f.kind with
  | .scalar .string => if f.repeated then .repLen else .len
  | .scalar .bytes => if f.repeated then .repLen else .len
  | .scalar .sdkInt => if f.repeated then .bad else .big 256
  | .scalar .sdkDec => if f.repeated then .bad else .big 315
  | .scalar s => if f.repeated then .bad else .varint s
  | .message n .none => if f.repeated then .repMsg n else if f.nullable then .optMsg n else .msg n
  | .message n std => if f.repeated || f.nullable then .bad else .stdMsg n std

/-! ### hand-written stubs of the imported messages -/

def timestampDesc : MsgDesc := ⟨"google.protobuf.Timestamp",
  [{ num := 1, name := "seconds", kind := .scalar .int64 }, { num := 2, name := "nanos", kind := .scalar .int32 }]⟩

def durationDesc : MsgDesc := ⟨"google.protobuf.Duration",
  [{ num := 1, name := "seconds", kind := .scalar .int64 }, { num := 2, name := "nanos", kind := .scalar .int32 }]⟩

def anyDesc : MsgDesc := ⟨"google.protobuf.Any",
  [{ num := 1, name := "type_url", kind := .scalar .string }, { num := 2, name := "value", kind := .scalar .bytes }]⟩

def coinDesc : MsgDesc := ⟨"cosmos.base.v1beta1.Coin",
  [{ num := 1, name := "denom", kind := .scalar .string }, { num := 2, name := "amount", kind := .scalar .sdkInt }]⟩

def pageRequestDesc : MsgDesc := ⟨"cosmos.base.query.v1beta1.PageRequest",
  [{ num := 1, name := "key", kind := .scalar .bytes }, { num := 2, name := "offset", kind := .scalar .uint64 },
   { num := 3, name := "limit", kind := .scalar .uint64 }, { num := 4, name := "count_total", kind := .scalar .bool },
   { num := 5, name := "reverse", kind := .scalar .bool }]⟩

def pageResponseDesc : MsgDesc := ⟨"cosmos.base.query.v1beta1.PageResponse",
  [{ num := 1, name := "next_key", kind := .scalar .bytes }, { num := 2, name := "total", kind := .scalar .uint64 }]⟩

def stubs : List MsgDesc := [timestampDesc, durationDesc, anyDesc, coinDesc, pageRequestDesc, pageResponseDesc]

/-! ## values -/

inductive Val where
  /-- every varint scalar, as the `uint64(x)` bit pattern (two's complement for int64 / int32 / enum) -/
  | varint (n : Nat)
  /-- `string`, `bytes` -/
  | bytes (b : Bytes)
  /-- customtype `Int` / `LegacyDec` (the underlying big integer; `Dec` is scaled by 10^18) -/
  | int (i : Int)
  /-- a message: the values of the descriptor's fields, in order -/
  | msg (fs : List Val)
  /-- nil pointer -/
  | none
  /-- repeated field -/
  | list (vs : List Val)
  deriving Repr, Inhabited

mutual
def Val.beq : Val → Val → Bool
  | .varint a, .varint b => a == b
  | .bytes a, .bytes b => a == b
  | .int a, .int b => a == b
  | .msg a, .msg b => Val.beqList a b
  | .none, .none => true
  | .list a, .list b => Val.beqList a b
  | _, _ => false
def Val.beqList : List Val → List Val → Bool
  | [], [] => true
  | a :: as, b :: bs => Val.beq a b && Val.beqList as bs
  | _, _ => false
end

/-! ### scalars -/

/-- What the typed read loop leaves in the Go field, re-expressed as the `uint64(x)` pattern. -/
def convVarint (s : Scalar) (n : Nat) : Nat :=
  match s with
  | .bool => if n = 0 then 0 else 1
  | .int32 => let m := n % P32; if m < P31 then m else m + (P64 - P32)
  | .enum _ => let m := n % P32; if m < P31 then m else m + (P64 - P32)
  | _ => n

/-- The `uint64(x)` patterns of the Go type. -/
def rangeOK (s : Scalar) (n : Nat) : Bool :=
  match s with
  | .bool => n ≤ 1
  | .int32 => n < P31 || (P64 - P31 ≤ n && n < P64)
  | .enum _ => n < P31 || (P64 - P31 ≤ n && n < P64)
  | _ => n < P64

/-- Two's complement reading of a 64-bit pattern. -/
def toInt (n : Nat) : Int := if n < P63 then (n : Int) else (n : Int) - (P64 : Int)

/-- `uint64(x)` of an `int64`. -/
def ofInt (i : Int) : Nat := (i % (P64 : Int)).toNat

/-! ### decimal text of big integers (`big.Int.MarshalText`) -/

/-- ASCII digits, least significant first; `fuel ≥ n` suffices. -/
def digitsLE : Nat → Nat → Bytes
  | 0, _ => []
  | k+1, n => if n = 0 then [] else UInt8.ofNat (48 + n % 10) :: digitsLE k (n / 10)

def natText (n : Nat) : Bytes := if n = 0 then [48] else (digitsLE n n).reverse

def intText (i : Int) : Bytes := if i < 0 then 45 :: natText i.natAbs else natText i.natAbs

def digitVal (c : UInt8) : Option Nat := if 48 ≤ c.toNat ∧ c.toNat ≤ 57 then some (c.toNat - 48) else none

def parseDigits : Bytes → Nat → Option Nat
  | [], acc => some acc
  | c :: cs, acc =>
    match digitVal c with
    | some d => parseDigits cs (acc * 10 + d)
    | none => none

def parseNatText (b : Bytes) : Option Nat :=
  match b with
  | [] => none
  | c :: cs => if c.toNat = 48 ∧ cs ≠ [] then none else parseDigits (c :: cs) 0

/-- Canonical decimal text (what `Int.Marshal` writes): optional `-`, no leading zeros. -/
def parseIntTextCanon (b : Bytes) : Option Int :=
  match b with
  | [] => none
  | c :: cs =>
    if c.toNat = 45 then
      match parseNatText cs with
      | some n => some (-(n : Int))
      | none => none
    else
      match parseNatText (c :: cs) with
      | some n => some (n : Int)
      | none => none

/-! `sdkmath.Int.Unmarshal` / `LegacyDec.Unmarshal` read the text with `big.Int.UnmarshalText`, i.e.
Go's number scanner with base 0: an optional sign `+`/`-`, the prefixes `0b 0o 0x` (and a bare leading
`0` = octal), `_` between digits, the whole input consumed (math/big natconv.go `nat.scan`,
intconv.go `setFromScanner`).  Everything beyond canonical decimal is only reachable by hand-made
bytes; it is modelled so that the decode probe on mutated bytes agrees with the real codec. -/

def goDigit (base : Nat) (c : UInt8) : Option Nat :=
  let n := c.toNat
  let d := if 48 ≤ n ∧ n ≤ 57 then n - 48 else if 97 ≤ n ∧ n ≤ 122 then n - 97 + 10
           else if 65 ≤ n ∧ n ≤ 90 then n - 65 + 10 else 99
  if d < base then some d else none

/-- The digit loop: `prev` is 0 (`.`), 1 (a digit or prefix) or 2 (`_`).  Returns the value, the digit
count, the last `prev`, whether a separator was misplaced, and the unread rest. -/
def goScanLoop (base : Nat) : Bytes → Nat → Nat → Nat → Bool → (Nat × Nat × Nat × Bool × Bytes)
  | [], acc, cnt, prev, inval => (acc, cnt, prev, inval, [])
  | c :: cs, acc, cnt, prev, inval =>
    if c.toNat = 95 then goScanLoop base cs acc cnt 2 (inval || prev != 1)
    else match goDigit base c with
      | some d => goScanLoop base cs (acc * base + d) (cnt + 1) 1 inval
      | none => (acc, cnt, prev, inval, c :: cs)

def goScanFinish (base : Nat) (octal0 : Bool) (prev0 : Nat) (rest : Bytes) : Option Nat :=
  match goScanLoop base rest 0 0 prev0 false with
  | (acc, cnt, prev, inval, left) =>
    if inval || prev = 2 then none
    else if cnt = 0 then (if octal0 && left.isEmpty then some 0 else none)
    else if left.isEmpty then some acc else none

def goScanNat (b : Bytes) : Option Nat :=
  match b with
  | [c] => if c.toNat = 48 then some 0 else goScanFinish 10 false 0 b
  | c0 :: c :: cs =>
    if c0.toNat = 48 then
      if c.toNat = 98 ∨ c.toNat = 66 then goScanFinish 2 false 1 cs
      else if c.toNat = 111 ∨ c.toNat = 79 then goScanFinish 8 false 1 cs
      else if c.toNat = 120 ∨ c.toNat = 88 then goScanFinish 16 false 1 cs
      else goScanFinish 8 true 1 (c :: cs)
    else goScanFinish 10 false 0 b
  | [] => none

def goScanInt (b : Bytes) : Option Int :=
  match b with
  | [] => none
  | c :: cs =>
    if c.toNat = 45 then (goScanNat cs).map fun n => -(n : Int)
    else if c.toNat = 43 then (goScanNat cs).map fun n => (n : Int)
    else (goScanNat b).map fun n => (n : Int)

/-- The text of a big integer: canonical decimal first (the only form the encoder produces), then
the rest of Go's base-0 syntax. -/
def parseIntText (b : Bytes) : Option Int :=
  match parseIntTextCanon b with
  | some i => some i
  | none => goScanInt b

/-- `BitLen() <= bits`. -/
def bigOK (bits : Nat) (i : Int) : Bool := i.natAbs < 2 ^ bits

/-! ### google.protobuf.Timestamp / Duration as seen by `StdTimeUnmarshal` / `StdDurationUnmarshal` -/

/- `uint64` pattern of `time.Time{}.Unix()` = −62135596800. -/
scoped notation "zeroTimeSeconds" => 18446744011573954816

/-- `validateTimestamp` on the decoded `[seconds, nanos]`. -/
def timeValid (s n : Nat) : Bool := (s < 253402300800 || (zeroTimeSeconds ≤ s && s < P64)) && n < 1000000000

/-- `validateDuration` and the two overflow checks of `DurationFromProto`. -/
def durValid (s n : Nat) : Bool :=
  let S := toInt s
  let N := toInt n
  s < P64 && n < P64 &&
  decide (-315576000000 ≤ S) && decide (S ≤ 315576000000) && decide (-1000000000 < N) && decide (N < 1000000000) &&
  !(decide (S < 0) && decide (N > 0)) && !(decide (S > 0) && decide (N < 0)) &&
  decide (-(P63 : Int) ≤ S * 1000000000 + N) && decide (S * 1000000000 + N < (P63 : Int))

def stdValid (std : Std) (v : Val) : Bool :=
  match std, v with
  | .none, _ => true
  | .time, .msg [.varint s, .varint n] => timeValid s n
  | .duration, .msg [.varint s, .varint n] => durValid s n
  | _, _ => false

/-- `DurationProto(d)`: truncated division (Go `/` and `-`), as `[seconds, nanos]`. -/
def durToProto (ns : Int) : Val :=
  let secs := Int.tdiv ns 1000000000
  .msg [.varint (ofInt secs), .varint (ofInt (ns - secs * 1000000000))]

/-- `DurationFromProto` (after validation). -/
def durFromProto (v : Val) : Option Int :=
  match v with
  | .msg [.varint s, .varint n] => if durValid s n then some (toInt s * 1000000000 + toInt n) else none
  | _ => none

/-- `TimestampProto(t)`: `[t.Unix(), t.Nanosecond()]`. -/
def timeToProto (secs : Int) (nanos : Nat) : Val := .msg [.varint (ofInt secs), .varint nanos]

/-! ## defaults, encode, decode -/

def defaultField (env : Env) (dm : MsgDesc → Val) (f : Field) : Val :=
  match f.cls with
  | .varint _ => .varint 0
  | .len => .bytes []
  | .big _ => .int 0
  | .repLen => .list []
  | .msg n => match lookup env n with | some d => dm d | none => .none
  | .optMsg _ => .none
  | .stdMsg _ .time => .msg [.varint zeroTimeSeconds, .varint 0]
  | .stdMsg _ _ => .msg [.varint 0, .varint 0]
  | .repMsg _ => .list []
  | .bad => .none

/-- The zero Go struct of a descriptor. -/
def defaultMsg (env : Env) : Nat → MsgDesc → Val
  | 0, _ => .none
  | k+1, d => .msg (d.fields.map (defaultField env (defaultMsg env k)))

def lenEntries (num : Nat) : List Val → List Entry
  | [] => []
  | .bytes b :: vs => ⟨num, .len b⟩ :: lenEntries num vs
  | _ :: vs => lenEntries num vs

def msgEntries (enc : Val → Bytes) (num : Nat) : List Val → List Entry
  | [] => []
  | v :: vs => ⟨num, .len (enc v)⟩ :: msgEntries enc num vs

/-- The wire entries one field contributes (`MarshalToSizedBuffer`, read bottom-up). -/
def fieldEntries (env : Env) (enc : MsgDesc → Val → Bytes) (f : Field) (v : Val) : List Entry :=
  match f.cls, v with
  | .varint _, .varint n => if n = 0 then [] else [⟨f.num, .varint n⟩]
  | .len, .bytes b => if b.isEmpty then [] else [⟨f.num, .len b⟩]
  | .big _, .int i => [⟨f.num, .len (intText i)⟩]
  | .repLen, .list vs => lenEntries f.num vs
  | .msg n, v => match lookup env n with | some d => [⟨f.num, .len (enc d v)⟩] | none => []
  | .optMsg _, .none => []
  | .optMsg n, v => match lookup env n with | some d => [⟨f.num, .len (enc d v)⟩] | none => []
  | .stdMsg n _, v => match lookup env n with | some d => [⟨f.num, .len (enc d v)⟩] | none => []
  | .repMsg n, .list vs => match lookup env n with | some d => msgEntries (enc d) f.num vs | none => []
  | _, _ => []

def allEntries (env : Env) (enc : MsgDesc → Val → Bytes) : List Field → List Val → List Entry
  | f :: fs, v :: vs => fieldEntries env enc f v ++ allEntries env enc fs vs
  | _, _ => []

/-- `Marshal`: fields in ascending field-number order. -/
def encodeAt (env : Env) : Nat → MsgDesc → Val → Bytes
  | 0, _, _ => []
  | k+1, d, v =>
    match v with
    | .msg vs => encEntries (allEntries env (encodeAt env k) d.fields vs)
    | _ => []

def appendVal (cur : Val) (x : Val) : Option Val :=
  match cur with
  | .list vs => some (.list (vs ++ [x]))
  | _ => none

/-- `case fieldNum:` of the generated `Unmarshal` for a known field. -/
def updField (env : Env) (sub : MsgDesc → Val → Bytes → Option Val) (dm : MsgDesc → Val)
    (f : Field) (cur : Val) (p : Payload) : Option Val :=
  match f.cls, p with
  | .varint s, .varint n => some (.varint (convVarint s n))
  | .len, .len b => some (.bytes b)
  | .big bits, .len b =>
    if b.isEmpty then some cur    -- `if len(data) == 0 { i = nil; return nil }`: the field is left alone
    else match parseIntText b with
      | some i => if bigOK bits i then some (.int i) else none
      | none => none
  | .repLen, .len b => appendVal cur (.bytes b)
  | .msg n, .len b =>
    match lookup env n with
    | some d => sub d cur b      -- `m.X.Unmarshal(...)` merges into the existing struct
    | none => none
  | .optMsg n, .len b =>
    match lookup env n with
    | some d => (match cur with | .none => sub d (dm d) b | c => sub d c b)
    | none => none
  | .stdMsg n std, .len b =>
    match lookup env n with
    | some d =>
      (match sub d (dm d) b with     -- `ts := &Timestamp{}; ts.Unmarshal(data)`: replaces
       | some v => if stdValid std v then some v else none
       | none => none)
    | none => none
  | .repMsg n, .len b =>
    match lookup env n with
    | some d => (match sub d (dm d) b with | some v => appendVal cur v | none => none)
    | none => none
  | _, _ => none    -- "wrong wireType"

/-- `switch fieldNum`: the first field with that number; `default:` skips. -/
def applyEntry (upd : Field → Val → Payload → Option Val) : List Field → List Val → Entry → Option (List Val)
  | f :: fs, v :: vs, e =>
    if f.num = e.num then
      match upd f v e.p with
      | some v' => some (v' :: vs)
      | none => none
    else
      match applyEntry upd fs vs e with
      | some vs' => some (v :: vs')
      | none => none
  | _, vs, _ => some vs

def applyEntries (upd : Field → Val → Payload → Option Val) (fs : List Field) : List Val → List Entry → Option (List Val)
  | cur, [] => some cur
  | cur, e :: es =>
    match applyEntry upd fs cur e with
    | some cur' => applyEntries upd fs cur' es
    | none => none

/-- `Unmarshal` into the struct value `start`. -/
def decodeAt (env : Env) : Nat → MsgDesc → Val → Bytes → Option Val
  | 0, _, _, _ => none
  | k+1, d, start, bs =>
    match start with
    | .msg cur =>
      match tokenize bs.length bs with
      | some es =>
        (match applyEntries (updField env (decodeAt env k) (defaultMsg env k)) d.fields cur es with
         | some vs => some (.msg vs)
         | none => none)
      | none => none
    | _ => none

/-- Nesting depth provided for (the hub's deepest chain is vpn genesis → module genesis → record → Coin). -/
abbrev depthFuel : Nat := 8

def encode (env : Env) (d : MsgDesc) (v : Val) : Bytes := encodeAt env depthFuel d v

/-- `codec.Unmarshal` into a fresh value. -/
def decode (env : Env) (d : MsgDesc) (bs : Bytes) : Option Val := decodeAt env depthFuel d (defaultMsg env depthFuel d) bs

/-! ## checkers -/

def numsAscending : Nat → List Field → Bool
  | _, [] => true
  | lo, f :: fs => lo < f.num && f.num < P29 && numsAscending f.num fs

def fieldWF (env : Env) (sub : MsgDesc → Bool) (f : Field) : Bool :=
  match f.cls with
  | .varint _ => true
  | .len => true
  | .big _ => true
  | .repLen => true
  | .msg n => match lookup env n with | some d => sub d | none => false
  | .optMsg n => match lookup env n with | some d => sub d | none => false
  | .stdMsg n .time => lookup env n == some timestampDesc && sub timestampDesc
  | .stdMsg n .duration => lookup env n == some durationDesc && sub durationDesc
  | .stdMsg _ .none => false
  | .repMsg n => match lookup env n with | some d => sub d | none => false
  | .bad => false

/-- Supported descriptor: ascending field numbers in `[1, 2^29)`, supported fields, resolvable and
supported nested descriptors down to depth `fuel`. -/
def wfAt (env : Env) : Nat → MsgDesc → Bool
  | 0, _ => false
  | k+1, d => numsAscending 0 d.fields && d.fields.all (fieldWF env (wfAt env k))

def allBytesOK : List Val → Bool
  | [] => true
  | .bytes b :: vs => decide (b.length < P63) && allBytesOK vs
  | _ :: _ => false

def allMsgOK (ok : Val → Bool) : List Val → Bool
  | [] => true
  | v :: vs => ok v && allMsgOK ok vs

/-- A well-typed field value whose length-delimited pieces are shorter than `2^63` bytes (Go `int`). -/
def canonField (env : Env) (canon : MsgDesc → Val → Bool) (enc : MsgDesc → Val → Bytes) (f : Field) (v : Val) : Bool :=
  match f.cls, v with
  | .varint s, .varint n => rangeOK s n
  | .len, .bytes b => decide (b.length < P63)
  | .big bits, .int i => bigOK bits i
  | .repLen, .list vs => allBytesOK vs
  | .msg n, v => match lookup env n with | some d => canon d v && decide ((enc d v).length < P63) | none => false
  | .optMsg _, .none => true
  | .optMsg n, v => match lookup env n with | some d => canon d v && decide ((enc d v).length < P63) | none => false
  | .stdMsg n std, v =>
    match lookup env n with
    | some d => canon d v && decide ((enc d v).length < P63) && stdValid std v
    | none => false
  | .repMsg n, .list vs =>
    match lookup env n with
    | some d => allMsgOK (fun v => canon d v && decide ((enc d v).length < P63)) vs
    | none => false
  | _, _ => false

def canonFields (env : Env) (canon : MsgDesc → Val → Bool) (enc : MsgDesc → Val → Bytes) : List Field → List Val → Bool
  | [], [] => true
  | f :: fs, v :: vs => canonField env canon enc f v && canonFields env canon enc fs vs
  | _, _ => false

def canonAt (env : Env) : Nat → MsgDesc → Val → Bool
  | 0, _, _ => false
  | k+1, d, v =>
    match v with
    | .msg vs => canonFields env (canonAt env k) (encodeAt env k) d.fields vs
    | _ => false

def wf (env : Env) (d : MsgDesc) : Bool := wfAt env depthFuel d
def canonical (env : Env) (d : MsgDesc) (v : Val) : Bool := canonAt env depthFuel d v

/-! ## probe text

`fields := { '(' num ' ' val ')' }` separated by blanks, `val` one of
`u:<uint64 pattern>`  `s:<hex>`  `i:<decimal>|nil`  `t:<unix seconds>:<nanos>`  `d:<nanoseconds>`
`m:(fields)`  `l:(val …)`  `n:` (nil pointer).  A field that is not listed has its zero Go value. -/

inductive PV where
  | u (n : Nat)
  | s (b : Bytes)
  | i (i : Int)
  | t (secs : Int) (nanos : Nat)
  | d (ns : Int)
  | m (fs : List (Nat × PV))
  | l (vs : List PV)
  | n
  deriving Repr, Inhabited

def skipBlanks : List Char → List Char
  | ' ' :: cs => skipBlanks cs
  | cs => cs

/-- The longest prefix of characters satisfying `p`, and the rest. -/
def spanChars (p : Char → Bool) : List Char → List Char × List Char
  | [] => ([], [])
  | c :: cs => if p c then let (a, b) := spanChars p cs; (c :: a, b) else ([], c :: cs)

def isTokChar (c : Char) : Bool := c.isAlphanum || c == '-'

def readNat (cs : List Char) : Option (Nat × List Char) :=
  let (a, r) := spanChars Char.isDigit cs
  match (String.ofList a).toNat? with
  | some n => some (n, r)
  | none => none

def readInt (cs : List Char) : Option (Int × List Char) :=
  match cs with
  | '-' :: r => (match readNat r with | some (n, r') => some (-(n : Int), r') | none => none)
  | cs => (match readNat cs with | some (n, r') => some ((n : Int), r') | none => none)

mutual
def parseVal : Nat → List Char → Option (PV × List Char)
  | 0, _ => none
  | k+1, cs =>
    match cs with
    | 'u' :: ':' :: r => (match readNat r with | some (n, r') => some (.u n, r') | none => none)
    | 's' :: ':' :: r =>
      let (a, r') := spanChars Char.isAlphanum r
      (match ofHexChars a with | some b => some (.s b, r') | none => none)
    | 'i' :: ':' :: 'n' :: 'i' :: 'l' :: r => some (.i 0, r)
    | 'i' :: ':' :: r => (match readInt r with | some (i, r') => some (.i i, r') | none => none)
    | 't' :: ':' :: r =>
      (match readInt r with
       | some (s, ':' :: r') => (match readNat r' with | some (n, r'') => some (.t s n, r'') | none => none)
       | _ => none)
    | 'd' :: ':' :: r => (match readInt r with | some (i, r') => some (.d i, r') | none => none)
    | 'n' :: ':' :: r => some (.n, r)
    | 'm' :: ':' :: '(' :: r => (match parseFields k r with | some (fs, r') => some (.m fs, r') | none => none)
    | 'l' :: ':' :: '(' :: r => (match parseVals k r with | some (vs, r') => some (.l vs, r') | none => none)
    | _ => none
/-- `(num val) (num val) … )` — consumes the closing parenthesis (or the end of input). -/
def parseFields : Nat → List Char → Option (List (Nat × PV) × List Char)
  | 0, _ => none
  | k+1, cs =>
    match skipBlanks cs with
    | [] => some ([], [])
    | ')' :: r => some ([], r)
    | '(' :: r =>
      (match readNat r with
       | some (num, ' ' :: r1) =>
         (match parseVal k r1 with
          | some (v, ')' :: r2) =>
            (match parseFields k r2 with
             | some (fs, r3) => some ((num, v) :: fs, r3)
             | none => none)
          | _ => none)
       | _ => none)
    | _ => none
def parseVals : Nat → List Char → Option (List PV × List Char)
  | 0, _ => none
  | k+1, cs =>
    match skipBlanks cs with
    | ')' :: r => some ([], r)
    | cs' =>
      (match parseVal k cs' with
       | some (v, r1) =>
         (match parseVals k r1 with
          | some (vs, r2) => some (v :: vs, r2)
          | none => none)
       | none => none)
end

def pvFind (num : Nat) : List (Nat × PV) → Option PV
  | [] => none
  | (k, v) :: r => if k = num then some v else pvFind num r

def pvBytesList : List PV → Option (List Val)
  | [] => some []
  | .s b :: r => (match pvBytesList r with | some vs => some (.bytes b :: vs) | none => none)
  | _ :: _ => none

def pvMsgList (conv : List (Nat × PV) → Option Val) : List PV → Option (List Val)
  | [] => some []
  | .m fs :: r =>
    (match conv fs, pvMsgList conv r with
     | some v, some vs => some (v :: vs)
     | _, _ => none)
  | _ :: _ => none

def pvField (env : Env) (conv : MsgDesc → List (Nat × PV) → Option Val) (dm : MsgDesc → Val) (f : Field) (pv : Option PV) : Option Val :=
  match f.cls, pv with
  | .varint _, some (.u n) => some (.varint n)
  | .varint _, none => some (.varint 0)
  | .len, some (.s b) => some (.bytes b)
  | .len, none => some (.bytes [])
  | .big _, some (.i i) => some (.int i)
  | .big _, none => some (.int 0)
  | .repLen, some (.l vs) => (match pvBytesList vs with | some l => some (.list l) | none => none)
  | .repLen, none => some (.list [])
  | .msg n, some (.m fs) => (match lookup env n with | some d => conv d fs | none => none)
  | .msg n, none => (match lookup env n with | some d => some (dm d) | none => none)
  | .optMsg n, some (.m fs) => (match lookup env n with | some d => conv d fs | none => none)
  | .optMsg _, some .n => some .none
  | .optMsg _, none => some .none
  | .stdMsg _ .time, some (.t s n) => some (timeToProto s n)
  | .stdMsg _ .time, none => some (.msg [.varint zeroTimeSeconds, .varint 0])
  | .stdMsg _ .duration, some (.d ns) => some (durToProto ns)
  | .stdMsg _ .duration, none => some (.msg [.varint 0, .varint 0])
  | .repMsg n, some (.l vs) =>
    (match lookup env n with
     | some d => (match pvMsgList (conv d) vs with | some l => some (.list l) | none => none)
     | none => none)
  | .repMsg _, none => some (.list [])
  | _, _ => none

def pvFieldsAll (env : Env) (conv : MsgDesc → List (Nat × PV) → Option Val) (dm : MsgDesc → Val) (pvs : List (Nat × PV)) :
    List Field → Option (List Val)
  | [] => some []
  | f :: fs =>
    match pvField env conv dm f (pvFind f.num pvs), pvFieldsAll env conv dm pvs fs with
    | some v, some vs => some (v :: vs)
    | _, _ => none

/-- Typed value of a parsed text under a descriptor. -/
def pvToVal (env : Env) : Nat → MsgDesc → List (Nat × PV) → Option Val
  | 0, _, _ => none
  | k+1, d, pvs =>
    match pvFieldsAll env (pvToVal env k) (defaultMsg env k) pvs d.fields with
    | some vs => some (.msg vs)
    | none => none

/-- Lower-case hex, "-" for the empty string (as `toHex`). -/
def hexOf (b : Bytes) : String := toHex b

/-- The text between the message name and " => " of a probe line, and the message name. -/
def splitProbeLine (line : String) : Option (String × String) :=
  let left := (line.splitOn " => ").headD ""
  match left.splitOn " " with
  | "pb" :: name :: rest => some (name, " ".intercalate rest)
  | _ => none

/-- Model bytes (hex) of one probe line `pb <name> <fields> => …`; `err:<why>` if the model refuses.
A value outside `canonical` (e.g. a time outside years 1…9999, a `Dec` of more than 315 bits) gives
`err:noncanonical <hex of the bytes the total encoder produces anyway>`: the real codec must then fail
to marshal or to unmarshal.  For a canonical value the model also checks its own round trip. -/
def runProtoProbeWith (env : Env) (line : String) : String :=
  match splitProbeLine line with
  | none => "err:line"
  | some (name, text) =>
    match lookup env name with
    | none => "err:unknown-message"
    | some d =>
      let cs := text.toList
      match parseFields (cs.length + 2) cs with
      | some (pvs, []) =>
        (match pvToVal env depthFuel d pvs with
         | none => "err:type"
         | some v =>
           if !wf env d then "err:descriptor"
           else
             let bs := encode env d v
             if !canonical env d v then "err:noncanonical " ++ hexOf bs else
             match decode env d bs with
             | some v' => if Val.beq v v' then hexOf bs else "err:model-roundtrip " ++ hexOf bs
             | none => "err:model-decode " ++ hexOf bs)
      | _ => "err:parse"

/-- One line of the decode probe, `pbd <name> <hex of arbitrary bytes> => <fields of the struct the real
Unmarshal produced> | err:<reason>`: "ok" when the model's `decode` of the same bytes agrees with the real
`Unmarshal` (the same value, or both reject), otherwise `DIFF …`. -/
def runProtoDecodeProbeWith (env : Env) (line : String) : String :=
  let line := if line.endsWith "=>" then line ++ " " else line   -- an empty message, right-trimmed
  match line.splitOn " => " with
  | [left, right] =>
    (match left.splitOn " " with
     | ["pbd", name, hx] =>
       (match lookup env name, ofHex hx with
        | some d, some bs =>
          let model := decode env d bs
          if right.startsWith "err:" then
            (match model with
             | none => "ok"
             | some _ => "DIFF model=accepts real=" ++ right)
          else
            let cs := right.toList
            (match parseFields (cs.length + 2) cs with
             | some (pvs, []) =>
               (match pvToVal env depthFuel d pvs, model with
                | some v, some v' => if Val.beq v v' then "ok" else "DIFF value"
                | some _, none => "DIFF model=rejects real=accepts"
                | none, _ => "err:type")
             | _ => "err:parse")
        | _, _ => "err:line")
     | _ => "err:line")
  | _ => "err:line"

end Hub.SDK.ProtoWire
