/-
Byte strings, big-endian integers, length prefixes, prefix ends, hex: the byte-level vocabulary of
the store keys (`sdk.Uint64ToBigEndian`, `address.MustLengthPrefix`, `sdk.PrefixEndBytes`).
-/
namespace Hub.SDK

abbrev Bytes := List UInt8

/-- `sdk.Uint64ToBigEndian`: the 8 big-endian bytes of `n mod 2^64`. -/
def u64be (n : Nat) : Bytes :=
  [ UInt8.ofNat (n / 2^56 % 256), UInt8.ofNat (n / 2^48 % 256), UInt8.ofNat (n / 2^40 % 256), UInt8.ofNat (n / 2^32 % 256),
    UInt8.ofNat (n / 2^24 % 256), UInt8.ofNat (n / 2^16 % 256), UInt8.ofNat (n / 2^8 % 256), UInt8.ofNat (n % 256) ]

/-- Big-endian value of a byte string (`sdk.BigEndianToUint64` on 8 bytes). -/
def beToNat (b : Bytes) : Nat := b.foldl (fun acc x => acc * 256 + x.toNat) 0

/-- `sdk.BigEndianToUint64`: 0 for the empty slice, otherwise the first 8 bytes (Go panics below 8). -/
def bigEndianToUint64 (b : Bytes) : Except String Nat :=
  if b.length = 0 then .ok 0
  else if b.length < 8 then .error "index out of range"
  else .ok (beToNat (b.take 8))

/-- `address.MustLengthPrefix`: one length byte, then the bytes; panics above 255; empty stays empty. -/
def lengthPrefix (b : Bytes) : Except String Bytes :=
  if b.length = 0 then .ok []
  else if b.length > 255 then .error "address length should be max 255 bytes"
  else .ok (UInt8.ofNat b.length :: b)

/-- Total version used where the length bound is a hypothesis. -/
def lp (b : Bytes) : Bytes := if b.length = 0 then [] else UInt8.ofNat b.length :: b

/-- `sdk.PrefixEndBytes`: the smallest byte string greater than every string with this prefix
(`none` = unbounded). -/
def prefixEnd : Bytes → Option Bytes
  | [] => none
  | b =>
    let rec go : List UInt8 → Option (List UInt8)   -- works on the reversed string
      | [] => none
      | x :: xs => if x = 255 then go xs else some ((x + 1) :: xs)
    (go b.reverse).map List.reverse

/-- Go `int(key[i])`: the byte at index `i`; an index out of range panics. -/
def idx (b : Bytes) (i : Nat) : Except String Nat :=
  match b[i]? with
  | some x => .ok x.toNat
  | none => .error "index out of range"

/-- Go `key[lo:hi]`; panics unless `lo ≤ hi ≤ len`. -/
def slice (b : Bytes) (lo hi : Nat) : Except String Bytes :=
  if lo ≤ hi ∧ hi ≤ b.length then .ok ((b.drop lo).take (hi - lo)) else .error "slice bounds out of range"

/-- Go `key[lo:]`; panics unless `lo ≤ len`. -/
def sliceFrom (b : Bytes) (lo : Nat) : Except String Bytes :=
  if lo ≤ b.length then .ok (b.drop lo) else .error "slice bounds out of range"

/-- Lexicographic comparison of byte strings (the store's key order). -/
def bytesLt : Bytes → Bytes → Bool
  | [], [] => false
  | [], _ :: _ => true
  | _ :: _, [] => false
  | x :: xs, y :: ys => if x < y then true else if y < x then false else bytesLt xs ys

def bytesLe (a b : Bytes) : Bool := !bytesLt b a

def isPrefixOf (p b : Bytes) : Bool := p.isPrefixOf b

def hexDigit (n : Nat) : Char := if n < 10 then Char.ofNat (48 + n) else Char.ofNat (87 + n)

def hexOfByte (b : UInt8) : String := String.mk [hexDigit (b.toNat / 16), hexDigit (b.toNat % 16)]

/-- Lower-case hex; the empty string is written "-" (the line protocol's convention). -/
def toHex (b : Bytes) : String := if b.isEmpty then "-" else String.join (b.map hexOfByte)

def hexVal (c : Char) : Option Nat :=
  if '0' ≤ c ∧ c ≤ '9' then some (c.toNat - 48)
  else if 'a' ≤ c ∧ c ≤ 'f' then some (c.toNat - 87)
  else if 'A' ≤ c ∧ c ≤ 'F' then some (c.toNat - 55)
  else none

def ofHexChars : List Char → Option Bytes
  | [] => some []
  | [_] => none
  | a :: b :: rest => do
    let x ← hexVal a
    let y ← hexVal b
    let r ← ofHexChars rest
    pure (UInt8.ofNat (x * 16 + y) :: r)

def ofHex (s : String) : Option Bytes := if s = "-" ∨ s = "" then some [] else ofHexChars s.toList

def strBytes (s : String) : Bytes := s.toUTF8.toList

end Hub.SDK
