/-
Model of the parts of `cosmossdk.io/math` v1.3.0 the hub uses (a dependency: modelled by hand,
validated against the real library by the `probe` runs, listed in the trusted base).

`sdkmath.Int` is an arbitrary-precision integer whose arithmetic panics when the result needs more
than 256 bits; `LegacyDec` is an 18-decimal fixed point over a big integer.  A Go panic is an
`Except.error`.
-/
namespace Hub.SDK

/-- What went wrong: a handler-level rejection (an `error` value in Go) or a Go panic. -/
inductive Err where
  | reject (msg : String)
  | panic (msg : String)
  deriving Repr, DecidableEq, Inhabited

abbrev M := Except Err

def reject {α} (msg : String) : M α := .error (.reject msg)
def gopanic {α} (msg : String) : M α := .error (.panic msg)

/-- `if !c { return err }` as one monadic step (keeps handlers a plain chain of binds). -/
def require (c : Bool) (msg : String) : M Unit := if c then pure () else reject msg
/-- `if !c { panic(...) }`. -/
def requireP (c : Bool) (msg : String) : M Unit := if c then pure () else gopanic msg
/-- `x, found := get(); if !found { return err }`. -/
def orReject {α} (o : Option α) (msg : String) : M α := match o with | some a => pure a | none => reject msg
/-- `x, found := get(); if !found { panic(...) }`. -/
def orPanic {α} (o : Option α) (msg : String) : M α := match o with | some a => pure a | none => gopanic msg

/-- `big.Int.BitLen() > 256`, i.e. `|i| ≥ 2^256`. -/
def intOverflows (i : Int) : Bool := i.natAbs ≥ 115792089237316195423570985008687907853269984665640564039457584007913129639936  -- 2^256, written out (see `Hub.SDK.two_pow_256`)

abbrev SInt := Int

namespace SInt
def add (a b : SInt) : M SInt := if intOverflows (a + b) then gopanic "integer overflow" else pure (a + b)
def sub (a b : SInt) : M SInt := if intOverflows (a - b) then gopanic "integer overflow" else pure (a - b)
def mul (a b : SInt) : M SInt := if intOverflows (a * b) then gopanic "integer overflow" else pure (a * b)
/-- `Quo`: truncated division (Go `big.Int.Quo`), panics on zero. -/
def quo (a b : SInt) : M SInt := if b = 0 then gopanic "Division by zero" else pure (Int.tdiv a b)
/-- `Mod`: Euclidean modulus (Go `big.Int.Mod`), panics on zero. -/
def mod (a b : SInt) : M SInt := if b = 0 then gopanic "division by zero" else pure (Int.emod a b)
end SInt

/-- A `LegacyDec` is its underlying integer (value × 10^18). -/
abbrev Dec := Int

def decUnit : Int := 10 ^ 18
/-- `maxDecBitLen = 256 + 59`. -/
def decOverflows (i : Int) : Bool := i.natAbs ≥ 66749594872528440074844428317798503581334516323645399060845050244444366430645017188217565216768  -- 2^315

namespace Dec
def ofInt (i : SInt) : Dec := i * decUnit

/-- `chopPrecisionAndRound`: divide by 10^18 rounding half to even, symmetric in sign. -/
def chopRoundNat (n : Nat) : Nat :=
  let q := n / 10 ^ 18
  let r := n % 10 ^ 18
  if r = 0 then q
  else if r < 5 * 10 ^ 17 then q
  else if r > 5 * 10 ^ 17 then q + 1
  else if q % 2 = 0 then q else q + 1

def chopRound (d : Int) : Int :=
  if d < 0 then - (chopRoundNat d.natAbs : Int) else (chopRoundNat d.natAbs : Int)

def mul (a b : Dec) : M Dec :=
  let c := chopRound (a * b)
  if decOverflows c then gopanic "Int overflow" else pure c

/-- `QuoInt`: truncated division of the underlying integer; Go's `big.Int.Quo` panics on zero. -/
def quoInt (a : Dec) (i : SInt) : M Dec :=
  if i = 0 then gopanic "division by zero" else pure (Int.tdiv a i)

def ceil (d : Dec) : M Dec :=
  let q := Int.tdiv d decUnit
  let r := Int.tmod d decUnit
  if r ≤ 0 then pure (q * decUnit)
  else if d.natAbs ≥ 33374797436264220037422214158899251790667258161822699530422525122222183215322508594108782608384 then gopanic "Int overflow"   -- BitLen() >= maxDecBitLen
  else pure ((q + 1) * decUnit)

def truncateInt (d : Dec) : M SInt :=
  let q := Int.tdiv d decUnit
  if intOverflows q then gopanic "NewIntFromBigInt() out of bound" else pure q

def roundInt (d : Dec) : M SInt :=
  let q := chopRound d
  if intOverflows q then gopanic "NewIntFromBigInt() out of bound" else pure q
end Dec


/-- The written-out bounds are the powers of two they stand for. -/
theorem two_pow_256 : (2 : Nat) ^ 256 = 115792089237316195423570985008687907853269984665640564039457584007913129639936 := by decide
set_option exponentiation.threshold 400 in
theorem two_pow_315 : (2 : Nat) ^ 315 = 66749594872528440074844428317798503581334516323645399060845050244444366430645017188217565216768 := by decide
set_option exponentiation.threshold 400 in
theorem two_pow_314 : (2 : Nat) ^ 314 = 33374797436264220037422214158899251790667258161822699530422525122222183215322508594108782608384 := by decide

end Hub.SDK
