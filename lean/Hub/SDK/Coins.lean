import Hub.SDK.Math
/-
Model of `sdk.Coin` / `sdk.Coins` as far as the hub uses them: a coin set is a list of
(denomination, amount) pairs; a *valid* set is strictly sorted by denomination with positive
amounts and valid denominations.  The hub only ever adds or subtracts a single coin.
-/
namespace Hub.SDK

abbrev Denom := String

structure Coin where
  denom : Denom
  amount : Int
  deriving Repr, DecidableEq, Inhabited

abbrev Coins := List Coin

/-- `sdk.ValidateDenom`: `[a-zA-Z][a-zA-Z0-9/:._-]{2,127}`. -/
def denomCharOk (c : Char) : Bool :=
  c.isAlphanum || c = '/' || c = ':' || c = '.' || c = '_' || c = '-'

def validDenom (d : Denom) : Bool :=
  match d.toList with
  | [] => false
  | c :: rest => c.isAlpha && rest.length ≥ 2 && rest.length ≤ 127 && rest.all denomCharOk

namespace Coins

def amountOf (cs : Coins) (d : Denom) : Int :=
  match cs.find? (·.denom = d) with
  | some c => c.amount
  | none => 0

def find (cs : Coins) (d : Denom) : Option Coin := cs.find? (·.denom = d)

/-- Strictly increasing denominations. -/
def sortedStrict : Coins → Bool
  | [] => true
  | [_] => true
  | a :: b :: rest => a.denom < b.denom && sortedStrict (b :: rest)

/-- `Coins.Validate() == nil`. -/
def isValid (cs : Coins) : Bool :=
  cs.all (fun c => validDenom c.denom && c.amount > 0) && sortedStrict cs

def isAnyNegative (cs : Coins) : Bool := cs.any (·.amount < 0)

/-- `Coins.IsZero()`: every coin has a zero amount (in particular the empty set). -/
def isZero (cs : Coins) : Bool := cs.all (·.amount = 0)

/-- Insert a coin before the first coin with a larger denomination. -/
def insertSorted : Coins → Coin → Coins
  | [], c => [c]
  | x :: rest, c => if c.denom < x.denom then c :: x :: rest else x :: insertSorted rest c

/-- Add `a` of denomination `d` into a coin set, dropping a zero result (`Coins.Add(coin)`; with a
negative `a` this is `SafeSub`). On denom-sorted sets (all the hub ever holds) this is the merge the
SDK performs; written so that `amountOf` behaves additively on every list. -/
def addAmt (cs : Coins) (d : Denom) (a : Int) : Coins :=
  match cs.find? (·.denom = d) with
  | some c =>
    if c.amount + a = 0 then cs.filter (fun x => x.denom ≠ d)
    else cs.map (fun x => if x.denom = d then ⟨d, x.amount + a⟩ else x)
  | none => if a = 0 then cs else insertSorted cs ⟨d, a⟩

def add (cs : Coins) (c : Coin) : Coins := addAmt cs c.denom c.amount
def sub (cs : Coins) (c : Coin) : Coins := addAmt cs c.denom (- c.amount)

/-- All amounts non-negative. -/
def Nonneg (cs : Coins) : Prop := ∀ c ∈ cs, 0 ≤ c.amount

/-- "denom:amt,denom:amt", "-" when empty (line protocol). -/
def fmt (cs : Coins) : String :=
  if cs.isEmpty then "-" else ",".intercalate (cs.map fun c => c.denom ++ ":" ++ toString c.amount)

/-- `Coins.String()`: "10udvpn,5xyz". -/
def sdkString (cs : Coins) : String := ",".intercalate (cs.map fun c => toString c.amount ++ c.denom)

end Coins

/-- `sdk.NewCoin`: panics on an invalid denomination or a negative amount. -/
def newCoin (d : Denom) (a : Int) : M Coin :=
  if !validDenom d then gopanic ("invalid denom: " ++ d)
  else if a < 0 then gopanic "negative coin amount"
  else pure ⟨d, a⟩

def Coin.fmt (c : Coin) : String := c.denom ++ ":" ++ toString c.amount
def Coin.sdkString (c : Coin) : String := toString c.amount ++ c.denom

end Hub.SDK
