import Hub.SDK.Math
/-
The specifications of the metering arithmetic (property C16), in a core-only module so that the model driver's
probe can answer with the SPECIFICATION (not with the regenerated definitions, which mirror whatever the source
says now): `Hub/Props/C16.lean` proves that the regenerated definitions meet these specifications.
-/
namespace Hub.Props.C16
open Hub.SDK

/-- The specification: the smallest whole number of base units not below `p·b/10^9`. -/
def chargeSpec (p b : Nat) : Nat := (p * b + (10 ^ 9 - 1)) / 10 ^ 9

/-- The specification of a proportional share: `a·s/10^18` rounded half to even. -/
def shareSpec (a s : Nat) : Nat := Dec.chopRoundNat (a * s)

/-- Smallest multiple of `pre` not below `x`. -/
def ceilToSpec (x pre : Nat) : Nat := (x + (pre - 1)) / pre * pre

end Hub.Props.C16
