import Hub.SDK.Bytes
/-
Executable model of the Cosmos SDK v0.47.10 paginator (`types/query/pagination.go`,
`types/query/filtered_pagination.go`).  Core Lean only (linked into the model executable).

The store under a prefix is a list of `(key, value)` pairs strictly sorted by key (`bytesLt`), which
is what a prefix-store iterator yields in ascending order.  The Go callbacks append to a result slice
by side effect; here a callback *returns* what it appends, so that a page is a value.

Line references are to `pagination.go` (P) and `filtered_pagination.go` (F) of the SDK.
-/
namespace Hub.SDK.Paginate
open Hub.SDK

/-- `query.DefaultLimit` (P:20). -/
def defaultLimit : Nat := 100

/-- `2^64`: `offset`, `limit`, `end` are Go `uint64`; `end := offset + limit` and `end+1` wrap. -/
def u64 : Nat := 18446744073709551616

/-- `query.PageRequest`.  `key = none` is the Go `nil` slice (what an absent protobuf field decodes to),
`some []` is a non-nil empty slice; `offset` and `limit` are meant below `2^64`. -/
structure PageRequest where
  key : Option Bytes := none
  offset : Nat := 0
  limit : Nat := 0
  countTotal : Bool := false
  reverse : Bool := false
deriving DecidableEq, Repr

/-- `query.PageResponse`.  `nextKey = none` is `nil`; `total = 0` when the total is not counted. -/
structure PageResponse where
  nextKey : Option Bytes
  total : Nat
deriving DecidableEq, Repr

/-- Decidable equality of results (core has none for `Except`); used by the `decide` witnesses. -/
instance instDecEqExcept {ε α : Type} [DecidableEq ε] [DecidableEq α] : DecidableEq (Except ε α)
  | .ok a, .ok b => if h : a = b then isTrue (by rw [h]) else isFalse (fun e => h (Except.ok.inj e))
  | .error a, .error b => if h : a = b then isTrue (by rw [h]) else isFalse (fun e => h (Except.error.inj e))
  | .ok _, .error _ => isFalse (fun e => nomatch e)
  | .error _, .ok _ => isFalse (fun e => nomatch e)

/-- The contents of a prefix store, in ascending key order. -/
abbrev Store (α : Type) := List (Bytes × α)

/-- Strictly ascending keys. -/
def Sorted {α : Type} (s : Store α) : Prop := s.Pairwise (fun a b => bytesLt a.1 b.1 = true)

/-- No record has the empty key (`prefix.Store.Set` asserts a non-empty key). -/
def KeysNonempty {α : Type} (s : Store α) : Prop := ∀ p ∈ s, p.1 ≠ []

/-- A `Paginate` callback: what it appends to the result slice, or an error. -/
abbrev OnResult (α β : Type) := Bytes → α → Except String (List β)

/-- A `FilteredPaginate` callback `(key, value, accumulate) ↦ (hit, appended)`, or an error. -/
abbrev OnFiltered (α β : Type) := Bytes → α → Bool → Except String (Bool × List β)

/-- The `Paginate` callbacks of the repo (`QueryNodes`, `QueryPlans`, …): decode / look up, append;
a failing decode or a dangling index entry (`f k v = none`) makes the query fail. -/
def Callback.appendAlways {α β : Type} (f : Bytes → α → Option β) : OnResult α β := fun k v =>
  match f k v with
  | some b => .ok [b]
  | none => .error "callback error"

/-- The correct `FilteredPaginate` shape (`QuerySwaps`, x/swap/keeper/query_server.go:56-67, with
`pred = true`): `hit := pred k v; if hit && accumulate { append }; return hit`. -/
def Callback.filter {α β : Type} (pred : Bytes → α → Bool) (f : Bytes → α → Option β) : OnFiltered α β :=
  fun k v accumulate =>
    if pred k v then
      if accumulate then
        match f k v with
        | some b => .ok (true, [b])
        | none => .error "callback error"
      else .ok (true, [])
    else .ok (false, [])

/-- The shape of `QueryNodesForPlan` (x/node/keeper/query_server.go:98-114) and `QueryPlansForProvider`
(x/plan/keeper/query_server.go:98-114): `if !accumulate { return false }` comes first, then the lookup
(error when dangling, before the status test), then `if status matches { append; return true }`,
otherwise `return false`. -/
def Callback.gated {α β : Type} (pred : Bytes → α → Bool) (f : Bytes → α → Option β) : OnFiltered α β :=
  fun k v accumulate =>
    if !accumulate then .ok (false, [])
    else
      match f k v with
      | none => .error "callback error"
      | some b => if pred k v then .ok (true, [b]) else .ok (false, [])

/-- Records with key `≥ k`: what `prefixStore.Iterator(k, nil)` yields. -/
def geq {α : Type} (store : Store α) (k : Bytes) : Store α := store.filter (fun p => !bytesLt p.1 k)

/-- Records with key `< k`: the domain of `prefixStore.ReverseIterator(nil, k)`. -/
def below {α : Type} (store : Store α) (k : Bytes) : Store α := store.filter (fun p => bytesLt p.1 k)

/-- `getIterator(prefixStore, start, reverse)` (P:147-161) as the sequence of records it will yield.
Forward: keys `≥ start`.  Reverse with a start key: a forward iterator is opened at `start`, advanced
once, and *its key* becomes the exclusive end of the reverse iterator; so the reverse iteration begins
at the first key `≥ start`.  If no key is `≥ start` the end stays `nil` (everything); if exactly one
key is `≥ start`, `itr.Key()` is called on an exhausted prefix iterator, which panics
(store/prefix/store.go:160-163). -/
def iterFrom {α : Type} (store : Store α) (start : Option Bytes) (reverse : Bool) : Except String (Store α) :=
  if reverse then
    match start with
    | none => .ok store.reverse
    | some k =>
      match geq store k with
      | [] => .ok store.reverse
      | [_] => .error "panic: prefixIterator invalid, cannot call Key()"
      | _ :: y :: _ => .ok (below store y.1).reverse
  else
    match start with
    | none => .ok store
    | some k => .ok (geq store k)

/-! ## `Paginate` -/

/-- The key-paging loop (P:86-101): `count` results so far. -/
def keyLoop {α β : Type} (cb : OnResult α β) (limit : Nat) :
    Store α → Nat → List β → Except String (List β × PageResponse)
  | [], _, acc => .ok (acc, ⟨none, 0⟩)
  | (k, v) :: rest, count, acc =>
    if count = limit then .ok (acc, ⟨some k, 0⟩)
    else
      match cb k v with
      | .error e => .error e
      | .ok xs => keyLoop cb limit rest (count + 1) (acc ++ xs)

/-- The offset-paging loop (P:116-137).  `end1` is `end + 1` (wrapped); with `countTotal` the loop
runs to the end of the store without calling the callback; the total is the final `count`. -/
def offLoop {α β : Type} (cb : OnResult α β) (offset end_ end1 : Nat) (countTotal : Bool) :
    Store α → Nat → Option Bytes → List β → Except String (List β × PageResponse)
  | [], count, nk, acc => .ok (acc, ⟨nk, if countTotal then count else 0⟩)
  | (k, v) :: rest, count, nk, acc =>
    if count + 1 ≤ offset then offLoop cb offset end_ end1 countTotal rest (count + 1) nk acc
    else if count + 1 ≤ end_ then
      match cb k v with
      | .error e => .error e
      | .ok xs => offLoop cb offset end_ end1 countTotal rest (count + 1) nk (acc ++ xs)
    else if count + 1 = end1 then
      if countTotal then offLoop cb offset end_ end1 countTotal rest (count + 1) (some k) acc
      else .ok (acc, ⟨some k, 0⟩)
    else offLoop cb offset end_ end1 countTotal rest (count + 1) nk acc

/-- The effective limit (P:72-77): `0` means `DefaultLimit`. -/
def effLimit (req : PageRequest) : Nat := if req.limit = 0 then defaultLimit else req.limit

/-- The effective `countTotal` (P:72-77): forced on when the limit is `0`. -/
def effCountTotal (req : PageRequest) : Bool := if req.limit = 0 then true else req.countTotal

/-- Go `len(key) != 0`. -/
def keyNonempty : Option Bytes → Bool
  | some (_ :: _) => true
  | _ => false

/-- `query.Paginate` (P:52-145): the items appended by the callback, in order, and the response. -/
def paginate {α β : Type} (store : Store α) (req : PageRequest) (cb : OnResult α β) :
    Except String (List β × PageResponse) :=
  if req.offset > 0 ∧ req.key.isSome then
    .error "invalid request, either offset or key is expected, got both"
  else if keyNonempty req.key then
    match iterFrom store req.key req.reverse with
    | .error e => .error e
    | .ok it => keyLoop cb (effLimit req) it 0 []
  else
    match iterFrom store none req.reverse with
    | .error e => .error e
    | .ok it =>
      let end_ := (req.offset + effLimit req) % u64
      offLoop cb req.offset end_ ((end_ + 1) % u64) (effCountTotal req) it 0 none []

/-! ## `FilteredPaginate` -/

/-- The key-paging loop (F:54-72): the callback is always called with `accumulate = true`; the next key
is the key of the *record* that follows the `limit`-th hit (hit or not). -/
def fkeyLoop {α β : Type} (cb : OnFiltered α β) (limit : Nat) :
    Store α → Nat → List β → Except String (List β × PageResponse)
  | [], _, acc => .ok (acc, ⟨none, 0⟩)
  | (k, v) :: rest, numHits, acc =>
    if numHits = limit then .ok (acc, ⟨some k, 0⟩)
    else
      match cb k v true with
      | .error e => .error e
      | .ok (hit, xs) => fkeyLoop cb limit rest (if hit then numHits + 1 else numHits) (acc ++ xs)

/-- The offset-paging loop (F:89-113).  The next key is the key of the `(end+1)`-th hit; with
`countTotal` the loop keeps calling the callback (with `accumulate = false`) to count the hits. -/
def foffLoop {α β : Type} (cb : OnFiltered α β) (offset end_ end1 : Nat) (countTotal : Bool) :
    Store α → Nat → Option Bytes → List β → Except String (List β × PageResponse)
  | [], numHits, nk, acc => .ok (acc, ⟨nk, if countTotal then numHits else 0⟩)
  | (k, v) :: rest, numHits, nk, acc =>
    match cb k v (decide (offset ≤ numHits) && decide (numHits < end_)) with
    | .error e => .error e
    | .ok (hit, xs) =>
      let numHits' := if hit then numHits + 1 else numHits
      if numHits' = end1 then
        let nk' := match nk with | none => some k | some x => some x
        if countTotal then foffLoop cb offset end_ end1 countTotal rest numHits' nk' (acc ++ xs)
        else .ok (acc ++ xs, ⟨nk', 0⟩)
      else foffLoop cb offset end_ end1 countTotal rest numHits' nk (acc ++ xs)

/-- `query.FilteredPaginate` (F:18-121). -/
def filteredPaginate {α β : Type} (store : Store α) (req : PageRequest) (cb : OnFiltered α β) :
    Except String (List β × PageResponse) :=
  if req.offset > 0 ∧ req.key.isSome then
    .error "invalid request, either offset or key is expected, got both"
  else if keyNonempty req.key then
    match iterFrom store req.key req.reverse with
    | .error e => .error e
    | .ok it => fkeyLoop cb (effLimit req) it 0 []
  else
    match iterFrom store none req.reverse with
    | .error e => .error e
    | .ok it =>
      let end_ := (req.offset + effLimit req) % u64
      foffLoop cb req.offset end_ ((end_ + 1) % u64) (effCountTotal req) it 0 none []

/-! ## Clients: following the next key, stepping an offset -/

/-- Follow `nextKey` from the first page (no key) until it is empty; `run` is the query. -/
def pagesAux {β : Type} (run : PageRequest → Except String (List β × PageResponse)) (limit : Nat) (reverse : Bool) :
    Nat → Option Bytes → Except String (List (List β))
  | 0, _ => .error "out of fuel"
  | fuel + 1, key =>
    match run { key := key, offset := 0, limit := limit, countTotal := false, reverse := reverse } with
    | .error e => .error e
    | .ok (items, resp) =>
      if keyNonempty resp.nextKey then
        match pagesAux run limit reverse fuel resp.nextKey with
        | .error e => .error e
        | .ok rest => .ok (items :: rest)
      else .ok [items]

/-- Request offsets `offset, offset+limit, …` until the returned `nextKey` is empty. -/
def offsetPagesAux {β : Type} (run : PageRequest → Except String (List β × PageResponse)) (limit : Nat) (reverse : Bool) :
    Nat → Nat → Except String (List (List β))
  | 0, _ => .error "out of fuel"
  | fuel + 1, offset =>
    match run { key := none, offset := offset, limit := limit, countTotal := false, reverse := reverse } with
    | .error e => .error e
    | .ok (items, resp) =>
      if keyNonempty resp.nextKey then
        match offsetPagesAux run limit reverse fuel (offset + limit) with
        | .error e => .error e
        | .ok rest => .ok (items :: rest)
      else .ok [items]

/-- All pages of `Paginate` obtained by following the next key (fuel `store.length + 1` suffices). -/
def pagesByKey {α β : Type} (store : Store α) (limit : Nat) (reverse : Bool) (cb : OnResult α β) (fuel : Nat) :
    Except String (List (List β)) :=
  pagesAux (fun req => paginate store req cb) limit reverse fuel none

/-- All pages of `FilteredPaginate` obtained by following the next key. -/
def filteredPagesByKey {α β : Type} (store : Store α) (limit : Nat) (reverse : Bool) (cb : OnFiltered α β)
    (fuel : Nat) : Except String (List (List β)) :=
  pagesAux (fun req => filteredPaginate store req cb) limit reverse fuel none

/-- All pages of `Paginate` obtained by stepping the offset by `limit`. -/
def pagesByOffset {α β : Type} (store : Store α) (limit : Nat) (reverse : Bool) (cb : OnResult α β) (fuel : Nat) :
    Except String (List (List β)) :=
  offsetPagesAux (fun req => paginate store req cb) limit reverse fuel 0

/-- All pages of `FilteredPaginate` obtained by stepping the offset by `limit`. -/
def filteredPagesByOffset {α β : Type} (store : Store α) (limit : Nat) (reverse : Bool) (cb : OnFiltered α β)
    (fuel : Nat) : Except String (List (List β)) :=
  offsetPagesAux (fun req => filteredPaginate store req cb) limit reverse fuel 0

/-- One offset page of `Paginate`. -/
def pageAtOffset {α β : Type} (store : Store α) (offset limit : Nat) (countTotal reverse : Bool) (cb : OnResult α β) :
    Except String (List β × PageResponse) :=
  paginate store { key := none, offset := offset, limit := limit, countTotal := countTotal, reverse := reverse } cb

/-- One offset page of `FilteredPaginate`. -/
def filteredPageAtOffset {α β : Type} (store : Store α) (offset limit : Nat) (countTotal reverse : Bool)
    (cb : OnFiltered α β) : Except String (List β × PageResponse) :=
  filteredPaginate store { key := none, offset := offset, limit := limit, countTotal := countTotal, reverse := reverse } cb

/-! ## Line-protocol probe (differential testing against the real `query.Paginate`) -/

/-- Insert into a strictly sorted list of keys (a duplicate is dropped: a store has one record per key). -/
def insertKey (k : Bytes) : List Bytes → List Bytes
  | [] => [k]
  | x :: xs => if bytesLt k x then k :: x :: xs else if k = x then x :: xs else x :: insertKey k xs

def sortKeys (ks : List Bytes) : List Bytes := ks.foldr insertKey []

def probeFields (parts : List String) : List (String × String) :=
  parts.filterMap fun p =>
    match p.splitOn "=" with
    | k :: rest@(_ :: _) => some (k, "=".intercalate rest)
    | _ => none

def probeGet (f : List (String × String)) (k : String) : Option String := (f.find? (·.1 = k)).map (·.2)

/-- `a,b,c` as keys; `-` or the empty string is the empty store; an empty key is rejected. -/
def probeKeys (s : String) : Option (List Bytes) :=
  if s = "-" ∨ s = "" then some []
  else (s.splitOn ",").mapM fun h =>
    match ofHexChars h.toList with
    | some (b :: bs) => some (b :: bs)
    | _ => none

def probeBits (s : String) : Option (List Bool) :=
  if s = "-" then some []
  else s.toList.mapM fun c => if c = '1' then some true else if c = '0' then some false else none

def probeBool (s : String) : Option Bool := if s = "1" then some true else if s = "0" then some false else none

def probeU64 (s : String) : Option Nat :=
  match s.toNat? with
  | some n => if n < u64 then some n else none
  | none => none

/-- `-` is the `nil` key. -/
def probeKey (s : String) : Option (Option Bytes) :=
  if s = "-" ∨ s = "" then some none
  else match ofHexChars s.toList with
    | some (b :: bs) => some (some (b :: bs))
    | _ => none

def probeErr : String := "items=- next=- total=0 err=1"

def probeShow (r : Except String (List Bytes × PageResponse)) : String :=
  match r with
  | .error _ => probeErr
  | .ok (items, resp) =>
    "items=" ++ (if items.isEmpty then "-" else ",".intercalate (items.map toHex))
      ++ " next=" ++ toHex (resp.nextKey.getD [])
      ++ " total=" ++ toString resp.total ++ " err=0"

/-- The store of a probe line: keys sorted, the value of a record is `(index, match bit)`. -/
def probeStore (keys : List Bytes) (bits : List Bool) : Store (Nat × Bool) :=
  (List.range keys.length).zip (keys.zip bits) |>.map fun (i, k, b) => (k, (i, b))

/-- `page kind=<plain|filter|gated> keys=<hex,…> match=<bits> key=<hex|-> offset=<n> limit=<n>
total=<0|1> reverse=<0|1>` ↦ `items=<hex,…|-> next=<hex|-> total=<n> err=<0|1>`.
Keys are sorted (and deduplicated) first; `match` has one bit per distinct key, in sorted key order
(ignored by `kind=plain`, where it may be `-`).  Malformed lines, the "both key and offset" error and
the reverse-iterator panic all answer `err=1`. -/
def runPaginateProbe (line : String) : String :=
  match (line.splitOn " ").filter (· ≠ "") with
  | "page" :: parts =>
    let f := probeFields parts
    let parsed : Option (String × List Bytes × List Bool × PageRequest) := do
      let kind ← probeGet f "kind"
      let keys ← (probeGet f "keys").bind probeKeys
      let keys := sortKeys keys
      let bits ← (probeGet f "match").bind probeBits
      let bits ← if kind = "plain" ∧ bits.isEmpty then some (keys.map fun _ => true)
                 else if bits.length = keys.length then some bits else none
      let key ← (probeGet f "key").bind probeKey
      let offset ← (probeGet f "offset").bind probeU64
      let limit ← (probeGet f "limit").bind probeU64
      let total ← (probeGet f "total").bind probeBool
      let reverse ← (probeGet f "reverse").bind probeBool
      pure (kind, keys, bits, { key := key, offset := offset, limit := limit, countTotal := total, reverse := reverse })
    match parsed with
    | none => probeErr
    | some (kind, keys, bits, req) =>
      let store := probeStore keys bits
      let f : Bytes → (Nat × Bool) → Option Bytes := fun k _ => some k
      let pred : Bytes → (Nat × Bool) → Bool := fun _ v => v.2
      if kind = "plain" then probeShow (paginate store req (Callback.appendAlways f))
      else if kind = "filter" then probeShow (filteredPaginate store req (Callback.filter pred f))
      else if kind = "gated" then probeShow (filteredPaginate store req (Callback.gated pred f))
      else probeErr
  | _ => probeErr

end Hub.SDK.Paginate
