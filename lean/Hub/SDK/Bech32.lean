import Hub.SDK.Bytes
/-
Bech32 text form of addresses (core Lean only: this file is linked into the executable).

Model of
* `github.com/cosmos/btcutil@v1.0.5/bech32/bech32.go`
  (`bech32Polymod`, `writeBech32Checksum`, `VerifyChecksum`, `Normalize`, `DecodeUnsafe`,
  `DecodeNoLimit`, `Decode`, `Encode`, `ConvertBits`),
* `cosmos-sdk@v0.47.10/types/bech32/bech32.go` (`ConvertAndEncode`, `DecodeAndConvert`: limit 1023),
* `cosmos-sdk@v0.47.10/types/address.go` (`AccAddress.String`, `AccAddressFromBech32`,
  `GetFromBech32`, `VerifyAddressFormat` without custom verifier, `MaxAddrLen = 255`),
* `/repo/types/address.go` (`ProvAddress`/`NodeAddress` `.String`, `…FromBech32`).

Texts are `List Char` internally; `String` only at the API boundary.  A Go string is a byte string:
the model is exact on valid UTF-8 input (every Lean `String`); every text containing a character
outside ASCII 33..126 is rejected by `Normalize` whatever its length, so byte length and character
count only matter (and coincide) on ASCII text.  `encode` is exact for ASCII human-readable parts
(Go lower-cases with the Unicode table and feeds UTF-8 bytes to the checksum; the hub's prefixes
are lower-case ASCII).
-/
namespace Hub.SDK.Bech32
open Hub.SDK

/-! ## Checksum -/

/-- `for i in 0..4: if (b>>i)&1 == 1 { chk ^= gen[i] }` as one xor mask. -/
def genMask (b : Nat) : Nat :=
  (if b.testBit 0 then 0x3b6a57b2 else 0) ^^^
  ((if b.testBit 1 then 0x26508e6d else 0) ^^^
  ((if b.testBit 2 then 0x1ea119fa else 0) ^^^
  ((if b.testBit 3 then 0x3d4233dd else 0) ^^^
   (if b.testBit 4 then 0x2a1462b3 else 0))))

/-- One round of `bech32Polymod`: `b := chk >> 25; chk = (chk&0x1ffffff)<<5 ^ v; …gen…`. -/
def polymodStep (chk v : Nat) : Nat :=
  (((chk &&& 0x1ffffff) <<< 5) ^^^ v) ^^^ genMask (chk >>> 25)

/-- The BCH checksum state after feeding the symbols, starting from 1. -/
def polymod (vs : List Nat) : Nat := vs.foldl polymodStep 1

/-- High bits of each character, a zero, low bits of each character. -/
def hrpExpand (hrp : List Char) : List Nat :=
  hrp.map (fun c => c.toNat >>> 5) ++ [0] ++ hrp.map (fun c => c.toNat &&& 31)

/-- `writeBech32Checksum`: the six 5-bit symbols of `polymod(hrp, data, 000000) ^ 1`. -/
def createChecksum (hrp : List Char) (data : List Nat) : List Nat :=
  let pm := polymod (hrpExpand hrp ++ data ++ [0, 0, 0, 0, 0, 0]) ^^^ 1
  [ (pm >>> 25) &&& 31, (pm >>> 20) &&& 31, (pm >>> 15) &&& 31,
    (pm >>> 10) &&& 31, (pm >>> 5) &&& 31, pm &&& 31 ]

/-- `VerifyChecksum(hrp, values, checksum)` with `dc = values ++ checksum`. -/
def verifyChecksum (hrp : List Char) (dc : List Nat) : Bool :=
  polymod (hrpExpand hrp ++ dc) == 1

/-! ## Character set -/

def charset : List Char := "qpzry9x8gf2tvdw0s3jn54khce6mua7l".toList

/-- `charset[n]` (only used below 32). -/
def charOf (n : Nat) : Char := charset.getD n 'q'

/-- `strings.IndexByte(charset, c)`. -/
def charIndex? (c : Char) : Option Nat := charset.idxOf? c

/-- `toBytes`: every character must be in the charset. -/
def toSyms : List Char → Option (List Nat)
  | [] => some []
  | c :: cs =>
    match charIndex? c with
    | none => none
    | some i =>
      match toSyms cs with
      | none => none
      | some r => some (i :: r)

/-! ## ConvertBits -/

/-- The low `w` bits of `n`, most significant first (`b << (8-fromBits)` discards the rest). -/
def bitsOf : Nat → Nat → List Bool
  | 0, _ => []
  | w + 1, n => n.testBit w :: bitsOf w n

/-- The regrouping loop of `ConvertBits`, one bit at a time: `acc` = `nextByte`,
`filled` = `filledBits`.  At the end: pad the unfinished group, or (no padding) reject an
incomplete group of more than 4 bits or with a non-zero bit. -/
def regroup (to : Nat) (pad : Bool) : Nat → Nat → List Bool → Option (List Nat)
  | acc, filled, [] =>
    if filled = 0 then some []
    else if pad then some [acc <<< (to - filled)]
    else if filled > 4 ∨ acc ≠ 0 then none
    else some []
  | acc, filled, b :: bs =>
    if filled + 1 = to then (regroup to pad 0 0 bs).map (fun r => (2 * acc + b.toNat) :: r)
    else regroup to pad (2 * acc + b.toNat) (filled + 1) bs

/-- `ConvertBits(data, from, to, pad)`. -/
def convertBits (frm to : Nat) (pad : Bool) (data : List Nat) : Option (List Nat) :=
  if frm < 1 ∨ frm > 8 ∨ to < 1 ∨ to > 8 then none
  else regroup to pad 0 0 (data.flatMap (bitsOf frm))

/-! ## Encode / Decode on character lists -/

/-- `Encode(hrp, data)` for 5-bit data (see `encode?` for the range check). -/
def encodeChars (hrp : List Char) (data : List Nat) : List Char :=
  let h := hrp.map Char.toLower
  h ++ '1' :: (data.map charOf ++ (createChecksum h data).map charOf)

/-- Only ASCII 33..126 is allowed by `Normalize`. -/
def printable (c : Char) : Bool := 33 ≤ c.toNat && c.toNat ≤ 126

/-- Split at the last `'1'` (`strings.LastIndexByte(bech, '1')`): what is before, what is after. -/
def splitLastOne : List Char → Option (List Char × List Char)
  | [] => none
  | c :: cs =>
    match splitLastOne cs with
    | some (a, b) => some (c :: a, b)
    | none => if c = '1' then some ([], cs) else none

/-- `DecodeNoLimit`: length ≥ 8, `Normalize` (printable ASCII, not mixed case, lower-cased),
`DecodeUnsafe` (separator = last '1', not first, at least 6 symbols after it, charset),
`VerifyChecksum`.  Result: human-readable part and the 5-bit data without the checksum. -/
def decodeNoLimit (s : List Char) : Option (List Char × List Nat) :=
  if s.length < 8 then none
  else if !(s.all printable) then none
  else
    let hasLower := s.any Char.isLower
    let hasUpper := s.any Char.isUpper
    if hasLower && hasUpper then none
    else
      let s := if hasUpper then s.map Char.toLower else s
      match splitLastOne s with
      | none => none
      | some (hrp, rest) =>
        if hrp.isEmpty || rest.length < 6 then none
        else
          match toSyms rest with
          | none => none
          | some dec =>
            let values := dec.take (dec.length - 6)
            let chk := dec.drop (dec.length - 6)
            if verifyChecksum hrp (values ++ chk) then some (hrp, values) else none

/-- `Decode(bech, limit)`. -/
def decodeLimit (limit : Nat) (s : List Char) : Option (List Char × List Nat) :=
  if s.length > limit then none else decodeNoLimit s

/-- `bech32.ConvertAndEncode` on character lists (the conversion 8→5 with padding cannot fail). -/
def convertAndEncodeChars (hrp : List Char) (bytes : Bytes) : List Char :=
  encodeChars hrp ((convertBits 8 5 true (bytes.map UInt8.toNat)).getD [])

/-- `bech32.DecodeAndConvert` on character lists: `Decode(bech, 1023)` then 5→8 without padding. -/
def decodeAndConvertChars (s : List Char) : Option (List Char × Bytes) :=
  match decodeLimit 1023 s with
  | none => none
  | some (hrp, d5) =>
    match convertBits 5 8 false d5 with
    | none => none
    | some bs => some (hrp, bs.map UInt8.ofNat)

/-! ## String API -/

def encode (hrp : String) (data5 : List Nat) : String := String.ofList (encodeChars hrp.toList data5)

/-- `Encode` with Go's error for a data byte ≥ 32. -/
def encode? (hrp : String) (data5 : List Nat) : Option String :=
  if data5.all (· < 32) then some (encode hrp data5) else none

/-- `Decode(s, 1023)`. -/
def decode (s : String) : Option (String × List Nat) :=
  (decodeLimit 1023 s.toList).map fun p => (String.ofList p.1, p.2)

def convertAndEncode (hrp : String) (bytes : Bytes) : String :=
  String.ofList (convertAndEncodeChars hrp.toList bytes)

def decodeAndConvert (s : String) : Option (String × Bytes) :=
  (decodeAndConvertChars s.toList).map fun p => (String.ofList p.1, p.2)

/-! ## Roles -/

inductive Role where
  | acc | node | prov
  deriving Repr, DecidableEq, Inhabited

/-- `Bech32PrefixAccAddr`, `Bech32PrefixNodeAddr`, `Bech32PrefixProvAddr` as characters. -/
def prefixChars : Role → List Char
  | .acc => ['s', 'e', 'n', 't']
  | .node => ['s', 'e', 'n', 't', 'n', 'o', 'd', 'e']
  | .prov => ['s', 'e', 'n', 't', 'p', 'r', 'o', 'v']

def prefixOf : Role → String
  | .acc => "sent"
  | .node => "sentnode"
  | .prov => "sentprov"

/-- `unicode.IsSpace`. -/
def isGoSpace (c : Char) : Bool :=
  let n := c.toNat
  (9 ≤ n && n ≤ 13) || n = 32 || n = 0x85 || n = 0xA0 || n = 0x1680 || (0x2000 ≤ n && n ≤ 0x200a) ||
  n = 0x2028 || n = 0x2029 || n = 0x202f || n = 0x205f || n = 0x3000

/-- `strings.TrimSpace`. -/
def trimSpace (s : List Char) : List Char :=
  ((s.dropWhile isGoSpace).reverse.dropWhile isGoSpace).reverse

/-- `AccAddress.String` / `NodeAddress.String` / `ProvAddress.String`: empty bytes give "". -/
def addrToChars (r : Role) (b : Bytes) : List Char :=
  if b.isEmpty then [] else convertAndEncodeChars (prefixChars r) b

/-- `sdk.GetFromBech32(str, prefix)` then `sdk.VerifyAddressFormat`. -/
def getFromBech32Verified (pfx : List Char) (s : List Char) : Option Bytes :=
  if s.isEmpty then none
  else
    match decodeAndConvertChars s with
    | none => none
    | some (hrp, bz) =>
      if hrp ≠ pfx then none
      else if bz.length = 0 then none
      else if bz.length > 255 then none
      else some bz

/-- `AccAddressFromBech32` tests the *trimmed* text for emptiness but decodes the text as given;
`NodeAddressFromBech32` / `ProvAddressFromBech32` decode the trimmed text. -/
def addrFromChars (r : Role) (s : List Char) : Option Bytes :=
  let t := trimSpace s
  if t.isEmpty then none
  else
    match r with
    | .acc => getFromBech32Verified (prefixChars r) s
    | _ => getFromBech32Verified (prefixChars r) t

def addrToText (r : Role) (b : Bytes) : String := String.ofList (addrToChars r b)

def addrFromText (r : Role) (s : String) : Option Bytes := addrFromChars r s.toList

/-! ## Probe (line protocol, diffed against the Go functions)

`b32enc role=<acc|node|prov> bytes=<hex>`  →  `text=<string>`
`b32dec role=<acc|node|prov> text=<string>` →  `bytes=<hex>` or `err`
(the text is everything after the first `" text="`, so it may contain blanks). -/

def parseRole (s : String) : Option Role :=
  if s = "acc" then some .acc else if s = "node" then some .node else if s = "prov" then some .prov
  else none

def probeField (parts : List String) (k : String) : Option String :=
  parts.findSome? fun p =>
    match p.splitOn "=" with
    | k' :: rest@(_ :: _) => if k' = k then some ("=".intercalate rest) else none
    | _ => none

def runBech32Probe (line : String) : String :=
  match line.splitOn " text=" with
  | head :: rest@(_ :: _) =>
    let parts := head.splitOn " "
    if parts.head? ≠ some "b32dec" then "err"
    else
      match (probeField parts "role").bind parseRole with
      | none => "err"
      | some r =>
        match addrFromText r (" text=".intercalate rest) with
        | some b => "bytes=" ++ toHex b
        | none => "err"
  | _ =>
    let parts := line.splitOn " "
    if parts.head? ≠ some "b32enc" then "err"
    else
      match (probeField parts "role").bind parseRole, (probeField parts "bytes").bind ofHex with
      | some r, some b => "text=" ++ addrToText r b
      | _, _ => "err"

end Hub.SDK.Bech32
