import Hub.SDK.ProtoWire
import Hub.SDK.Time
import Hub.Generated.Status
/-
C19, JSON half — executable model, at the level of JSON *trees*, of what
`codec.ProtoCodec.MarshalJSON` / `UnmarshalJSON` do to the hub's messages
(cosmos-sdk v0.47.10 `codec/json.go`, `codec/proto_codec.go`; gogoproto v1.4.10 `jsonpb/jsonpb.go`):

  MarshalJSON   = jsonpb.Marshaler{OrigName: true, EmitDefaults: true, AnyResolver: interfaceRegistry}
  UnmarshalJSON = jsonpb.Unmarshaler{AnyResolver: interfaceRegistry}   (AllowUnknownFields = false)

(core Lean only: this file is linked into the executable).  The same `Val` / `MsgDesc` / `Env` as the
binary model (`Hub/SDK/ProtoWire.lean`) are used, so one value goes through both encodings.

What is modelled (jsonpb.go line numbers)
* an object per message, one member per field, **every** field written (`EmitDefaults`, l. 317), under its
  proto name (`OrigName`, l. 1246); on input a missing member leaves the zero Go value, a member that matches
  no field is an error (l. 1115);
* `uint64`/`int64` as decimal *strings*, `int32` as a number, `bool` (l. 737–749; input l. 1225–1233);
* `string` as a string: `encoding/json` replaces every byte that is not part of a well-formed UTF-8
  sequence by U+FFFD (`strOf`, `lossyChars`), so an ill-formed string does not come back;
* `bytes` as base64, `null` for the nil slice (l. 737; input l. 1146);
* enums: the text is the Go value's `String()`, quoted unless it equals the decimal number (l. 584–620);
  input: a string is looked up in the registered `<Enum>_value` table, a number is taken as is
  (l. 1009–1027).  The tables are the REGENERATED ones (`Hub.Generated.Status`): `hubEnums`;
* repeated fields as arrays (`[]` for nil; input `null` leaves nil), embedded messages as objects, a nil
  pointer as `null` (l. 527, 815–825);
* gogoproto `customtype` `math.Int` (decimal string, ≤ 256 bits) and `LegacyDec` (18 decimals, ≤ 315 bits)
  through their `MarshalJSON`/`UnmarshalJSON` (l. 637, 1029);
* `stdtime` as an RFC 3339 string, `stdduration` as `"<seconds>[.fraction]s"` (l. 570–581, 220–268, 896–926,
  979–1003), with the range checks of `TimestampFromProto` / `DurationFromProto`;
* `google.protobuf.Any` (l. 432–484, 837–895): the type URL is resolved by the interface registry
  (`JsonEnv.anyTypes`: the registered implementations), the value bytes are decoded with the *binary* model,
  rendered as the packed message's object plus the member `"@type"`; on input the packed message is parsed
  and re-encoded with the binary model.  No hub message implements `UnpackInterfacesMessage`, so the SDK's
  `ProtoJSONPacker` step is the identity.

TRUSTED BASE (not modelled / assumed)
* JSON *text* ⇄ tree (lexing, escaping, number syntax) is `encoding/json`'s and stays outside; `Json.render` is only
  the canonical text used by the differential probe.  An object is read as a finite map: `getKey` takes the first
  member of a name where Go keeps the last — the same thing on the objects `toJson` writes, whose member names are
  pairwise distinct (`toJsonAt_members_distinct`).
* `hubAnyTypes` (what the application's interface registry resolves) is hand-written; every probe run compares it
  with the real registry (`anytypes` line).
* Four leaf renderings are used through the record `Leaves`; the general theorems assume `LeavesOK` (each rendering
  is read back by its parser on the well-typed values):
    1. `b64` / `unb64`         base64.StdEncoding of a byte string;
    2. `timeText` / `parseTime` RFC 3339 (`2006-01-02T15:04:05[.fff[fff[fff]]]Z`) of an instant of the years 1 … 9999;
    3. `durText` / `parseDur`   `"%d.%09d"` with trailing zero groups trimmed + `s` ⇄ `time.ParseDuration`;
    4. `decText` / `parseDec`   `LegacyDec.String()` ⇄ `LegacyNewDecFromStr`.
  The executable instance `goLeaves` implements them concretely, and `LeavesOK goLeaves` IS proved
  (`Hub/Lemmas/ProtoJsonLeaves.lean`, `goLeaves_ok`).  What remains trusted about the leaves is that `goLeaves` is what
  the Go libraries print and accept — compared on every probe line (the model's tree, leaves included, against the
  real JSON; the model's predicted outcome against the real one).
  Decimal integers (`uint64`, `int64`, `math.Int`), UTF-8 (`String.fromUTF8?`) and the enum leaf are concrete too.
* a value of an enum outside its declared values takes the `default:` arm of the hand-written `String()`, which
  in the regenerated function is the arm of the zero value (`statusPrint`); the probe exercises −1, 4, ±2^31.

Known deviations (none reachable from `toJson` output): only the proto field name is accepted on input
(jsonpb also accepts lowerCamelCase); numbers in exponent notation, offsets other than `Z` in times, units
other than `s` in durations, a sign or `_` inside a `LegacyDec` are rejected; `"@type"` of a well-known type
(`"value"` member) is not modelled (none is registered).
-/
namespace Hub.SDK.ProtoJson
open Hub.SDK Hub.SDK.ProtoWire

/-! ## JSON trees -/

inductive Json where
  | null
  | bool (b : Bool)
  | num (i : Int)
  | str (s : String)
  | arr (xs : List Json)
  /-- members in the order written; `toJson` never repeats a name -/
  | obj (kvs : List (String × Json))
  deriving Repr, Inhabited

/-! ## text helpers -/

/-- One byte as the character with that code (ASCII / Latin-1). -/
def byteChar (b : UInt8) : Char := Char.ofNat b.toNat

/-- Inverse of `byteChar`; a character above U+00FF becomes 0xFF, which no number syntax accepts. -/
def charByte (c : Char) : UInt8 := if c.toNat < 256 then UInt8.ofNat c.toNat else 255

/-- ASCII bytes (decimal digits, `-`) as a string. -/
def latin1 (b : Bytes) : String := String.ofList (b.map byteChar)

def unlatin1 (s : String) : Bytes := s.toList.map charByte

/-- The UTF-8 bytes of a string (`[]byte(s)`). -/
def utf8Bytes (s : String) : Bytes := s.toUTF8.data.toList

def mkBA (b : Bytes) : ByteArray := ⟨b.toArray⟩

/-- A Go `string` field holds well-formed UTF-8. -/
def utf8OK (b : Bytes) : Bool := (String.fromUTF8? (mkBA b)).isSome

def isCont (b : UInt8) : Bool := 128 ≤ b.toNat && b.toNat ≤ 191

/-- `utf8.DecodeRune` in a loop, as `encoding/json` does when it writes a string: an ill-formed byte gives
U+FFFD and advances by one byte. -/
def lossyChars : Nat → Bytes → List Char
  | 0, _ => []
  | _, [] => []
  | k+1, b0 :: rest =>
    let n0 := b0.toNat
    let bad := Char.ofNat 65533 :: lossyChars k rest
    if n0 < 128 then Char.ofNat n0 :: lossyChars k rest
    else if 194 ≤ n0 ∧ n0 ≤ 223 then
      match rest with
      | b1 :: r1 => if isCont b1 then Char.ofNat ((n0 - 192) * 64 + (b1.toNat - 128)) :: lossyChars k r1 else bad
      | _ => bad
    else if 224 ≤ n0 ∧ n0 ≤ 239 then
      match rest with
      | b1 :: b2 :: r2 =>
        let lo := if n0 = 224 then 160 else 128
        let hi := if n0 = 237 then 159 else 191
        if lo ≤ b1.toNat ∧ b1.toNat ≤ hi ∧ isCont b2 then
          Char.ofNat ((n0 - 224) * 4096 + (b1.toNat - 128) * 64 + (b2.toNat - 128)) :: lossyChars k r2
        else bad
      | _ => bad
    else if 240 ≤ n0 ∧ n0 ≤ 244 then
      match rest with
      | b1 :: b2 :: b3 :: r3 =>
        let lo := if n0 = 240 then 144 else 128
        let hi := if n0 = 244 then 143 else 191
        if lo ≤ b1.toNat ∧ b1.toNat ≤ hi ∧ isCont b2 ∧ isCont b3 then
          Char.ofNat ((n0 - 240) * 262144 + (b1.toNat - 128) * 4096 + (b2.toNat - 128) * 64 + (b3.toNat - 128))
            :: lossyChars k r3
        else bad
      | _ => bad
    else bad

/-- The JSON string written for a Go `string` with these bytes. -/
def strOf (b : Bytes) : String :=
  match String.fromUTF8? (mkBA b) with
  | some s => s
  | none => String.ofList (lossyChars b.length b)

/-! ## leaves -/

/-- The four renderings taken from libraries (see the header): functions only. -/
structure Leaves where
  b64 : Bytes → String
  unb64 : String → Option Bytes
  /-- `[seconds, nanos]` of a `google.protobuf.Timestamp`, as `uint64(x)` patterns -/
  timeText : Nat → Nat → String
  parseTime : String → Option (Nat × Nat)
  /-- `[seconds, nanos]` of a `google.protobuf.Duration`, as `uint64(x)` patterns -/
  durText : Nat → Nat → String
  parseDur : String → Option (Nat × Nat)
  /-- the underlying integer of a `LegacyDec` (scaled by 10^18) -/
  decText : Int → String
  parseDec : String → Option Int

/-- What the theorems assume of the leaves: on well-typed values every rendering is read back. -/
structure LeavesOK (L : Leaves) : Prop where
  b64 : ∀ b, L.unb64 (L.b64 b) = some b
  time : ∀ s n, timeValid s n = true → L.parseTime (L.timeText s n) = some (s, n)
  dur : ∀ s n, durValid s n = true → L.parseDur (L.durText s n) = some (s, n)
  dec : ∀ i, bigOK 315 i = true → L.parseDec (L.decText i) = some i

/-- One registered enum: the Go type's `String()` and the `<Enum>_value` table given to `proto.RegisterEnum`. -/
structure EnumJson where
  name : String
  print : Int → String
  values : List (String × Int)

structure JsonEnv where
  enums : List EnumJson
  /-- fully-qualified names of the messages the interface registry resolves (`"/" ++ name` is the type URL) -/
  anyTypes : List String
  leaves : Leaves

def findEnum (J : JsonEnv) (n : String) : Option EnumJson := J.enums.find? (fun e => e.name == n)

/-! ## classification of fields -/

inductive JCls where
  | u64 | i64 | i32 | bool
  | enum (name : String)
  | str | bytes | sdkInt | sdkDec
  | repStr | repBytes
  | msg (name : String) | optMsg (name : String) | repMsg (name : String)
  | time | dur
  | bad
  deriving Repr, DecidableEq

def _root_.Hub.SDK.ProtoWire.Field.jcls (f : Field) : JCls :=
  match f.kind with
  | .scalar .uint64 => if f.repeated then .bad else .u64
  | .scalar .int64 => if f.repeated then .bad else .i64
  | .scalar .int32 => if f.repeated then .bad else .i32
  | .scalar .bool => if f.repeated then .bad else .bool
  | .scalar (.enum n) => if f.repeated then .bad else .enum n
  | .scalar .string => if f.repeated then .repStr else .str
  | .scalar .bytes => if f.repeated then .repBytes else .bytes
  | .scalar .sdkInt => if f.repeated then .bad else .sdkInt
  | .scalar .sdkDec => if f.repeated then .bad else .sdkDec
  | .message n .none => if f.repeated then .repMsg n else if f.nullable then .optMsg n else .msg n
  | .message _ .time => if f.repeated || f.nullable then .bad else .time
  | .message _ .duration => if f.repeated || f.nullable then .bad else .dur

def anyName : String := "google.protobuf.Any"
def typeKey : String := "@type"

/-- `interfaceRegistry.Resolve(typeURL)`: the descriptor of a registered implementation. -/
def resolveAny (J : JsonEnv) (env : Env) (u : Bytes) : Option MsgDesc :=
  match J.anyTypes.find? (fun t => utf8Bytes ("/" ++ t) == u) with
  | some t => lookup env t
  | none => none

/-! ## marshal -/

/-- `String()` of the value, quoted unless it is the decimal number itself. -/
def enumToJson (J : JsonEnv) (n : String) (x : Nat) : Json :=
  match findEnum J n with
  | some e =>
    let i := toInt x
    let s := e.print i
    if unlatin1 s == intText i then .num i else .str s
  | none => .str ""     -- an undeclared enum (excluded by `jwf`): a name no table knows

def bytesJson (L : Leaves) (b : Bytes) : Json := if b.isEmpty then .null else .str (L.b64 b)

def strElem : Val → Json
  | .bytes b => .str (strOf b)
  | _ => .null

def bytesElem (L : Leaves) : Val → Json
  | .bytes b => .str (L.b64 b)
  | _ => .null

def addType (url : String) : Json → Json
  | .obj kvs => .obj ((typeKey, .str url) :: kvs)
  | _ => .null

/-- `marshalAny`: resolve, `proto.Unmarshal` the value, marshal the packed message with `"@type"` in front. -/
def anyJson (J : JsonEnv) (env : Env) (sub : MsgDesc → Val → Json) (v : Val) : Json :=
  match v with
  | .msg [.bytes u, .bytes val] =>
    match resolveAny J env u with
    | some d' =>
      match decode env d' val with
      | some v' => addType (strOf u) (sub d' v')
      | none => .null
    | none => .null
  | _ => .null

def msgJson (J : JsonEnv) (env : Env) (sub : MsgDesc → Val → Json) (n : String) (v : Val) : Json :=
  if n = anyName then anyJson J env sub v
  else match lookup env n with
    | some d => sub d v
    | none => .null

/-- small shape combinators: the value of a field has the shape of its class, anything else is junk -/
def onVarint {α} (dflt : α) (g : Nat → α) : Val → α
  | .varint n => g n
  | _ => dflt
def onInt {α} (dflt : α) (g : Int → α) : Val → α
  | .int i => g i
  | _ => dflt
def onBytes {α} (dflt : α) (g : Bytes → α) : Val → α
  | .bytes b => g b
  | _ => dflt
def onList {α} (dflt : α) (g : List Val → α) : Val → α
  | .list vs => g vs
  | _ => dflt
/-- `[seconds, nanos]` of a std time / duration -/
def onPair {α} (dflt : α) (g : Nat → Nat → α) : Val → α
  | .msg [.varint s, .varint n] => g s n
  | _ => dflt
/-- a pointer: nil, or what it points to -/
def onOpt {α} (nil : α) (g : Val → α) : Val → α
  | .none => nil
  | v => g v

def fieldJson (J : JsonEnv) (env : Env) (sub : MsgDesc → Val → Json) (f : Field) (v : Val) : Json :=
  match f.jcls with
  | .u64 => onVarint .null (fun n => .str (latin1 (natText n))) v
  | .i64 => onVarint .null (fun n => .str (latin1 (intText (toInt n)))) v
  | .i32 => onVarint .null (fun n => .num (toInt n)) v
  | .bool => onVarint .null (fun n => .bool (n != 0)) v
  | .enum e => onVarint .null (enumToJson J e) v
  | .str => strElem v
  | .bytes => onBytes .null (bytesJson J.leaves) v
  | .sdkInt => onInt .null (fun i => .str (latin1 (intText i))) v
  | .sdkDec => onInt .null (fun i => .str (J.leaves.decText i)) v
  | .repStr => onList .null (fun vs => .arr (vs.map strElem)) v
  | .repBytes => onList .null (fun vs => .arr (vs.map (bytesElem J.leaves))) v
  | .msg n => msgJson J env sub n v
  | .optMsg n => onOpt .null (msgJson J env sub n) v
  | .repMsg n => onList .null (fun vs => .arr (vs.map (msgJson J env sub n))) v
  | .time => onPair .null (fun s n => .str (J.leaves.timeText s n)) v
  | .dur => onPair .null (fun s n => .str (J.leaves.durText s n)) v
  | .bad => .null

def fieldsJson (fj : Field → Val → Json) : List Field → List Val → List (String × Json)
  | f :: fs, v :: vs => (f.name, fj f v) :: fieldsJson fj fs vs
  | _, _ => []

/-- `Marshaler.marshalObject`. -/
def toJsonAt (J : JsonEnv) (env : Env) : Nat → MsgDesc → Val → Json
  | 0, _, _ => .null
  | k+1, d, v =>
    match v with
    | .msg vs => .obj (fieldsJson (fieldJson J env (toJsonAt J env k)) d.fields vs)
    | _ => .null

/-! ## unmarshal -/

/-- The first member with this name, and the other members. -/
def getKey (k : String) : List (String × Json) → Option (Json × List (String × Json))
  | [] => none
  | (k', j) :: r =>
    if k' = k then some (j, r)
    else match getKey k r with
      | some (x, r') => some (x, (k', j) :: r')
      | none => none

def inRange (lo hi i : Int) : Bool := decide (lo ≤ i) && decide (i < hi)

def u64From : Json → Option Val
  | .str s => match parseNatText (unlatin1 s) with
    | some n => if n < P64 then some (.varint n) else none
    | none => none
  | .num i => if inRange 0 P64 i then some (.varint i.toNat) else none
  | .null => some (.varint 0)
  | _ => none

def intFrom (lo hi : Int) : Json → Option Val
  | .str s => match parseIntTextCanon (unlatin1 s) with
    | some i => if inRange lo hi i then some (.varint (ofInt i)) else none
    | none => none
  | .num i => if inRange lo hi i then some (.varint (ofInt i)) else none
  | .null => some (.varint 0)
  | _ => none

def boolFrom : Json → Option Val
  | .bool b => some (.varint (if b then 1 else 0))
  | .null => some (.varint 0)
  | _ => none

/-- A quoted enum is looked up in the `_value` table; a number is taken as is; the `uint64` pattern of the result. -/
def enumFromJson (J : JsonEnv) (n : String) : Json → Option Nat
  | .str s =>
    match findEnum J n with
    | some e =>
      match e.values.find? (fun p => p.1 == s) with
      | some p => some (ofInt p.2)
      | none => none
    | none => none
  | .num i => if inRange (-2147483648) 2147483648 i then some (ofInt i) else none
  | .null => some 0
  | _ => none

def enumFrom (J : JsonEnv) (n : String) (j : Json) : Option Val :=
  match enumFromJson J n j with
  | some x => some (.varint x)
  | none => none

/-- **The enum leaf**: the text written for the value `x` is read back as `x`. -/
def enumRT (J : JsonEnv) (n : String) (x : Nat) : Bool := enumFromJson J n (enumToJson J n x) == some x

def strFrom : Json → Option Val
  | .str s => some (.bytes (utf8Bytes s))
  | .null => some (.bytes [])
  | _ => none

def bytesFrom (L : Leaves) : Json → Option Val
  | .str s => match L.unb64 s with
    | some b => some (.bytes b)
    | none => none
  | .null => some (.bytes [])
  | _ => none

def sdkIntFrom : Json → Option Val
  | .str s => match parseIntText (unlatin1 s) with
    | some i => if bigOK 256 i then some (.int i) else none
    | none => none
  | _ => none

def sdkDecFrom (L : Leaves) : Json → Option Val
  | .str s => match L.parseDec s with
    | some i => if bigOK 315 i then some (.int i) else none
    | none => none
  | _ => none

def timeFrom (L : Leaves) : Json → Option Val
  | .str s => match L.parseTime s with
    | some (a, b) => if timeValid a b then some (.msg [.varint a, .varint b]) else none
    | none => none
  | _ => none

def durFrom (L : Leaves) : Json → Option Val
  | .str s => match L.parseDur s with
    | some (a, b) => if durValid a b then some (.msg [.varint a, .varint b]) else none
    | none => none
  | _ => none

def mapOpt (g : Json → Option Val) : List Json → Option (List Val)
  | [] => some []
  | j :: js =>
    match g j with
    | some v => (match mapOpt g js with | some vs => some (v :: vs) | none => none)
    | none => none

def listFrom (g : Json → Option Val) : Json → Option Val
  | .arr js => match mapOpt g js with
    | some vs => some (.list vs)
    | none => none
  | .null => some (.list [])
  | _ => none

/-- `unmarshalValue`, case "Any": `"@type"` resolved, the remaining members parsed as the packed message, which is
then `proto.Marshal`ed.  (`canonical` = the parsed value is a Go struct value: always true of what the real parser
builds; it only excludes pieces of 2^63 bytes and more.) -/
def anyFrom (J : JsonEnv) (env : Env) (sub : MsgDesc → Json → Option Val) (j : Json) : Option Val :=
  match j with
  | .obj kvs =>
    match getKey typeKey kvs with
    | some (.str url, rest) =>
      match resolveAny J env (utf8Bytes url) with
      | some d' =>
        match sub d' (.obj rest) with
        | some v' =>
          if canonical env d' v' then some (.msg [.bytes (utf8Bytes url), .bytes (encode env d' v')]) else none
        | none => none
      | none => none
    | _ => none
  | _ => none

def msgFrom (J : JsonEnv) (env : Env) (sub : MsgDesc → Json → Option Val) (n : String) (j : Json) : Option Val :=
  if n = anyName then anyFrom J env sub j
  else match lookup env n with
    | some d => sub d j
    | none => none

def optFrom (g : Json → Option Val) : Json → Option Val
  | .null => some .none
  | j => g j

def fieldFrom (J : JsonEnv) (env : Env) (sub : MsgDesc → Json → Option Val) (f : Field) (j : Json) : Option Val :=
  match f.jcls with
  | .u64 => u64From j
  | .i64 => intFrom (-9223372036854775808) 9223372036854775808 j
  | .i32 => intFrom (-2147483648) 2147483648 j
  | .bool => boolFrom j
  | .enum e => enumFrom J e j
  | .str => strFrom j
  | .bytes => bytesFrom J.leaves j
  | .sdkInt => sdkIntFrom j
  | .sdkDec => sdkDecFrom J.leaves j
  | .repStr => listFrom strFrom j
  | .repBytes => listFrom (bytesFrom J.leaves) j
  | .msg n => msgFrom J env sub n j
  | .optMsg n => optFrom (msgFrom J env sub n) j
  | .repMsg n => listFrom (msgFrom J env sub n) j
  | .time => timeFrom J.leaves j
  | .dur => durFrom J.leaves j
  | .bad => none

/-- The struct loop of `unmarshalValue` (l. 1066–1080): every field takes its member, if present; returns the
members nobody took. -/
def fieldsFrom (ff : Field → Json → Option Val) (dflt : Field → Val) :
    List Field → List (String × Json) → Option (List Val × List (String × Json))
  | [], kvs => some ([], kvs)
  | f :: fs, kvs =>
    match getKey f.name kvs with
    | some (j, kvs') =>
      (match ff f j with
       | some v =>
         (match fieldsFrom ff dflt fs kvs' with
          | some (vs, r) => some (v :: vs, r)
          | none => none)
       | none => none)
    | none =>
      (match fieldsFrom ff dflt fs kvs with
       | some (vs, r) => some (dflt f :: vs, r)
       | none => none)

/-- A member nobody took is an error (`unknown field %q in %v`, l. 1115). -/
def msgOfFields : Option (List Val × List (String × Json)) → Option Val
  | some (vs, []) => some (.msg vs)
  | _ => none

/-- `Unmarshaler.unmarshalValue` into a fresh message. -/
def fromJsonAt (J : JsonEnv) (env : Env) : Nat → MsgDesc → Json → Option Val
  | 0, _, _ => none
  | k+1, d, j =>
    match j with
    | .obj kvs =>
      msgOfFields (fieldsFrom (fieldFrom J env (fromJsonAt J env k)) (defaultField env (defaultMsg env k)) d.fields kvs)
    | _ => none

def toJson (J : JsonEnv) (env : Env) (d : MsgDesc) (v : Val) : Json := toJsonAt J env depthFuel d v
def fromJson (J : JsonEnv) (env : Env) (d : MsgDesc) (j : Json) : Option Val := fromJsonAt J env depthFuel d j

/-! ## checkers -/

def namesOK : List String → Bool
  | [] => true
  | n :: ns => n != typeKey && !ns.contains n && namesOK ns

def jmsgWF (J : JsonEnv) (env : Env) (sub : MsgDesc → Bool) (n : String) : Bool :=
  if n = anyName then
    J.anyTypes.all (fun t => match lookup env t with | some d' => wf env d' && sub d' | none => false)
  else match lookup env n with
    | some d => sub d
    | none => false

def jfieldWF (J : JsonEnv) (env : Env) (sub : MsgDesc → Bool) (f : Field) : Bool :=
  match f.jcls with
  | .enum e => (findEnum J e).isSome
  | .msg n => jmsgWF J env sub n
  | .optMsg n => jmsgWF J env sub n
  | .repMsg n => jmsgWF J env sub n
  | .bad => false
  | _ => true

/-- Supported descriptor: distinct member names (none is `"@type"`), supported fields, declared enums, nested
descriptors resolvable and supported down to depth `fuel`; for an `Any` field every registered implementation is
resolvable and supported by the JSON model and by the binary model. -/
def jwfAt (J : JsonEnv) (env : Env) : Nat → MsgDesc → Bool
  | 0, _ => false
  | k+1, d => namesOK (d.fields.map (·.name)) && d.fields.all (jfieldWF J env (jwfAt J env k))

def allBytes : List Val → Bool
  | [] => true
  | .bytes _ :: vs => allBytes vs
  | _ :: _ => false

/-- A well-formed `Any`: registered type URL, value = the binary encoding of a well-typed message of that type. -/
def anyCanon (J : JsonEnv) (env : Env) (canon : MsgDesc → Val → Bool) (v : Val) : Bool :=
  match v with
  | .msg [.bytes u, .bytes val] =>
    match resolveAny J env u with
    | some d' =>
      match decode env d' val with
      | some v' => canonical env d' v' && (encode env d' v' == val) && canon d' v'
      | none => false
    | none => false
  | _ => false

def msgCanon (J : JsonEnv) (env : Env) (canon : MsgDesc → Val → Bool) (n : String) (v : Val) : Bool :=
  if n = anyName then anyCanon J env canon v
  else match lookup env n with
    | some d => canon d v
    | none => false

def jcanonField (J : JsonEnv) (env : Env) (canon : MsgDesc → Val → Bool) (f : Field) (v : Val) : Bool :=
  match f.jcls with
  | .u64 => onVarint false (fun n => decide (n < P64)) v
  | .i64 => onVarint false (fun n => decide (n < P64)) v
  | .i32 => onVarint false (rangeOK .int32) v
  | .bool => onVarint false (fun n => decide (n ≤ 1)) v
  | .enum e => onVarint false (rangeOK (.enum e)) v
  | .str => onBytes false (fun _ => true) v
  | .bytes => onBytes false (fun _ => true) v
  | .sdkInt => onInt false (bigOK 256) v
  | .sdkDec => onInt false (bigOK 315) v
  | .repStr => onList false allBytes v
  | .repBytes => onList false allBytes v
  | .msg n => msgCanon J env canon n v
  | .optMsg n => onOpt true (msgCanon J env canon n) v
  | .repMsg n => onList false (fun vs => vs.all (msgCanon J env canon n)) v
  | .time => onPair false timeValid v
  | .dur => onPair false durValid v
  | .bad => false

def jcanonFields (cf : Field → Val → Bool) : List Field → List Val → Bool
  | [], [] => true
  | f :: fs, v :: vs => cf f v && jcanonFields cf fs vs
  | _, _ => false

/-- Well-typed value (as `canonAt`, without the 2^63 length bounds, which JSON does not need), every `Any` well-formed. -/
def jcanonAt (J : JsonEnv) (env : Env) : Nat → MsgDesc → Val → Bool
  | 0, _, _ => false
  | k+1, d, v =>
    match v with
    | .msg vs => jcanonFields (jcanonField J env (jcanonAt J env k)) d.fields vs
    | _ => false

def jwf (J : JsonEnv) (env : Env) (d : MsgDesc) : Bool := jwfAt J env depthFuel d
def jcanonical (J : JsonEnv) (env : Env) (d : MsgDesc) (v : Val) : Bool := jcanonAt J env depthFuel d v

/-! ## leaf conditions, collected over a value

`allLeavesAt P` holds when `P cls v` holds of every non-message field of the value — through embedded messages,
repeated messages and the message packed in every `Any`. -/

/-- The message packed in an `Any`: the descriptor its type URL resolves to and the decoded value. -/
def anyInner (J : JsonEnv) (env : Env) (v : Val) : Option (MsgDesc × Val) :=
  match v with
  | .msg [.bytes u, .bytes val] =>
    match resolveAny J env u with
    | some d' =>
      match decode env d' val with
      | some v' => some (d', v')
      | none => none
    | none => none
  | _ => none

def anyLeaves (J : JsonEnv) (env : Env) (rec : MsgDesc → Val → Bool) (v : Val) : Bool :=
  match anyInner J env v with
  | some (d', v') => rec d' v'
  | none => true

def msgLeaves (J : JsonEnv) (env : Env) (rec : MsgDesc → Val → Bool) (n : String) (v : Val) : Bool :=
  if n = anyName then anyLeaves J env rec v
  else match lookup env n with
    | some d => rec d v
    | none => true

def fieldLeaves (J : JsonEnv) (env : Env) (P : JCls → Val → Bool) (rec : MsgDesc → Val → Bool) (f : Field) (v : Val) : Bool :=
  match f.jcls with
  | .msg n => msgLeaves J env rec n v
  | .optMsg n => onOpt true (msgLeaves J env rec n) v
  | .repMsg n => onList true (fun vs => vs.all (msgLeaves J env rec n)) v
  | c => P c v

def fieldsLeaves (fl : Field → Val → Bool) : List Field → List Val → Bool
  | f :: fs, v :: vs => fl f v && fieldsLeaves fl fs vs
  | _, _ => true

def allLeavesAt (J : JsonEnv) (env : Env) (P : JCls → Val → Bool) : Nat → MsgDesc → Val → Bool
  | 0, _, _ => true
  | k+1, d, v =>
    match v with
    | .msg vs => fieldsLeaves (fieldLeaves J env P (allLeavesAt J env P k)) d.fields vs
    | _ => true

/-- An enum-typed field: its printed name parses back to its value. -/
def enumLeaf (J : JsonEnv) : JCls → Val → Bool
  | .enum e, .varint x => enumRT J e x
  | _, _ => true

def allUtf8 : List Val → Bool
  | [] => true
  | .bytes b :: vs => utf8OK b && allUtf8 vs
  | _ :: vs => allUtf8 vs

/-- A `string`-typed field: well-formed UTF-8 (as proto3 requires of a `string`). -/
def utf8Leaf : JCls → Val → Bool
  | .str, .bytes b => utf8OK b
  | .repStr, .list vs => allUtf8 vs
  | _, _ => true

def bothLeaf (J : JsonEnv) (c : JCls) (v : Val) : Bool := enumLeaf J c v && utf8Leaf c v

/-- No enum-typed field at all. -/
def noEnumLeaf : JCls → Val → Bool
  | .enum _, .varint _ => false
  | _, _ => true

/-- Some enum-typed field occurs in the value (at any depth, also inside a packed `Any`). -/
def hasEnumField (J : JsonEnv) (env : Env) (d : MsgDesc) (v : Val) : Bool := !allLeavesAt J env noEnumLeaf depthFuel d v

def enumsParseBack (J : JsonEnv) (env : Env) (d : MsgDesc) (v : Val) : Bool := allLeavesAt J env (enumLeaf J) depthFuel d v
def stringsUtf8 (J : JsonEnv) (env : Env) (d : MsgDesc) (v : Val) : Bool := allLeavesAt J env utf8Leaf depthFuel d v

/-- The descriptor has no enum-typed field anywhere below it (embedded messages, and every message an `Any`
field can hold). -/
def noEnumMsg (J : JsonEnv) (env : Env) (sub : MsgDesc → Bool) (n : String) : Bool :=
  if n = anyName then
    J.anyTypes.all (fun t => match lookup env t with | some d' => sub d' | none => true)
  else match lookup env n with
    | some d => sub d
    | none => true

def noEnumField (J : JsonEnv) (env : Env) (sub : MsgDesc → Bool) (f : Field) : Bool :=
  match f.jcls with
  | .enum _ => false
  | .msg n => noEnumMsg J env sub n
  | .optMsg n => noEnumMsg J env sub n
  | .repMsg n => noEnumMsg J env sub n
  | _ => true

def noEnumAt (J : JsonEnv) (env : Env) : Nat → MsgDesc → Bool
  | 0, _ => true
  | k+1, d => d.fields.all (noEnumField J env (noEnumAt J env k))

def noEnums (J : JsonEnv) (env : Env) (d : MsgDesc) : Bool := noEnumAt J env depthFuel d

/-! ## the hub's enums: REGENERATED tables -/

open Hub.Generated in
/-- `Status.String()` of an arbitrary `int32`: a declared value prints by the regenerated function; any other
value takes the `default:` arm, which is the arm of `StatusUnspecified`. -/
def statusPrint (i : Int) : String := Status.String ((Status.ofInt32 i).getD .StatusUnspecified)

open Hub.Generated in
def statusEnum : EnumJson := ⟨"sentinel.types.v1.Status", statusPrint, Status.Status_value⟩

def hubEnums : List EnumJson := [statusEnum]

/-- The sentinel.* messages the application's interface registry resolves (`RegisterInterfaces` of the six
current modules: the requests of their `MsgService`s as `sdk.Msg`, the responses as `tx.MsgResponse`, and the two
`Subscription` implementations).  Hand-written; every probe run compares it with the real registry
(`anytypes` line, `runAnyTypesProbe`). -/
def hubAnyTypes : List String := [
  "sentinel.node.v2.MsgRegisterRequest", "sentinel.node.v2.MsgRegisterResponse", "sentinel.node.v2.MsgSubscribeRequest",
  "sentinel.node.v2.MsgSubscribeResponse", "sentinel.node.v2.MsgUpdateDetailsRequest", "sentinel.node.v2.MsgUpdateDetailsResponse",
  "sentinel.node.v2.MsgUpdateStatusRequest", "sentinel.node.v2.MsgUpdateStatusResponse", "sentinel.plan.v2.MsgCreateRequest",
  "sentinel.plan.v2.MsgCreateResponse", "sentinel.plan.v2.MsgLinkNodeRequest", "sentinel.plan.v2.MsgLinkNodeResponse",
  "sentinel.plan.v2.MsgSubscribeRequest", "sentinel.plan.v2.MsgSubscribeResponse", "sentinel.plan.v2.MsgUnlinkNodeRequest",
  "sentinel.plan.v2.MsgUnlinkNodeResponse", "sentinel.plan.v2.MsgUpdateStatusRequest", "sentinel.plan.v2.MsgUpdateStatusResponse",
  "sentinel.provider.v2.MsgRegisterRequest", "sentinel.provider.v2.MsgRegisterResponse", "sentinel.provider.v2.MsgUpdateRequest",
  "sentinel.provider.v2.MsgUpdateResponse", "sentinel.session.v2.MsgEndRequest", "sentinel.session.v2.MsgEndResponse",
  "sentinel.session.v2.MsgStartRequest", "sentinel.session.v2.MsgStartResponse", "sentinel.session.v2.MsgUpdateDetailsRequest",
  "sentinel.session.v2.MsgUpdateDetailsResponse", "sentinel.subscription.v2.MsgAllocateRequest", "sentinel.subscription.v2.MsgAllocateResponse",
  "sentinel.subscription.v2.MsgCancelRequest", "sentinel.subscription.v2.MsgCancelResponse", "sentinel.subscription.v2.NodeSubscription",
  "sentinel.subscription.v2.PlanSubscription", "sentinel.swap.v1.MsgSwapRequest", "sentinel.swap.v1.MsgSwapResponse"]

/-- The hub's JSON environment over given leaves. -/
def hubJ (L : Leaves) : JsonEnv := ⟨hubEnums, hubAnyTypes, L⟩

/-! ## concrete leaves (`goLeaves`): what Go prints and reads, as ASCII byte strings (`latin1` / `unlatin1` make
them JSON strings); compared with the real codec on every probe line; `LeavesOK goLeaves` is proved in
`Hub/Lemmas/ProtoJsonLeaves.lean` as far as stated there -/

/-- The longest prefix of decimal digits, and the rest. -/
def spanDigits : Bytes → Bytes × Bytes
  | [] => ([], [])
  | c :: cs => if (digitVal c).isSome then ((c :: (spanDigits cs).1), (spanDigits cs).2) else ([], c :: cs)

/-- A leading `-`, and the rest. -/
def stripMinus (b : Bytes) : Bool × Bytes :=
  match b with
  | c :: r => if c.toNat = 45 then (true, r) else (false, c :: r)
  | [] => (false, [])

/-! ### base64.StdEncoding -/

def b64Alphabet : List Char := "ABCDEFGHIJKLMNOPQRSTUVWXYZabcdefghijklmnopqrstuvwxyz0123456789+/".toList

def b64Byte (n : Nat) : UInt8 := charByte (b64Alphabet.getD n 'A')

def b64Bytes : Bytes → Bytes
  | a :: b :: c :: r =>
    let n := a.toNat * 65536 + b.toNat * 256 + c.toNat
    b64Byte (n / 262144) :: b64Byte (n / 4096 % 64) :: b64Byte (n / 64 % 64) :: b64Byte (n % 64) :: b64Bytes r
  | [a, b] =>
    let n := a.toNat * 65536 + b.toNat * 256
    [b64Byte (n / 262144), b64Byte (n / 4096 % 64), b64Byte (n / 64 % 64), 61]
  | [a] =>
    let n := a.toNat * 65536
    [b64Byte (n / 262144), b64Byte (n / 4096 % 64), 61, 61]
  | [] => []

def b64Val (c : UInt8) : Option Nat :=
  let n := c.toNat
  if 65 ≤ n ∧ n ≤ 90 then some (n - 65)
  else if 97 ≤ n ∧ n ≤ 122 then some (n - 71)
  else if 48 ≤ n ∧ n ≤ 57 then some (n + 4)
  else if n = 43 then some 62
  else if n = 47 then some 63
  else none

/-- Groups of four; `=` padding only in the last group, with zero spare bits (Go's strict decoder). -/
def unb64Bytes : Bytes → Option Bytes
  | [] => some []
  | a :: b :: c :: d :: r =>
    if d.toNat = 61 then
      if !r.isEmpty then none
      else if c.toNat = 61 then
        match b64Val a, b64Val b with
        | some x, some y => if y % 16 = 0 then some [UInt8.ofNat (x * 4 + y / 16)] else none
        | _, _ => none
      else
        match b64Val a, b64Val b, b64Val c with
        | some x, some y, some z =>
          if z % 4 = 0 then some [UInt8.ofNat (x * 4 + y / 16), UInt8.ofNat (y % 16 * 16 + z / 4)] else none
        | _, _, _ => none
    else
      match b64Val a, b64Val b, b64Val c, b64Val d, unb64Bytes r with
      | some x, some y, some z, some w, some rest =>
        some (UInt8.ofNat (x * 4 + y / 16) :: UInt8.ofNat (y % 16 * 16 + z / 4) :: UInt8.ofNat (z % 4 * 64 + w) :: rest)
      | _, _, _, _, _ => none
  | _ => none

/-! ### fractions of a second: nothing, or `.` and 3, 6 or 9 digits (jsonpb's three `TrimSuffix` calls on `%09d`) -/

def fracBytes (m : Nat) : Bytes :=
  if m = 0 then []
  else if m % 1000000 = 0 then 46 :: padDigits 3 (m / 1000000)
  else if m % 1000 = 0 then 46 :: padDigits 6 (m / 1000)
  else 46 :: padDigits 9 m

/-- `[.d{1,9}]<stop>` as nanoseconds. -/
def parseFrac (stop : Nat) (b : Bytes) : Option Nat :=
  match b with
  | [] => none
  | c :: r =>
    if r.isEmpty then (if c.toNat = stop then some 0 else none)
    else if c.toNat = 46 then
      let p := spanDigits r
      match p.2 with
      | [e] =>
        if e.toNat = stop ∧ 1 ≤ p.1.length ∧ p.1.length ≤ 9 then
          match parseDigits p.1 0 with
          | some v => some (v * 10 ^ (9 - p.1.length))
          | none => none
        else none
      | _ => none
    else none

/-! ### `time.Duration`: `"%d.%09d"` of (seconds, nanos), trimmed, `s` ⇄ `time.ParseDuration` -/

def durBytes (s n : Nat) : Bytes :=
  let S := toInt s
  let N := toInt n
  (if S = 0 ∧ N < 0 then [45] else []) ++ (if S < 0 then [45] else []) ++ natText S.natAbs ++ fracBytes N.natAbs ++ [115]

def parseDurBytes (b : Bytes) : Option (Nat × Nat) :=
  let p := stripMinus b
  let q := spanDigits p.2
  if q.1.isEmpty then none
  else match parseDigits q.1 0, parseFrac 115 q.2 with
    | some a, some f =>
      let tot : Int := (a : Int) * 1000000000 + f
      let ns : Int := if p.1 then -tot else tot
      if inRange (-9223372036854775808) 9223372036854775808 ns then
        let k := Int.tdiv ns 1000000000
        some (ofInt k, ofInt (ns - k * 1000000000))
      else none
    | _, _ => none

/-! ### `LegacyDec`: `String()` (18 decimals) ⇄ `LegacyNewDecFromStr` -/

def decDigits (n : Nat) : Bytes :=
  let ds := natText n
  let ds := List.replicate (19 - ds.length) 48 ++ ds
  ds.take (ds.length - 18) ++ 46 :: ds.drop (ds.length - 18)

def decBytes (i : Int) : Bytes := (if i < 0 then [45] else []) ++ decDigits i.natAbs

def decBody (b : Bytes) : Option Nat :=
  let p := spanDigits b
  if p.1.isEmpty then none
  else match p.2 with
    | [] => parseDigits (p.1 ++ List.replicate 18 48) 0
    | c :: fr =>
      if c.toNat = 46 ∧ !fr.isEmpty ∧ fr.length ≤ 18 then parseDigits (p.1 ++ fr ++ List.replicate (18 - fr.length) 48) 0
      else none

def parseDecBytes (b : Bytes) : Option Int :=
  let p := stripMinus b
  match decBody p.2 with
  | some n => some (if p.1 then -(n : Int) else (n : Int))
  | none => none

/-! ### `time.Time`: RFC 3339 in UTC ⇄ `time.Parse(time.RFC3339Nano, …)` -/

/-- `days_from_civil` (Hinnant): days since 1970-01-01 of a proleptic Gregorian date. -/
def daysFromCivil (y0 m d : Int) : Int :=
  let y := if m ≤ 2 then y0 - 1 else y0
  let era := y / 400
  let yoe := y - era * 400
  let mp := if m > 2 then m - 3 else m + 9
  let doy := (153 * mp + 2) / 5 + d - 1
  let doe := yoe * 365 + yoe / 4 - yoe / 100 + doy
  era * 146097 + doe - 719468

def daysInMonth (y m : Nat) : Nat :=
  if m = 2 then (if (y % 4 = 0 ∧ y % 100 ≠ 0) ∨ y % 400 = 0 then 29 else 28)
  else if m = 4 ∨ m = 6 ∨ m = 9 ∨ m = 11 then 30 else 31

def timeBytes (s n : Nat) : Bytes :=
  let t : Int := toInt s * 1000000000 + (n : Int)
  (formatTimeBytes t).take 19 ++ fracBytes (t % 1000000000).toNat ++ [90]      -- YYYY-MM-DDTHH:MM:SS[.fff…]Z

/-- Exactly `w` digits. -/
def readN (w : Nat) (b : Bytes) : Option (Nat × Bytes) :=
  if w ≤ b.length then
    match parseDigits (b.take w) 0 with
    | some v => some (v, b.drop w)
    | none => none
  else none

def expect (c : Nat) (b : Bytes) : Option Bytes :=
  match b with
  | x :: r => if x.toNat = c then some r else none
  | [] => none

def parseTimeBytes (b0 : Bytes) : Option (Nat × Nat) :=
  (readN 4 b0).bind fun y =>
  (expect 45 y.2).bind fun b1 =>
  (readN 2 b1).bind fun m =>
  (expect 45 m.2).bind fun b2 =>
  (readN 2 b2).bind fun d =>
  (expect 84 d.2).bind fun b3 =>
  (readN 2 b3).bind fun hh =>
  (expect 58 hh.2).bind fun b4 =>
  (readN 2 b4).bind fun mi =>
  (expect 58 mi.2).bind fun b5 =>
  (readN 2 b5).bind fun ss =>
  (parseFrac 90 ss.2).bind fun ns =>
  if 1 ≤ m.1 ∧ m.1 ≤ 12 ∧ 1 ≤ d.1 ∧ d.1 ≤ daysInMonth y.1 m.1 ∧ hh.1 < 24 ∧ mi.1 < 60 ∧ ss.1 < 60 then
    some (ofInt (daysFromCivil y.1 m.1 d.1 * 86400 + hh.1 * 3600 + mi.1 * 60 + ss.1), ns)
  else none

def goLeaves : Leaves where
  b64 b := latin1 (b64Bytes b)
  unb64 s := unb64Bytes (unlatin1 s)
  timeText s n := latin1 (timeBytes s n)
  parseTime s := parseTimeBytes (unlatin1 s)
  durText s n := latin1 (durBytes s n)
  parseDur s := parseDurBytes (unlatin1 s)
  decText i := latin1 (decBytes i)
  parseDec s := parseDecBytes (unlatin1 s)

/-! ## canonical text of a tree (for the probe): members sorted by name, no white space; a string is written
`"text"` if it consists of `[0-9A-Za-z_.:/+=@-]` only, else `x<hex of its UTF-8 bytes>` -/

def safeChar (c : Char) : Bool :=
  c.isAlphanum || c == '-' || c == '_' || c == '.' || c == ':' || c == '/' || c == '+' || c == '=' || c == '@'

def renderStr (s : String) : String :=
  if s.toList.all safeChar then "\"" ++ s ++ "\"" else "x" ++ String.join ((utf8Bytes s).map hexOfByte)

def insertKV (kv : String × String) : List (String × String) → List (String × String)
  | [] => [kv]
  | x :: r => if kv.1 < x.1 then kv :: x :: r else x :: insertKV kv r

mutual
def Json.render : Json → String
  | .null => "null"
  | .bool b => if b then "true" else "false"
  | .num i => toString i
  | .str s => renderStr s
  | .arr xs => "[" ++ ",".intercalate (Json.renderList xs) ++ "]"
  | .obj kvs => "{" ++ ",".intercalate (((Json.renderKVs kvs).foldr insertKV []).map (fun p => p.1 ++ ":" ++ p.2)) ++ "}"
def Json.renderList : List Json → List String
  | [] => []
  | x :: xs => Json.render x :: Json.renderList xs
def Json.renderKVs : List (String × Json) → List (String × String)
  | [] => []
  | (k, v) :: r => (renderStr k, Json.render v) :: Json.renderKVs r
end

/-! ## probe -/

/-- The JSON part of the answer to one probe line `pb <name> <fields> => …`:
`json=<1|0> <canonical text of the model's tree>` — `1` iff the model's `fromJson (toJson v)` is `v`;
`json=- -` when the line has no typed value. -/
def runJsonProbeWith (J : JsonEnv) (env : Env) (line : String) : String :=
  match splitProbeLine line with
  | none => "json=- -"
  | some (name, text) =>
    match lookup env name with
    | none => "json=- -"
    | some d =>
      let cs := text.toList
      match parseFields (cs.length + 2) cs with
      | some (pvs, []) =>
        (match pvToVal env depthFuel d pvs with
         | none => "json=- -"
         | some v =>
           let j := toJson J env d v
           let ok := match fromJson J env d j with
             | some v' => Val.beq v v'
             | none => false
           "json=" ++ (if ok then "1" else "0") ++ " " ++ j.render)
      | _ => "json=- -"

/-- `anytypes <name> …` (the sentinel.* implementations the application's interface registry resolves, sorted):
"ok" when they are exactly `J.anyTypes`. -/
def hubJson : JsonEnv := hubJ goLeaves

def runAnyTypesProbe (J : JsonEnv) (line : String) : String :=
  let real := ((line.splitOn " ").filter (· ≠ "")).drop 1
  let model := J.anyTypes
  if real.all model.contains && model.all real.contains then "ok"
  else "DIFF model=" ++ ",".intercalate model

end Hub.SDK.ProtoJson
