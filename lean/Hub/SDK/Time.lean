import Hub.SDK.Bytes
/-
Times are integer nanoseconds since the Unix epoch (UTC).  `sdk.FormatTimeBytes` renders
`2006-01-02T15:04:05.000000000` of the UTC instant (29 bytes).  The civil date is computed with
Hinnant's `civil_from_days`; that Go's `time` package computes the same proleptic Gregorian fields
is validated by the probe runs and listed in the trusted base.
-/
namespace Hub.SDK

abbrev Time := Int
abbrev Dur := Int

/-- Go's zero `time.Time{}` : 0001-01-01T00:00:00Z. -/
def zeroTime : Time := -62135596800 * 1000000000

def nsPerSec : Int := 1000000000
def nsPerDay : Int := 86400 * 1000000000
def hour : Dur := 3600 * 1000000000

/-- Days since 1970-01-01 → (year, month, day). -/
def civilFromDays (z0 : Int) : Int × Int × Int :=
  let z := z0 + 719468
  let era := z / 146097            -- floor division (Int./ is floor for positive divisor)
  let doe := z - era * 146097      -- [0, 146096]
  let yoe := (doe - doe / 1460 + doe / 36524 - doe / 146096) / 365
  let y := yoe + era * 400
  let doy := doe - (365 * yoe + yoe / 4 - yoe / 100)
  let mp := (5 * doy + 2) / 153
  let d := doy - (153 * mp + 2) / 5 + 1
  let m := if mp < 10 then mp + 3 else mp - 9
  (if m ≤ 2 then y + 1 else y, m, d)

def digit (n : Nat) : UInt8 := UInt8.ofNat (48 + n % 10)

/-- Fixed-width, zero padded decimal rendering (most significant digit first). -/
def padDigits : Nat → Nat → Bytes
  | 0, _ => []
  | w + 1, n => padDigits w (n / 10) ++ [digit n]

/-- (year, month, day, hour, minute, second, nanosecond) of an instant. -/
def timeFields (t : Time) : Int × Int × Int × Int × Int × Int × Int :=
  let days := t / nsPerDay
  let rem := t % nsPerDay
  let (y, m, d) := civilFromDays days
  let secs := rem / nsPerSec
  (y, m, d, secs / 3600, secs % 3600 / 60, secs % 60, rem % nsPerSec)

/-- `sdk.FormatTimeBytes` for years 0..9999. -/
def formatTimeBytes (t : Time) : Bytes :=
  let (y, m, d, hh, mm, ss, ns) := timeFields t
  padDigits 4 y.toNat ++ [45] ++ padDigits 2 m.toNat ++ [45] ++ padDigits 2 d.toNat ++ [84] ++
  padDigits 2 hh.toNat ++ [58] ++ padDigits 2 mm.toNat ++ [58] ++ padDigits 2 ss.toNat ++ [46] ++ padDigits 9 ns.toNat

end Hub.SDK
