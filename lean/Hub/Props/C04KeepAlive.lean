import Hub.Props.C04All
import Hub.Lemmas.Authz
/-
C04 — lifecycle, the keep-alive effect of the usage report (`MsgUpdateDetails` of a session,
`sessUpdate` in `Hub/Model/Handlers.lean`).

"… none is demoted or removed before its deadline unless its owner asked for it …"

A session's deadline (`inactiveAt`, mirrored by one entry of the expiry queue `sessQ`) is pushed
forward by every accepted usage report of its node while the session is ACTIVE, and must not be
touched once the session is inactive-pending.  Single-step facts proved here:

* `report_renews_deadline` — an accepted report for an ACTIVE session leaves it active and sets its
  deadline to `block time + sessDelay`, for ALL reported figures `up down dur` (in particular when
  they equal the stored ones: `report_renews_deadline_same_figures`; a seeded bug skipped the
  renewal for unchanged figures); the queue entry is moved (new entry present, old entry gone
  unless it is the same key, nothing else in the queue changes).
* `report_leaves_pending_deadline` — an accepted report for an inactive-pending session changes
  neither its status nor its deadline nor the queue (a seeded bug re-armed the deadline).
* both — no other session's record changes, and no queue entry of another session changes
  (`…_frame` parts of the statements), the clock and the parameters are untouched.

`sessUpdate_active` / `sessUpdate_pending` are the handler-level forms (exact new tables); the
`report_…` theorems are about `deliver`; the `…_reachable` corollaries discharge the side condition
"records are stored under their own id" (`CountInv.sessions` / `KeysOK.sess`) in reachable states.
-/
namespace Hub.Props.C04
open Hub.Model Hub.SDK
open Hub.Generated (Status)

/-! ## Handler level: the exact new tables -/

/-- The tables of the session module after an accepted report, exactly; `x` is the stored record. -/
theorem sessUpdate_tables {s s' : State} {frm : Addr} {id : Nat} {up down dur : Int} {sig : SigSpec} {x : Session}
    (h : sessUpdate s frm id up down dur sig = .ok s') (hx : s.sessions.get id = some x) :
    x.status ≠ .StatusInactive ∧ frm = x.node ∧ s'.time = s.time ∧ s'.params = s.params ∧
    s'.sessions = s.sessions.set x.id
      { x with inactiveAt := if x.status = .StatusActive then s.time + s.params.sessDelay else x.inactiveAt, up, down, dur } ∧
    s'.sessQ = (if x.status = .StatusActive
                then (s.sessQ.erase (x.inactiveAt, x.id)).set (s.time + s.params.sessDelay, x.id) () else s.sessQ) := by
  unfold sessUpdate at h
  simp only [bind_eq_ok, pure_eq_ok, require_eq_ok, orReject_eq_ok] at h
  obtain ⟨x0, hx0, _, hst, _, hf, _, _, rfl⟩ := h
  rw [hx] at hx0
  cases hx0
  refine ⟨by simpa using hst, by simpa using hf, ?_, ?_, ?_, ?_⟩
  · by_cases ha : x.status = .StatusActive <;> simp only [ha, if_true, if_false] <;> rfl
  · by_cases ha : x.status = .StatusActive <;> simp only [ha, if_true, if_false] <;> rfl
  · by_cases ha : x.status = .StatusActive <;> simp only [ha, if_true, if_false] <;> rfl
  · by_cases ha : x.status = .StatusActive <;> simp only [ha, if_true, if_false] <;> rfl

theorem has_set_unit {κ : Type} [DecidableEq κ] (t : Tbl κ Unit) (k k' : κ) :
    (t.set k ()).has k' = (decide (k = k') || t.has k') := by
  unfold Tbl.has; rw [Tbl.get_set]
  by_cases hk : k = k' <;> simp [hk]

theorem has_erase_unit {κ : Type} [DecidableEq κ] (t : Tbl κ Unit) (k k' : κ) :
    (t.erase k).has k' = (!decide (k = k') && t.has k') := by
  unfold Tbl.has; rw [Tbl.get_erase]
  by_cases hk : k = k' <;> simp [hk]

/-- **Active session, handler level.** -/
theorem sessUpdate_active {s s' : State} {frm : Addr} {id : Nat} {up down dur : Int} {sig : SigSpec} {x : Session}
    (h : sessUpdate s frm id up down dur sig = .ok s') (hx : s.sessions.get id = some x) (hid : x.id = id)
    (ha : x.status = .StatusActive) :
    s'.time = s.time ∧ s'.params = s.params ∧
    s'.sessions = s.sessions.set id { x with inactiveAt := s.time + s.params.sessDelay, up, down, dur } ∧
    s'.sessQ = (s.sessQ.erase (x.inactiveAt, id)).set (s.time + s.params.sessDelay, id) () := by
  subst hid
  obtain ⟨_, _, ht, hp, hs, hq⟩ := sessUpdate_tables h hx
  rw [if_pos ha] at hs hq
  exact ⟨ht, hp, hs, hq⟩

/-- **Inactive-pending session, handler level.** -/
theorem sessUpdate_pending {s s' : State} {frm : Addr} {id : Nat} {up down dur : Int} {sig : SigSpec} {x : Session}
    (h : sessUpdate s frm id up down dur sig = .ok s') (hx : s.sessions.get id = some x) (hid : x.id = id)
    (hna : x.status ≠ .StatusActive) :
    s'.time = s.time ∧ s'.params = s.params ∧
    s'.sessions = s.sessions.set id { x with up, down, dur } ∧ s'.sessQ = s.sessQ := by
  subst hid
  obtain ⟨_, _, ht, hp, hs, hq⟩ := sessUpdate_tables h hx
  rw [if_neg hna] at hs hq
  exact ⟨ht, hp, hs, hq⟩

/-! ## The properties, for one delivered message -/

/-- What an accepted report does to an ACTIVE session `id` with stored record `x`, from `s` to `s'`. -/
structure Renewed (s s' : State) (id : Nat) (x : Session) (up down dur : Int) : Prop where
  /-- the session is still there, still active, with the deadline re-armed from the block time -/
  record : s'.sessions.get id = some { x with inactiveAt := s.time + s.params.sessDelay, up, down, dur }
  status : ∀ x', s'.sessions.get id = some x' → x'.status = .StatusActive ∧ x'.statusAt = x.statusAt
  deadline : ∀ x', s'.sessions.get id = some x' → x'.inactiveAt = s.time + s.params.sessDelay
  /-- the expiry queue: new entry present; the old one gone unless it is the same key -/
  queueNew : s'.sessQ.has (s.time + s.params.sessDelay, id) = true
  queueOld : x.inactiveAt ≠ s.time + s.params.sessDelay → s'.sessQ.has (x.inactiveAt, id) = false
  /-- frame: every other queue entry, in particular every entry of another session, is as before -/
  queueFrame : ∀ t j, (t, j) ≠ (x.inactiveAt, id) → (t, j) ≠ (s.time + s.params.sessDelay, id) →
    s'.sessQ.has (t, j) = s.sessQ.has (t, j)
  /-- frame: no other session's record (hence status and deadline) changes -/
  othersFrame : ∀ j, j ≠ id → s'.sessions.get j = s.sessions.get j
  /-- clock and parameters untouched -/
  clock : s'.time = s.time ∧ s'.params = s.params

/-- What an accepted report does to an INACTIVE-PENDING session. -/
structure LeftPending (s s' : State) (id : Nat) (x : Session) (up down dur : Int) : Prop where
  record : s'.sessions.get id = some { x with up, down, dur }
  status : ∀ x', s'.sessions.get id = some x' → x'.status = x.status ∧ x'.statusAt = x.statusAt
  deadline : ∀ x', s'.sessions.get id = some x' → x'.inactiveAt = x.inactiveAt
  /-- the expiry queue is untouched -/
  queue : s'.sessQ = s.sessQ
  othersFrame : ∀ j, j ≠ id → s'.sessions.get j = s.sessions.get j
  clock : s'.time = s.time ∧ s'.params = s.params

theorem renewed_of_handler {s s' : State} {frm : Addr} {id : Nat} {up down dur : Int} {sig : SigSpec} {x : Session}
    (h : sessUpdate s frm id up down dur sig = .ok s') (hx : s.sessions.get id = some x) (hid : x.id = id)
    (ha : x.status = .StatusActive) : Renewed s s' id x up down dur := by
  obtain ⟨ht, hp, hs, hq⟩ := sessUpdate_active h hx hid ha
  have hrec : s'.sessions.get id = some { x with inactiveAt := s.time + s.params.sessDelay, up, down, dur } := by
    rw [hs, Tbl.get_set_eq]
  refine ⟨hrec, ?_, ?_, ?_, ?_, ?_, ?_, ⟨ht, hp⟩⟩
  · intro x' hx'; rw [hrec] at hx'; cases hx'; exact ⟨ha, rfl⟩
  · intro x' hx'; rw [hrec] at hx'; cases hx'; rfl
  · rw [hq, has_set_unit]; simp
  · intro hne
    rw [hq, has_set_unit, has_erase_unit]
    have : ¬ ((s.time + s.params.sessDelay, id) = (x.inactiveAt, id)) := by
      intro e; exact hne (Prod.mk.inj e).1.symm
    simp [this]
  · intro t j h1 h2
    rw [hq, has_set_unit, has_erase_unit]
    have e1 : ¬ ((x.inactiveAt, id) = (t, j)) := fun e => h1 e.symm
    have e2 : ¬ ((s.time + s.params.sessDelay, id) = (t, j)) := fun e => h2 e.symm
    simp [e1, e2]
  · intro j hj
    rw [hs, Tbl.get_set_ne _ _ (Ne.symm hj)]

theorem leftPending_of_handler {s s' : State} {frm : Addr} {id : Nat} {up down dur : Int} {sig : SigSpec} {x : Session}
    (h : sessUpdate s frm id up down dur sig = .ok s') (hx : s.sessions.get id = some x) (hid : x.id = id)
    (hna : x.status ≠ .StatusActive) : LeftPending s s' id x up down dur := by
  obtain ⟨ht, hp, hs, hq⟩ := sessUpdate_pending h hx hid hna
  have hrec : s'.sessions.get id = some { x with up, down, dur } := by rw [hs, Tbl.get_set_eq]
  refine ⟨hrec, ?_, ?_, hq, ?_, ⟨ht, hp⟩⟩
  · intro x' hx'; rw [hrec] at hx'; cases hx'; exact ⟨rfl, rfl⟩
  · intro x' hx'; rw [hrec] at hx'; cases hx'; rfl
  · intro j hj
    rw [hs, Tbl.get_set_ne _ _ (Ne.symm hj)]

/-- **C04, keep-alive (1).**  If a usage report for an ACTIVE session is accepted then, whatever
byte counts and duration it carries, in the new state the session is still active, its deadline is
the block time plus the session delay in force, its queue entry has been moved accordingly, and
nothing else in the session table or the session queue has changed.
`hkey`: the record is stored under its own id (`KeysOK.sess` / `CountInv.sessions`). -/
theorem report_renews_deadline (s : State) (frm : TextAddr) (id : Nat) (up down dur : Int) (sig : SigSpec) (x : Session)
    (hacc : (deliver s (.sessUpdate frm id up down dur sig)).2 = .accept)
    (hx : s.sessions.get id = some x) (hkey : x.id = id) (ha : x.status = .StatusActive) :
    Renewed s (deliver s (.sessUpdate frm id up down dur sig)).1 id x up down dur := by
  obtain ⟨_, hh⟩ := deliver_accept hacc
  simp only [Msg.handle] at hh
  have R := renewed_of_handler (s := clr s) hh hx hkey ha
  exact ⟨R.record, R.status, R.deadline, R.queueNew, R.queueOld, R.queueFrame, R.othersFrame, R.clock⟩

/-- The instance the seeded bug broke: the report repeats the stored figures. -/
theorem report_renews_deadline_same_figures (s : State) (frm : TextAddr) (id : Nat) (sig : SigSpec) (x : Session)
    (hacc : (deliver s (.sessUpdate frm id x.up x.down x.dur sig)).2 = .accept)
    (hx : s.sessions.get id = some x) (hkey : x.id = id) (ha : x.status = .StatusActive) :
    (deliver s (.sessUpdate frm id x.up x.down x.dur sig)).1.sessions.get id =
      some { x with inactiveAt := s.time + s.params.sessDelay } ∧
    (deliver s (.sessUpdate frm id x.up x.down x.dur sig)).1.sessQ.has (s.time + s.params.sessDelay, id) = true :=
  ⟨(report_renews_deadline s frm id x.up x.down x.dur sig x hacc hx hkey ha).record,
   (report_renews_deadline s frm id x.up x.down x.dur sig x hacc hx hkey ha).queueNew⟩

/-- **C04, keep-alive (2).**  If the session is inactive-pending (not active), an accepted report
changes neither its status nor its deadline nor the expiry queue, and no other session's record. -/
theorem report_leaves_pending_deadline (s : State) (frm : TextAddr) (id : Nat) (up down dur : Int) (sig : SigSpec) (x : Session)
    (hacc : (deliver s (.sessUpdate frm id up down dur sig)).2 = .accept)
    (hx : s.sessions.get id = some x) (hkey : x.id = id) (hp : x.status = .StatusInactivePending) :
    LeftPending s (deliver s (.sessUpdate frm id up down dur sig)).1 id x up down dur := by
  obtain ⟨_, hh⟩ := deliver_accept hacc
  simp only [Msg.handle] at hh
  have L := leftPending_of_handler (s := clr s) hh hx hkey (by rw [hp]; decide)
  exact ⟨L.record, L.status, L.deadline, L.queue, L.othersFrame, L.clock⟩

/-- **C04, keep-alive (3).**  In both cases no other session's record, status or deadline changes,
and no queue entry of another session appears or disappears. -/
theorem report_touches_one_session (s : State) (hkeys : ∀ i x, s.sessions.get i = some x → x.id = i)
    (frm : TextAddr) (id : Nat) (up down dur : Int) (sig : SigSpec)
    (hacc : (deliver s (.sessUpdate frm id up down dur sig)).2 = .accept) :
    (∀ j, j ≠ id → (deliver s (.sessUpdate frm id up down dur sig)).1.sessions.get j = s.sessions.get j) ∧
    (∀ t j, j ≠ id → (deliver s (.sessUpdate frm id up down dur sig)).1.sessQ.has (t, j) = s.sessQ.has (t, j)) := by
  obtain ⟨_, hh⟩ := deliver_accept hacc
  simp only [Msg.handle] at hh
  obtain ⟨x, hx, _⟩ := sessUpdate_guard hh
  have hx' : s.sessions.get id = some x := hx
  have hid := hkeys id x hx'
  by_cases ha : x.status = .StatusActive
  · have R := renewed_of_handler (s := clr s) hh hx hid ha
    refine ⟨R.othersFrame, ?_⟩
    intro t j hj
    exact R.queueFrame t j (fun e => hj (Prod.mk.inj e).2) (fun e => hj (Prod.mk.inj e).2)
  · have L := leftPending_of_handler (s := clr s) hh hx hid ha
    refine ⟨L.othersFrame, ?_⟩
    intro t j _
    rw [L.queue]

/-! ## In reachable states (no side condition) -/

theorem sess_keys_reachable {s : State} (hr : Reachable s) : ∀ i x, s.sessions.get i = some x → x.id = i :=
  fun i x hx => (hr.structInv.count.sessions i x hx).1

theorem report_renews_deadline_reachable {s : State} (hr : Reachable s) (frm : TextAddr) (id : Nat) (up down dur : Int)
    (sig : SigSpec) (x : Session) (hacc : (deliver s (.sessUpdate frm id up down dur sig)).2 = .accept)
    (hx : s.sessions.get id = some x) (ha : x.status = .StatusActive) :
    Renewed s (deliver s (.sessUpdate frm id up down dur sig)).1 id x up down dur :=
  report_renews_deadline s frm id up down dur sig x hacc hx (sess_keys_reachable hr id x hx) ha

theorem report_leaves_pending_deadline_reachable {s : State} (hr : Reachable s) (frm : TextAddr) (id : Nat) (up down dur : Int)
    (sig : SigSpec) (x : Session) (hacc : (deliver s (.sessUpdate frm id up down dur sig)).2 = .accept)
    (hx : s.sessions.get id = some x) (hp : x.status = .StatusInactivePending) :
    LeftPending s (deliver s (.sessUpdate frm id up down dur sig)).1 id x up down dur :=
  report_leaves_pending_deadline s frm id up down dur sig x hacc hx (sess_keys_reachable hr id x hx) hp

theorem report_touches_one_session_reachable {s : State} (hr : Reachable s) (frm : TextAddr) (id : Nat) (up down dur : Int)
    (sig : SigSpec) (hacc : (deliver s (.sessUpdate frm id up down dur sig)).2 = .accept) :
    (∀ j, j ≠ id → (deliver s (.sessUpdate frm id up down dur sig)).1.sessions.get j = s.sessions.get j) ∧
    (∀ t j, j ≠ id → (deliver s (.sessUpdate frm id up down dur sig)).1.sessQ.has (t, j) = s.sessQ.has (t, j)) :=
  report_touches_one_session s (sess_keys_reachable hr) frm id up down dur sig hacc

/-! ## Examples (non-vacuity) on the sample history of C04.lean -/
section Examples

/-- The state of `hist` after the second `begin` (one hour after the session was started): session 1
is active with the deadline it got at its start. -/
def sActive : State := ((runTrace g0.state (hist.take 7)).getLast?).getD g0.state
/-- … and after the owner's `MsgEnd`: session 1 is inactive-pending. -/
def sPending : State := ((runTrace g0.state (hist.take 8)).getLast?).getD g0.state

def xActive : Session := (sActive.sessions.get 1).getD default
def xPending : Session := (sPending.sessions.get 1).getD default

example : xActive.status = .StatusActive ∧ xActive.inactiveAt = 1700007205000000000 ∧
    (xActive.up, xActive.down, xActive.dur) = (0, 0, 0) ∧ sActive.time = 1700003600000000000 := by decide +kernel

/-- A report repeating the stored figures (0, 0, 0) is accepted and re-arms the deadline: the
hypotheses of `report_renews_deadline` are satisfiable, with an old deadline different from the new. -/
example : Renewed sActive (deliver sActive (.sessUpdate (nod 2) 1 0 0 0 .none)).1 1 xActive 0 0 0 :=
  report_renews_deadline sActive (nod 2) 1 0 0 0 .none xActive (by decide +kernel) (by decide +kernel) (by decide +kernel)
    (by decide +kernel)

example : xActive.inactiveAt ≠ sActive.time + sActive.params.sessDelay := by decide +kernel

example : ((deliver sActive (.sessUpdate (nod 2) 1 0 0 0 .none)).1.sessions.get 1).map (·.inactiveAt) = some 1700010800000000000 ∧
    (deliver sActive (.sessUpdate (nod 2) 1 0 0 0 .none)).1.sessQ.keys = [(1700010800000000000, 1)] := by decide +kernel

/-- A report for the pending session is accepted and leaves deadline and queue alone. -/
example : LeftPending sPending (deliver sPending (.sessUpdate (nod 2) 1 5 6 7 .none)).1 1 xPending 5 6 7 :=
  report_leaves_pending_deadline sPending (nod 2) 1 5 6 7 .none xPending (by decide +kernel) (by decide +kernel) (by decide +kernel)
    (by decide +kernel)

example : ((deliver sPending (.sessUpdate (nod 2) 1 5 6 7 .none)).1.sessions.get 1).map (fun x => (x.status, x.inactiveAt, x.up)) =
    (sPending.sessions.get 1).map (fun x => (x.status, x.inactiveAt, 5)) := by decide +kernel

end Examples

end Hub.Props.C04
