import Hub.Lemmas.Bech32
/-
C17 (address part) — account, node and provider addresses convert to text and back without change
for every length from 1 to 255 bytes, and text written for one role is rejected when read as
another role.

All theorems are about the executable model `Hub/SDK/Bech32.lean` of the btcutil bech32 codec, the
SDK's `ConvertAndEncode` / `DecodeAndConvert` (limit 1023), `GetFromBech32`, `VerifyAddressFormat`
and the hub's `…FromBech32` / `String` (validated against the Go functions through
`runBech32Probe`; the `example`s at the end are outputs of the real Go code).
-/
namespace Hub.Props.C17
open Hub.SDK Hub.SDK.Bech32

/-- 1. `ConvertBits(·, 8, 5, true)` then `ConvertBits(·, 5, 8, false)` gives the bytes back: the
padding the encoder adds is exactly what the decoder tolerates (at most 4 bits, all zero). -/
theorem convertBits_roundtrip (bs : List Nat) (hb : ∀ b ∈ bs, b < 256) :
    (convertBits 8 5 true bs).bind (convertBits 5 8 false) = some bs := by
  obtain ⟨syms, hc, _, _, hback⟩ := convertBits_roundtrip_full bs hb
  rw [hc]; exact hback

/-- The same with the intermediate 5-bit data named: it consists of symbols below 32, and there are
`⌈8·n/5⌉` of them. -/
theorem convertBits_roundtrip_syms (bs : List Nat) (hb : ∀ b ∈ bs, b < 256) :
    ∃ syms, convertBits 8 5 true bs = some syms ∧ (∀ s ∈ syms, s < 32) ∧
      5 * syms.length ≤ 8 * bs.length + 4 ∧ convertBits 5 8 false syms = some bs :=
  convertBits_roundtrip_full bs hb

/-- 2. The six symbols `createChecksum` appends make the checksum verify — for every
human-readable part and every data (no range hypothesis is needed in the model). -/
theorem checksum_valid (hrp : List Char) (data : List Nat) :
    verifyChecksum hrp (data ++ createChecksum hrp data) = true :=
  verifyChecksum_createChecksum hrp data

/-- The codec level: decoding an encoded 5-bit string gives back the human-readable part and the
data, for every lower-case printable non-empty human-readable part (it may contain '1'). -/
theorem decode_encode (hrp : List Char) (data : List Nat) (hh : HrpOK hrp) (hd : ∀ x ∈ data, x < 32)
    (hlen : hrp.length + data.length + 7 ≤ 1023) :
    decodeLimit 1023 (encodeChars hrp data) = some (hrp, data) := by
  unfold decodeLimit
  rw [encodeChars_length, if_neg (by omega)]
  exact decodeNoLimit_encodeChars hrp data hh hd

theorem addrToText_toList (r : Role) (bs : Bytes) : (addrToText r bs).toList = addrToChars r bs := by
  unfold addrToText; exact String.toList_ofList

/-- The longest text of a valid address: 8 + 1 + 408 + 6 = 423 characters, far below 1023. -/
theorem text_length_le (r : Role) (bs : Bytes) (h2 : bs.length ≤ 255) :
    (convertAndEncodeChars (prefixChars r) bs).length ≤ 423 := by
  have h := convertAndEncodeChars_length_le (prefixChars r) bs
  have hp := prefixChars_length r
  omega

/-- 3. Every address of 1..255 bytes survives text form, in each role. -/
theorem bech32_roundtrip (r : Role) (bs : Bytes) (h1 : 1 ≤ bs.length) (h2 : bs.length ≤ 255) :
    addrFromText r (addrToText r bs) = some bs := by
  have hne : bs ≠ [] := by intro e; subst e; simp at h1
  unfold addrFromText
  rw [addrToText_toList, addrFromChars_addrToChars r r bs hne]
  have := text_length_le r bs h2
  rw [if_neg (by omega), if_neg (by simp), if_neg (by omega)]

/-- 4. Text written for one role is rejected when read as another role — for all bytes, of any
length (empty bytes are written as the empty text, which every reader rejects). -/
theorem cross_role_rejected (r r' : Role) (hne : r ≠ r') (bs : Bytes) :
    addrFromText r' (addrToText r bs) = none := by
  unfold addrFromText
  rw [addrToText_toList]
  by_cases hb : bs = []
  · subst hb; cases r' <;> rfl
  · rw [addrFromChars_addrToChars r r' bs hb]
    simp [hne]

/-- 5. The text determines the role and the bytes. -/
theorem text_injective (r r' : Role) (bs bs' : Bytes)
    (h1 : 1 ≤ bs.length) (h2 : bs.length ≤ 255) (h1' : 1 ≤ bs'.length) (h2' : bs'.length ≤ 255)
    (h : addrToText r bs = addrToText r' bs') : r = r' ∧ bs = bs' := by
  have hr : r = r' := by
    apply Classical.byContradiction
    intro hne
    have a := cross_role_rejected r r' hne bs
    rw [h, bech32_roundtrip r' bs' h1' h2'] at a
    exact absurd a (by simp)
  subst hr
  refine ⟨rfl, ?_⟩
  have a := bech32_roundtrip r bs h1 h2
  rw [h, bech32_roundtrip r bs' h1' h2'] at a
  exact (Option.some.inj a).symm

/-- 5'. Without the length bound: distinct (role, non-empty bytes) pairs never share a text, even
beyond 255 bytes where the reader rejects the text. -/
theorem text_injective_nonempty (r r' : Role) (bs bs' : Bytes) (hb : bs ≠ []) (hb' : bs' ≠ [])
    (h : addrToText r bs = addrToText r' bs') : r = r' ∧ bs = bs' := by
  have hc : addrToChars r bs = addrToChars r' bs' := by
    rw [← addrToText_toList, ← addrToText_toList, h]
  unfold addrToChars convertAndEncodeChars at hc
  rw [isEmpty_false_of_ne_nil bs hb, isEmpty_false_of_ne_nil bs' hb'] at hc
  obtain ⟨syms, e1, hs, _, back⟩ := convertBits_roundtrip_full (bs.map UInt8.toNat) (bytes_lt bs)
  obtain ⟨syms', e1', hs', _, back'⟩ := convertBits_roundtrip_full (bs'.map UInt8.toNat) (bytes_lt bs')
  simp only [e1, e1', Option.getD_some, Bool.false_eq_true, if_false] at hc
  have d := decodeNoLimit_encodeChars (prefixChars r) syms (prefixChars_ok r) hs
  rw [hc, decodeNoLimit_encodeChars (prefixChars r') syms' (prefixChars_ok r') hs'] at d
  have d' := Option.some.inj d
  have hp : prefixChars r' = prefixChars r := congrArg Prod.fst d'
  have hsy : syms' = syms := congrArg Prod.snd d'
  refine ⟨(prefixChars_inj hp).symm, ?_⟩
  rw [hsy, back] at back'
  have hm := congrArg (List.map UInt8.ofNat) (Option.some.inj back')
  rwa [map_ofNat_toNat, map_ofNat_toNat] at hm

/-- The model's prefixes are the hub's constants. -/
theorem prefixOf_eq (r : Role) : String.ofList (prefixChars r) = prefixOf r := by
  rw [← prefixOf_toList]; exact String.ofList_toList

/-- `addrToText` is `convertAndEncode (prefixOf r)` on non-empty bytes. -/
theorem addrToText_eq (r : Role) (bs : Bytes) (h : bs ≠ []) :
    addrToText r bs = convertAndEncode (prefixOf r) bs := by
  unfold addrToText addrToChars convertAndEncode
  rw [prefixOf_toList, isEmpty_false_of_ne_nil bs h]; rfl

/-! ## Findings, as checked facts about the model (each agrees with the Go code, see the probe)

* the text form is not unique on the reading side: an all-upper-case text is accepted and read as
  the same bytes (`Normalize` lower-cases before anything else);
* `NodeAddressFromBech32` / `ProvAddressFromBech32` trim blanks before decoding,
  `AccAddressFromBech32` only tests the trimmed text for emptiness and rejects a padded text. -/

example : addrFromText .acc "SENT1QQPT7CM6" = some [0x00] := by decide +kernel
example : addrFromText .acc "Sent1qqpt7cm6" = none := by decide +kernel
example : addrFromText .node " sentnode1qql0xtsr\n" = some [0x00] := by decide +kernel
example : addrFromText .prov "\tsentprov1qqshc4qn " = some [0x00] := by decide +kernel
example : addrFromText .acc " sent1qqpt7cm6" = none := by decide +kernel
example : addrFromText .acc "sent1qqpt7cm6 " = none := by decide +kernel
example : addrFromText .node "sent1qqpt7cm6" = none := by decide +kernel
example : addrFromText .acc "sentnode1qql0xtsr" = none := by decide +kernel
example : addrFromText .acc "sent1qqpt7cm7" = none := by decide +kernel
example : addrFromText .acc "" = none := by decide +kernel
example : addrToText .acc [] = "" := by decide +kernel

/-! ## Vectors computed by the Go code (`sdk.AccAddress.String`, `hubtypes.NodeAddress.String`,
`hubtypes.ProvAddress.String` and the three `…FromBech32`) -/

example : addrToText .acc [0x00] = "sent1qqpt7cm6" := by decide +kernel
example : addrFromText .acc "sent1qqpt7cm6" = some [0x00] := by decide +kernel
example : addrToText .acc [0xff] = "sent1luy730e7" := by decide +kernel
example : addrFromText .acc "sent1luy730e7" = some [0xff] := by decide +kernel
example : addrToText .acc [0x00, 0x00, 0x00, 0x00, 0x00, 0x00, 0x00, 0x00, 0x00, 0x00, 0x00, 0x00, 0x00, 0x00, 0x00, 0x00, 0x00, 0x00, 0x00, 0x00] = "sent1qqqqqqqqqqqqqqqqqqqqqqqqqqqqqqqqgckxrj" := by decide +kernel
example : addrFromText .acc "sent1qqqqqqqqqqqqqqqqqqqqqqqqqqqqqqqqgckxrj" = some [0x00, 0x00, 0x00, 0x00, 0x00, 0x00, 0x00, 0x00, 0x00, 0x00, 0x00, 0x00, 0x00, 0x00, 0x00, 0x00, 0x00, 0x00, 0x00, 0x00] := by decide +kernel
example : addrToText .acc [0xb3, 0xfe, 0xe9, 0x23, 0x2f, 0x8a, 0xf2, 0x21, 0x1f, 0x9e, 0xe4, 0x91, 0xc5, 0xb1, 0x0b, 0xec, 0xb5, 0x56, 0x3b, 0xfc, 0x1e, 0x6f, 0x93, 0x42, 0x7e, 0xcb, 0xc8, 0xfe, 0x29, 0x55, 0xe5, 0xcd] = "sent1k0lwjge03tezz8u7ujgutvgtaj64vwlurehexsn7e0y0u224uhxszqwchf" := by decide +kernel
example : addrFromText .acc "sent1k0lwjge03tezz8u7ujgutvgtaj64vwlurehexsn7e0y0u224uhxszqwchf" = some [0xb3, 0xfe, 0xe9, 0x23, 0x2f, 0x8a, 0xf2, 0x21, 0x1f, 0x9e, 0xe4, 0x91, 0xc5, 0xb1, 0x0b, 0xec, 0xb5, 0x56, 0x3b, 0xfc, 0x1e, 0x6f, 0x93, 0x42, 0x7e, 0xcb, 0xc8, 0xfe, 0x29, 0x55, 0xe5, 0xcd] := by decide +kernel
theorem vec255_acc : addrToText .acc (List.replicate 255 0xff) = "sent1llllllllllllllllllllllllllllllllllllllllllllllllllllllllllllllllllllllllllllllllllllllllllllllllllllllllllllllllllllllllllllllllllllllllllllllllllllllllllllllllllllllllllllllllllllllllllllllllllllllllllllllllllllllllllllllllllllllllllllllllllllllllllllllllllllllllllllllllllllllllllllllllllllllllllllllllllllllllllllllllllllllllllllllllllllllllllllllllllllllllllllllllllllllllllllllllllllllllllllllllllllllllyvyyap" := by decide +kernel
example : addrFromText .acc "sent1llllllllllllllllllllllllllllllllllllllllllllllllllllllllllllllllllllllllllllllllllllllllllllllllllllllllllllllllllllllllllllllllllllllllllllllllllllllllllllllllllllllllllllllllllllllllllllllllllllllllllllllllllllllllllllllllllllllllllllllllllllllllllllllllllllllllllllllllllllllllllllllllllllllllllllllllllllllllllllllllllllllllllllllllllllllllllllllllllllllllllllllllllllllllllllllllllllllllllllllllllllllllyvyyap" = some (List.replicate 255 0xff) := by
  rw [← vec255_acc]
  exact bech32_roundtrip .acc (List.replicate 255 0xff) (by rw [List.length_replicate]; omega) (by rw [List.length_replicate]; omega)
example : addrToText .node [0x00] = "sentnode1qql0xtsr" := by decide +kernel
example : addrFromText .node "sentnode1qql0xtsr" = some [0x00] := by decide +kernel
example : addrToText .node [0xff] = "sentnode1lu66fuj8" := by decide +kernel
example : addrFromText .node "sentnode1lu66fuj8" = some [0xff] := by decide +kernel
example : addrToText .node [0x00, 0x00, 0x00, 0x00, 0x00, 0x00, 0x00, 0x00, 0x00, 0x00, 0x00, 0x00, 0x00, 0x00, 0x00, 0x00, 0x00, 0x00, 0x00, 0x00] = "sentnode1qqqqqqqqqqqqqqqqqqqqqqqqqqqqqqqq7whlxy" := by decide +kernel
example : addrFromText .node "sentnode1qqqqqqqqqqqqqqqqqqqqqqqqqqqqqqqq7whlxy" = some [0x00, 0x00, 0x00, 0x00, 0x00, 0x00, 0x00, 0x00, 0x00, 0x00, 0x00, 0x00, 0x00, 0x00, 0x00, 0x00, 0x00, 0x00, 0x00, 0x00] := by decide +kernel
example : addrToText .node [0x2b, 0xa5, 0xeb, 0xdb, 0x4f, 0xcd, 0x29, 0x1e, 0xa9, 0x98, 0xd7, 0xbc, 0xf6, 0x46, 0x99, 0xaf, 0x0e, 0x60, 0x71, 0xe5, 0x2b, 0x4b, 0xbe, 0xd5, 0xb8, 0x7b, 0xe1, 0xca, 0x85, 0x3a, 0x74, 0x5c] = "sentnode19wj7hk60e553a2vc6770v35e4u8xqu099d9ma4dc00su4pf6w3wq40dvuu" := by decide +kernel
example : addrFromText .node "sentnode19wj7hk60e553a2vc6770v35e4u8xqu099d9ma4dc00su4pf6w3wq40dvuu" = some [0x2b, 0xa5, 0xeb, 0xdb, 0x4f, 0xcd, 0x29, 0x1e, 0xa9, 0x98, 0xd7, 0xbc, 0xf6, 0x46, 0x99, 0xaf, 0x0e, 0x60, 0x71, 0xe5, 0x2b, 0x4b, 0xbe, 0xd5, 0xb8, 0x7b, 0xe1, 0xca, 0x85, 0x3a, 0x74, 0x5c] := by decide +kernel
theorem vec255_node : addrToText .node (List.replicate 255 0xff) = "sentnode1llllllllllllllllllllllllllllllllllllllllllllllllllllllllllllllllllllllllllllllllllllllllllllllllllllllllllllllllllllllllllllllllllllllllllllllllllllllllllllllllllllllllllllllllllllllllllllllllllllllllllllllllllllllllllllllllllllllllllllllllllllllllllllllllllllllllllllllllllllllllllllllllllllllllllllllllllllllllllllllllllllllllllllllllllllllllllllllllllllllllllllllllllllllllllllllllllllllllllllllllllllllll4ej737" := by decide +kernel
example : addrFromText .node "sentnode1llllllllllllllllllllllllllllllllllllllllllllllllllllllllllllllllllllllllllllllllllllllllllllllllllllllllllllllllllllllllllllllllllllllllllllllllllllllllllllllllllllllllllllllllllllllllllllllllllllllllllllllllllllllllllllllllllllllllllllllllllllllllllllllllllllllllllllllllllllllllllllllllllllllllllllllllllllllllllllllllllllllllllllllllllllllllllllllllllllllllllllllllllllllllllllllllllllllllllllllllllllllll4ej737" = some (List.replicate 255 0xff) := by
  rw [← vec255_node]
  exact bech32_roundtrip .node (List.replicate 255 0xff) (by rw [List.length_replicate]; omega) (by rw [List.length_replicate]; omega)
example : addrToText .prov [0x00] = "sentprov1qqshc4qn" := by decide +kernel
example : addrFromText .prov "sentprov1qqshc4qn" = some [0x00] := by decide +kernel
example : addrToText .prov [0xff] = "sentprov1lu4zhzzh" := by decide +kernel
example : addrFromText .prov "sentprov1lu4zhzzh" = some [0xff] := by decide +kernel
example : addrToText .prov [0x00, 0x00, 0x00, 0x00, 0x00, 0x00, 0x00, 0x00, 0x00, 0x00, 0x00, 0x00, 0x00, 0x00, 0x00, 0x00, 0x00, 0x00, 0x00, 0x00] = "sentprov1qqqqqqqqqqqqqqqqqqqqqqqqqqqqqqqqq02ac2" := by decide +kernel
example : addrFromText .prov "sentprov1qqqqqqqqqqqqqqqqqqqqqqqqqqqqqqqqq02ac2" = some [0x00, 0x00, 0x00, 0x00, 0x00, 0x00, 0x00, 0x00, 0x00, 0x00, 0x00, 0x00, 0x00, 0x00, 0x00, 0x00, 0x00, 0x00, 0x00, 0x00] := by decide +kernel
example : addrToText .prov [0x9e, 0x31, 0xfe, 0xd3, 0xed, 0x07, 0x1d, 0x78, 0xd8, 0x47, 0x79, 0x02, 0x7b, 0xb6, 0x7b, 0x2f, 0xf4, 0xc6, 0xdb, 0xab, 0xf3, 0x15, 0x71, 0x19, 0xe7, 0x7a, 0x13, 0x5c, 0x65, 0x23, 0x85, 0x2a] = "sentprov1nccla5ldquwh3kz80yp8hdnm9l6vdkat7v2hzx080gf4cefrs54qk28pak" := by decide +kernel
example : addrFromText .prov "sentprov1nccla5ldquwh3kz80yp8hdnm9l6vdkat7v2hzx080gf4cefrs54qk28pak" = some [0x9e, 0x31, 0xfe, 0xd3, 0xed, 0x07, 0x1d, 0x78, 0xd8, 0x47, 0x79, 0x02, 0x7b, 0xb6, 0x7b, 0x2f, 0xf4, 0xc6, 0xdb, 0xab, 0xf3, 0x15, 0x71, 0x19, 0xe7, 0x7a, 0x13, 0x5c, 0x65, 0x23, 0x85, 0x2a] := by decide +kernel
theorem vec255_prov : addrToText .prov (List.replicate 255 0xff) = "sentprov1llllllllllllllllllllllllllllllllllllllllllllllllllllllllllllllllllllllllllllllllllllllllllllllllllllllllllllllllllllllllllllllllllllllllllllllllllllllllllllllllllllllllllllllllllllllllllllllllllllllllllllllllllllllllllllllllllllllllllllllllllllllllllllllllllllllllllllllllllllllllllllllllllllllllllllllllllllllllllllllllllllllllllllllllllllllllllllllllllllllllllllllllllllllllllllllllllllllllllllllllllllllllqqxy48" := by decide +kernel
example : addrFromText .prov "sentprov1llllllllllllllllllllllllllllllllllllllllllllllllllllllllllllllllllllllllllllllllllllllllllllllllllllllllllllllllllllllllllllllllllllllllllllllllllllllllllllllllllllllllllllllllllllllllllllllllllllllllllllllllllllllllllllllllllllllllllllllllllllllllllllllllllllllllllllllllllllllllllllllllllllllllllllllllllllllllllllllllllllllllllllllllllllllllllllllllllllllllllllllllllllllllllllllllllllllllllllllllllllllllqqxy48" = some (List.replicate 255 0xff) := by
  rw [← vec255_prov]
  exact bech32_roundtrip .prov (List.replicate 255 0xff) (by rw [List.length_replicate]; omega) (by rw [List.length_replicate]; omega)

end Hub.Props.C17
