import Hub.Lemmas.LifeSteps
/-
C04 — lifecycle.

"Subscriptions and sessions only ever go active → inactive-pending → removed, and nodes become
inactive only by their own request or by not renewing in time.  At the end of every block no node,
subscription or session remains whose deadline is at or before the block time, and none is demoted
or removed before its deadline unless its owner asked for it (or, for a session, its subscription
stopped being active); the pending period lasts exactly the configured delay.  A removed session is
settled exactly once and an hourly payout is made at most once per due hour and never before it is
due."

Standing facts about the state an operation starts from (`Side`): `CountInv` (C18), `SessIdx` (C09,
session side) and `SubQOK` — the subscription deadline queue has exactly one entry per subscription,
at its deadline (`SubIdx.q` + `Nodup subQ` of C09).  `SessIdx` and `SubQOK` are preserved by every
operation (`step_sessIdx`, `step_subQOK`); `CountInv` preservation is proved in
`Hub/Lemmas/CountSteps.lean` (`step_count`), which cannot be imported here together with
`SessIdxSteps` (both declare `Tbl.has_set`), so whole-history theorems take it as the explicit
hypothesis `hcount`.
-/
namespace Hub.Props.C04
open Hub.Model Hub.SDK
open Hub.Generated (Status)

/-! ## 0. Standing facts -/

/-- What the theorems need of the state an operation starts from. -/
structure Side (s : State) : Prop where
  count : CountInv s
  sessIdx : SessIdx s
  subQ : SubQOK s

/-- `CountInv` is preserved by every operation (instantiate with `Hub.Model.step_count`). -/
def CountPreserved : Prop := ∀ s op s', step s op = some s' → CountInv s → CountInv s'

theorem step_side (hcount : CountPreserved) {s s' : State} {op : Op} (h : step s op = some s') (hs : Side s) : Side s' :=
  ⟨hcount s op s' h hs.count, step_sessIdx h hs.count hs.sessIdx, step_subQOK h hs.count hs.sessIdx hs.subQ⟩

theorem genesis_side (g : Genesis) (hgc : CountInv g.state) : Side g.state :=
  ⟨hgc, genesis_sessIdx g, genesis_subQOK g⟩

/-! ## 1. The lifecycle coupling holds along every history -/

/-- The hypotheses on a history: block times strictly increase and every governance change leaves
the delays around `M` (`0 < sessDelay ≤ M ≤ subDelay`). -/
def HistOK (M : Dur) : State → List Op → Prop
  | _, [] => True
  | s, op :: rest =>
    (∀ t, op = .begin t → s.time < t) ∧ (∀ c, op = .gov c → DelayOK M ((gov s c).getD s)) ∧
    ∀ s', step s op = some s' → HistOK M s' rest

theorem life_all_histories (M : Dur) (hcount : CountPreserved) (ops : List Op) (s : State) (hs : Side s)
    (hi : LifeInv M s) (hh : HistOK M s ops) : ∀ s' ∈ runTrace s ops, LifeInv M s' ∧ Side s' := by
  induction ops generalizing s with
  | nil => intro s' h; simp [runTrace] at h
  | cons op rest ih =>
    intro s' h
    simp only [runTrace] at h
    obtain ⟨ht, hg, hrest⟩ := hh
    cases hst : step s op with
    | none => simp [hst] at h
    | some s1 =>
      simp only [hst, List.mem_cons] at h
      have hs1 := step_side hcount hst hs
      have hg1 : ∀ c, op = .gov c → DelayOK M s1 := by
        intro c hc
        have := hg c hc
        subst hc
        simp only [step, Option.some.injEq] at hst
        rw [← hst]; exact this
      have i1 : LifeInv M s1 :=
        step_life hst hs.count hs.sessIdx hs.subQ (fun t e => Int.le_of_lt (ht t e)) hg1 hi
      rcases h with h | h
      · rw [h]; exact ⟨i1, hs1⟩
      · exact ih s1 hs1 i1 (hrest s1 hst) s' h

theorem addBalance_count (s : State) (b : Addr × Denom × Int) (h : CountInv s) : CountInv (addBalance s b) := by
  unfold addBalance
  split
  · exact h
  · exact ⟨h.plans, h.subs, h.allocs, h.payouts, h.sessions, h.planIdx, h.subIdx, h.sessIdx⟩

/-- `CountInv` of a genesis state (all hub tables empty); proved here so that the genesis theorems
below do not need it as a hypothesis. -/
theorem genesis_countInv (g : Genesis) : CountInv g.state := by
  unfold Genesis.state
  refine foldl_inv CountInv addBalance (fun s b h => addBalance_count s b h) _ _ ?_
  refine ⟨?_, ?_, ?_, ?_, ?_, ⟨?_, ?_⟩, ⟨?_, ?_, ?_, ?_, ?_, ?_, ?_, ?_⟩, ⟨?_, ?_, ?_, ?_, ?_⟩⟩ <;>
    intros <;> simp_all [Genesis.base, Tbl.has]

/-- From a genesis state of the configuration domain whose delays lie around `M`. -/
theorem life_from_genesis (M : Dur) (hcount : CountPreserved) (g : Genesis)
    (h1 : 0 < g.params.sessDelay) (h2 : g.params.sessDelay ≤ M) (h3 : M ≤ g.params.subDelay)
    (ops : List Op) (hh : HistOK M g.state ops) : ∀ s' ∈ runTrace g.state ops, LifeInv M s' ∧ Side s' :=
  fun s' h => life_all_histories M hcount ops g.state (genesis_side g (genesis_countInv g)) (genesis_life g h1 h2 h3) hh s' h

/-- Consequence (the reason for the coupling): whenever the end-of-block session hook settles a
session, the session's subscription exists — `SessionInactiveHook` cannot fail with
"subscription does not exist". -/
theorem session_subscription_exists {M : Dur} {s : State} (hi : LifeInv M s) {i : Nat} {x : Session}
    (hx : s.sessions.get i = some x) : ∃ y, s.subs.get x.sub = some y := hi.sessSub i x hx

/-! ## 2–4. The complete case list for one record across one operation -/

/-- Everything that can happen to the session stored under `i` in one operation. -/
inductive SessCase (s s' : State) (op : Op) (i : Nat) (x : Session) : Prop
  /-- lifecycle fields untouched (a usage report may refresh the deadline of an active session) -/
  | keep (x' : Session) (h' : s'.sessions.get i = some x') (hst : x'.status = x.status) (hat : x'.statusAt = x.statusAt)
      (hdl : x.status ≠ .StatusActive → x'.inactiveAt = x.inactiveAt)
  /-- `MsgEnd` by the session's own account -/
  | endedByOwner (frm : TextAddr) (r : Nat) (hop : op = .tx (.sessEnd frm i r)) (hfrm : frm.bytes = x.addr)
      (ha : x.status = .StatusActive) (h' : s'.sessions.get i = some (x.pend s.time s.params.sessDelay))
  /-- `MsgCancel` of the session's (active) subscription by the subscription's owner -/
  | subCancelled (frm : TextAddr) (y : Sub) (hop : op = .tx (.subCancel frm x.sub)) (hy : s.subs.get x.sub = some y)
      (hya : y.status = .StatusActive) (hfrm : frm.bytes = y.addr) (ha : x.status = .StatusActive)
      (hy' : s'.subs.get x.sub = some (y.pend s.time s.params.subDelay))
      (h' : s'.sessions.get i = some (x.pend s.time s.params.sessDelay))
  /-- end of block, the session's own deadline has passed -/
  | expired (hop : op = .endB) (hdue : x.inactiveAt ≤ s.time) (ha : x.status = .StatusActive)
      (h' : s'.sessions.get i = some (x.pend s.time s.params.sessDelay))
  /-- end of block, the deadline of the session's active subscription has passed -/
  | subExpired (y : Sub) (hop : op = .endB) (hnd : s.time < x.inactiveAt) (ha : x.status = .StatusActive)
      (hy : s.subs.get x.sub = some y) (hya : y.status = .StatusActive) (hyd : y.inactiveAt ≤ s.time)
      (hy' : s'.subs.get x.sub = some (y.pend s.time s.params.subDelay))
      (h' : s'.sessions.get i = some (x.pend s.time s.params.sessDelay))
  /-- end of block, a session that is not active any more and whose deadline has passed is removed -/
  | removed (hop : op = .endB) (hdue : x.inactiveAt ≤ s.time) (hna : x.status ≠ .StatusActive)
      (h' : s'.sessions.get i = none)

/-- Everything that can happen to the subscription stored under `j` in one operation. -/
inductive SubCase (s s' : State) (op : Op) (j : Nat) (y : Sub) : Prop
  | keep (h' : s'.subs.get j = some y)
  /-- `MsgCancel` by the owner -/
  | cancelled (frm : TextAddr) (hop : op = .tx (.subCancel frm j)) (hfrm : frm.bytes = y.addr)
      (ha : y.status = .StatusActive) (h' : s'.subs.get j = some (y.pend s.time s.params.subDelay))
  /-- end of block, deadline passed -/
  | expired (hop : op = .endB) (hdue : y.inactiveAt ≤ s.time) (ha : y.status = .StatusActive)
      (h' : s'.subs.get j = some (y.pend s.time s.params.subDelay))
  /-- end of block, a subscription that is not active any more and whose deadline has passed is removed -/
  | removed (hop : op = .endB) (hdue : y.inactiveAt ≤ s.time) (hna : y.status ≠ .StatusActive)
      (h' : s'.subs.get j = none)

theorem begin_frame {s s' : State} {t : Time} (h : beginBlock s t = .ok s') :
    s'.sessions = s.sessions ∧ s'.subs = s.subs ∧ s'.params = s.params ∧ s'.time = t := by
  have e := beginBlock_lview h
  exact ⟨congrArg LView.sessions e, congrArg LView.subs e, congrArg LView.params e, congrArg LView.time e⟩

theorem gov_frame (s : State) (c : ParamChange) :
    ((gov s c).getD s).sessions = s.sessions ∧ ((gov s c).getD s).subs = s.subs ∧ ((gov s c).getD s).time = s.time := by
  cases hg : gov s c with
  | none => exact ⟨rfl, rfl, rfl⟩
  | some s' =>
    have e := gov_lview hg
    exact ⟨congrArg LView.sessions e, congrArg LView.subs e, congrArg LView.time e⟩

/-- **Sessions**: the case list is complete. -/
theorem sess_cases {s s' : State} {op : Op} (h : step s op = some s') (hs : Side s) {i : Nat} {x : Session}
    (hx : s.sessions.get i = some x) : SessCase s s' op i x := by
  cases op with
  | tx m =>
    simp only [step, Option.some.injEq] at h
    subst h
    obtain ⟨x', hx', hr⟩ := (deliver_txSpec s m hs.count hs.sessIdx).sess i x hx
    rcases hr with ⟨h1, h2, h3⟩ | ⟨ha, rfl, ⟨frm, r, rfl, hf⟩ | ⟨frm, y, rfl, hy, hya, hf, hy'⟩⟩
    · exact .keep x' hx' h1 h2 h3
    · exact .endedByOwner frm r rfl hf ha hx'
    · exact .subCancelled frm y rfl hy hya hf ha hy' hx'
  | begin t =>
    simp only [step] at h
    split at h
    · rename_i s1 hb
      simp only [Option.some.injEq] at h; subst h
      exact .keep x (by rw [(begin_frame hb).1]; exact hx) rfl rfl (fun _ => rfl)
    · contradiction
  | gov c =>
    simp only [step, Option.some.injEq] at h
    subst h
    exact .keep x (by rw [(gov_frame s c).1]; exact hx) rfl rfl (fun _ => rfl)
  | endB =>
    simp only [step] at h
    split at h
    · rename_i s1 hb
      simp only [Option.some.injEq] at h; subst h
      have sp := endBlock_spec hb hs.count hs.sessIdx hs.subQ
      by_cases hd : x.inactiveAt ≤ s.time
      · have e := sp.sessDue i x hx hd
        by_cases ha : x.status = .StatusActive
        · simp only [expireSess, ha, if_true] at e
          exact .expired rfl hd ha e
        · simp only [expireSess, ha, if_false] at e
          exact .removed rfl hd ha e
      · have hd' : s.time < x.inactiveAt := Int.lt_of_not_ge hd
        by_cases hc : x.status = .StatusActive ∧ ∃ y, s.subs.get x.sub = some y ∧ y.status = .StatusActive ∧ y.inactiveAt ≤ s.time
        · obtain ⟨ha, y, hy, hya, hyd⟩ := hc
          have hy' := sp.subDue x.sub y hy hyd
          simp only [expireSub, hya, if_true] at hy'
          exact .subExpired y rfl hd' ha hy hya hyd hy' (sp.sessCut i x y hx hd' ha hy hya hyd)
        · exact .keep x (sp.sessKeep i x hx hd' hc) rfl rfl (fun _ => rfl)
    · contradiction

/-- **Subscriptions**: the case list is complete. -/
theorem sub_cases {s s' : State} {op : Op} (h : step s op = some s') (hs : Side s) {j : Nat} {y : Sub}
    (hy : s.subs.get j = some y) : SubCase s s' op j y := by
  cases op with
  | tx m =>
    simp only [step, Option.some.injEq] at h
    subst h
    obtain ⟨y', hy', hr⟩ := (deliver_txSpec s m hs.count hs.sessIdx).subs j y hy
    rcases hr with rfl | ⟨ha, rfl, frm, rfl, hf⟩
    · exact .keep hy'
    · exact .cancelled frm rfl hf ha hy'
  | begin t =>
    simp only [step] at h
    split at h
    · rename_i s1 hb
      simp only [Option.some.injEq] at h; subst h
      exact .keep (by rw [(begin_frame hb).2.1]; exact hy)
    · contradiction
  | gov c =>
    simp only [step, Option.some.injEq] at h
    subst h
    exact .keep (by rw [(gov_frame s c).2.1]; exact hy)
  | endB =>
    simp only [step] at h
    split at h
    · rename_i s1 hb
      simp only [Option.some.injEq] at h; subst h
      have sp := endBlock_spec hb hs.count hs.sessIdx hs.subQ
      by_cases hd : y.inactiveAt ≤ s.time
      · have e := sp.subDue j y hy hd
        by_cases ha : y.status = .StatusActive
        · simp only [expireSub, ha, if_true] at e
          exact .expired rfl hd ha e
        · simp only [expireSub, ha, if_false] at e
          exact .removed rfl hd ha e
      · exact .keep (sp.subKeep j y hy (Int.lt_of_not_ge hd))
    · contradiction

/-- Nothing appears except a new active session under the next id by `MsgStart`, or a new active
subscription under the next id by a subscribe message. -/
theorem created_only_active {s s' : State} {op : Op} (h : step s op = some s') (hs : Side s) :
    (∀ i x', s.sessions.get i = none → s'.sessions.get i = some x' →
      i = s.sessCount.getD 0 + 1 ∧ x'.status = .StatusActive ∧ x'.statusAt = s.time ∧
      x'.inactiveAt = s.time + s.params.sessDelay ∧ ∃ frm id node, op = .tx (.sessStart frm id node)) ∧
    (∀ j y', s.subs.get j = none → s'.subs.get j = some y' →
      j = s.subCount.getD 0 + 1 ∧ y'.status = .StatusActive ∧ y'.statusAt = s.time ∧ ∃ m, op = .tx m) := by
  cases op with
  | tx m =>
    simp only [step, Option.some.injEq] at h
    subst h
    have sp := deliver_txSpec s m hs.count hs.sessIdx
    refine ⟨?_, ?_⟩
    · intro i x' h0 h1
      obtain ⟨a, b, c, d, frm, id, node, e⟩ := sp.newSess i x' h0 h1
      exact ⟨a, b, c, d, frm, id, node, by rw [e]⟩
    · intro j y' h0 h1
      obtain ⟨a, b, c⟩ := sp.newSub j y' h0 h1
      exact ⟨a, b, c, m, rfl⟩
  | begin t =>
    simp only [step] at h
    split at h
    · rename_i s1 hb
      simp only [Option.some.injEq] at h; subst h
      obtain ⟨e1, e2, _, _⟩ := begin_frame hb
      refine ⟨?_, ?_⟩
      · intro i x' h0 h1; rw [e1, h0] at h1; simp at h1
      · intro j y' h0 h1; rw [e2, h0] at h1; simp at h1
    · contradiction
  | gov c =>
    simp only [step, Option.some.injEq] at h
    subst h
    obtain ⟨e1, e2, _⟩ := gov_frame s c
    refine ⟨?_, ?_⟩
    · intro i x' h0 h1; rw [e1, h0] at h1; simp at h1
    · intro j y' h0 h1; rw [e2, h0] at h1; simp at h1
  | endB =>
    simp only [step] at h
    split at h
    · rename_i s1 hb
      simp only [Option.some.injEq] at h; subst h
      have sp := endBlock_spec hb hs.count hs.sessIdx hs.subQ
      refine ⟨?_, ?_⟩
      · intro i x' h0 h1; rw [sp.sessNone i h0] at h1; simp at h1
      · intro j y' h0 h1; rw [sp.subNone j h0] at h1; simp at h1
    · contradiction

theorem pend_status_sess (x : Session) (t : Time) (d : Dur) : (x.pend t d).status = .StatusInactivePending := rfl
theorem pend_status_sub (y : Sub) (t : Time) (d : Dur) : (y.pend t d).status = .StatusInactivePending := rfl

/-! ### 2. `status_monotone`, `removed_only_when_pending` -/

/-- A record present before and after an operation keeps its status or goes active → pending. -/
theorem status_monotone {s s' : State} {op : Op} (h : step s op = some s') (hs : Side s) :
    (∀ i x x', s.sessions.get i = some x → s'.sessions.get i = some x' →
      x'.status = x.status ∨ (x.status = .StatusActive ∧ x'.status = .StatusInactivePending)) ∧
    (∀ j y y', s.subs.get j = some y → s'.subs.get j = some y' →
      y'.status = y.status ∨ (y.status = .StatusActive ∧ y'.status = .StatusInactivePending)) := by
  refine ⟨?_, ?_⟩
  · intro i x x' hx hx'
    cases sess_cases h hs hx with
    | keep x'' h' hst _ _ => rw [hx'] at h'; simp only [Option.some.injEq] at h'; rw [h']; exact Or.inl hst
    | endedByOwner _ _ _ _ ha h' => rw [hx'] at h'; simp only [Option.some.injEq] at h'; rw [h']; exact Or.inr ⟨ha, rfl⟩
    | subCancelled _ _ _ _ _ _ ha _ h' => rw [hx'] at h'; simp only [Option.some.injEq] at h'; rw [h']; exact Or.inr ⟨ha, rfl⟩
    | expired _ _ ha h' => rw [hx'] at h'; simp only [Option.some.injEq] at h'; rw [h']; exact Or.inr ⟨ha, rfl⟩
    | subExpired _ _ _ ha _ _ _ _ h' => rw [hx'] at h'; simp only [Option.some.injEq] at h'; rw [h']; exact Or.inr ⟨ha, rfl⟩
    | removed _ _ _ h' => rw [hx'] at h'; simp at h'
  · intro j y y' hy hy'
    cases sub_cases h hs hy with
    | keep h' => rw [hy'] at h'; simp only [Option.some.injEq] at h'; rw [h']; exact Or.inl rfl
    | cancelled _ _ _ ha h' => rw [hy'] at h'; simp only [Option.some.injEq] at h'; rw [h']; exact Or.inr ⟨ha, rfl⟩
    | expired _ _ ha h' => rw [hy'] at h'; simp only [Option.some.injEq] at h'; rw [h']; exact Or.inr ⟨ha, rfl⟩
    | removed _ _ _ h' => rw [hy'] at h'; simp at h'

/-- A record disappears only at the end of a block, when it is not active any more and its deadline
has passed. -/
theorem removed_only_when_pending {s s' : State} {op : Op} (h : step s op = some s') (hs : Side s) :
    (∀ i x, s.sessions.get i = some x → s'.sessions.get i = none →
      op = .endB ∧ x.status ≠ .StatusActive ∧ x.inactiveAt ≤ s.time) ∧
    (∀ j y, s.subs.get j = some y → s'.subs.get j = none →
      op = .endB ∧ y.status ≠ .StatusActive ∧ y.inactiveAt ≤ s.time) := by
  refine ⟨?_, ?_⟩
  · intro i x hx hx'
    cases sess_cases h hs hx with
    | keep x'' h' _ _ _ => rw [hx'] at h'; simp at h'
    | endedByOwner _ _ _ _ _ h' => rw [hx'] at h'; simp at h'
    | subCancelled _ _ _ _ _ _ _ _ h' => rw [hx'] at h'; simp at h'
    | expired _ _ _ h' => rw [hx'] at h'; simp at h'
    | subExpired _ _ _ _ _ _ _ _ h' => rw [hx'] at h'; simp at h'
    | removed hop hdue hna _ => exact ⟨hop, hna, hdue⟩
  · intro j y hy hy'
    cases sub_cases h hs hy with
    | keep h' => rw [hy'] at h'; simp at h'
    | cancelled _ _ _ _ h' => rw [hy'] at h'; simp at h'
    | expired _ _ _ h' => rw [hy'] at h'; simp at h'
    | removed hop hdue hna _ => exact ⟨hop, hna, hdue⟩

/-- With the coupling invariant the statuses are exactly the three of the property: a removed record
was inactive-pending. -/
theorem removed_was_pending {M : Dur} {s s' : State} {op : Op} (h : step s op = some s') (hs : Side s) (hi : LifeInv M s) :
    (∀ i x, s.sessions.get i = some x → s'.sessions.get i = none → x.status = .StatusInactivePending) ∧
    (∀ j y, s.subs.get j = some y → s'.subs.get j = none → y.status = .StatusInactivePending) := by
  obtain ⟨r1, r2⟩ := removed_only_when_pending h hs
  refine ⟨?_, ?_⟩
  · intro i x hx hx'
    rcases hi.sessStatus i x hx with ha | hp
    · exact absurd ha (r1 i x hx hx').2.1
    · exact hp
  · intro j y hy hy'
    rcases hi.subStatus j y hy with ha | hp
    · exact absurd ha (r2 j y hy hy').2.1
    · exact hp

/-! ### 3. `never_early` -/

/-- A session leaves `active` only: by `MsgEnd` of its own account; by `MsgCancel` of its
subscription by the subscription's owner (the subscription leaves `active` in the same step); at the
end of a block when its own deadline has passed; or at the end of a block when its subscription's
deadline has passed (the subscription leaves `active` in the same step). -/
theorem session_never_early {s s' : State} {op : Op} (h : step s op = some s') (hs : Side s) {i : Nat} {x x' : Session}
    (hx : s.sessions.get i = some x) (hx' : s'.sessions.get i = some x') (ha : x.status = .StatusActive)
    (hna : x'.status ≠ .StatusActive) :
    (∃ frm r, op = .tx (.sessEnd frm i r) ∧ frm.bytes = x.addr) ∨
    (∃ frm y y', op = .tx (.subCancel frm x.sub) ∧ s.subs.get x.sub = some y ∧ y.status = .StatusActive ∧ frm.bytes = y.addr ∧
      s'.subs.get x.sub = some y' ∧ y'.status = .StatusInactivePending) ∨
    (op = .endB ∧ x.inactiveAt ≤ s.time) ∨
    (op = .endB ∧ ∃ y y', s.subs.get x.sub = some y ∧ y.status = .StatusActive ∧ y.inactiveAt ≤ s.time ∧
      s'.subs.get x.sub = some y' ∧ y'.status = .StatusInactivePending) := by
  cases sess_cases h hs hx with
  | keep x'' h' hst _ _ =>
    rw [hx'] at h'; simp only [Option.some.injEq] at h'; subst h'
    rw [hst] at hna; exact absurd ha hna
  | endedByOwner frm r hop hfrm _ _ => exact Or.inl ⟨frm, r, hop, hfrm⟩
  | subCancelled frm y hop hy hya hfrm _ hy' _ => exact Or.inr (Or.inl ⟨frm, y, _, hop, hy, hya, hfrm, hy', rfl⟩)
  | expired hop hdue _ _ => exact Or.inr (Or.inr (Or.inl ⟨hop, hdue⟩))
  | subExpired y hop _ _ hy hya hyd hy' _ => exact Or.inr (Or.inr (Or.inr ⟨hop, y, _, hy, hya, hyd, hy', rfl⟩))
  | removed _ _ _ h' => rw [hx'] at h'; simp at h'

/-- A session is removed only at the end of a block, with its (pending) deadline passed. -/
theorem session_removed_only_when_due {s s' : State} {op : Op} (h : step s op = some s') (hs : Side s) {i : Nat} {x : Session}
    (hx : s.sessions.get i = some x) (hx' : s'.sessions.get i = none) :
    op = .endB ∧ x.status ≠ .StatusActive ∧ x.inactiveAt ≤ s.time :=
  (removed_only_when_pending h hs).1 i x hx hx'

/-- A subscription leaves `active` only by `MsgCancel` of its owner or at the end of a block when
its deadline has passed. -/
theorem sub_never_early {s s' : State} {op : Op} (h : step s op = some s') (hs : Side s) {j : Nat} {y y' : Sub}
    (hy : s.subs.get j = some y) (hy' : s'.subs.get j = some y') (ha : y.status = .StatusActive)
    (hna : y'.status ≠ .StatusActive) :
    (∃ frm, op = .tx (.subCancel frm j) ∧ frm.bytes = y.addr) ∨ (op = .endB ∧ y.inactiveAt ≤ s.time) := by
  cases sub_cases h hs hy with
  | keep h' =>
    rw [hy'] at h'; simp only [Option.some.injEq] at h'; subst h'
    exact absurd ha hna
  | cancelled frm hop hfrm _ _ => exact Or.inl ⟨frm, hop, hfrm⟩
  | expired hop hdue _ _ => exact Or.inr ⟨hop, hdue⟩
  | removed _ _ _ h' => rw [hy'] at h'; simp at h'

/-- A subscription is removed only at the end of a block, with its (pending) deadline passed. -/
theorem sub_removed_only_when_due {s s' : State} {op : Op} (h : step s op = some s') (hs : Side s) {j : Nat} {y : Sub}
    (hy : s.subs.get j = some y) (hy' : s'.subs.get j = none) :
    op = .endB ∧ y.status ≠ .StatusActive ∧ y.inactiveAt ≤ s.time :=
  (removed_only_when_pending h hs).2 j y hy hy'

/-! ### 4. `pending_exact` -/

/-- When a session goes pending, its new record is the old one with status inactive-pending,
`statusAt` the block time and deadline block time + the session delay in force. -/
theorem pending_exact_session {s s' : State} {op : Op} (h : step s op = some s') (hs : Side s) {i : Nat} {x x' : Session}
    (hx : s.sessions.get i = some x) (hx' : s'.sessions.get i = some x') (ha : x.status = .StatusActive)
    (hna : x'.status ≠ .StatusActive) :
    x' = x.pend s.time s.params.sessDelay ∧ x'.status = .StatusInactivePending ∧ x'.statusAt = s.time ∧
    x'.inactiveAt = s.time + s.params.sessDelay := by
  have key : x' = x.pend s.time s.params.sessDelay := by
    cases sess_cases h hs hx with
    | keep x'' h' hst _ _ =>
      rw [hx'] at h'; simp only [Option.some.injEq] at h'; subst h'
      rw [hst] at hna; exact absurd ha hna
    | endedByOwner _ _ _ _ _ h' => rw [hx'] at h'; exact Option.some.inj h'
    | subCancelled _ _ _ _ _ _ _ _ h' => rw [hx'] at h'; exact Option.some.inj h'
    | expired _ _ _ h' => rw [hx'] at h'; exact Option.some.inj h'
    | subExpired _ _ _ _ _ _ _ _ h' => rw [hx'] at h'; exact Option.some.inj h'
    | removed _ _ _ h' => rw [hx'] at h'; simp at h'
  rw [key]; exact ⟨rfl, rfl, rfl, rfl⟩

theorem pending_exact_sub {s s' : State} {op : Op} (h : step s op = some s') (hs : Side s) {j : Nat} {y y' : Sub}
    (hy : s.subs.get j = some y) (hy' : s'.subs.get j = some y') (ha : y.status = .StatusActive)
    (hna : y'.status ≠ .StatusActive) :
    y' = y.pend s.time s.params.subDelay ∧ y'.status = .StatusInactivePending ∧ y'.statusAt = s.time ∧
    y'.inactiveAt = s.time + s.params.subDelay := by
  have key : y' = y.pend s.time s.params.subDelay := by
    cases sub_cases h hs hy with
    | keep h' =>
      rw [hy'] at h'; simp only [Option.some.injEq] at h'; subst h'
      exact absurd ha hna
    | cancelled _ _ _ _ h' => rw [hy'] at h'; exact Option.some.inj h'
    | expired _ _ _ h' => rw [hy'] at h'; exact Option.some.inj h'
    | removed _ _ _ h' => rw [hy'] at h'; simp at h'
  rw [key]; exact ⟨rfl, rfl, rfl, rfl⟩

/-- Once pending, a record's deadline and `statusAt` never change again while it exists: the pending
period is exactly the delay that was in force when it started. -/
theorem pending_frozen {s s' : State} {op : Op} (h : step s op = some s') (hs : Side s) :
    (∀ i x x', s.sessions.get i = some x → s'.sessions.get i = some x' → x.status ≠ .StatusActive →
      x'.status = x.status ∧ x'.inactiveAt = x.inactiveAt ∧ x'.statusAt = x.statusAt) ∧
    (∀ j y y', s.subs.get j = some y → s'.subs.get j = some y' → y.status ≠ .StatusActive → y' = y) := by
  refine ⟨?_, ?_⟩
  · intro i x x' hx hx' hna
    cases sess_cases h hs hx with
    | keep x'' h' hst hat hdl =>
      rw [hx'] at h'; simp only [Option.some.injEq] at h'; subst h'
      exact ⟨hst, hdl hna, hat⟩
    | endedByOwner _ _ _ _ ha _ => exact absurd ha hna
    | subCancelled _ _ _ _ _ _ ha _ _ => exact absurd ha hna
    | expired _ _ ha _ => exact absurd ha hna
    | subExpired _ _ _ ha _ _ _ _ _ => exact absurd ha hna
    | removed _ _ _ h' => rw [hx'] at h'; simp at h'
  · intro j y y' hy hy' hna
    cases sub_cases h hs hy with
    | keep h' => rw [hy'] at h'; exact (Option.some.inj h')
    | cancelled _ _ _ ha _ => exact absurd ha hna
    | expired _ _ ha _ => exact absurd ha hna
    | removed _ _ _ h' => rw [hy'] at h'; simp at h'

/-! ### 5. `timely`: nothing overdue survives the end of a block -/

theorem sess_after_endBlock {s s' : State} (sp : EndSpec s s') (hd : 0 < s.params.sessDelay) :
    ∀ i x', s'.sessions.get i = some x' → s.time < x'.inactiveAt := by
  intro i x' hx'
  cases hg : s.sessions.get i with
  | none => rw [sp.sessNone i hg] at hx'; simp at hx'
  | some x =>
    have pe : (x.pend s.time s.params.sessDelay).inactiveAt = s.time + s.params.sessDelay := rfl
    by_cases hdue : x.inactiveAt ≤ s.time
    · rw [sp.sessDue i x hg hdue] at hx'
      simp only [expireSess] at hx'
      split_ifs at hx'
      simp only [Option.some.injEq] at hx'
      rw [← hx', pe]; tomega
    · have hnd : s.time < x.inactiveAt := Int.lt_of_not_ge hdue
      by_cases hc : x.status = .StatusActive ∧ ∃ y, s.subs.get x.sub = some y ∧ y.status = .StatusActive ∧ y.inactiveAt ≤ s.time
      · obtain ⟨ha, y, hy, hya, hyd⟩ := hc
        rw [sp.sessCut i x y hg hnd ha hy hya hyd] at hx'
        simp only [Option.some.injEq] at hx'
        rw [← hx', pe]; tomega
      · rw [sp.sessKeep i x hg hnd hc] at hx'
        simp only [Option.some.injEq] at hx'
        rw [← hx']; exact hnd

theorem sub_after_endBlock {s s' : State} (sp : EndSpec s s') (hd : 0 < s.params.subDelay) :
    ∀ j y', s'.subs.get j = some y' → s.time < y'.inactiveAt := by
  intro j y' hy'
  cases hg : s.subs.get j with
  | none => rw [sp.subNone j hg] at hy'; simp at hy'
  | some y =>
    have pe : (y.pend s.time s.params.subDelay).inactiveAt = s.time + s.params.subDelay := rfl
    by_cases hdue : y.inactiveAt ≤ s.time
    · rw [sp.subDue j y hg hdue] at hy'
      simp only [expireSub] at hy'
      split_ifs at hy'
      simp only [Option.some.injEq] at hy'
      rw [← hy', pe]; tomega
    · rw [sp.subKeep j y hg (Int.lt_of_not_ge hdue)] at hy'
      simp only [Option.some.injEq] at hy'
      rw [← hy']; exact Int.lt_of_not_ge hdue

/-- After `EndBlock` every entry of the session deadline queue, and every session, lies strictly
after the block time. -/
theorem timely_sessions {s s' : State} (h : endBlock s = .ok s') (hs : Side s) (hd : 0 < s.params.sessDelay) :
    (∀ t i, s'.sessQ.has (t, i) = true → s.time < t) ∧ (∀ i x, s'.sessions.get i = some x → s.time < x.inactiveAt) := by
  have sp := endBlock_spec h hs.count hs.sessIdx hs.subQ
  have hi' := endBlock_sessIdx h hs.count hs.sessIdx
  refine ⟨?_, sess_after_endBlock sp hd⟩
  intro t i hq
  obtain ⟨x, hx, hxt⟩ := (hi'.q t i).mp hq
  rw [← hxt]; exact sess_after_endBlock sp hd i x hx

/-- After `EndBlock` every entry of the subscription deadline queue, and every subscription, lies
strictly after the block time. -/
theorem timely_subs {s s' : State} (h : endBlock s = .ok s') (hs : Side s) (hd : 0 < s.params.subDelay) :
    (∀ t j, s'.subQ.has (t, j) = true → s.time < t) ∧ (∀ j y, s'.subs.get j = some y → s.time < y.inactiveAt) := by
  have sp := endBlock_spec h hs.count hs.sessIdx hs.subQ
  have hq' := endBlock_subQOK h hs.count hs.sessIdx hs.subQ
  refine ⟨?_, sub_after_endBlock sp hd⟩
  intro t j hq
  obtain ⟨y, hy, hyt⟩ := (hq'.q t j).mp hq
  rw [← hyt]; exact sub_after_endBlock sp hd j y hy

/-! ### nodes (hypotheses: `RecInv`, `NodeIdx` of the state the operation starts from; both are
preserved by every operation — `Hub.Model.step_rec`, `Hub.Model.step_idx`) -/

/-- Everything that can happen to an active node in one operation. -/
inductive NodeCase (s s' : State) (op : Op) (a : Addr) (n : Node) : Prop
  /-- still active, same deadline / status / `statusAt` (prices and URL may change) -/
  | keep (n' : Node) (h' : s'.nodeActive.get a = some n') (hl : nlife n' = nlife n)
  /-- the node's own `MsgUpdateStatus` -/
  | ownRequest (frm : TextAddr) (st : Int) (hop : op = .tx (.nodeStatus frm st)) (hfrm : frm.bytes = a)
  /-- end of block, the node did not renew in time -/
  | expired (n' : Node) (hop : op = .endB) (hdue : n.inactiveAt ≤ s.time) (h' : s'.nodeActive.get a = none)
      (hi' : s'.nodeInactive.get a = some n') (hst : n'.status = .StatusInactive) (hat : n'.statusAt = s.time)

theorem node_cases {s s' : State} {op : Op} (h : step s op = some s') (hr : RecInv s) (hn : NodeIdx s) {a : Addr} {n : Node}
    (ha : s.nodeActive.get a = some n) : NodeCase s s' op a n := by
  have hi := NodeOK.of hr hn
  cases op with
  | tx m =>
    simp only [step, Option.some.injEq] at h
    subst h
    rcases deliver_nodeTx s m hi ha with ⟨n', hn', hl⟩ | ⟨frm, st, rfl, hf⟩
    · exact .keep n' hn' hl
    · exact .ownRequest frm st rfl hf
  | begin t =>
    simp only [step] at h
    split at h
    · rename_i s1 hb
      simp only [Option.some.injEq] at h; subst h
      have e : s1.nodeActive = s.nodeActive := congrArg NQView.nodeActive (beginBlock_nqview hb)
      exact .keep n (by rw [e]; exact ha) rfl
    · contradiction
  | gov c =>
    simp only [step, Option.some.injEq] at h
    subst h
    have e : ((gov s c).getD s).nodeActive = s.nodeActive := congrArg NQView.nodeActive (gov_nqview s c)
    exact .keep n (by rw [e]; exact ha) rfl
  | endB =>
    simp only [step] at h
    split at h
    · rename_i s1 hb
      simp only [Option.some.injEq] at h; subst h
      have sp := endBlock_nodeSpec hb hi
      by_cases hd : n.inactiveAt ≤ s.time
      · obtain ⟨h1, n', h2, h3, _, h5⟩ := sp.expired a n ha hd
        exact .expired n' rfl hd h1 h2 h5 h3
      · obtain ⟨n', h1, h2⟩ := sp.kept a n ha (Int.lt_of_not_ge hd)
        exact .keep n' h1 h2
    · contradiction

/-- A node stops being active only by its own request or, at the end of a block, by not having
renewed before its deadline. -/
theorem node_never_early {s s' : State} {op : Op} (h : step s op = some s') (hr : RecInv s) (hn : NodeIdx s) {a : Addr}
    {n : Node} (ha : s.nodeActive.get a = some n) (ha' : s'.nodeActive.get a = none) :
    (∃ frm st, op = .tx (.nodeStatus frm st) ∧ frm.bytes = a) ∨ (op = .endB ∧ n.inactiveAt ≤ s.time) := by
  cases node_cases h hr hn ha with
  | keep n' h' _ => rw [ha'] at h'; simp at h'
  | ownRequest frm st hop hfrm => exact Or.inl ⟨frm, st, hop, hfrm⟩
  | expired _ hop hdue _ _ _ _ => exact Or.inr ⟨hop, hdue⟩

/-- While a node stays active, only its own status message or (not shown here: a status message
re-activating it) changes its deadline; in particular no other party can shorten it. -/
theorem node_deadline_kept {s s' : State} {op : Op} (h : step s op = some s') (hr : RecInv s) (hn : NodeIdx s) {a : Addr}
    {n n' : Node} (ha : s.nodeActive.get a = some n) (ha' : s'.nodeActive.get a = some n')
    (hno : ∀ frm st, op = .tx (.nodeStatus frm st) → frm.bytes ≠ a) :
    n'.inactiveAt = n.inactiveAt ∧ n'.status = n.status ∧ n'.statusAt = n.statusAt := by
  cases node_cases h hr hn ha with
  | keep n'' h' hl =>
    rw [ha'] at h'; simp only [Option.some.injEq] at h'; subst h'
    obtain ⟨_, e2, e3, e4⟩ := nlife_eq hl
    exact ⟨e2, e3, e4⟩
  | ownRequest frm st hop hfrm => exact absurd hfrm (hno frm st hop)
  | expired _ _ _ h' _ _ _ => rw [ha'] at h'; simp at h'

/-- After `EndBlock` every entry of the node deadline queue, and every active node, lies strictly
after the block time. -/
theorem timely_nodes {s s' : State} (h : endBlock s = .ok s') (hr : RecInv s) (hn : NodeIdx s) :
    (∀ t a, s'.nodeQ.has (t, a) = true → s.time < t) ∧ (∀ a n, s'.nodeActive.get a = some n → s.time < n.inactiveAt) := by
  have sp := endBlock_nodeSpec h (NodeOK.of hr hn)
  refine ⟨sp.timely, ?_⟩
  intro a n ha
  exact sp.timely n.inactiveAt a ((sp.ok.q _ _).mpr ⟨n, ha, rfl⟩)

/-- **`timely`**: at the end of every block no node, subscription or session remains whose deadline
is at or before the block time (queues and records). -/
theorem timely {s s' : State} (h : endBlock s = .ok s') (hs : Side s) (hr : RecInv s) (hn : NodeIdx s)
    (hd1 : 0 < s.params.sessDelay) (hd2 : 0 < s.params.subDelay) :
    (∀ t i, s'.sessQ.has (t, i) = true → s.time < t) ∧ (∀ t j, s'.subQ.has (t, j) = true → s.time < t) ∧
    (∀ t a, s'.nodeQ.has (t, a) = true → s.time < t) ∧
    (∀ i x, s'.sessions.get i = some x → s.time < x.inactiveAt) ∧ (∀ j y, s'.subs.get j = some y → s.time < y.inactiveAt) ∧
    (∀ a n, s'.nodeActive.get a = some n → s.time < n.inactiveAt) :=
  ⟨(timely_sessions h hs hd1).1, (timely_subs h hs hd2).1, (timely_nodes h hr hn).1, (timely_sessions h hs hd1).2,
    (timely_subs h hs hd2).2, (timely_nodes h hr hn).2⟩

/-! ## 6. Settlement and hourly payouts

The model has no call trace; "a removed session is settled exactly once" is expressed through the
call sites and the permanence of removal:
* `Hub.Model.sessionStep_settles` — `sessionStep` (the only caller of `SessionInactiveHook`) invokes
  the hook exactly in its removal branch, for a session that is not active, and deletes the record
  in the same step;
* `settles_iff_removed` — in terms of whole operations: session `i` is settled in an operation iff
  the operation is an end of block at which `i` is not active and due, iff `i` is removed by it;
* `retired_forever` / `settled_once` — a removed session id never carries a record again (ids are
  issued by an increasing counter), so no later operation settles it a second time. -/

/-- Session `i` is settled (and removed) by this operation. -/
def Settles (s : State) (op : Op) (i : Nat) : Prop :=
  op = .endB ∧ ∃ x, s.sessions.get i = some x ∧ x.status ≠ .StatusActive ∧ x.inactiveAt ≤ s.time

/-- The id has been issued and carries no record: the session is gone. -/
def Retired (s : State) (i : Nat) : Prop := s.sessions.get i = none ∧ i ≤ s.sessCount.getD 0

theorem settles_iff_removed {s s' : State} {op : Op} (h : step s op = some s') (hs : Side s) {i : Nat} {x : Session}
    (hx : s.sessions.get i = some x) : Settles s op i ↔ s'.sessions.get i = none := by
  constructor
  · rintro ⟨rfl, x', hx', hna, hdue⟩
    rw [hx] at hx'; simp only [Option.some.injEq] at hx'; subst hx'
    simp only [step] at h
    split at h
    · rename_i s1 hb
      simp only [Option.some.injEq] at h; subst h
      have e := (endBlock_spec hb hs.count hs.sessIdx hs.subQ).sessDue i x hx hdue
      simpa [expireSess, hna] using e
    · contradiction
  · intro h'
    obtain ⟨hop, hna, hdue⟩ := (removed_only_when_pending h hs).1 i x hx h'
    exact ⟨hop, x, hx, hna, hdue⟩

theorem settle_retires {s s' : State} {op : Op} (h : step s op = some s') (hs : Side s) {i : Nat}
    (hset : Settles s op i) : Retired s' i := by
  obtain ⟨_, x, hx, _, _⟩ := id hset
  refine ⟨(settles_iff_removed h hs hx).mp hset, ?_⟩
  exact Nat.le_trans (hs.count.sessions i x hx).2.2.1 (step_sessCount_mono h)

theorem retired_stays {s s' : State} {op : Op} (h : step s op = some s') (hs : Side s) {i : Nat} (hr : Retired s i) :
    Retired s' i := by
  refine ⟨?_, Nat.le_trans hr.2 (step_sessCount_mono h)⟩
  cases hg : s'.sessions.get i with
  | none => rfl
  | some x' =>
    have := ((created_only_active h hs).1 i x' hr.1 hg).1
    have := hr.2
    omega

theorem retired_forever (hcount : CountPreserved) (ops : List Op) (s : State) (hs : Side s) {i : Nat} (hr : Retired s i) :
    ∀ s' ∈ runTrace s ops, Retired s' i := by
  induction ops generalizing s with
  | nil => intro s' h; simp [runTrace] at h
  | cons op rest ih =>
    intro s' h
    simp only [runTrace] at h
    cases hst : step s op with
    | none => simp [hst] at h
    | some s1 =>
      simp only [hst, List.mem_cons] at h
      have r1 := retired_stays hst hs hr
      rcases h with h | h
      · rw [h]; exact r1
      · exact ih s1 (step_side hcount hst hs) r1 s' h

/-- **`settled_once`**: after the operation that settles (and removes) session `i`, no operation of
any continuation of the history settles `i` again. -/
theorem settled_once (hcount : CountPreserved) {s s' : State} {op : Op} (h : step s op = some s') (hs : Side s) {i : Nat}
    (hset : Settles s op i) (ops : List Op) :
    ∀ s'' ∈ s' :: runTrace s' ops, ∀ op', ¬ Settles s'' op' i := by
  have r0 := settle_retires h hs hset
  intro s'' hm op' ⟨_, x, hx, _⟩
  have : Retired s'' i := by
    rcases List.mem_cons.mp hm with e | e
    · rw [e]; exact r0
    · exact retired_forever hcount ops s' (step_side hcount h hs) r0 s'' e
  rw [this.1] at hx; simp at hx

/-- **`payout_at_most_once_per_block`**: `BeginBlock` at time `t` advances exactly the payouts that
are scheduled (`payQ`) at or before `t`, each exactly once (`ids` has no duplicates), by exactly one
hour (`payoutAdvance_spec`); every other payout record is untouched.  Hence a payout is never paid
before it is due, and never twice for the same due hour. -/
theorem payout_at_most_once_per_block {s s' : State} {t : Time} (h : beginBlock s t = .ok s') (hc : CountInv s) (hi : SubIdx s) :
    ∃ ids : List Nat, ids.Nodup ∧
      (∀ i, i ∈ ids ↔ ∃ p, s.payouts.get i = some p ∧ s.payQ.has (p.nextAt, i) = true ∧ p.nextAt ≤ t) ∧
      (∀ i, s'.payouts.get i = if i ∈ ids then (s.payouts.get i).map payoutAdvance else s.payouts.get i) :=
  beginBlock_payouts h (PayQOK.of hc hi)

/-- A payout record changed by `BeginBlock` was due, and was advanced by one hourly payment. -/
theorem payout_never_early {s s' : State} {t : Time} (h : beginBlock s t = .ok s') (hc : CountInv s) (hi : SubIdx s)
    {i : Nat} {p : Payout} (hp : s.payouts.get i = some p) (hne : s'.payouts.get i ≠ some p) :
    p.nextAt ≤ t ∧ s'.payouts.get i = some (payoutAdvance p) ∧ (payoutAdvance p).hours = p.hours - 1 ∧
    ((payoutAdvance p).nextAt = p.nextAt + hour ∨ (payoutAdvance p).nextAt = zeroTime) := by
  obtain ⟨ids, _, hm, hs⟩ := payout_at_most_once_per_block h hc hi
  have e := hs i
  by_cases hc' : i ∈ ids
  · rw [if_pos hc', hp] at e
    obtain ⟨p', hp', _, hdue⟩ := (hm i).mp hc'
    rw [hp] at hp'; simp only [Option.some.injEq] at hp'; subst hp'
    obtain ⟨a, b⟩ := payoutAdvance_spec p
    exact ⟨hdue, e, a, b.imp id (fun x => x.2)⟩
  · rw [if_neg hc', hp] at e; exact absurd e hne

/-! ## Non-vacuity: a concrete history inside the hypotheses, exhibiting every transition -/

/-- `HistOK` as a computation along the run. -/
def histOKB (M : Dur) : State → List Op → Bool
  | _, [] => true
  | s, op :: rest =>
    (match op with
      | .begin t => decide (s.time < t)
      | .gov c => decide (0 < ((gov s c).getD s).params.sessDelay) && decide (((gov s c).getD s).params.sessDelay ≤ M) &&
          decide (M ≤ ((gov s c).getD s).params.subDelay)
      | _ => true) &&
    (match step s op with
      | some s' => histOKB M s' rest
      | none => true)

theorem histOK_of_B (M : Dur) (ops : List Op) (s : State) (h : histOKB M s ops = true) : HistOK M s ops := by
  induction ops generalizing s with
  | nil => trivial
  | cons op rest ih =>
    simp only [histOKB, Bool.and_eq_true] at h
    obtain ⟨h1, h2⟩ := h
    refine ⟨?_, ?_, ?_⟩
    · intro t e; subst e; simpa using h1
    · intro c e; subst e
      simp only [Bool.and_eq_true, decide_eq_true_eq] at h1
      exact ⟨h1.1.1, h1.1.2, h1.2⟩
    · intro s' hs'
      rw [hs'] at h2
      exact ih s' h2

def p0 : Params :=
  { provDeposit := ⟨"udvpn", 0⟩, provShare := 0, nodeDeposit := ⟨"udvpn", 0⟩, activeDur := 86400000000000,
    maxGB := [], minGB := [], maxHr := [], minHr := [], maxSubGB := 10, minSubGB := 1, maxSubHr := 10, minSubHr := 1,
    nodeShare := 0, subDelay := 7200000000000, sessDelay := 7200000000000, proof := false, swapOn := false,
    swapDenom := "udvpn", approveBy := [1] }

def g0 : Genesis := { time := 1700000000000000000, params := p0, balances := [([3], "udvpn", 1000000)] }

def acc (b : UInt8) : TextAddr := { role := .acc, bytes := [b] }
def nod (b : UInt8) : TextAddr := { role := .node, bytes := [b] }

/-- A node, a per-gigabyte subscription and a session; the session is ended by its owner and the
subscription cancelled one hour later (both pending for two hours); governance re-sets a delay
inside the bound; after the deadlines both are removed at the end of a block (the session is settled
first); one day after its activation the node expires. -/
def hist : List Op := [
  .begin 1700000005000000000,
  .tx (.nodeRegister (acc 2) (some [⟨"udvpn", 10⟩]) (some [⟨"udvpn", 5⟩]) [104] true),
  .tx (.nodeStatus (nod 2) 1),
  .tx (.nodeSubscribe (acc 3) (nod 2) 1 0 "udvpn"),
  .tx (.sessStart (acc 3) 1 (nod 2)),
  .endB,
  .begin 1700003600000000000,
  .tx (.sessEnd (acc 3) 1 0),
  .tx (.subCancel (acc 3) 1),
  .gov (.sessDelay 3600000000000),
  .endB,
  .begin 1700010810000000000,
  .endB,
  .begin 1700090000000000000,
  .endB]

/-- The history satisfies the hypotheses of `life_from_genesis` for `M` = two hours … -/
example : HistOK 7200000000000 g0.state hist := histOK_of_B _ _ _ (by decide +kernel)

example : 0 < g0.params.sessDelay ∧ g0.params.sessDelay ≤ 7200000000000 ∧ (7200000000000 : Dur) ≤ g0.params.subDelay := by decide

/-- … it does not halt, and the session, the subscription and the node go through exactly the
statuses of the property: absent, active, inactive-pending, removed (resp. active, expired). -/
example :
    (runTrace g0.state hist).length = hist.length ∧
    (runTrace g0.state hist).map (fun s => (s.sessions.get 1).map (·.status)) =
      [none, none, none, none, some .StatusActive, some .StatusActive, some .StatusActive, some .StatusInactivePending,
       some .StatusInactivePending, some .StatusInactivePending, some .StatusInactivePending, some .StatusInactivePending,
       none, none, none] ∧
    (runTrace g0.state hist).map (fun s => (s.subs.get 1).map (·.status)) =
      [none, none, none, some .StatusActive, some .StatusActive, some .StatusActive, some .StatusActive, some .StatusActive,
       some .StatusInactivePending, some .StatusInactivePending, some .StatusInactivePending, some .StatusInactivePending,
       none, none, none] ∧
    (runTrace g0.state hist).map (fun s => (s.nodeActive.get [2]).isSome) =
      [false, false, true, true, true, true, true, true, true, true, true, true, true, true, false] := by
  decide +kernel

/-- The standing facts hold at the start (and hence, by `step_side`, along the history). -/
example : Side g0.state := genesis_side g0 (genesis_countInv g0)

/-! ## Why `SubQOK` is a hypothesis: `EndBlock` breaks the coupling on a state with a stale queue entry -/

def cxSess : Session :=
  { id := 1, sub := 1, node := [7], addr := [9], up := 0, down := 0, dur := 0, inactiveAt := 500,
    status := .StatusInactivePending, statusAt := 0 }
def cxSub : Sub :=
  { id := 1, addr := [9], inactiveAt := 1000, status := .StatusInactivePending, statusAt := 0, kind := .plan 1 "udvpn" }
def cxBase : State :=
  { time := 10, subCount := some 1, sessCount := some 0, subs := [(1, cxSub)], subQ := [((5, 1), ())],
    params := { p0 with sessDelay := 1, subDelay := 1000 } }
def cxState : State := insertSession cxBase cxSess

theorem cxBase_sessInv : SessInv cxBase := by
  refine ⟨?_, ?_, ?_, ?_, ?_, ?_, ?_⟩
  · intro i x h; simp [cxBase] at h
  · intro t i; simp [cxBase, Tbl.has]
  · intro t i; simp [cxBase, Tbl.has]
  · intro t i; simp [cxBase, Tbl.has]
  · intro t i; simp [cxBase, Tbl.has]
  · intro u a i; simp [cxBase, Tbl.has]
  · exact ⟨Tbl.nodup_nil, Tbl.nodup_nil, Tbl.nodup_nil, Tbl.nodup_nil, Tbl.nodup_nil, Tbl.nodup_nil⟩

theorem cx_sessIdx : SessIdx cxState := (insertSession_sessInv (s := cxBase) (x := cxSess) rfl cxBase_sessInv).2

theorem cx_count : CountInv cxState := by
  refine ⟨?_, ?_, ?_, ?_, ?_, ⟨?_, ?_⟩, ⟨?_, ?_, ?_, ?_, ?_, ?_, ?_, ?_⟩, ⟨?_, ?_, ?_, ?_, ?_⟩⟩
  all_goals
    intros
    simp_all [cxState, cxBase, cxSess, cxSub, insertSession, Tbl.set, Tbl.get_cons, Tbl.has]
  · rename_i i x h; obtain ⟨rfl, rfl⟩ := h; rfl
  · rename_i i x h; obtain ⟨rfl, rfl⟩ := h; simp
  · rename_i u i h; omega
  · rename_i u a i h; omega

theorem cx_sess {i : Nat} {x : Session} (h : cxState.sessions.get i = some x) : i = 1 ∧ x = cxSess := by
  have : cxState.sessions = [(1, cxSess)] := rfl
  rw [this, Tbl.get_cons] at h
  split_ifs at h with hc
  · exact ⟨hc.symm, (Option.some.inj h).symm⟩
  · simp at h

theorem cx_subs {i : Nat} {y : Sub} (h : cxState.subs.get i = some y) : i = 1 ∧ y = cxSub := by
  have : cxState.subs = [(1, cxSub)] := rfl
  rw [this, Tbl.get_cons] at h
  split_ifs at h with hc
  · exact ⟨hc.symm, (Option.some.inj h).symm⟩
  · simp at h

theorem cx_life : LifeInv 1000 cxState := by
  refine ⟨by decide, ?_, ?_, ?_, ?_, ?_, ?_⟩
  · intro i x hx; obtain ⟨rfl, rfl⟩ := cx_sess hx; exact ⟨cxSub, rfl⟩
  · intro i x hx; obtain ⟨rfl, rfl⟩ := cx_sess hx; exact Or.inr rfl
  · intro i y hy; obtain ⟨rfl, rfl⟩ := cx_subs hy; exact Or.inr rfl
  · intro i x y hx _ ha; obtain ⟨rfl, rfl⟩ := cx_sess hx; exact absurd ha (by decide)
  · intro i x y hx hy _; obtain ⟨rfl, rfl⟩ := cx_sess hx; obtain ⟨_, rfl⟩ := cx_subs hy; decide
  · intro i x hx; obtain ⟨rfl, rfl⟩ := cx_sess hx; decide

def cxCheck : Bool :=
  match endBlock cxState with
  | .ok s' => (s'.subs.get 1).isNone && ((s'.sessions.get 1).map (·.sub) == some 1)
  | .error _ => false

theorem cxCheck_true : cxCheck = true := by decide +kernel

/-- Without the queue fact `SubQOK`, `LifeInv` is *not* preserved by `EndBlock`, even under `CountInv`
and `SessIdx`: a stale entry in the subscription deadline queue makes the hook remove a pending
subscription before its deadline while one of its sessions is still winding down. -/
theorem endBlock_life_needs_subQOK :
    ∃ s s', CountInv s ∧ SessIdx s ∧ LifeInv 1000 s ∧ ¬ SubQOK s ∧ endBlock s = .ok s' ∧ ¬ LifeInv 1000 s' := by
  have hc := cxCheck_true
  unfold cxCheck at hc
  cases he : endBlock cxState with
  | error e => rw [he] at hc; simp at hc
  | ok s' =>
    rw [he] at hc
    simp only [Bool.and_eq_true, Option.isNone_iff_eq_none, beq_iff_eq, Option.map_eq_some_iff] at hc
    obtain ⟨h1, x, h2, h3⟩ := hc
    refine ⟨cxState, s', cx_count, cx_sessIdx, cx_life, ?_, he, ?_⟩
    · intro hq
      obtain ⟨y, hy, hyt⟩ := (hq.q 5 1).mp (by decide)
      obtain ⟨_, rfl⟩ := cx_subs hy
      exact absurd hyt (by decide)
    · intro hl
      obtain ⟨y, hy⟩ := hl.sessSub 1 x h2
      rw [h3, h1] at hy
      simp at hy


end Hub.Props.C04
