import Hub.Lemmas.AllInv
/-
C09 — secondary indices and queues agree with the primary records, in every reachable state.

The index invariants (`NodeIdx`, `SessIdx`, `SubIdx` of `Hub/Model/Inv.lean`, two-way statements
"index key present ↔ primary record with that attribute present") are proved inductive over every
operation in `Hub/Lemmas/{NodeIdx,SessIdx,SubIdx}Steps.lean` and assembled in `Hub/Lemmas/AllInv.lean`.
This file states what C09 says in terms of them; `Props/C09Listings.lean` connects them to the
listing functions of the query model (`Hub/Model/Query.lean`) and `Props/C13.lean` to paging.
-/
namespace Hub.Props.C09
open Hub.Model Hub.SDK
open Hub.Generated (Status)

/-- **All index invariants hold in every state of every history from every genesis.** -/
theorem indices_all_histories (g : Genesis) (ops : List Op) :
    ∀ s ∈ runTrace g.state ops, RecInv s ∧ NodeIdx s ∧ SessIdx s ∧ SubIdx s := fun s h =>
  let i := structInv_all_histories g ops s h
  ⟨i.recs, i.nodeIdx, i.sessIdx, i.subIdx⟩

theorem indices_reachable {s : State} (hr : Reachable s) : RecInv s ∧ NodeIdx s ∧ SessIdx s ∧ SubIdx s :=
  ⟨hr.structInv.recs, hr.structInv.nodeIdx, hr.structInv.sessIdx, hr.structInv.subIdx⟩

/-! ### None missing, none extra: each filtered index is exactly the attribute filter -/

/-- Sessions by account / node / subscription / allocation. -/
theorem session_indices_exact {s : State} (hr : Reachable s) :
    (∀ a i, s.sessForAcc.has (a, i) = true ↔ ∃ x, s.sessions.get i = some x ∧ x.addr = a) ∧
    (∀ n i, s.sessForNode.has (n, i) = true ↔ ∃ x, s.sessions.get i = some x ∧ x.node = n) ∧
    (∀ u i, s.sessForSub.has (u, i) = true ↔ ∃ x, s.sessions.get i = some x ∧ x.sub = u) ∧
    (∀ u a i, s.sessForAlloc.has (u, a, i) = true ↔ ∃ x, s.sessions.get i = some x ∧ x.sub = u ∧ x.addr = a) :=
  let h := hr.structInv.sessIdx
  ⟨h.acc, h.node, h.sub, h.alloc⟩

/-- Subscriptions by node / plan / account (an account sees a subscription it owns or holds an
allocation of), payouts by account / node. -/
theorem subscription_indices_exact {s : State} (hr : Reachable s) :
    (∀ n i, s.subForNode.has (n, i) = true ↔ ∃ x gb hr dep, s.subs.get i = some x ∧ x.kind = .node n gb hr dep) ∧
    (∀ p i, s.subForPlan.has (p, i) = true ↔ ∃ x d, s.subs.get i = some x ∧ x.kind = .plan p d) ∧
    (∀ a i, s.subForAcc.has (a, i) = true ↔ ∃ x, s.subs.get i = some x ∧ (x.addr = a ∨ s.allocs.has (i, a) = true)) ∧
    (∀ a i, s.payForAcc.has (a, i) = true ↔ ∃ p, s.payouts.get i = some p ∧ p.addr = a) ∧
    (∀ n i, s.payForNode.has (n, i) = true ↔ ∃ p, s.payouts.get i = some p ∧ p.node = n) :=
  let h := hr.structInv.subIdx
  ⟨h.node, h.plan, h.acc, h.payAcc, h.payNode⟩

/-- Plans by provider; node–plan links point at existing plans and nodes; the status partitions
hold each record exactly once, under its own status. -/
theorem plan_node_indices_exact {s : State} (hr : Reachable s) :
    (∀ a i, s.planForProv.has (a, i) = true ↔ ∃ p, getPlan s i = some p ∧ p.prov = a) ∧
    (∀ i n, s.nodeForPlan.has (i, n) = true → (getPlan s i).isSome ∧ hasNode s n = true) ∧
    (∀ a, ¬ (s.nodeActive.has a = true ∧ s.nodeInactive.has a = true)) ∧
    (∀ a, ¬ (s.provActive.has a = true ∧ s.provInactive.has a = true)) ∧
    (∀ i, ¬ (s.planActive.has i = true ∧ s.planInactive.has i = true)) ∧
    (∀ a n, s.nodeActive.get a = some n → n.addr = a ∧ n.status = .StatusActive) ∧
    (∀ a n, s.nodeInactive.get a = some n → n.addr = a ∧ n.status = .StatusInactive ∧ n.inactiveAt = zeroTime) :=
  let h := hr.structInv.nodeIdx
  let r := hr.structInv.recs
  ⟨h.planForProv, h.links, r.nodeX, r.provX, r.planX, r.nodeA, r.nodeI⟩

/-! ### None twice: no table holds a key twice -/

theorem no_duplicate_keys {s : State} (hr : Reachable s) :
    Tbl.Nodup s.sessions ∧ Tbl.Nodup s.sessForAcc ∧ Tbl.Nodup s.sessForNode ∧ Tbl.Nodup s.sessForSub ∧ Tbl.Nodup s.sessForAlloc ∧
    Tbl.Nodup s.subs ∧ Tbl.Nodup s.subForAcc ∧ Tbl.Nodup s.subForNode ∧ Tbl.Nodup s.subForPlan ∧ Tbl.Nodup s.allocs ∧
    Tbl.Nodup s.payouts ∧ Tbl.Nodup s.payForAcc ∧ Tbl.Nodup s.payForNode ∧
    Tbl.Nodup s.planForProv ∧ Tbl.Nodup s.nodeForPlan ∧ Tbl.Nodup s.nodeActive ∧ Tbl.Nodup s.nodeInactive ∧
    Tbl.Nodup s.provActive ∧ Tbl.Nodup s.provInactive ∧ Tbl.Nodup s.planActive ∧ Tbl.Nodup s.planInactive :=
  let a := hr.structInv.sessIdx.nodup
  let b := hr.structInv.subIdx.nodup
  let c := hr.structInv.nodeIdx.nodupQ
  ⟨a.1, a.2.2.1, a.2.2.2.1, a.2.2.2.2.1, a.2.2.2.2.2, b.1, b.2.2.1, b.2.2.2.1, b.2.2.2.2.1, b.2.2.2.2.2.1, b.2.2.2.2.2.2.1,
   b.2.2.2.2.2.2.2.2.1, b.2.2.2.2.2.2.2.2.2.1, c.2.1, c.2.2.1, c.2.2.2.1, c.2.2.2.2.1, c.2.2.2.2.2.1, c.2.2.2.2.2.2.1,
   c.2.2.2.2.2.2.2.1, c.2.2.2.2.2.2.2.2⟩

/-! ### Every queue entry the block hooks will consume points at a live record -/

theorem queue_entries_live {s : State} (hr : Reachable s) :
    (∀ t a, s.nodeQ.has (t, a) = true → ∃ n, s.nodeActive.get a = some n ∧ n.inactiveAt = t) ∧
    (∀ t i, s.sessQ.has (t, i) = true → ∃ x, s.sessions.get i = some x ∧ x.inactiveAt = t) ∧
    (∀ t i, s.subQ.has (t, i) = true → ∃ x, s.subs.get i = some x ∧ x.inactiveAt = t) ∧
    (∀ t i, s.payQ.has (t, i) = true → ∃ p x, s.payouts.get i = some p ∧ p.nextAt = t ∧ 0 < p.hours ∧
        s.subs.get i = some x ∧ x.status = .StatusActive) :=
  ⟨fun t a h => (hr.structInv.nodeIdx.nodeQ t a).mp h, fun t i h => (hr.structInv.sessIdx.q t i).mp h,
   fun t i h => (hr.structInv.subIdx.q t i).mp h, fun t i h => (hr.structInv.subIdx.payQ t i).mp h⟩

/-- … and conversely every record with a deadline is queued at it (nothing is forgotten). -/
theorem deadlines_queued {s : State} (hr : Reachable s) :
    (∀ a n, s.nodeActive.get a = some n → s.nodeQ.has (n.inactiveAt, a) = true) ∧
    (∀ i x, s.sessions.get i = some x → s.sessQ.has (x.inactiveAt, i) = true) ∧
    (∀ i x, s.subs.get i = some x → s.subQ.has (x.inactiveAt, i) = true) :=
  ⟨fun a n h => (hr.structInv.nodeIdx.nodeQ _ a).mpr ⟨n, h, rfl⟩, fun i x h => (hr.structInv.sessIdx.q _ i).mpr ⟨x, h, rfl⟩,
   fun i x h => (hr.structInv.subIdx.q _ i).mpr ⟨x, h, rfl⟩⟩

/-! ### A removed record disappears from every listing in the same state -/

theorem removed_session_in_no_index {s : State} (hr : Reachable s) {i : Nat} (h : s.sessions.get i = none) :
    (∀ t, s.sessQ.has (t, i) = false) ∧ (∀ a, s.sessForAcc.has (a, i) = false) ∧ (∀ n, s.sessForNode.has (n, i) = false) ∧
    (∀ u, s.sessForSub.has (u, i) = false) ∧ (∀ u a, s.sessForAlloc.has (u, a, i) = false) := by
  have hi := hr.structInv.sessIdx
  refine ⟨fun t => ?_, fun a => ?_, fun n => ?_, fun u => ?_, fun u a => ?_⟩ <;>
    (apply Bool.eq_false_iff.mpr; intro hh)
  · obtain ⟨x, hx, _⟩ := (hi.q t i).mp hh; rw [h] at hx; cases hx
  · obtain ⟨x, hx, _⟩ := (hi.acc a i).mp hh; rw [h] at hx; cases hx
  · obtain ⟨x, hx, _⟩ := (hi.node n i).mp hh; rw [h] at hx; cases hx
  · obtain ⟨x, hx, _⟩ := (hi.sub u i).mp hh; rw [h] at hx; cases hx
  · obtain ⟨x, hx, _⟩ := (hi.alloc u a i).mp hh; rw [h] at hx; cases hx

theorem removed_subscription_in_no_index {s : State} (hr : Reachable s) {i : Nat} (h : s.subs.get i = none) :
    (∀ t, s.subQ.has (t, i) = false) ∧ (∀ a, s.subForAcc.has (a, i) = false) ∧ (∀ n, s.subForNode.has (n, i) = false) ∧
    (∀ p, s.subForPlan.has (p, i) = false) ∧ (∀ a, s.allocs.has (i, a) = false) ∧ s.payouts.has i = false ∧
    (∀ a, s.payForAcc.has (a, i) = false) ∧ (∀ n, s.payForNode.has (n, i) = false) ∧
    (∀ a n, s.payForAccNode.has (a, n, i) = false) ∧ (∀ t, s.payQ.has (t, i) = false) := by
  have hi := hr.structInv.subIdx
  have hsub : s.subs.has i = false := by simp [Tbl.has, h]
  have hpay : s.payouts.has i = false := by
    apply Bool.eq_false_iff.mpr; intro hh
    obtain ⟨x, hx, _⟩ := (hi.payout i).mp hh; rw [h] at hx; cases hx
  have hpget : s.payouts.get i = none := by
    cases hg : s.payouts.get i with
    | none => rfl
    | some p => simp [Tbl.has, hg] at hpay
  refine ⟨fun t => ?_, fun a => ?_, fun n => ?_, fun p => ?_, fun a => ?_, hpay, fun a => ?_, fun n => ?_, fun a n => ?_, fun t => ?_⟩ <;>
    (apply Bool.eq_false_iff.mpr; intro hh)
  · obtain ⟨x, hx, _⟩ := (hi.q t i).mp hh; rw [h] at hx; cases hx
  · obtain ⟨x, hx, _⟩ := (hi.acc a i).mp hh; rw [h] at hx; cases hx
  · obtain ⟨x, _, _, _, hx, _⟩ := (hi.node n i).mp hh; rw [h] at hx; cases hx
  · obtain ⟨x, _, hx, _⟩ := (hi.plan p i).mp hh; rw [h] at hx; cases hx
  · have := hi.allocSub i a hh; rw [hsub] at this; cases this
  · obtain ⟨p, hp, _⟩ := (hi.payAcc a i).mp hh; rw [hpget] at hp; cases hp
  · obtain ⟨p, hp, _⟩ := (hi.payNode n i).mp hh; rw [hpget] at hp; cases hp
  · obtain ⟨p, x, hp, _⟩ := (hi.lease a n i).mp hh; rw [hpget] at hp; cases hp
  · obtain ⟨p, x, hp, _⟩ := (hi.payQ t i).mp hh; rw [hpget] at hp; cases hp

theorem inactive_node_not_queued {s : State} (hr : Reachable s) {a : Addr} (h : s.nodeActive.get a = none) :
    ∀ t, s.nodeQ.has (t, a) = false := by
  intro t; apply Bool.eq_false_iff.mpr; intro hh
  obtain ⟨n, hn, _⟩ := (hr.structInv.nodeIdx.nodeQ t a).mp hh; rw [h] at hn; cases hn

/-- Hence, across one operation: a session/subscription removed by the operation is in no index of
the state the operation leaves behind (the "same block" clause). -/
theorem removal_is_complete {s s' : State} {op : Op} (hr : Reachable s) (h : step s op = some s') :
    (∀ i, s'.sessions.get i = none → (∀ a, s'.sessForAcc.has (a, i) = false) ∧ (∀ n, s'.sessForNode.has (n, i) = false) ∧
        (∀ u, s'.sessForSub.has (u, i) = false) ∧ (∀ u a, s'.sessForAlloc.has (u, a, i) = false) ∧ (∀ t, s'.sessQ.has (t, i) = false)) ∧
    (∀ i, s'.subs.get i = none → (∀ a, s'.subForAcc.has (a, i) = false) ∧ (∀ n, s'.subForNode.has (n, i) = false) ∧
        (∀ p, s'.subForPlan.has (p, i) = false) ∧ (∀ a, s'.allocs.has (i, a) = false) ∧ (∀ t, s'.subQ.has (t, i) = false)) := by
  have hr' := hr.step h
  refine ⟨fun i hi => ?_, fun i hi => ?_⟩
  · obtain ⟨a, b, c, d, e⟩ := removed_session_in_no_index hr' hi
    exact ⟨b, c, d, e, a⟩
  · obtain ⟨a, b, c, d, e, _⟩ := removed_subscription_in_no_index hr' hi
    exact ⟨b, c, d, e, a⟩

/-! ### Non-vacuity -/

example : Reachable ({ time := 1700000000000000000, params := default, balances := [([3], "udvpn", 5)] } : Genesis).state :=
  ⟨_, [], Or.inl rfl⟩

end Hub.Props.C09
