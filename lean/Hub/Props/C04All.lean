import Hub.Props.C04
import Hub.Lemmas.AllInv
/-
C04, assembled: the side conditions of `Props/C04.lean` (`Side`, `RecInv`, `NodeIdx`, `SubIdx`,
`CountPreserved`) are discharged from the combined invariant `StructInv`, which holds in every
reachable state (`Hub/Lemmas/AllInv.lean`).  The statements below therefore quantify over every
state of every history from every genesis, with no hypothesis other than the ones C04 itself states
(strictly increasing block times and the delay coupling `0 < sessDelay ≤ M ≤ subDelay`, D7 of
DESIGN.md §5, for the lifecycle coupling; positive delays for timeliness).
-/
namespace Hub.Props.C04
open Hub.Model Hub.SDK
open Hub.Generated (Status)

theorem count_preserved : CountPreserved := fun _ _ _ h hi => step_count h hi

theorem side_of_struct {s : State} (h : StructInv s) : Side s := ⟨h.count, h.sessIdx, h.subIdx.subQOK⟩

theorem side_reachable {s : State} (h : Reachable s) : Side s := side_of_struct h.structInv

/-- The lifecycle coupling holds in every state of every history whose governance changes keep the
delays around `M`, from every genesis whose delays lie around `M`. -/
theorem lifecycle_all_histories (M : Dur) (g : Genesis)
    (h1 : 0 < g.params.sessDelay) (h2 : g.params.sessDelay ≤ M) (h3 : M ≤ g.params.subDelay)
    (ops : List Op) (hh : HistOK M g.state ops) : ∀ s' ∈ runTrace g.state ops, LifeInv M s' :=
  fun s' h => (life_from_genesis M count_preserved g h1 h2 h3 ops hh s' h).1

/-- Only forward: in every reachable state, one more operation moves no session or subscription backwards. -/
theorem status_monotone_reachable {s s' : State} {op : Op} (hr : Reachable s) (h : step s op = some s') :
    type_of% (status_monotone h (side_reachable hr)) :=
  status_monotone h (side_reachable hr)

theorem removed_only_when_pending_reachable {s s' : State} {op : Op} (hr : Reachable s) (h : step s op = some s') :
    type_of% (removed_only_when_pending h (side_reachable hr)) :=
  removed_only_when_pending h (side_reachable hr)

theorem created_only_active_reachable {s s' : State} {op : Op} (hr : Reachable s) (h : step s op = some s') :
    type_of% (created_only_active h (side_reachable hr)) :=
  created_only_active h (side_reachable hr)

/-- Never early (sessions): the complete list of causes of a demotion, in every reachable state. -/
theorem session_never_early_reachable {s s' : State} {op : Op} (hr : Reachable s) (h : step s op = some s')
    {i : Nat} {x x' : Session} (hx : s.sessions.get i = some x) (hx' : s'.sessions.get i = some x')
    (ha : x.status = .StatusActive) (hp : x'.status ≠ .StatusActive) :
    type_of% (session_never_early h (side_reachable hr) hx hx' ha hp) :=
  session_never_early h (side_reachable hr) hx hx' ha hp

theorem sub_never_early_reachable {s s' : State} {op : Op} (hr : Reachable s) (h : step s op = some s')
    {j : Nat} {y y' : Sub} (hy : s.subs.get j = some y) (hy' : s'.subs.get j = some y')
    (ha : y.status = .StatusActive) (hp : y'.status ≠ .StatusActive) :
    type_of% (sub_never_early h (side_reachable hr) hy hy' ha hp) :=
  sub_never_early h (side_reachable hr) hy hy' ha hp

theorem session_removed_only_when_due_reachable {s s' : State} {op : Op} (hr : Reachable s) (h : step s op = some s')
    {i : Nat} {x : Session} (hx : s.sessions.get i = some x) (hg : s'.sessions.get i = none) :
    type_of% (session_removed_only_when_due h (side_reachable hr) hx hg) :=
  session_removed_only_when_due h (side_reachable hr) hx hg

theorem sub_removed_only_when_due_reachable {s s' : State} {op : Op} (hr : Reachable s) (h : step s op = some s')
    {j : Nat} {y : Sub} (hy : s.subs.get j = some y) (hg : s'.subs.get j = none) :
    type_of% (sub_removed_only_when_due h (side_reachable hr) hy hg) :=
  sub_removed_only_when_due h (side_reachable hr) hy hg

/-- A node stops being active only by its own request or by not renewing before its deadline. -/
theorem node_never_early_reachable {s s' : State} {op : Op} (hr : Reachable s) (h : step s op = some s') {a : Addr}
    {n : Node} (ha : s.nodeActive.get a = some n) (ha' : s'.nodeActive.get a = none) :
    (∃ frm st, op = .tx (.nodeStatus frm st) ∧ frm.bytes = a) ∨ (op = .endB ∧ n.inactiveAt ≤ s.time) :=
  node_never_early h hr.structInv.recs hr.structInv.nodeIdx ha ha'

/-- The pending period lasts exactly the configured delay. -/
theorem pending_exact_session_reachable {s s' : State} {op : Op} (hr : Reachable s) (h : step s op = some s')
    {i : Nat} {x x' : Session} (hx : s.sessions.get i = some x) (hx' : s'.sessions.get i = some x')
    (ha : x.status = .StatusActive) (hp : x'.status ≠ .StatusActive) :
    type_of% (pending_exact_session h (side_reachable hr) hx hx' ha hp) :=
  pending_exact_session h (side_reachable hr) hx hx' ha hp

theorem pending_exact_sub_reachable {s s' : State} {op : Op} (hr : Reachable s) (h : step s op = some s')
    {j : Nat} {y y' : Sub} (hy : s.subs.get j = some y) (hy' : s'.subs.get j = some y')
    (ha : y.status = .StatusActive) (hp : y'.status ≠ .StatusActive) :
    type_of% (pending_exact_sub h (side_reachable hr) hy hy' ha hp) :=
  pending_exact_sub h (side_reachable hr) hy hy' ha hp

theorem pending_frozen_reachable {s s' : State} {op : Op} (hr : Reachable s) (h : step s op = some s') :
    type_of% (pending_frozen h (side_reachable hr)) :=
  pending_frozen h (side_reachable hr)

/-- **Timeliness in every reachable state**: after the end of a block nothing remains whose deadline
is at or before the block time. -/
theorem timely_reachable {s s' : State} (hr : Reachable s) (h : endBlock s = .ok s')
    (hd1 : 0 < s.params.sessDelay) (hd2 : 0 < s.params.subDelay) :
    type_of% (timely h (side_reachable hr) hr.structInv.recs hr.structInv.nodeIdx hd1 hd2) :=
  timely h (side_reachable hr) hr.structInv.recs hr.structInv.nodeIdx hd1 hd2

/-- A removed session is settled exactly once: at its removal, and never again in any continuation. -/
theorem settles_iff_removed_reachable {s s' : State} {op : Op} (hr : Reachable s) (h : step s op = some s')
    {i : Nat} {x : Session} (hx : s.sessions.get i = some x) :
    type_of% (settles_iff_removed h (side_reachable hr) hx) :=
  settles_iff_removed h (side_reachable hr) hx

theorem settled_once_reachable {s s' : State} {op : Op} (hr : Reachable s) (h : step s op = some s') {i : Nat}
    (hset : Settles s op i) (ops : List Op) :
    type_of% (settled_once count_preserved h (side_reachable hr) hset ops) :=
  settled_once count_preserved h (side_reachable hr) hset ops

/-- Hourly payouts: at most once per due hour, never before due, in every reachable state. -/
theorem payout_at_most_once_per_block_reachable {s s' : State} {t : Time} (hr : Reachable s) (h : beginBlock s t = .ok s') :
    type_of% (payout_at_most_once_per_block h hr.structInv.count hr.structInv.subIdx) :=
  payout_at_most_once_per_block h hr.structInv.count hr.structInv.subIdx

theorem payout_never_early_reachable {s s' : State} {t : Time} (hr : Reachable s) (h : beginBlock s t = .ok s')
    {i : Nat} {p : Payout} (hp : s.payouts.get i = some p) (hne : s'.payouts.get i ≠ some p) :
    type_of% (payout_never_early h hr.structInv.count hr.structInv.subIdx hp hne) :=
  payout_never_early h hr.structInv.count hr.structInv.subIdx hp hne

end Hub.Props.C04
