import Hub.Lemmas.Authz
import Hub.Lemmas.Admission
import Hub.Props.C07
import Hub.Props.C16
/-
C08 — Admission rules: only valid market actions are accepted.

"A subscription can only be bought against a node or plan that is active at that moment and, for
nodes, for a quantity inside the governance limits; a session can only be started on an active
subscription, on an active node that the subscription covers (its own node, or a node linked to the
plan and currently leased by the plan's provider), by a holder of unexhausted quota (or the owner of
an hourly subscription) who has no other active session on that subscription.  Providers and nodes
can register only once, plans need a registered provider and links need a registered node.  Every
accepted message had these preconditions true in the state it executed in, and conversely a
well-formed request that meets all of them and can be paid for is accepted."

The `…OK` predicates are the specification, written from the text over the tables of the state.
`…_sound` : accepted ⇒ the predicate held in the state the message executed in.
`…_complete` : `ValidateBasic` passes ∧ the predicate holds (∧ no dangling index entry, ∧ it can be
paid for) ⇒ accepted.
-/
namespace Hub.Props.C08
open Hub.SDK Hub.Model
open Hub.Generated (Status AmountForBytes GetProportionOfCoin Gigabyte)

/-! ## Specification -/

/-- A price list quotes a denomination. -/
def Quotes (prices : Coins) (d : Denom) : Prop := ∃ c ∈ prices, c.denom = d

/-- A price list respects the governance bounds: not above any maximum, not below any minimum
(a denomination that is not quoted counts as 0). -/
def PricesWithin (maxP minP prices : Coins) : Prop :=
  (∀ c ∈ maxP, prices.amountOf c.denom ≤ c.amount) ∧ (∀ c ∈ minP, c.amount ≤ prices.amountOf c.denom)

/-- Buying a subscription to a node: the node exists and is active now; exactly one of
gigabytes / hours is bought, inside the governance limits; the node quotes the denomination in the
corresponding price list. -/
def NodeSubscribeOK (s : State) (node : Addr) (gb hr : Int) (denom : Denom) : Prop :=
  ∃ n, getNode s node = some n ∧ n.status = .StatusActive ∧
    ((0 < gb ∧ hr = 0 ∧ s.params.minSubGB ≤ gb ∧ gb ≤ s.params.maxSubGB ∧ Quotes n.gb denom) ∨
     (gb = 0 ∧ 0 < hr ∧ s.params.minSubHr ≤ hr ∧ hr ≤ s.params.maxSubHr ∧ Quotes n.hr denom))

/-- Buying a subscription to a plan: the plan exists, is active now and quotes the denomination. -/
def PlanSubscribeOK (s : State) (id : Nat) (denom : Denom) : Prop :=
  ∃ p, getPlan s id = some p ∧ p.status = .StatusActive ∧ Quotes p.prices denom

/-- An hourly subscription: a node subscription bought by the hour. -/
def Hourly (sub : Sub) : Prop :=
  match sub.kind with
  | .node _ _ hr _ => hr ≠ 0
  | .plan _ _ => False

/-- The subscription covers the node: its own node, or a node linked to the plan and currently
leased by the plan's provider (an entry `(provider, node, _)` in the lease index). -/
def Covers (s : State) (sub : Sub) (node : Addr) : Prop :=
  match sub.kind with
  | .node own _ _ _ => node = own
  | .plan pid _ => ∃ p, getPlan s pid = some p ∧ (pid, node) ∈ s.nodeForPlan.keys ∧
      ∃ lease, (p.prov, node, lease) ∈ s.payForAccNode.keys

/-- Who may use the subscription: a node subscription only its owner; quota must be left unless the
subscription is hourly. -/
def MayUse (s : State) (id : Nat) (sub : Sub) (frm : Addr) : Prop :=
  (match sub.kind with | .node _ _ _ _ => frm = sub.addr | .plan _ _ => True) ∧
  (Hourly sub ∨ ∃ a, s.allocs.get (id, frm) = some a ∧ a.used < a.granted)

/-- The latest session of the allocation (subscription, account) — the one with the greatest id in
the by-allocation index — is not active. -/
def NoActiveSession (s : State) (id : Nat) (frm : Addr) : Prop :=
  ∀ sid, (id, frm, sid) ∈ s.sessForAlloc.keys →
    (∀ k, (id, frm, k) ∈ s.sessForAlloc.keys → k ≤ sid) →
    ∀ x, s.sessions.get sid = some x → x.status ≠ .StatusActive

/-- Starting a session. -/
def SessStartOK (s : State) (frm : Addr) (id : Nat) (node : Addr) : Prop :=
  ∃ sub n, s.subs.get id = some sub ∧ sub.status = .StatusActive ∧
    getNode s node = some n ∧ n.status = .StatusActive ∧
    Covers s sub node ∧ MayUse s id sub frm ∧ NoActiveSession s id frm

def ProvRegisterOK (s : State) (frm : Addr) : Prop := getProvider s frm = none

def NodeRegisterOK (s : State) (frm : Addr) (gb hr : Coins) : Prop :=
  getNode s frm = none ∧ PricesWithin s.params.maxGB s.params.minGB gb ∧ PricesWithin s.params.maxHr s.params.minHr hr

def PlanCreateOK (s : State) (frm : Addr) : Prop := ∃ p, getProvider s frm = some p

/-- The plan exists and belongs to the sender. -/
def PlanOwnedBy (s : State) (frm : Addr) (id : Nat) : Prop := ∃ p, getPlan s id = some p ∧ p.prov = frm

def PlanLinkOK (s : State) (frm : Addr) (id : Nat) (node : Addr) : Prop :=
  PlanOwnedBy s frm id ∧ ∃ n, getNode s node = some n

def NodeOwnOK (s : State) (frm : Addr) : Prop := ∃ n, getNode s frm = some n

def SubCancelOK (s : State) (frm : Addr) (id : Nat) : Prop :=
  ∃ sub, s.subs.get id = some sub ∧ sub.status = .StatusActive ∧ sub.addr = frm

def SessEndOK (s : State) (frm : Addr) (id : Nat) : Prop :=
  ∃ x, s.sessions.get id = some x ∧ x.status = .StatusActive ∧ x.addr = frm

/-- The admission rule of every message kind. -/
def Admissible (s : State) : Msg → Prop
  | .provRegister frm .. => ProvRegisterOK s frm.bytes
  | .provUpdate frm .. => ∃ p, getProvider s frm.bytes = some p
  | .nodeRegister frm gb hr _ _ => ∃ g h, gb = some g ∧ hr = some h ∧ NodeRegisterOK s frm.bytes g h
  | .nodeUpdate frm gb hr _ _ => NodeOwnOK s frm.bytes ∧
      (∀ g, gb = some g → PricesWithin s.params.maxGB s.params.minGB g) ∧
      (∀ h, hr = some h → PricesWithin s.params.maxHr s.params.minHr h)
  | .nodeStatus frm _ => NodeOwnOK s frm.bytes
  | .nodeSubscribe _ node gb hr denom => NodeSubscribeOK s node.bytes gb hr denom
  | .planCreate frm .. => PlanCreateOK s frm.bytes
  | .planStatus frm id _ => PlanOwnedBy s frm.bytes id
  | .planLink frm id node => PlanLinkOK s frm.bytes id node.bytes
  | .planUnlink frm id _ => PlanOwnedBy s frm.bytes id
  | .planSubscribe _ id denom => PlanSubscribeOK s id denom
  | .subCancel frm id => SubCancelOK s frm.bytes id
  | .subAllocate frm id grantee _ => ∃ sub, s.subs.get id = some sub ∧ (∃ pid d, sub.kind = .plan pid d) ∧
      sub.addr = frm.bytes ∧ frm.bytes ≠ grantee.bytes ∧ ∃ a, s.allocs.get (id, frm.bytes) = some a
  | .sessStart frm id node => SessStartOK s frm.bytes id node.bytes
  | .sessUpdate frm id _ _ _ sig => ∃ x, s.sessions.get id = some x ∧ x.status ≠ .StatusInactive ∧ x.node = frm.bytes ∧
      (s.params.proof = true → signatureOk s x.addr sig = true)
  | .sessEnd frm id _ => SessEndOK s frm.bytes id
  | .swap frm hash _ _ => s.params.swapOn = true ∧ s.params.approveBy = frm.bytes ∧ s.swaps.get hash = none

/-! ## bridges between the executable checks and the specification -/

theorem quotes_iff (cs : Coins) (d : Denom) : (∃ c, cs.find d = some c) ↔ Quotes cs d := by
  unfold Coins.find Quotes
  constructor
  · rintro ⟨c, hc⟩
    exact ⟨c, List.mem_of_find?_eq_some hc, by simpa using List.find?_some hc⟩
  · rintro ⟨c, hc, hd⟩
    have : (cs.find? (·.denom = d)).isSome := by
      rw [List.find?_isSome]; exact ⟨c, hc, by simpa using hd⟩
    exact Option.isSome_iff_exists.mp this

theorem pricesWithin_iff (maxP minP prices : Coins) :
    pricesWithin maxP minP prices = true ↔ PricesWithin maxP minP prices := by
  unfold pricesWithin PricesWithin
  simp only [Bool.and_eq_true, List.all_eq_true, Bool.not_eq_true', decide_eq_false_iff_not, Int.not_lt, gt_iff_lt]

theorem has_iff_mem_keys {κ α : Type} [DecidableEq κ] (t : Tbl κ α) (k : κ) : t.has k = true ↔ k ∈ t.keys := by
  rw [Tbl.has_iff]
  constructor
  · rintro ⟨v, hv⟩; exact Tbl.mem_keys_of_get hv
  · intro h; exact Tbl.get_of_mem_keys h

theorem hourly_iff (sub : Sub) : isHourly sub = true ↔ Hourly sub := by
  unfold isHourly Hourly
  cases sub.kind <;> simp

theorem clr_keys (s : State) : KeysOK s → KeysOK (clr s) := KeysOK.clr

/-! ## Soundness: every accepted message met its admission rule -/

theorem nodeSubscribe_sound (s : State) (frm node : TextAddr) (gb hr : Int) (denom : Denom)
    (ha : (deliver s (.nodeSubscribe frm node gb hr denom)).2 = .accept) :
    NodeSubscribeOK s node.bytes gb hr denom := by
  obtain ⟨hv, hh⟩ := deliver_accept ha
  simp only [Msg.handle] at hh
  obtain ⟨h1, h2, n, hn, hst, hg, hhr⟩ := nodeSubscribe_guard hh
  simp only [Msg.validateBasic, bind_eq_ok, require_eq_ok] at hv
  obtain ⟨_, _, _, _, _, v1, _, v2, _, v3, _, v4, _⟩ := hv
  simp only [Bool.not_eq_true', Bool.and_eq_false_imp, beq_iff_eq, bne_iff_ne, ne_eq, decide_eq_true_eq,
    beq_eq_false_iff_ne, bne_eq_false_iff_eq] at v1 v2 v3 v4
  refine ⟨n, hn, hst, ?_⟩
  by_cases hgb : gb = 0
  · right
    have hhr0 : hr ≠ 0 := v1 hgb
    obtain ⟨price, hp⟩ := hhr hgb
    rcases h2 with h2 | h2
    · exact absurd h2 hhr0
    · exact ⟨hgb, by omega, h2.1, h2.2, (quotes_iff _ _).mp ⟨price, hp⟩⟩
  · left
    have hhr0 : hr = 0 := v2 hgb
    obtain ⟨price, hp⟩ := hg hgb
    rcases h1 with h1 | h1
    · exact absurd h1 hgb
    · exact ⟨by omega, hhr0, h1.1, h1.2, (quotes_iff _ _).mp ⟨price, hp⟩⟩

theorem planSubscribe_sound (s : State) (frm : TextAddr) (id : Nat) (denom : Denom)
    (ha : (deliver s (.planSubscribe frm id denom)).2 = .accept) : PlanSubscribeOK s id denom := by
  obtain ⟨_, hh⟩ := deliver_accept ha
  simp only [Msg.handle] at hh
  obtain ⟨p, hp, hst, price, hpr⟩ := planSubscribe_guard hh
  exact ⟨p, hp, hst, (quotes_iff _ _).mp ⟨price, hpr⟩⟩

/-- `MsgStart`, handler level. `KeysOK` is used for two facts only: the node record found under
`node` carries that address, and the subscription found under `id` carries that id. -/
theorem sessStart_handler_sound {s s' : State} {frm : TextAddr} {id : Nat} {node : Addr} (hk : KeysOK s)
    (hh : sessStart s frm id node = .ok s') : SessStartOK s frm.bytes id node := by
  obtain ⟨sub, n, hs, hst, hn, hnst, hnc, hqc, latest, hl, hlat⟩ := sessStart_guard hh
  have hnode : n.addr = node := hk.getNode hn
  have hsid : sub.id = id := hk.subs id sub hs
  refine ⟨sub, n, hs, hst, hn, hnst, ?_, ?_, ?_⟩
  · have := sessStartNodeCheck_ok hnc
    unfold Covers
    cases hkind : sub.kind with
    | node own gb hr dep => simp only [hkind] at this ⊢; rw [← hnode]; exact this
    | plan pid dn =>
      simp only [hkind] at this ⊢
      obtain ⟨p, hp, ⟨k, hk'⟩, hlink⟩ := this
      exact ⟨p, hp, (has_iff_mem_keys _ _).mp hlink, k, hk'⟩
  · obtain ⟨h1, h2⟩ := sessStartQuotaCheck_ok hqc
    refine ⟨h1, ?_⟩
    rcases h2 with h2 | h2
    · left; exact (hourly_iff sub).mp h2
    · right; rw [hsid] at h2; exact h2
  · intro sid hm hmax x hx
    rcases latestSessionForAllocation_ok hl with ⟨_, hnil⟩ | ⟨sid', x', hr, hx', hm', hmax'⟩
    · have := mem_allocSessIds.mpr hm
      rw [hnil] at this; simp at this
    · have e1 : sid ≤ sid' := hmax' sid (mem_allocSessIds.mpr hm)
      have e2 : sid' ≤ sid := hmax sid' (mem_allocSessIds.mp hm')
      have : sid = sid' := by omega
      subst this
      rw [hx] at hx'; cases hx'
      exact hlat x hr

theorem sessStart_sound (s : State) (hk : KeysOK s) (frm node : TextAddr) (id : Nat)
    (ha : (deliver s (.sessStart frm id node)).2 = .accept) : SessStartOK s frm.bytes id node.bytes := by
  obtain ⟨_, hh⟩ := deliver_accept ha
  simp only [Msg.handle] at hh
  exact sessStart_handler_sound (s := clr s) hk.clr hh

/-- **C08, soundness, all message kinds**: an accepted message met its admission rule in the state
it executed in. -/
theorem admission_sound (s : State) (hk : KeysOK s) (m : Msg) (ha : (deliver s m).2 = .accept) : Admissible s m := by
  obtain ⟨hv, hh⟩ := deliver_accept ha
  cases m <;> simp only [Msg.handle] at hh <;> simp only [Admissible]
  case provRegister => exact (provRegister_guard hh).1
  case provUpdate => have := provUpdate_guard hh; exact this
  case nodeRegister frm gb hr url urlok =>
    obtain ⟨h1, h2, h3, _⟩ := nodeRegister_guard hh
    simp only [Msg.validateBasic, bind_eq_ok] at hv
    obtain ⟨_, _, _, v1, _, v2, _⟩ := hv
    cases gb with
    | none => simp [validCoinsField, require, reject] at v1
    | some g =>
      cases hr with
      | none => simp [validCoinsField, require, reject] at v2
      | some h =>
        exact ⟨g, h, rfl, rfl, h3, (pricesWithin_iff _ _ _).mp h1, (pricesWithin_iff _ _ _).mp h2⟩
  case nodeUpdate =>
    obtain ⟨h1, h2, n, hn⟩ := nodeUpdate_guard hh
    exact ⟨⟨n, hn⟩, fun g hg => (pricesWithin_iff _ _ _).mp (h1 g hg), fun g hg => (pricesWithin_iff _ _ _).mp (h2 g hg)⟩
  case nodeStatus => have := nodeStatus_guard hh; exact this
  case nodeSubscribe => exact nodeSubscribe_sound s _ _ _ _ _ ha
  case planCreate => have := planCreate_guard hh; exact this
  case planStatus => obtain ⟨p, hp, hf⟩ := planStatus_guard hh; exact ⟨p, hp, hf.symm⟩
  case planLink => obtain ⟨p, hp, hf, hn⟩ := planLink_guard hh; exact ⟨⟨p, hp, hf.symm⟩, hn⟩
  case planUnlink => obtain ⟨p, hp, hf⟩ := planUnlink_guard hh; exact ⟨p, hp, hf.symm⟩
  case planSubscribe => exact planSubscribe_sound s _ _ _ ha
  case subCancel => obtain ⟨sub, h1, h2, h3⟩ := subCancel_guard hh; exact ⟨sub, h1, h2, h3.symm⟩
  case subAllocate =>
    obtain ⟨sub, h1, h2, h3, h4, h5⟩ := subAllocate_guard hh
    refine ⟨sub, h1, ?_, h3.symm, h4, h5⟩
    unfold isPlanSub at h2
    cases hkind : sub.kind with
    | node a b c d => simp [hkind] at h2
    | plan pid d => exact ⟨pid, d, rfl⟩
  case sessStart => exact sessStart_sound s hk _ _ _ ha
  case sessUpdate => obtain ⟨x, h1, h2, h3, h4⟩ := sessUpdate_guard hh; exact ⟨x, h1, h2, h3.symm, h4⟩
  case sessEnd => obtain ⟨x, h1, h2, h3⟩ := sessEnd_guard hh; exact ⟨x, h1, h2, h3.symm⟩
  case swap => obtain ⟨h1, h2, h3⟩ := swap_guard hh; exact ⟨h1, h2, h3⟩

/-! ## Completeness: a well-formed request that meets its admission rule is accepted -/

theorem require_true (m : String) : require true m = .ok () := rfl
theorem orReject_some {α : Type} (a : α) (m : String) : orReject (some a) m = .ok a := rfl
theorem orPanic_some {α : Type} (a : α) (m : String) : orPanic (some a) m = .ok a := rfl

theorem validStatus_ok {status : Int} {allowed : List Status} (h : validStatus status allowed = .ok ()) :
    ∃ st, statusOfInt status = some st ∧ st.IsOneOf allowed = true := by
  unfold validStatus at h
  split at h
  · rename_i st hs; exact ⟨st, hs, require_eq_ok.mp h⟩
  · simp [reject] at h

theorem accept_of_handle {s : State} {m : Msg} (hv : m.validateBasic = .ok ()) (h : ∃ s', m.handle (clr s) = .ok s') :
    (deliver s m).2 = .accept := by
  obtain ⟨s', hs'⟩ := h
  rw [deliver_of_ok hv hs']

theorem planCreate_complete (s : State) (frm : TextAddr) (dur gb : Int) (prices : Option Coins)
    (hv : (Msg.planCreate frm dur gb prices).validateBasic = .ok ()) (hok : PlanCreateOK s frm.bytes) :
    (deliver s (.planCreate frm dur gb prices)).2 = .accept := by
  obtain ⟨p, hp⟩ := hok
  have hprov : hasProvider (clr s) frm.bytes = true := (hasProvider_iff _ _).mpr ⟨p, hp⟩
  apply accept_of_handle hv
  simp only [Msg.handle, planCreate, hprov, require_true, ok_bind, setPlan, pure_bind']
  exact ⟨_, rfl⟩

theorem planStatus_complete (s : State) (frm : TextAddr) (id : Nat) (status : Int)
    (hv : (Msg.planStatus frm id status).validateBasic = .ok ()) (hok : PlanOwnedBy s frm.bytes id) :
    (deliver s (.planStatus frm id status)).2 = .accept := by
  obtain ⟨p, hp, hf⟩ := hok
  have hp' : getPlan (clr s) id = some p := hp
  have hv' := hv
  simp only [Msg.validateBasic, bind_eq_ok, require_eq_ok] at hv'
  obtain ⟨_, _, _, _, hst⟩ := hv'
  obtain ⟨st, hs, hone⟩ := validStatus_ok hst
  have hdec : decide (frm.bytes = p.prov) = true := by simp [hf]
  apply accept_of_handle hv
  simp only [Status.IsOneOf, Status.Equal, List.any_cons, List.any_nil, Bool.or_false, Bool.or_eq_true, beq_iff_eq] at hone
  rcases hone with rfl | rfl
  · simp only [Msg.handle, planStatus, hp', orReject_some, ok_bind, hdec, require_true, hs, Option.getD_some, setPlan, pure_bind']
    exact ⟨_, rfl⟩
  · simp only [Msg.handle, planStatus, hp', orReject_some, ok_bind, hdec, require_true, hs, Option.getD_some, setPlan, pure_bind']
    exact ⟨_, rfl⟩

theorem planLink_complete (s : State) (frm node : TextAddr) (id : Nat)
    (hv : (Msg.planLink frm id node).validateBasic = .ok ()) (hok : PlanLinkOK s frm.bytes id node.bytes) :
    (deliver s (.planLink frm id node)).2 = .accept := by
  obtain ⟨⟨p, hp, hf⟩, n, hn⟩ := hok
  have hp' : getPlan (clr s) id = some p := hp
  have hnode : hasNode (clr s) node.bytes = true := (hasNode_iff _ _).mpr ⟨n, hn⟩
  have hdec : decide (frm.bytes = p.prov) = true := by simp [hf]
  apply accept_of_handle hv
  simp only [Msg.handle, planLink, hp', orReject_some, ok_bind, hdec, require_true, hnode]
  exact ⟨_, rfl⟩

theorem planUnlink_complete (s : State) (frm node : TextAddr) (id : Nat)
    (hv : (Msg.planUnlink frm id node).validateBasic = .ok ()) (hok : PlanOwnedBy s frm.bytes id) :
    (deliver s (.planUnlink frm id node)).2 = .accept := by
  obtain ⟨p, hp, hf⟩ := hok
  have hp' : getPlan (clr s) id = some p := hp
  have hdec : decide (frm.bytes = p.prov) = true := by simp [hf]
  apply accept_of_handle hv
  simp only [Msg.handle, planUnlink, hp', orReject_some, ok_bind, hdec, require_true]
  exact ⟨_, rfl⟩

theorem nodeStatus_complete (s : State) (frm : TextAddr) (status : Int)
    (hv : (Msg.nodeStatus frm status).validateBasic = .ok ()) (hok : NodeOwnOK s frm.bytes) :
    (deliver s (.nodeStatus frm status)).2 = .accept := by
  obtain ⟨n, hn⟩ := hok
  have hn' : getNode (clr s) frm.bytes = some n := hn
  have hv' := hv
  simp only [Msg.validateBasic, bind_eq_ok] at hv'
  obtain ⟨_, _, hst⟩ := hv'
  obtain ⟨st, hs, hone⟩ := validStatus_ok hst
  apply accept_of_handle hv
  simp only [Status.IsOneOf, Status.Equal, List.any_cons, List.any_nil, Bool.or_false, Bool.or_eq_true, beq_iff_eq] at hone
  rcases hone with rfl | rfl
  · simp only [Msg.handle, nodeStatus, hn', orReject_some, ok_bind, hs, Option.getD_some, setNode, pure_bind']
    exact ⟨_, rfl⟩
  · simp only [Msg.handle, nodeStatus, hn', orReject_some, ok_bind, hs, Option.getD_some, setNode, pure_bind']
    exact ⟨_, rfl⟩

theorem sessEnd_complete (s : State) (frm : TextAddr) (id rating : Nat)
    (hv : (Msg.sessEnd frm id rating).validateBasic = .ok ()) (hok : SessEndOK s frm.bytes id) :
    (deliver s (.sessEnd frm id rating)).2 = .accept := by
  obtain ⟨x, hx, hst, hf⟩ := hok
  have hx' : (clr s).sessions.get id = some x := hx
  have hdec : decide (frm.bytes = x.addr) = true := by simp [hf]
  have hdec2 : decide (x.status = Status.StatusActive) = true := by simp [hst]
  apply accept_of_handle hv
  simp only [Msg.handle, sessEnd, hx', orReject_some, ok_bind, hdec, hdec2, require_true]
  exact ⟨_, rfl⟩

/-- **Completeness of `MsgStart`.**  Index hypotheses (stated explicitly; the Go iterators panic on a
dangling entry): every lease-index entry for this node points at a payout record, every
by-allocation index entry of (subscription, sender) points at a session record. -/
theorem sessStart_complete (s : State) (hk : KeysOK s) (frm node : TextAddr) (id : Nat)
    (hv : (Msg.sessStart frm id node).validateBasic = .ok ()) (hok : SessStartOK s frm.bytes id node.bytes)
    (hlease : ∀ a k, (a, node.bytes, k) ∈ s.payForAccNode.keys → (s.payouts.get k).isSome)
    (hidx : ∀ sid, (id, frm.bytes, sid) ∈ s.sessForAlloc.keys → (s.sessions.get sid).isSome) :
    (deliver s (.sessStart frm id node)).2 = .accept := by
  obtain ⟨sub, n, hs, hst, hn, hnst, hcov, ⟨hown, hquota⟩, hnoact⟩ := hok
  have hnaddr : n.addr = node.bytes := hk.getNode hn
  have hsid : sub.id = id := hk.subs id sub hs
  -- the node / plan check
  have hnc : sessStartNodeCheck (clr s) sub n node.bytes = .ok () := by
    unfold Covers at hcov
    cases hkind : sub.kind with
    | node own gb hr dep =>
      simp only [hkind] at hcov
      exact sessStartNodeCheck_node hkind (by rw [hnaddr, hcov])
    | plan pid dn =>
      simp only [hkind] at hcov
      obtain ⟨p, hp, hlink, lease, hl⟩ := hcov
      exact sessStartNodeCheck_plan (s := clr s) hkind hp
        (hasPayoutForAccountByNode_of (s := clr s) hl (fun k hk' => hlease p.prov k hk'))
        ((has_iff_mem_keys _ _).mpr hlink)
  -- the ownership / quota check
  have hqc : sessStartQuotaCheck (clr s) sub frm.bytes = .ok () := by
    refine sessStartQuotaCheck_of hown ?_
    rcases hquota with h | ⟨a, ha, hlt⟩
    · left; exact (hourly_iff sub).mpr h
    · right; exact ⟨a, by rw [hsid]; exact ha, hlt⟩
  -- the latest session of the allocation
  have hlat : ∃ latest, latestSessionForAllocation (clr s) id frm.bytes = .ok latest ∧
      (match latest with | some x => decide (x.status ≠ Status.StatusActive) | none => true) = true := by
    cases hg : ((allocSessIds (clr s) id frm.bytes).mergeSort (· ≤ ·)).getLast? with
    | none =>
      exact ⟨none, latestSessionForAllocation_none (getLast?_mergeSort_eq_none hg), rfl⟩
    | some sid =>
      obtain ⟨hm, hmax⟩ := getLast?_mergeSort_le hg
      have hm' : (id, frm.bytes, sid) ∈ s.sessForAlloc.keys := mem_allocSessIds.mp hm
      obtain ⟨x, hx⟩ := Option.isSome_iff_exists.mp (hidx sid hm')
      refine ⟨some x, latestSessionForAllocation_some hm hmax hx, ?_⟩
      have := hnoact sid hm' (fun k hk' => hmax k (mem_allocSessIds.mpr hk')) x hx
      simp [this]
  obtain ⟨latest, hl, hcond⟩ := hlat
  have hs' : (clr s).subs.get id = some sub := hs
  have hn' : getNode (clr s) node.bytes = some n := hn
  have hd1 : decide (sub.status = Status.StatusActive) = true := by simp [hst]
  have hd2 : decide (n.status = Status.StatusActive) = true := by simp [hnst]
  apply accept_of_handle hv
  simp only [Msg.handle, sessStart, hs', hn', orReject_some, ok_bind, hd1, hd2, require_true, hnc, hqc, hl]
  cases latest with
  | none => exact ⟨_, rfl⟩
  | some x =>
    simp only at hcond
    simp only [hcond, require_true, ok_bind]
    exact ⟨_, rfl⟩

/-- **Completeness of `MsgCancel`.**  Index hypotheses: every session indexed under the subscription
exists; an hourly subscription has its payout record. -/
theorem subCancel_complete (s : State) (hk : KeysOK s) (frm : TextAddr) (id : Nat)
    (hv : (Msg.subCancel frm id).validateBasic = .ok ()) (hok : SubCancelOK s frm.bytes id)
    (hidx : ∀ sid, (id, sid) ∈ s.sessForSub.keys → (s.sessions.get sid).isSome)
    (hpay : ∀ sub, s.subs.get id = some sub → Hourly sub → (s.payouts.get id).isSome) :
    (deliver s (.subCancel frm id)).2 = .accept := by
  obtain ⟨sub, hs, hst, hf⟩ := hok
  have hsid : sub.id = id := hk.subs id sub hs
  have hs' : (clr s).subs.get id = some sub := hs
  have hd1 : decide (sub.status = Status.StatusActive) = true := by simp [hst]
  have hd2 : decide (frm.bytes = sub.addr) = true := by simp [hf]
  obtain ⟨s1, h1, hp1⟩ := hookFold_ok (sessionIdsForSub { (clr s) with subQ := (clr s).subQ.erase (sub.inactiveAt, sub.id) } sub.id)
    { (clr s) with subQ := (clr s).subQ.erase (sub.inactiveAt, sub.id) }
    (fun sid hm => hidx sid (by rw [← hsid]; exact mem_sessionIdsForSub.mp hm))
  have hhook : subscriptionInactivePendingHook { (clr s) with subQ := (clr s).subQ.erase (sub.inactiveAt, sub.id) } sub.id = .ok s1 := h1
  have hdet : ∃ s2, detachPayout (subToPending s1 sub (clr s).params.subDelay).1 sub false = .ok s2 := by
    unfold detachPayout
    split
    · rename_i hh
      have hsome := hpay sub hs ((hourly_iff sub).mp hh)
      have : ((subToPending s1 sub (clr s).params.subDelay).1.payouts.get sub.id).isSome := by
        show (s1.payouts.get sub.id).isSome
        rw [hp1, hsid]; exact hsome
      obtain ⟨p, hp⟩ := Option.isSome_iff_exists.mp this
      simp only [Bool.false_eq_true, if_false, hp, orReject_some, ok_bind]
      exact ⟨_, rfl⟩
    · exact ⟨_, rfl⟩
  obtain ⟨s2, h2⟩ := hdet
  apply accept_of_handle hv
  simp only [Msg.handle, subCancel, hs', orReject_some, ok_bind, hd1, hd2, require_true, hhook]
  exact ⟨s2, h2⟩

/-! ### registrations (with the deposit paid into the community pool) -/

theorem intOverflows_false_of {x : Int} (h0 : 0 ≤ x)
    (h : x < 115792089237316195423570985008687907853269984665640564039457584007913129639936) : intOverflows x = false := by
  unfold intOverflows
  simp only [decide_eq_false_iff_not, ge_iff_le, Nat.not_le]
  omega

/-- A transfer succeeds when the sender can pay and the receiver's balance stays inside 256 bits
(sender and receiver may coincide). -/
theorem sendCoins_ok_of {s : State} {f t : Addr} {c : Coin} (hamt : 0 ≤ c.amount) (hbal : c.amount ≤ balance s f c.denom)
    (h0 : 0 ≤ balance s t c.denom + c.amount)
    (hlt : balance s t c.denom + c.amount < 115792089237316195423570985008687907853269984665640564039457584007913129639936) :
    ∃ s', sendCoins s f t c = .ok s' := by
  unfold sendCoins
  have h1 : (!decide (balance s f c.denom < c.amount)) = true := by simp; omega
  have h2 : intOverflows (balance (setBalance s f c.denom (balance s f c.denom - c.amount)) t c.denom + c.amount) = false := by
    rw [balance_setBalance]
    by_cases hft : f = t
    · subst hft
      simp only [and_self, if_true]
      exact intOverflows_false_of (by omega) (by omega)
    · simp only [hft, false_and, if_false]
      exact intOverflows_false_of h0 hlt
  simp only [h1, require_true, ok_bind, SInt.add, h2]
  exact ⟨_, rfl⟩

/-- "Can be paid for": nothing is due, or the sender has the coin and the community pool's balance
stays inside 256 bits. -/
def CanFundPool (s : State) (frm : Addr) (c : Coin) : Prop :=
  c.amount = 0 ∨ (0 ≤ c.amount ∧ c.amount ≤ balance s frm c.denom ∧ 0 ≤ balance s distrAddr c.denom + c.amount ∧
    balance s distrAddr c.denom + c.amount < 115792089237316195423570985008687907853269984665640564039457584007913129639936)

theorem fundCommunityPool_ok_of {s : State} {frm : Addr} {c : Coin} (h : CanFundPool s frm c) :
    ∃ s', fundCommunityPool s frm c = .ok s' := by
  unfold fundCommunityPool
  rcases h with h | ⟨h1, h2, h3, h4⟩
  · simp only [h, if_true]; exact ⟨_, rfl⟩
  · split
    · exact ⟨_, rfl⟩
    · exact sendCoins_ok_of h1 h2 h3 h4

theorem provRegister_complete (s : State) (frm : TextAddr) (name identity website desc : Bytes) (webok : Bool)
    (hv : (Msg.provRegister frm name identity website desc webok).validateBasic = .ok ())
    (hok : ProvRegisterOK s frm.bytes) (hpay : CanFundPool s frm.bytes s.params.provDeposit) :
    (deliver s (.provRegister frm name identity website desc webok)).2 = .accept := by
  have hno : hasProvider (clr s) frm.bytes = false := (hasProvider_eq_false_iff _ _).mpr hok
  obtain ⟨s1, h1⟩ := fundCommunityPool_ok_of (s := clr s) hpay
  apply accept_of_handle hv
  simp only [Msg.handle, provRegister, hno, Bool.not_false, require_true, ok_bind, h1, setProvider, pure_bind']
  exact ⟨_, rfl⟩

theorem nodeRegister_complete (s : State) (frm : TextAddr) (gb hr : Coins) (url : Bytes) (urlok : Bool)
    (hv : (Msg.nodeRegister frm (some gb) (some hr) url urlok).validateBasic = .ok ())
    (hok : NodeRegisterOK s frm.bytes gb hr) (hpay : CanFundPool s frm.bytes s.params.nodeDeposit) :
    (deliver s (.nodeRegister frm (some gb) (some hr) url urlok)).2 = .accept := by
  obtain ⟨hnone, hg, hh⟩ := hok
  have hno : hasNode (clr s) frm.bytes = false := (hasNode_eq_false_iff _ _).mpr hnone
  have hg' : pricesWithin (clr s).params.maxGB (clr s).params.minGB gb = true := (pricesWithin_iff _ _ _).mpr hg
  have hh' : pricesWithin (clr s).params.maxHr (clr s).params.minHr hr = true := (pricesWithin_iff _ _ _).mpr hh
  obtain ⟨s1, h1⟩ := fundCommunityPool_ok_of (s := clr s) hpay
  apply accept_of_handle hv
  simp only [Msg.handle, nodeRegister, Option.getD_some, hg', hh', hno, Bool.not_false, require_true, ok_bind, h1, setNode, pure_bind']
  exact ⟨_, rfl⟩

/-! ### purchases (the paying messages) -/

local notation "L128" => (340282366920938463463374607431768211456 : Int)
local notation "L255" => (57896044618658097711785492504343953926634992332820282019728792003956564819968 : Int)
local notation "L256" => (115792089237316195423570985008687907853269984665640564039457584007913129639936 : Int)

/-- A possibly-zero transfer (the hub's `alias.go` wrappers skip zero coins). -/
theorem sendCoins_ok_bal {s : State} {f t : Addr} {c : Coin} (hamt : 0 ≤ c.amount) (hbal : c.amount ≤ balance s f c.denom)
    (h0 : 0 ≤ balance s t c.denom + c.amount) (hlt : balance s t c.denom + c.amount < L256) :
    ∃ s', sendCoins s f t c = .ok s' ∧
      ∀ a d, balance s' a d = balance s a d - (if f = a ∧ c.denom = d then c.amount else 0) + (if t = a ∧ c.denom = d then c.amount else 0) := by
  obtain ⟨s', hs'⟩ := sendCoins_ok_of hamt hbal h0 hlt
  exact ⟨s', hs', (sendCoins_ok hs').1⟩

theorem sendCoinFromAccountToModule_ok_bal {s : State} {f t : Addr} {c : Coin} (hamt : 0 ≤ c.amount) (hbal : c.amount ≤ balance s f c.denom)
    (h0 : 0 ≤ balance s t c.denom + c.amount) (hlt : balance s t c.denom + c.amount < L256) :
    ∃ s', sendCoinFromAccountToModule s f t c = .ok s' ∧
      ∀ a d, balance s' a d = balance s a d - (if f = a ∧ c.denom = d then c.amount else 0) + (if t = a ∧ c.denom = d then c.amount else 0) := by
  unfold sendCoinFromAccountToModule
  split
  · rename_i hz
    refine ⟨s, rfl, ?_⟩
    intro a d; rw [hz]; simp
  · exact sendCoins_ok_bal hamt hbal h0 hlt

theorem sendCoin_ok_bal {s : State} {f t : Addr} {c : Coin} (hamt : 0 ≤ c.amount) (hbal : c.amount ≤ balance s f c.denom)
    (h0 : 0 ≤ balance s t c.denom + c.amount) (hlt : balance s t c.denom + c.amount < L256) :
    ∃ s', sendCoin s f t c = .ok s' ∧
      ∀ a d, balance s' a d = balance s a d - (if f = a ∧ c.denom = d then c.amount else 0) + (if t = a ∧ c.denom = d then c.amount else 0) := by
  unfold sendCoin
  split
  · rename_i hz
    refine ⟨s, rfl, ?_⟩
    intro a d; rw [hz]; simp
  · exact sendCoins_ok_bal hamt hbal h0 hlt

theorem gigabyte_val : Gigabyte = 1000000000 := by
  unfold Gigabyte Hub.Generated.Megabyte Hub.Generated.Kilobyte; norm_num

theorem SInt.sub_ok_of {a b : Int} (h0 : 0 ≤ a - b) (h1 : a - b < L256) : SInt.sub a b = .ok (a - b) := by
  unfold SInt.sub; rw [intOverflows_false_of h0 h1]; rfl

theorem SInt.mul_ok_of {a b : Int} (h0 : 0 ≤ a * b) (h1 : a * b < L256) : SInt.mul a b = .ok (a * b) := by
  unfold SInt.mul; rw [intOverflows_false_of h0 h1]; rfl

/-- "Can be paid for" (plan purchase): the price is a valid coin below 2^128, the staking share is a
fraction, the buyer has the price and is not the fee collector (a module account), and the two
receiving balances are non-negative and below 2^255. -/
structure PlanPayable (s : State) (buyer : Addr) (p : Plan) (price : Coin) : Prop where
  denomOK : validDenom price.denom = true
  amt0 : 0 ≤ price.amount
  amtLt : price.amount < L128
  share0 : 0 ≤ s.params.provShare
  share1 : s.params.provShare ≤ 1000000000000000000
  funds : price.amount ≤ balance s buyer price.denom
  notFee : buyer ≠ feeCollectorAddr
  feeRoom : 0 ≤ balance s feeCollectorAddr price.denom ∧ balance s feeCollectorAddr price.denom < L255
  provRoom : 0 ≤ balance s p.prov price.denom ∧ balance s p.prov price.denom < L255
  gbOK : 0 ≤ p.gb ∧ p.gb < L128

theorem planSubscribe_complete (s : State) (frm : TextAddr) (id : Nat) (denom : Denom)
    (hv : (Msg.planSubscribe frm id denom).validateBasic = .ok ()) (hok : PlanSubscribeOK s id denom)
    (hpay : ∀ p price, getPlan s id = some p → p.prices.find denom = some price → PlanPayable s frm.bytes p price) :
    (deliver s (.planSubscribe frm id denom)).2 = .accept := by
  obtain ⟨p, hp, hact, hq⟩ := hok
  obtain ⟨price, hprice⟩ := (quotes_iff _ _).mpr hq
  have P := hpay p price hp hprice
  have hp' : getPlan (clr s) id = some p := hp
  have hd : decide (p.status = Status.StatusActive) = true := by simp [hact]
  -- the staking reward
  obtain ⟨a, ha⟩ : ∃ a : Nat, price.amount = (a : Int) := ⟨price.amount.toNat, (Int.toNat_of_nonneg P.amt0).symm⟩
  obtain ⟨sh, hsh⟩ : ∃ sh : Nat, (clr s).params.provShare = (sh : Int) := ⟨s.params.provShare.toNat, (Int.toNat_of_nonneg P.share0).symm⟩
  have hsh1 : sh ≤ 10 ^ 18 := by
    have h1 : (sh : Int) ≤ 1000000000000000000 := by rw [← hsh]; exact P.share1
    have e : (10 : Nat) ^ 18 = 1000000000000000000 := by norm_num
    rw [e]; omega
  have ha255 : a < B255 := by have := P.amtLt; omega
  have hprice_eq : price = ⟨price.denom, (a : Int)⟩ := by cases price; simp only [Coin.mk.injEq, true_and]; exact ha
  have hrew : GetProportionOfCoin price (clr s).params.provShare = .ok ⟨price.denom, ((C16.shareSpec a sh : Nat) : Int)⟩ := by
    rw [hsh]; rw [hprice_eq]; exact C16.proportion_exact price.denom a sh P.denomOK ha255 hsh1
  have hle : C16.shareSpec a sh ≤ a := C16.proportion_le a sh hsh1
  -- first transfer: the reward to the fee collector
  have hfee := P.feeRoom
  obtain ⟨s1, hs1, hb1⟩ := sendCoinFromAccountToModule_ok_bal (s := clr s) (f := frm.bytes) (t := feeCollectorAddr)
    (c := ⟨price.denom, ((C16.shareSpec a sh : Nat) : Int)⟩)
    (by show (0 : Int) ≤ ((C16.shareSpec a sh : Nat) : Int); omega)
    (by show ((C16.shareSpec a sh : Nat) : Int) ≤ balance s frm.bytes price.denom; have := P.funds; omega)
    (by show 0 ≤ balance s feeCollectorAddr price.denom + ((C16.shareSpec a sh : Nat) : Int); omega)
    (by show balance s feeCollectorAddr price.denom + ((C16.shareSpec a sh : Nat) : Int) < L256; have := P.amtLt; omega)
  -- the payment to the provider
  have hsub : SInt.sub price.amount ((C16.shareSpec a sh : Nat) : Int) = .ok (price.amount - ((C16.shareSpec a sh : Nat) : Int)) :=
    SInt.sub_ok_of (by omega) (by have := P.amtLt; omega)
  have hnn : decide (0 ≤ price.amount - ((C16.shareSpec a sh : Nat) : Int)) = true := by simp; omega
  have hprov := P.provRoom
  obtain ⟨s2, hs2, _⟩ := sendCoin_ok_bal (s := s1) (f := frm.bytes) (t := p.prov)
    (c := ⟨price.denom, price.amount - ((C16.shareSpec a sh : Nat) : Int)⟩)
    (by show (0 : Int) ≤ price.amount - ((C16.shareSpec a sh : Nat) : Int); omega)
    (by
      show price.amount - ((C16.shareSpec a sh : Nat) : Int) ≤ balance s1 frm.bytes price.denom
      rw [hb1]; have := P.funds
      have e1 : (balance (clr s) frm.bytes price.denom) = balance s frm.bytes price.denom := rfl
      simp only [P.notFee.symm, false_and, if_false, true_and, if_true, e1]; omega)
    (by
      show 0 ≤ balance s1 p.prov price.denom + (price.amount - ((C16.shareSpec a sh : Nat) : Int))
      rw [hb1]
      have e1 : (balance (clr s) p.prov price.denom) = balance s p.prov price.denom := rfl
      have := P.funds
      by_cases hfp : frm.bytes = p.prov
      · have e2 : balance s p.prov price.denom = balance s frm.bytes price.denom := by rw [hfp]
        simp only [hfp, true_and, if_true, e1, e2]
        split <;> omega
      · simp only [hfp, false_and, if_false, e1]
        split <;> omega)
    (by
      show balance s1 p.prov price.denom + (price.amount - ((C16.shareSpec a sh : Nat) : Int)) < L256
      rw [hb1]
      have e1 : (balance (clr s) p.prov price.denom) = balance s p.prov price.denom := rfl
      have := P.amtLt
      have := P.funds
      by_cases hfp : frm.bytes = p.prov
      · have e2 : balance s p.prov price.denom = balance s frm.bytes price.denom := by rw [hfp]
        simp only [hfp, true_and, if_true, e1, e2]
        split <;> omega
      · simp only [hfp, false_and, if_false, e1]
        split <;> omega)
  have hmul : SInt.mul Gigabyte p.gb = .ok (Gigabyte * p.gb) := by
    have := P.gbOK
    apply SInt.mul_ok_of <;> rw [gigabyte_val] <;> omega
  apply accept_of_handle hv
  simp only [Msg.handle, planSubscribe, createSubscriptionForPlan, hp', orReject_some, ok_bind, hd, require_true,
    Plan.price, hprice, hrew, hs1, hsub, requireP, hnn, if_true, pure_bind', hs2, hmul]
  exact ⟨_, rfl⟩

local notation "L63" => (9223372036854775808 : Int)


theorem mem_insertSorted {cs : Coins} {c x : Coin} (h : x ∈ Coins.insertSorted cs c) : x = c ∨ x ∈ cs := by
  induction cs with
  | nil => simp [Coins.insertSorted] at h; exact Or.inl h
  | cons y rest ih =>
    unfold Coins.insertSorted at h
    split at h
    · simp only [List.mem_cons] at h ⊢
      rcases h with h | h | h
      · exact Or.inl h
      · exact Or.inr (Or.inl h)
      · exact Or.inr (Or.inr h)
    · simp only [List.mem_cons] at h ⊢
      rcases h with h | h
      · exact Or.inr (Or.inl h)
      · rcases ih h with h | h
        · exact Or.inl h
        · exact Or.inr (Or.inr h)

theorem nonneg_addAmt {cs : Coins} (h : Coins.Nonneg cs) (d : Denom) {a : Int} (ha : 0 ≤ a) : Coins.Nonneg (Coins.addAmt cs d a) := by
  unfold Coins.addAmt
  cases hf : cs.find? (·.denom = d) with
  | none =>
    simp only []
    split
    · exact h
    · intro x hx
      rcases mem_insertSorted hx with e | e
      · rw [e]; exact ha
      · exact h x e
  | some c =>
    simp only []
    split
    · intro x hx
      exact h x (List.mem_filter.mp hx).1
    · intro x hx
      simp only [List.mem_map] at hx
      obtain ⟨y, hy, rfl⟩ := hx
      have := h y hy
      split
      · show 0 ≤ y.amount + a; omega
      · exact this

theorem not_anyNegative_of_nonneg {cs : Coins} (h : Coins.Nonneg cs) : cs.isAnyNegative = false := by
  unfold Coins.isAnyNegative
  rw [List.any_eq_false]
  intro c hc
  have := h c hc
  simp; omega

/-- Escrowing a coin succeeds when the buyer has it, holds only
non-negative deposits and the escrow balance stays inside 256 bits. -/
theorem addDeposit_ok_of {s : State} {a : Addr} {c : Coin} (h0 : 0 ≤ c.amount) (hbal : c.amount ≤ balance s a c.denom)
    (hroom0 : 0 ≤ balance s depositAddr c.denom)
    (hroom : balance s depositAddr c.denom + c.amount < L256)
    (hdep : ∀ cs, s.deposits.get a = some cs → Coins.Nonneg cs) : ∃ s', addDeposit s a c = .ok s' := by
  unfold addDeposit
  split
  · exact ⟨_, rfl⟩
  · obtain ⟨s1, hs1⟩ := sendCoins_ok_of (s := s) (f := a) (t := depositAddr) h0 hbal (by omega) hroom
    have hd1 : s1.deposits = s.deposits := by rw [(sendCoins_ok hs1).2.1]
    have hnn : Coins.Nonneg ((getDeposit s1 a).getD []) := by
      unfold getDeposit; rw [hd1]
      cases hg : s.deposits.get a with
      | none => exact Coins.nonneg_nil
      | some cs => exact hdep cs hg
    have hneg : (!(((getDeposit s1 a).getD []).add c).isAnyNegative) = true := by
      have : (((getDeposit s1 a).getD []).add c).isAnyNegative = false :=
        not_anyNegative_of_nonneg (nonneg_addAmt hnn c.denom h0)
      rw [this]; rfl
    unfold depositAdd
    simp only [hs1, ok_bind, hneg, require_true]
    exact ⟨_, rfl⟩

theorem newCoin_ok_of {d : Denom} {a : Int} (hd : validDenom d = true) (ha : 0 ≤ a) : newCoin d a = .ok ⟨d, a⟩ := by
  unfold newCoin
  have : ¬ (a < 0) := by omega
  simp only [hd, Bool.not_true, Bool.false_eq_true, if_false, this]
  rfl

/-- "Can be paid for" (node purchase): the quoted price is a valid coin below 2^128, the quantity
fits an int64, the buyer has price × quantity, holds only non-negative
deposits, and the escrow balance is non-negative and below 2^255. -/
structure NodePayable (s : State) (buyer : Addr) (price : Coin) (qty : Int) : Prop where
  denomOK : validDenom price.denom = true
  amt0 : 0 ≤ price.amount
  amtLt : price.amount < L128
  qty0 : 0 < qty
  qtyLt : qty < L63
  funds : price.amount * qty ≤ balance s buyer price.denom
  room : 0 ≤ balance s depositAddr price.denom ∧ balance s depositAddr price.denom < L255
  depNonneg : ∀ cs, s.deposits.get buyer = some cs → Coins.Nonneg cs

theorem NodePayable.clr {s : State} {buyer : Addr} {price : Coin} {qty : Int} (P : NodePayable s buyer price qty) :
    NodePayable (clr s) buyer price qty :=
  ⟨P.denomOK, P.amt0, P.amtLt, P.qty0, P.qtyLt, P.funds, P.room, P.depNonneg⟩

theorem chargeSpec_gigabytes (p g : Nat) : C16.chargeSpec p (1000000000 * g) = p * g := by
  unfold C16.chargeSpec
  have e : p * (1000000000 * g) = 1000000000 * (p * g) := by ring
  rw [e]
  generalize p * g = q
  omega

theorem createNodeSubGB_ok_of {s : State} {acc node : Addr} {n : Node} {gb : Int} {denom : Denom} {price : Coin}
    (hprice : n.gb.find denom = some price) (P : NodePayable s acc price gb) :
    ∃ r, createNodeSubGB s acc node n gb denom = .ok r := by
  obtain ⟨pa, hpa⟩ : ∃ pa : Nat, price.amount = (pa : Int) := ⟨price.amount.toNat, (Int.toNat_of_nonneg P.amt0).symm⟩
  obtain ⟨g, hg⟩ : ∃ g : Nat, gb = (g : Int) := ⟨gb.toNat, (Int.toNat_of_nonneg (le_of_lt P.qty0)).symm⟩
  have hpaLt : pa < 340282366920938463463374607431768211456 := by have := P.amtLt; omega
  have hgLt : g < 9223372036854775808 := by have := P.qtyLt; omega
  have hmul : SInt.mul Gigabyte gb = .ok (((1000000000 * g : Nat)) : Int) := by
    have e : Gigabyte * gb = (((1000000000 * g : Nat)) : Int) := by rw [gigabyte_val, hg]; push_cast; ring
    rw [SInt.mul_ok_of (by rw [e]; omega) (by rw [e]; omega), e]
  have hprod : pa * (1000000000 * g) < B255 := by
    calc pa * (1000000000 * g) ≤ 340282366920938463463374607431768211456 * (1000000000 * 9223372036854775808) :=
          Nat.mul_le_mul (by omega) (by omega)
      _ < B255 := by norm_num
  have hafb : AmountForBytes price.amount (((1000000000 * g : Nat)) : Int) = .ok (((pa * g : Nat)) : Int) := by
    rw [hpa, C16.afb_exact_wide pa (1000000000 * g) hprod, chargeSpec_gigabytes]
  have hcoin : newCoin price.denom (((pa * g : Nat)) : Int) = .ok ⟨price.denom, (((pa * g : Nat)) : Int)⟩ :=
    newCoin_ok_of P.denomOK (by omega)
  have hdue : (((pa * g : Nat)) : Int) = price.amount * gb := by rw [hpa, hg]; push_cast; ring
  have hlt : (((pa * g : Nat)) : Int) < L255 := by
    have : pa * g ≤ 340282366920938463463374607431768211456 * 9223372036854775808 := Nat.mul_le_mul (by omega) (by omega)
    have h2 : (340282366920938463463374607431768211456 * 9223372036854775808 : Nat) < 57896044618658097711785492504343953926634992332820282019728792003956564819968 := by norm_num
    omega
  obtain ⟨s1, hs1⟩ := addDeposit_ok_of (s := s) (a := acc) (c := ⟨price.denom, (((pa * g : Nat)) : Int)⟩)
    (by show (0 : Int) ≤ ((pa * g : Nat) : Int); omega)
    (by show (((pa * g : Nat)) : Int) ≤ balance s acc price.denom; rw [hdue]; exact P.funds)
    P.room.1
    (by show balance s depositAddr price.denom + (((pa * g : Nat)) : Int) < L256; have := P.room.2; omega)
    P.depNonneg
  unfold createNodeSubGB
  simp only [Node.gigabytePrice, hprice, orReject_some, ok_bind, hmul, hafb, hcoin, hs1]
  exact ⟨_, rfl⟩

theorem createNodeSubHr_ok_of {s : State} {acc node : Addr} {n : Node} {hr : Int} {denom : Denom} {price : Coin}
    (hprice : n.hr.find denom = some price) (P : NodePayable s acc price hr) :
    ∃ r, createNodeSubHr s acc node n hr denom = .ok r := by
  obtain ⟨pa, hpa⟩ : ∃ pa : Nat, price.amount = (pa : Int) := ⟨price.amount.toNat, (Int.toNat_of_nonneg P.amt0).symm⟩
  obtain ⟨g, hg⟩ : ∃ g : Nat, hr = (g : Int) := ⟨hr.toNat, (Int.toNat_of_nonneg (le_of_lt P.qty0)).symm⟩
  have hpaLt : pa < 340282366920938463463374607431768211456 := by have := P.amtLt; omega
  have hgLt : g < 9223372036854775808 := by have := P.qtyLt; omega
  have hg0 : 0 < g := by have := P.qty0; omega
  have hdue : price.amount * hr = (((pa * g : Nat)) : Int) := by rw [hpa, hg]; push_cast; ring
  have hlt : (((pa * g : Nat)) : Int) < L255 := by
    have : pa * g ≤ 340282366920938463463374607431768211456 * 9223372036854775808 := Nat.mul_le_mul (by omega) (by omega)
    have h2 : (340282366920938463463374607431768211456 * 9223372036854775808 : Nat) < 57896044618658097711785492504343953926634992332820282019728792003956564819968 := by norm_num
    omega
  have hmul : SInt.mul price.amount hr = .ok (((pa * g : Nat)) : Int) := by
    rw [SInt.mul_ok_of (by rw [hdue]; omega) (by rw [hdue]; omega), hdue]
  have hcoin : newCoin price.denom (((pa * g : Nat)) : Int) = .ok ⟨price.denom, (((pa * g : Nat)) : Int)⟩ :=
    newCoin_ok_of P.denomOK (by omega)
  obtain ⟨s1, hs1⟩ := addDeposit_ok_of (s := s) (a := acc) (c := ⟨price.denom, (((pa * g : Nat)) : Int)⟩)
    (by show (0 : Int) ≤ ((pa * g : Nat) : Int); omega)
    (by show (((pa * g : Nat)) : Int) ≤ balance s acc price.denom; rw [← hdue]; exact P.funds)
    P.room.1
    (by show balance s depositAddr price.denom + (((pa * g : Nat)) : Int) < L256; have := P.room.2; omega)
    P.depNonneg
  have hquo : SInt.quo (((pa * g : Nat)) : Int) hr = .ok (((pa * g / g : Nat)) : Int) := by
    rw [hg]; exact SInt.quo_nat (pa * g) g hg0
  have hcoin2 : newCoin price.denom (((pa * g / g : Nat)) : Int) = .ok ⟨price.denom, (((pa * g / g : Nat)) : Int)⟩ :=
    newCoin_ok_of P.denomOK (Int.natCast_nonneg _)
  unfold createNodeSubHr
  simp only [Node.hourlyPrice, hprice, orReject_some, ok_bind, hmul, hcoin, hs1, hquo, hcoin2]
  exact ⟨_, rfl⟩

/-- **Completeness of the node purchase.** -/
theorem nodeSubscribe_complete (s : State) (frm node : TextAddr) (gb hr : Int) (denom : Denom)
    (hv : (Msg.nodeSubscribe frm node gb hr denom).validateBasic = .ok ()) (hok : NodeSubscribeOK s node.bytes gb hr denom)
    (hpay : ∀ n price, getNode s node.bytes = some n →
      ((gb ≠ 0 ∧ n.gb.find denom = some price) ∨ (gb = 0 ∧ n.hr.find denom = some price)) →
      NodePayable s frm.bytes price (if gb ≠ 0 then gb else hr)) :
    (deliver s (.nodeSubscribe frm node gb hr denom)).2 = .accept := by
  obtain ⟨n, hn, hact, hcase⟩ := hok
  have hn' : getNode (clr s) node.bytes = some n := hn
  have hd : decide (n.status = Status.StatusActive) = true := by simp [hact]
  apply accept_of_handle hv
  rcases hcase with ⟨hg0, hh0, hmin, hmax, hq⟩ | ⟨hg0, hh0, hmin, hmax, hq⟩
  · obtain ⟨price, hprice⟩ := (quotes_iff _ _).mpr hq
    have hne : gb ≠ 0 := by omega
    have P := hpay n price hn (Or.inl ⟨hne, hprice⟩)
    simp only [hne, ne_eq, not_false_eq_true, if_true] at P
    obtain ⟨r, hr'⟩ := createNodeSubGB_ok_of (s := clr s) (node := node.bytes) hprice P.clr
    have c1 : (gb == 0 || (decide ((clr s).params.minSubGB ≤ gb) && decide (gb ≤ (clr s).params.maxSubGB))) = true := by
      simp; right; exact ⟨hmin, hmax⟩
    have c2 : (hr == 0 || (decide ((clr s).params.minSubHr ≤ hr) && decide (hr ≤ (clr s).params.maxSubHr))) = true := by
      simp [hh0]
    simp only [Msg.handle, nodeSubscribe, c1, c2, require_true, ok_bind, createSubscriptionForNode, hn', orReject_some, hd,
      hne, ne_eq, not_false_eq_true, if_true, hr']
    exact ⟨_, rfl⟩
  · obtain ⟨price, hprice⟩ := (quotes_iff _ _).mpr hq
    have P := hpay n price hn (Or.inr ⟨hg0, hprice⟩)
    simp only [hg0, ne_eq, not_true_eq_false, if_false] at P
    obtain ⟨r, hr'⟩ := createNodeSubHr_ok_of (s := clr s) (node := node.bytes) hprice P.clr
    subst hg0
    have c1 : ((0 : Int) == 0 || (decide ((clr s).params.minSubGB ≤ 0) && decide (0 ≤ (clr s).params.maxSubGB))) = true := by
      simp
    have c2 : (hr == 0 || (decide ((clr s).params.minSubHr ≤ hr) && decide (hr ≤ (clr s).params.maxSubHr))) = true := by
      simp; right; exact ⟨hmin, hmax⟩
    simp only [Msg.handle, nodeSubscribe, c1, c2, require_true, ok_bind, createSubscriptionForNode, hn', orReject_some, hd,
      ne_eq, not_true_eq_false, if_false, hr']
    exact ⟨_, rfl⟩


/-! ## Register only once -/

/-- No message deletes a provider record. -/
theorem provider_persists (s : State) (hk : KeysOK s) (m : Msg) (a : Addr) (h : ∃ p, getProvider s a = some p) :
    ∃ p, getProvider (deliver s m).1 a = some p := by
  by_cases hch : getProvider (deliver s m).1 a = getProvider s a
  · rw [hch]; exact h
  · obtain ⟨hacc, hkind, hsender⟩ := C07.provider_record_changes_only_by_owner s hk m a hch
    obtain ⟨_, hh⟩ := deliver_accept hacc
    cases m <;> simp only [C07.isProvMsg, Bool.false_eq_true] at hkind <;> simp only [Msg.sender] at hsender <;>
      simp only [Msg.handle] at hh
    case provRegister =>
      have := (provRegister_guard hh).1
      rw [hsender] at this
      obtain ⟨p, hp⟩ := h
      rw [show getProvider (clr s) a = getProvider s a from rfl, hp] at this
      cases this
    case provUpdate =>
      have := provUpdate_exists hk.clr hh
      rw [hsender] at this
      exact this

/-- No message deletes a node record. -/
theorem node_persists (s : State) (hk : KeysOK s) (m : Msg) (a : Addr) (h : ∃ n, getNode s a = some n) :
    ∃ n, getNode (deliver s m).1 a = some n := by
  by_cases hch : getNode (deliver s m).1 a = getNode s a
  · rw [hch]; exact h
  · obtain ⟨hacc, hkind, hsender⟩ := C07.node_record_changes_only_by_owner s hk m a hch
    obtain ⟨_, hh⟩ := deliver_accept hacc
    cases m <;> simp only [C07.isNodeMsg, Bool.false_eq_true] at hkind <;> simp only [Msg.sender] at hsender <;>
      simp only [Msg.handle] at hh
    case nodeRegister =>
      have := (nodeRegister_guard hh).2.2.1
      rw [hsender] at this
      obtain ⟨p, hp⟩ := h
      rw [show getNode (clr s) a = getNode s a from rfl, hp] at this
      cases this
    case nodeUpdate =>
      have := nodeUpdate_exists hk.clr hh
      rw [hsender] at this
      exact this
    case nodeStatus =>
      have := nodeStatus_exists hk.clr hh
      rw [hsender] at this
      exact this

theorem provider_persists_all (ms : List Msg) : ∀ (s : State), KeysOK s → ∀ a, (∃ p, getProvider s a = some p) →
    ∃ p, getProvider (deliverAll s ms) a = some p := by
  induction ms with
  | nil => intro s _ a h; exact h
  | cons m rest ih => intro s hk a h; exact ih _ (KeysOK_deliver s m hk) a (provider_persists s hk m a h)

theorem node_persists_all (ms : List Msg) : ∀ (s : State), KeysOK s → ∀ a, (∃ n, getNode s a = some n) →
    ∃ n, getNode (deliverAll s ms) a = some n := by
  induction ms with
  | nil => intro s _ a h; exact h
  | cons m rest ih => intro s hk a h; exact ih _ (KeysOK_deliver s m hk) a (node_persists s hk m a h)

/-- **Providers register only once**: after an accepted registration by `a`, a second registration
by `a` is rejected — immediately and after any further messages (no message deletes the record). -/
theorem provider_registers_only_once (s : State) (hk : KeysOK s) (frm : TextAddr) (name identity website desc : Bytes) (webok : Bool)
    (ha : (deliver s (.provRegister frm name identity website desc webok)).2 = .accept) (ms : List Msg)
    (frm' : TextAddr) (hsame : frm'.bytes = frm.bytes) (name' identity' website' desc' : Bytes) (webok' : Bool) :
    (deliver (deliverAll (deliver s (.provRegister frm name identity website desc webok)).1 ms)
      (.provRegister frm' name' identity' website' desc' webok')).2 ≠ .accept := by
  obtain ⟨_, hh⟩ := deliver_accept ha
  have h1 := provRegister_exists hh
  obtain ⟨p, hp⟩ := provider_persists_all ms _ (KeysOK_deliver s _ hk) frm.bytes h1
  intro hacc
  have := admission_sound _ (keysOK_deliverAll ms _ (KeysOK_deliver s _ hk)) _ hacc
  simp only [Admissible, ProvRegisterOK, hsame] at this
  rw [hp] at this
  cases this

/-- **Nodes register only once.** -/
theorem node_registers_only_once (s : State) (hk : KeysOK s) (frm : TextAddr) (gb hr : Option Coins) (url : Bytes) (urlok : Bool)
    (ha : (deliver s (.nodeRegister frm gb hr url urlok)).2 = .accept) (ms : List Msg)
    (frm' : TextAddr) (hsame : frm'.bytes = frm.bytes) (gb' hr' : Option Coins) (url' : Bytes) (urlok' : Bool) :
    (deliver (deliverAll (deliver s (.nodeRegister frm gb hr url urlok)).1 ms)
      (.nodeRegister frm' gb' hr' url' urlok')).2 ≠ .accept := by
  obtain ⟨_, hh⟩ := deliver_accept ha
  have h1 := nodeRegister_exists hh
  obtain ⟨p, hp⟩ := node_persists_all ms _ (KeysOK_deliver s _ hk) frm.bytes h1
  intro hacc
  have := admission_sound _ (keysOK_deliverAll ms _ (KeysOK_deliver s _ hk)) _ hacc
  simp only [Admissible, NodeRegisterOK, hsame] at this
  obtain ⟨g, h, _, _, hnone, _⟩ := this
  rw [hp] at hnone
  cases hnone

/-- The state-level form: whenever the record exists, registration is rejected. -/
theorem register_only_once (s : State) (frm : TextAddr) :
    (∀ name identity website desc webok, (∃ p, getProvider s frm.bytes = some p) →
      (deliver s (.provRegister frm name identity website desc webok)).2 ≠ .accept) ∧
    (∀ gb hr url urlok, (∃ n, getNode s frm.bytes = some n) →
      (deliver s (.nodeRegister frm gb hr url urlok)).2 ≠ .accept) := by
  constructor
  · intro name identity website desc webok ⟨p, hp⟩ hacc
    obtain ⟨_, hh⟩ := deliver_accept hacc
    have := (provRegister_guard hh).1
    rw [show getProvider (clr s) frm.bytes = getProvider s frm.bytes from rfl, hp] at this
    cases this
  · intro gb hr url urlok ⟨n, hn⟩ hacc
    obtain ⟨_, hh⟩ := deliver_accept hacc
    have := (nodeRegister_guard hh).2.2.1
    rw [show getNode (clr s) frm.bytes = getNode s frm.bytes from rfl, hn] at this
    cases this

/-! ## Examples on concrete states (non-vacuity) -/
section Examples
open C07 (alice bob carol nodeA nodeB acc prov node g0)

/-- alice is a provider with plan 1 (active) linked to node A; nodes A (active) and B (inactive);
alice leases node A by the hour (subscription 1); bob bought 1 GB on node A (subscription 2) and
plan 1 (subscription 3). -/
def msgs : List Msg :=
  [ .provRegister (acc alice) [65] [] [] [] true,
    .nodeRegister (acc nodeA) (some [⟨"udvpn", 5⟩]) (some [⟨"udvpn", 3⟩]) [104] true,
    .nodeRegister (acc nodeB) (some [⟨"udvpn", 5⟩]) (some [⟨"udvpn", 3⟩]) [104] true,
    .planCreate (prov alice) 1000 1 (some [⟨"udvpn", 10⟩]),
    .planStatus (prov alice) 1 1,
    .nodeStatus (node nodeA) 1,
    .planLink (prov alice) 1 (node nodeA),
    .planLink (prov alice) 1 (node nodeB),
    .nodeSubscribe (acc alice) (node nodeA) 0 2 "udvpn",
    .nodeSubscribe (acc bob) (node nodeA) 1 0 "udvpn",
    .planSubscribe (acc bob) 1 "udvpn" ]

def s2 : State := deliverAll g0.state msgs

theorem s2_keys : KeysOK s2 := keysOK_deliverAll msgs _ (keysOK_genesis g0)

example : s2.subs.keys = [1, 2, 3] ∧ s2.payForAccNode.keys = [(alice, nodeA, 1)] := by decide +kernel

-- purchases: active node / plan, quantity inside the limits, quoted denomination
example : (deliver s2 (.nodeSubscribe (acc carol) (node nodeA) 2 0 "udvpn")).2 = .accept := by decide +kernel
example : (deliver s2 (.nodeSubscribe (acc carol) (node nodeB) 2 0 "udvpn")).2 = .reject "invalid node status" := by decide +kernel
example : (deliver s2 (.nodeSubscribe (acc carol) (node nodeA) 11 0 "udvpn")).2 = .reject "invalid gigabytes" := by decide +kernel
example : (deliver s2 (.nodeSubscribe (acc carol) (node nodeA) 2 0 "uatom")).2 = .reject "price not found" := by decide +kernel
example : (deliver s2 (.nodeSubscribe (acc carol) (node nodeA) 2 2 "udvpn")).2 =
    .reject "validate: [gigabytes, hours] cannot be non-empty" := by decide +kernel
example : (deliver s2 (.planSubscribe (acc carol) 1 "udvpn")).2 = .accept := by decide +kernel
example : (deliver s2 (.planSubscribe (acc carol) 2 "udvpn")).2 = .reject "plan not found" := by decide +kernel
-- sessions: node subscription on its own node; plan subscription on a linked, leased, active node
example : (deliver s2 (.sessStart (acc bob) 2 (node nodeA))).2 = .accept := by decide +kernel
example : (deliver s2 (.sessStart (acc bob) 3 (node nodeA))).2 = .accept := by decide +kernel
example : (deliver s2 (.sessStart (acc bob) 3 (node nodeB))).2 = .reject "invalid node status" := by decide +kernel
example : (deliver s2 (.sessStart (acc carol) 3 (node nodeA))).2 = .reject "allocation not found" := by decide +kernel
-- a second session on the same allocation while the first is active
example : (deliver (deliver s2 (.sessStart (acc bob) 2 (node nodeA))).1 (.sessStart (acc bob) 2 (node nodeA))).2 =
    .reject "duplicate active session" := by decide +kernel
-- registering twice; plans need a provider; links need a node
example : (deliver s2 (.provRegister (acc alice) [66] [] [] [] true)).2 = .reject "duplicate provider" := by decide +kernel
example : (deliver s2 (.nodeRegister (acc nodeA) (some [⟨"udvpn", 5⟩]) (some [⟨"udvpn", 3⟩]) [104] true)).2 =
    .reject "duplicate node" := by decide +kernel
example : (deliver s2 (.planCreate (prov bob) 1000 1 (some [⟨"udvpn", 10⟩]))).2 = .reject "provider not found" := by decide +kernel
example : (deliver s2 (.planLink (prov alice) 1 (node carol))).2 = .reject "node not found" := by decide +kernel

/-- The specification predicates are satisfiable: they hold in `s2` (by soundness). -/
example : SessStartOK s2 bob 3 nodeA := sessStart_sound s2 s2_keys (acc bob) (node nodeA) 3 (by decide +kernel)
example : NodeSubscribeOK s2 nodeA 2 0 "udvpn" := nodeSubscribe_sound s2 (acc carol) (node nodeA) 2 0 "udvpn" (by decide +kernel)
example : PlanSubscribeOK s2 1 "udvpn" := planSubscribe_sound s2 (acc carol) 1 "udvpn" (by decide +kernel)

/-- The "can be paid for" hypotheses of the purchase completeness theorems are satisfiable:
carol can buy 2 GB on node A and plan 1 in `s2`; the completeness theorems then give acceptance. -/
example : NodePayable s2 carol ⟨"udvpn", 5⟩ 2 :=
  ⟨by decide, by decide, by decide, by decide, by decide, by decide +kernel, by decide +kernel,
   by intro cs h; have e : s2.deposits.get carol = none := by decide +kernel
      rw [e] at h; cases h⟩

example : (deliver s2 (.planCreate (prov alice) 5 5 (some [⟨"udvpn", 1⟩]))).2 = .accept :=
  planCreate_complete s2 (prov alice) 5 5 (some [⟨"udvpn", 1⟩]) (by decide) (by
    have : (getProvider s2 alice).isSome = true := by decide +kernel
    exact Option.isSome_iff_exists.mp this)

/-- Remark (see the C07 report): in a *shared* plan subscription the owner cannot end a grantee's
session with `MsgEnd` (unauthorized), but the owner's `MsgCancel` of the subscription moves that
session to inactive-pending (the third case of `C07.session_changes_only_by_owner`). -/
def s3 : State := deliverAll s2
  [ .subAllocate (acc bob) 3 (acc carol) 500000000,
    .sessStart (acc carol) 3 (node nodeA) ]

example : (s3.sessions.get 1).map (fun x => (x.addr, x.status)) = some (carol, Status.StatusActive) := by decide +kernel
example : (deliver s3 (.sessEnd (acc bob) 1 0)).2 = .reject "unauthorized" := by decide +kernel
example : ((deliver s3 (.subCancel (acc bob) 3)).1.sessions.get 1).map (fun x => (x.addr, x.status)) =
    some (carol, Status.StatusInactivePending) := by decide +kernel

end Examples

end Hub.Props.C08
