import Hub.Props.C12
import Hub.Lemmas.GenWFSteps
/-
C12, continued — reachable states are genesis-well-formed.

`Hub/Props/C12.lean` proves the round trip (`roundtrip_partial`, `continuation_partial`) for every state
that satisfies `GenWF`.  Here `GenWF` is discharged for the states of every history:

* the structural fields (records under their own key and partition, exact index tables, duplicate-free
  tables) follow from `StructInv` (`Hub/Lemmas/AllInv.lean`), which holds in every reachable state;
* the plan counter being the attained maximum, the duplicate-freeness and keying of deposits / swaps /
  inflation schedule, and the validity of every stored record and of the parameters are the new
  inductive invariant `RV` (`Hub/Lemmas/GenWFSteps.lean`), proved over all 17 handlers, the block
  hooks and governance.

Hypotheses that remain, and why:
* `hswap : ∀ h w, s.swaps.get h = some w → 100 ≤ w.amt.amount` — finding F4: a swap is recorded as
  amount/100 but `Swap.Validate` demands ≥ 100; NOT an invariant (`small_swap_invalidates_export`).
  Everything else `Swap.Validate` checks (hash length 32, receiver, denomination) is proved.
* `GenesisValid g` — the `Genesis` type carries arbitrary `params` and `inflations`; a chain only starts
  from a genesis whose parameters and inflation schedule pass `Validate`, with a block time after Go's
  zero time (`ValidateGenesis` at `InitChain`; DESIGN.md §5: "genesis-valid", D8).
* `TimesOK ops` — every block time of the history is after Go's zero time `0001-01-01T00:00:00Z`
  (DESIGN.md §5 D4: block times lie in years 2000..3000).  `Node/Plan/Session.Validate` reject a zero
  `status_at` / `inactive_at`, and the handlers stamp records with the block time, so in the *model*
  (whose `begin t` accepts any integer) a block at the zero time would store an invalid record
  (`zero_time_block_breaks_validity` below); no real chain has such a block.
No other field of `GenWF` fails in a reachable state: no new finding.
-/
namespace Hub.Props.C12
open Hub.SDK Hub.Model Hub.Model.Gen Hub.Model.GenWFSteps
open Hub.Generated (Status)

/-! ## `GenWF` from the two invariants -/

theorem getPlan_iff_of_rec {s : State} (hr : RecInv s) {i : Nat} {p : Plan} :
    getPlan s i = some p ↔ (s.planActive.get i = some p ∨ s.planInactive.get i = some p) := by
  constructor
  · exact getPlan_mem
  · rintro (h | h)
    · unfold getPlan; rw [h]
    · unfold getPlan
      cases ha : s.planActive.get i with
      | none => exact h
      | some q =>
        exact absurd ⟨Tbl.has_of_get_A ha, Tbl.has_of_get_A h⟩ (hr.planX i)

theorem partOK_of_rec {κ α : Type} [DecidableEq κ] {tA tI : Tbl κ α} {key : α → κ} {st : α → Status}
    (hA : Tbl.Nodup tA) (hI : Tbl.Nodup tI) (oA : ∀ k v, tA.get k = some v → key v = k ∧ st v = .StatusActive)
    (oI : ∀ k v, tI.get k = some v → key v = k ∧ st v = .StatusInactive)
    (hx : ∀ k, ¬ (tA.has k = true ∧ tI.has k = true)) : PartOK tA tI key st where
  nodupA := hA
  nodupI := hI
  ownA := oA
  ownI := oI
  disj := by
    intro k v hv
    cases hi : tI.get k with
    | none => rfl
    | some w => exact absurd ⟨Tbl.has_of_get_A hv, Tbl.has_of_get_A hi⟩ (hx k)

/-- **`GenWF` holds wherever the structural invariants and the record-validity invariant hold**, given
that no recorded swap is below 100 (F4). -/
theorem genWF_of_invariants {s : State} (hs : StructInv s) (hv : RV s)
    (hswap : ∀ h w, s.swaps.get h = some w → 100 ≤ w.amt.amount) : GenWF s := by
  obtain ⟨nQ, nPFP, nNFP, nNA, nNI, nPA, nPI, nPlA, nPlI⟩ := hs.nodeIdx.nodupQ
  have hplan : ∀ {i : Nat} {p : Plan}, getPlan s i = some p ↔ (s.planActive.get i = some p ∨ s.planInactive.get i = some p) :=
    getPlan_iff_of_rec hs.recs
  refine
    { depNodup := hv.depNodup, linkNodup := nNFP, sessNodup := hs.sessIdx.nodup.1, swapNodup := hv.swapNodup,
      inflNodup := hv.inflNodup,
      prov := partOK_of_rec nPA nPI hs.recs.provA hs.recs.provI hs.recs.provX,
      node := partOK_of_rec nNA nNI hs.recs.nodeA (fun a n h => ⟨(hs.recs.nodeI a n h).1, (hs.recs.nodeI a n h).2.1⟩) hs.recs.nodeX,
      plan := partOK_of_rec nPlA nPlI hs.recs.planA hs.recs.planI hs.recs.planX,
      sessKey := fun i x h => (hs.count.sessions i x h).1,
      swapKey := fun h w hw => (hv.swaps h w hw).1,
      inflKey := fun t i h => (hv.inflations t i h).1,
      nodeQ := fun t a => by rw [← Tbl.has_unit_iff]; exact hs.nodeIdx.nodeQ t a,
      planIdx := ?_, links := ?_,
      sessQ := fun t i => by rw [← Tbl.has_unit_iff]; exact hs.sessIdx.q t i,
      sessAcc := fun a i => by rw [← Tbl.has_unit_iff]; exact hs.sessIdx.acc a i,
      sessNode := fun a i => by rw [← Tbl.has_unit_iff]; exact hs.sessIdx.node a i,
      sessSub := fun b i => by rw [← Tbl.has_unit_iff]; exact hs.sessIdx.sub b i,
      sessAlloc := fun b a i => by rw [← Tbl.has_unit_iff]; exact hs.sessIdx.alloc b a i,
      planCount := ?_,
      depValid := fun a cs h => hv.deposits a cs h,
      provValid := ?_, nodeValid := ?_, planValid := ?_,
      sessValid := fun i x h => hv.sessions i x h,
      swapValid := ?_,
      inflValid := fun t i h => (hv.inflations t i h).2,
      paramsValid := hv.params }
  · intro a i
    rw [← Tbl.has_unit_iff, hs.nodeIdx.planForProv a i]
    constructor
    · rintro ⟨p, hp, e⟩; exact ⟨p, hplan.mp hp, e⟩
    · rintro ⟨p, hp, e⟩; exact ⟨p, hplan.mpr hp, e⟩
  · intro i a hl
    obtain ⟨h1, h2⟩ := hs.nodeIdx.links i a ((Tbl.has_unit_iff _ _).mpr hl)
    constructor
    · cases hp : getPlan s i with
      | none => rw [hp] at h1; cases h1
      | some p => exact ⟨p, hplan.mp hp⟩
    · unfold hasNode at h2
      rcases Bool.or_eq_true_iff.mp h2 with h | h
      · obtain ⟨n, hn⟩ := (Tbl.has_iff _ _).mp h; exact ⟨n, Or.inl hn⟩
      · obtain ⟨n, hn⟩ := (Tbl.has_iff _ _).mp h; exact ⟨n, Or.inr hn⟩
  · obtain ⟨c, hc, hm⟩ := hv.planMax
    have hc' : s.planCount = some c := hc
    refine ⟨c, hc', ?_, hm⟩
    intro i p hp
    have := (hs.count.plans i p hp).2.2
    rw [hc'] at this
    simpa using this
  · rintro a p (h | h)
    · exact hv.provActive a p h
    · exact hv.provInactive a p h
  · rintro a n (h | h)
    · exact hv.nodeActive a n h
    · exact hv.nodeInactive a n h
  · rintro i p (h | h)
    · exact (hv.planActive i p h).2
    · exact (hv.planInactive i p h).2
  · intro h w hw
    obtain ⟨_, h32, hr, hd⟩ := hv.swaps h w hw
    have h100 := hswap h w hw
    rw [swap_valid_iff]
    exact ⟨by omega, by omega, by omega, hr.1, hr, by omega, by omega, h100, hd⟩

/-! ## Reachable states -/

/-- A state of a history whose block times are after Go's zero time, from a valid genesis (the genesis
state itself included). -/
def ReachableValid (s : State) : Prop :=
  ∃ (g : Genesis) (ops : List Op), GenesisValid g ∧ TimesOK ops ∧ (s = g.state ∨ s ∈ runTrace g.state ops)

theorem ReachableValid.reachable {s : State} (h : ReachableValid s) : Hub.Model.Reachable s := by
  obtain ⟨g, ops, _, _, hs⟩ := h
  exact ⟨g, ops, hs⟩

/-- **Every state of every history (block times after the zero time) from every valid genesis is
genesis-well-formed**, provided no recorded swap is below 100 (F4). -/
theorem genWF_of_history {g : Genesis} {ops : List Op} (hg : GenesisValid g) (ht : TimesOK ops) {s : State}
    (hs : s = g.state ∨ s ∈ runTrace g.state ops)
    (hswap : ∀ h w, s.swaps.get h = some w → 100 ≤ w.amt.amount) : GenWF s :=
  genWF_of_invariants (Hub.Model.Reachable.structInv ⟨g, ops, hs⟩) (rv_of_history hg ht hs) hswap

theorem genWF_of_reachable {s : State} (hr : ReachableValid s)
    (hswap : ∀ h w, s.swaps.get h = some w → 100 ≤ w.amt.amount) : GenWF s := by
  obtain ⟨g, ops, hg, ht, hs⟩ := hr
  exact genWF_of_history hg ht hs hswap

theorem run_mem_runTrace {s0 s : State} {ops : List Op} (h : run s0 ops = some s) : s = s0 ∨ s ∈ runTrace s0 ops := by
  induction ops generalizing s0 with
  | nil => simp only [run, Option.some.injEq] at h; exact Or.inl h.symm
  | cons op rest ih =>
    simp only [run] at h
    cases hst : step s0 op with
    | none => simp [hst] at h
    | some s1 =>
      simp only [hst] at h
      right
      simp only [runTrace, hst, List.mem_cons]
      rcases ih h with e | e
      · exact Or.inl e
      · exact Or.inr e

/-- The same for the final state of a history (`Reachable` of `Hub/Props/C12.lean`). -/
theorem genWF_of_run {g : Genesis} {ops : List Op} {s : State} (hg : GenesisValid g) (ht : TimesOK ops)
    (hrun : run g.state ops = some s) (hswap : ∀ h w, s.swaps.get h = some w → 100 ≤ w.amt.amount) : GenWF s :=
  genWF_of_history hg ht (run_mem_runTrace hrun) hswap

/-! ## The round trip and the continuation, for reachable states -/

/-- **C12 for every history of every valid genesis.** In every state of every history, as long as no
recorded swap is below 100 (F4): the export does not panic, the exported genesis passes the validation
of all three modules, the re-import succeeds, and the new state agrees with the old one on everything
except the subscription tables and the two counters the code rebuilds (F5, F9). -/
theorem roundtrip_reachable {s : State} (hr : ReachableValid s)
    (hswap : ∀ h w, s.swaps.get h = some w → 100 ≤ w.amt.amount) :
    exportPanics s = false ∧
    validateGenesis (exportVpn s) (exportSwap s) (exportMint s) = none ∧
    ∃ s', reimport s = some s' ∧ Agree s s' :=
  roundtrip_partial s (genWF_of_reachable hr hswap)

/-- **Continuation for every history of every valid genesis**: after the round trip of a reachable
state every sequence of provider/node/plan messages is processed with the same outcomes and events,
and the final states again agree on that component. -/
theorem continuation_reachable {s : State} (hr : ReachableValid s)
    (hswap : ∀ h w, s.swaps.get h = some w → 100 ≤ w.amt.amount) (ms : List Msg) (hms : ∀ m ∈ ms, isPNP m = true) :
    ∃ s', reimport s = some s' ∧
      (deliverAll s' ms).2 = (deliverAll s ms).2 ∧
      AgreePNP { (deliverAll s ms).1 with events := [] } { (deliverAll s' ms).1 with events := [] } :=
  continuation_partial s (genWF_of_reachable hr hswap) ms hms

/-- When swaps are disabled throughout (or never used) there is no swap record and `hswap` is vacuous. -/
theorem roundtrip_reachable_no_swaps {s : State} (hr : ReachableValid s) (hno : s.swaps = []) :
    exportPanics s = false ∧
    validateGenesis (exportVpn s) (exportSwap s) (exportMint s) = none ∧
    ∃ s', reimport s = some s' ∧ Agree s s' :=
  roundtrip_reachable hr (by intro h w hw; rw [hno] at hw; simp at hw)

/-! ## Non-vacuity and necessity of the hypotheses -/

section examples

theorem wGenesis_valid : GenesisValid wGenesis where
  time := by decide
  params := by unfold ParamsV; decide +kernel
  inflations := by intro i hi; simp [wGenesis] at hi

theorem histRich_times : TimesOK histRich := by
  intro t ht
  simp only [histRich, wNodeUp, List.cons_append, List.nil_append, List.mem_cons, List.not_mem_nil, reduceCtorEq, or_false,
    Op.begin.injEq] at ht
  subst ht
  decide

theorem wRich_swaps_ge_100 : ∀ h w, wRich.swaps.get h = some w → 100 ≤ w.amt.amount := by
  intro h w hw
  have hall : wRich.swaps.all (fun p => decide (100 ≤ p.2.amt.amount)) = true := by decide +kernel
  exact of_decide_eq_true (all_of_get hall hw)

theorem wRich_reachableValid : ReachableValid wRich :=
  ⟨wGenesis, histRich, wGenesis_valid, histRich_times, run_mem_runTrace (Option.some_get histRich_runs).symm⟩

/-- `genWF_of_reachable` applied to the rich witness of `Hub/Props/C12.lean` (two providers, two nodes,
two plans with links, two sessions, a swap of 20000 recorded as 200): the well-formedness that was
*checked* there (`wRich_wf`, by evaluation) is now *derived* from reachability. -/
example : GenWF wRich := genWF_of_reachable wRich_reachableValid wRich_swaps_ge_100

example : ∃ s', reimport wRich = some s' ∧ Agree wRich s' :=
  (roundtrip_reachable wRich_reachableValid wRich_swaps_ge_100).2.2

/-- The F4 witness is reachable in this sense too; the only hypothesis that fails on it is `hswap`. -/
example : ReachableValid wF4 ∧ ¬ (∀ h w, wF4.swaps.get h = some w → 100 ≤ w.amt.amount) := by
  refine ⟨⟨wGenesis, histF4, wGenesis_valid, ?_, run_mem_runTrace (Option.some_get histF4_runs).symm⟩, ?_⟩
  · intro t ht
    simp only [histF4, List.mem_cons, List.not_mem_nil, reduceCtorEq, or_false, Op.begin.injEq] at ht
    subst ht
    decide
  · intro h
    have h5 : (wF4.swaps.get hashB).map (·.amt) = some ⟨"udvpn", 5⟩ := small_swap_invalidates_export.1
    cases hw : wF4.swaps.get hashB with
    | none => rw [hw] at h5; cases h5
    | some w =>
      have := h hashB w hw
      rw [hw] at h5
      simp only [Option.map_some, Option.some.injEq] at h5
      rw [h5] at this
      revert this; decide

/-- `TimesOK` is needed *in the model*: a block stamped with Go's zero time (which `begin` of the model
accepts, and no real chain produces) registers a node whose `status_at` is zero, and `Node.Validate`
rejects it. -/
def histZero : List Op := [.begin zeroTime, .tx (.nodeRegister (acc 2) (udvpn 10) (udvpn 5) wUrl true), .endB]

theorem zero_time_block_breaks_validity :
    ((run wGenesis.state histZero).map genWFViolations) = some ["node records valid"] := by decide +kernel

end examples

end Hub.Props.C12
