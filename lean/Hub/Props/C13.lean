import Hub.Lemmas.Paginate
/-
Property C13 — "Paged queries enumerate the complete result exactly once".

For every list query and every page size, following the returned next-page key until it is empty — or
stepping an offset — visits every matching record exactly once, in a stable order, and a requested total
equals the number of matching records; also for the listings that filter by status.

The model is `Hub/SDK/Paginate.lean` (`paginate` = `query.Paginate`, `filteredPaginate` =
`query.FilteredPaginate` of Cosmos SDK v0.47.10, over a strictly sorted list of records).  The theorems
are stated for a fixed store.  `dir reverse store` is the iteration order (`store`, or `store.reverse`).

Results:
* `paginate_by_key_complete`, `paginate_by_key_exactly_once`, `paginate_offset_page`,
  `paginate_by_offset_complete` — `Paginate` with an always-appending callback;
* `filtered_by_key_complete`, `filtered_offset_page`, `filtered_by_offset_complete`,
  `filter_enumerates` — `FilteredPaginate` with the correct `filter` callback shape;
* `gated_callback_truncates`, `gated_not_enumerates` — the shape of `QueryNodesForPlan` /
  `QueryPlansForProvider` does *not* enumerate;
* `paginate_default_limit`, `filteredPaginate_default_limit` — `limit = 0` is `limit = 100` with the
  total forced on;
* witnesses of SDK corner cases on a fixed store: `filter_maxlimit_truncates` (`end+1` wraps),
  `reverse_key_at_greatest_panics`, `filtered_trailing_empty_page`.
-/
namespace Hub.Props.C13
open Hub.SDK Hub.SDK.Paginate
open Function (uncurry)

/-! ## Small list facts -/

theorem pages_of_flatten_nil {β : Type} {limit : Nat} (hl : 1 ≤ limit) {pages : List (List β)}
    (hne : pages ≠ []) (hflat : pages.flatten = []) (hd : ∀ p ∈ pages.dropLast, p.length = limit) :
    pages = [[]] := by
  cases pages with
  | nil => exact absurd rfl hne
  | cons p rest =>
    have hp : p = [] := by
      rw [List.flatten_cons] at hflat
      exact (List.append_eq_nil_iff.mp hflat).1
    cases rest with
    | nil => rw [hp]
    | cons q rest' =>
      rw [List.dropLast_cons_of_ne_nil (by simp)] at hd
      have := hd p (by simp)
      rw [hp] at this
      simp at this; omega

theorem full_pages_le {β : Type} (limit : Nat) :
    ∀ (pages : List (List β)), (∀ p ∈ pages.dropLast, p.length = limit) →
      (pages.length - 1) * limit ≤ pages.flatten.length := by
  intro pages
  induction pages with
  | nil => intro _; simp
  | cons p rest ih =>
    intro hd
    cases rest with
    | nil => simp
    | cons q rest' =>
      rw [List.dropLast_cons_of_ne_nil (by simp)] at hd
      have h1 := ih (fun x hx => hd x (List.mem_cons_of_mem _ hx))
      have h2 := hd p (by simp)
      rw [List.flatten_cons, List.length_append, h2]
      simp only [List.length_cons, Nat.add_sub_cancel] at h1 ⊢
      rw [Nat.succ_mul]; omega

theorem nodup_reverse' {γ : Type} {l : List γ} (h : l.Nodup) : l.reverse.Nodup := by
  unfold List.Nodup at h ⊢
  rw [List.pairwise_reverse]
  exact h.imp (fun h e => h e.symm)

theorem uncurry_fst {α : Type} : (uncurry fun (k : Bytes) (_ : α) => k) = Prod.fst := by
  funext p; rfl

/-! ## 1. `Paginate`: following the next key -/

/-- **C13 (key paging, `Paginate`).**  On a strictly sorted store with non-empty keys, requesting the
first page (no key) and then following `nextKey` until it is empty returns pages whose concatenation is
the whole store in iteration order (ascending; descending with `reverse`), each record once; there are
`⌈n/limit⌉` pages (one empty page for the empty store); every page but the last has `limit` items. -/
theorem paginate_by_key_complete {α β : Type} (store : Store α) (hs : Sorted store) (hk : KeysNonempty store)
    (f : Bytes → α → Option β) (g : Bytes → α → β) (hf : Total f g store)
    (limit : Nat) (hl : 1 ≤ limit) (h64 : limit < u64) (hlen : store.length + 1 < u64) (reverse : Bool) :
    ∃ pages, pagesByKey store limit reverse (Callback.appendAlways f) (store.length + 1) = .ok pages ∧
      pages.flatten = (dir reverse store).map (uncurry g) ∧
      (store = [] → pages = [[]]) ∧
      (store ≠ [] → pages.length = (store.length + limit - 1) / limit) ∧
      (∀ p ∈ pages.dropLast, p.length = limit) ∧
      (∀ p ∈ pages, p.length ≤ limit) := by
  have hkey : ∀ a k v b, dir reverse store = a ++ (k, v) :: b → a ≠ [] →
      ∃ r, (fun req => paginate store req (Callback.appendAlways f))
          { key := some k, offset := 0, limit := limit, countTotal := false, reverse := reverse } = .ok r ∧
        IsPage (fun _ _ => true) g limit ((k, v) :: b) r := by
    intro a k v b hsplit ha
    have hkne : k ≠ [] := keysNonempty_dir hk (r := reverse) (k, v) (by rw [hsplit]; simp)
    exact ⟨_, paginate_key_eq store hs f g hf limit hl false reverse hkne hsplit (fun _ => ha),
      isPage_take g limit hl _ 0⟩
  have h0 : ∃ r, (fun req => paginate store req (Callback.appendAlways f))
        { key := none, offset := 0, limit := limit, countTotal := false, reverse := reverse } = .ok r ∧
      IsPage (fun _ _ => true) g limit (dir reverse store) r := by
    refine ⟨_, paginate_offset_eq store f g hf 0 limit hl false reverse (by omega) hlen, ?_⟩
    have := isPage_take g limit hl (dir reverse store) 0
    simpa using this
  obtain ⟨pages, hrun, hflat, hpne, hdrop, hle, hnonempty⟩ :=
    pagesAux_spec (fun _ _ => true) g limit reverse (fun req => paginate store req (Callback.appendAlways f))
      (dir reverse store) (keysNonempty_dir hk) hkey
      (store.length + 1) [] (dir reverse store) none rfl h0 (by rw [dir_length]; omega)
  have hflat' : pages.flatten = (dir reverse store).map (uncurry g) := by
    have e : (dir reverse store).filter (uncurry fun (_ : Bytes) (_ : α) => true) = dir reverse store :=
      List.filter_eq_self.mpr (fun _ _ => rfl)
    rw [hflat, e]
  refine ⟨pages, hrun, hflat', ?_, ?_, hdrop, hle⟩
  · intro he
    apply pages_of_flatten_nil hl hpne _ hdrop
    rw [hflat', he]; cases reverse <;> rfl
  · intro hne
    have hdne : dir reverse store ≠ [] := by
      intro e
      have := dir_length reverse store
      rw [e] at this
      exact hne (List.length_eq_zero_iff.mp this.symm)
    have hall := hnonempty (fun _ _ => rfl) hdne
    rw [pages_length_eq limit hl pages hpne hdrop hle hall, hflat', List.length_map, dir_length]

/-- Forward: the pages concatenate to the store. -/
theorem paginate_by_key_forward {α β : Type} (store : Store α) (hs : Sorted store) (hk : KeysNonempty store)
    (f : Bytes → α → Option β) (g : Bytes → α → β) (hf : Total f g store)
    (limit : Nat) (hl : 1 ≤ limit) (h64 : limit < u64) (hlen : store.length + 1 < u64) :
    ∃ pages, pagesByKey store limit false (Callback.appendAlways f) (store.length + 1) = .ok pages ∧
      pages.flatten = store.map (uncurry g) := by
  obtain ⟨pages, h1, h2, _⟩ := paginate_by_key_complete store hs hk f g hf limit hl h64 hlen false
  exact ⟨pages, h1, h2⟩

/-- Reverse: the pages concatenate to the reversed store. -/
theorem paginate_by_key_reverse {α β : Type} (store : Store α) (hs : Sorted store) (hk : KeysNonempty store)
    (f : Bytes → α → Option β) (g : Bytes → α → β) (hf : Total f g store)
    (limit : Nat) (hl : 1 ≤ limit) (h64 : limit < u64) (hlen : store.length + 1 < u64) :
    ∃ pages, pagesByKey store limit true (Callback.appendAlways f) (store.length + 1) = .ok pages ∧
      pages.flatten = (store.map (uncurry g)).reverse := by
  obtain ⟨pages, h1, h2, _⟩ := paginate_by_key_complete store hs hk f g hf limit hl h64 hlen true
  exact ⟨pages, h1, by rw [h2, dir_true, List.map_reverse]⟩

/-- Each record exactly once: the keys returned over all pages have no duplicate and are exactly the
keys of the store. -/
theorem paginate_by_key_exactly_once {α : Type} (store : Store α) (hs : Sorted store) (hk : KeysNonempty store)
    (limit : Nat) (hl : 1 ≤ limit) (h64 : limit < u64) (hlen : store.length + 1 < u64) (reverse : Bool) :
    ∃ pages, pagesByKey store limit reverse (Callback.appendAlways fun k _ => some k) (store.length + 1) = .ok pages ∧
      pages.flatten.Nodup ∧ ∀ k, k ∈ pages.flatten ↔ k ∈ store.map Prod.fst := by
  obtain ⟨pages, h1, h2, _⟩ := paginate_by_key_complete store hs hk (fun k _ => some k) (fun k _ => k)
    (fun _ _ => rfl) limit hl h64 hlen reverse
  rw [uncurry_fst] at h2
  refine ⟨pages, h1, ?_, ?_⟩
  · rw [h2]
    cases reverse with
    | false => exact sorted_keys_nodup hs
    | true => rw [dir_true, List.map_reverse]; exact nodup_reverse' (sorted_keys_nodup hs)
  · intro k
    rw [h2]
    cases reverse with
    | false => rfl
    | true => rw [dir_true, List.map_reverse, List.mem_reverse]

/-! ## 2. `Paginate`: offset paging -/

/-- **C13 (offset paging, `Paginate`).**  The page at `offset` is the window `[offset, offset+limit)` of
the iteration order, `nextKey` is the key of the record after the window (none at the end), and with
`countTotal` the total is the number of records (otherwise `0`). -/
theorem paginate_offset_page {α β : Type} (store : Store α)
    (f : Bytes → α → Option β) (g : Bytes → α → β) (hf : Total f g store)
    (offset limit : Nat) (hl : 1 ≤ limit) (countTotal reverse : Bool)
    (h64 : offset + limit < u64) (hlen : store.length + 1 < u64) :
    pageAtOffset store offset limit countTotal reverse (Callback.appendAlways f)
      = .ok ((((dir reverse store).drop offset).take limit).map (uncurry g),
             ⟨((dir reverse store)[offset + limit]?).map Prod.fst, if countTotal then store.length else 0⟩) :=
  paginate_offset_eq store f g hf offset limit hl countTotal reverse h64 hlen

/-- Forward instance: `(store.drop offset).take limit`. -/
theorem paginate_offset_page_forward {α β : Type} (store : Store α)
    (f : Bytes → α → Option β) (g : Bytes → α → β) (hf : Total f g store)
    (offset limit : Nat) (hl : 1 ≤ limit) (countTotal : Bool)
    (h64 : offset + limit < u64) (hlen : store.length + 1 < u64) :
    pageAtOffset store offset limit countTotal false (Callback.appendAlways f)
      = .ok (((store.drop offset).take limit).map (uncurry g),
             ⟨(store[offset + limit]?).map Prod.fst, if countTotal then store.length else 0⟩) :=
  paginate_offset_eq store f g hf offset limit hl countTotal false h64 hlen

/-- Stepping the offset by `limit` until `nextKey` is empty enumerates the whole store once. -/
theorem paginate_by_offset_complete {α β : Type} (store : Store α) (hk : KeysNonempty store)
    (f : Bytes → α → Option β) (g : Bytes → α → β) (hf : Total f g store)
    (limit : Nat) (hl : 1 ≤ limit) (h64 : store.length + limit + 1 < u64) (reverse : Bool) :
    ∃ pages, pagesByOffset store limit reverse (Callback.appendAlways f) (store.length + 1) = .ok pages ∧
      pages.flatten = (dir reverse store).map (uncurry g) ∧
      (∀ p ∈ pages.dropLast, p.length = limit) := by
  have hrun : ∀ off, off ≤ (dir reverse store).length →
      (fun req => paginate store req (Callback.appendAlways f))
          { key := none, offset := off, limit := limit, countTotal := false, reverse := reverse }
        = .ok ((((dir reverse store).drop off).take limit).map (uncurry g),
               ⟨((dir reverse store)[off + limit]?).map Prod.fst, 0⟩) := by
    intro off hoff
    rw [dir_length] at hoff
    exact paginate_offset_eq store f g hf off limit hl false reverse (by omega) (by omega)
  obtain ⟨pages, h1, h2, h3, _⟩ := offsetPagesAux_spec g limit hl reverse
    (fun req => paginate store req (Callback.appendAlways f)) (dir reverse store) (keysNonempty_dir hk) hrun (store.length + 1) 0 (by omega) (by rw [dir_length]; omega)
  exact ⟨pages, h1, by simpa using h2, h3⟩

/-! ## 3. `FilteredPaginate` with the `filter` callback -/

/-- **C13 (key paging, `FilteredPaginate`, correct callback).**  Following `nextKey` returns pages whose
concatenation is the matching records in iteration order, each once; every page but the last has
`limit` items.  (The last page may be empty: the next key is the key of the *record* after the
`limit`-th match, which may be followed by no further match.) -/
theorem filtered_by_key_complete {α β : Type} (store : Store α) (hs : Sorted store) (hk : KeysNonempty store)
    (pred : Bytes → α → Bool) (f : Bytes → α → Option β) (g : Bytes → α → β) (hf : TotalOn pred f g store)
    (limit : Nat) (hl : 1 ≤ limit) (h64 : limit + 1 < u64) (reverse : Bool) :
    ∃ pages, filteredPagesByKey store limit reverse (Callback.filter pred f) (store.length + 1) = .ok pages ∧
      pages.flatten = ((dir reverse store).filter (uncurry pred)).map (uncurry g) ∧
      (∀ p ∈ pages.dropLast, p.length = limit) ∧
      (∀ p ∈ pages, p.length ≤ limit) ∧
      1 ≤ pages.length ∧
      pages.length ≤ ((dir reverse store).filter (uncurry pred)).length / limit + 1 := by
  have hkey : ∀ a k v b, dir reverse store = a ++ (k, v) :: b → a ≠ [] →
      ∃ r, (fun req => filteredPaginate store req (Callback.filter pred f))
          { key := some k, offset := 0, limit := limit, countTotal := false, reverse := reverse } = .ok r ∧
        IsPage pred g limit ((k, v) :: b) r := by
    intro a k v b hsplit ha
    have hkne : k ≠ [] := keysNonempty_dir hk (r := reverse) (k, v) (by rw [hsplit]; simp)
    exact filteredPaginate_key_isPage store hs pred f g hf limit hl false reverse hkne hsplit (fun _ => ha)
  have h0 : ∃ r, (fun req => filteredPaginate store req (Callback.filter pred f))
        { key := none, offset := 0, limit := limit, countTotal := false, reverse := reverse } = .ok r ∧
      IsPage pred g limit (dir reverse store) r := by
    refine ⟨_, filteredPaginate_offset_eq store pred f g hf 0 limit hl false reverse (by omega), ?_⟩
    have := isPage_of_window pred g limit hl (dir reverse store) 0
    simpa using this
  obtain ⟨pages, hrun, hflat, hpne, hdrop, hle, _⟩ :=
    pagesAux_spec pred g limit reverse (fun req => filteredPaginate store req (Callback.filter pred f))
      (dir reverse store) (keysNonempty_dir hk) hkey
      (store.length + 1) [] (dir reverse store) none rfl h0 (by rw [dir_length]; omega)
  refine ⟨pages, hrun, hflat, hdrop, hle, List.length_pos_iff.mpr hpne, ?_⟩
  have h := full_pages_le limit pages hdrop
  rw [hflat, List.length_map] at h
  have := (Nat.le_div_iff_mul_le (by omega : 0 < limit)).mpr h
  omega

/-- **C13 (offset paging, `FilteredPaginate`, correct callback).**  The page at `offset` is the window
`[offset, offset+limit)` of the *matching* records, `nextKey` is the key of the next match, and with
`countTotal` the total is the number of matching records.  (`FilteredPaginate`, like `Paginate`, counts
only in offset paging; key paging never reports a total.) -/
theorem filtered_offset_page {α β : Type} (store : Store α)
    (pred : Bytes → α → Bool) (f : Bytes → α → Option β) (g : Bytes → α → β) (hf : TotalOn pred f g store)
    (offset limit : Nat) (hl : 1 ≤ limit) (countTotal reverse : Bool) (h64 : offset + limit + 1 < u64) :
    filteredPageAtOffset store offset limit countTotal reverse (Callback.filter pred f)
      = .ok (((((dir reverse store).filter (uncurry pred)).drop offset).take limit).map (uncurry g),
             ⟨(((dir reverse store).filter (uncurry pred))[offset + limit]?).map Prod.fst,
              if countTotal then ((dir reverse store).filter (uncurry pred)).length else 0⟩) :=
  filteredPaginate_offset_eq store pred f g hf offset limit hl countTotal reverse h64

/-- Forward instance: `((store.filter pred).drop offset).take limit`, total `(store.filter pred).length`. -/
theorem filtered_offset_page_forward {α β : Type} (store : Store α)
    (pred : Bytes → α → Bool) (f : Bytes → α → Option β) (g : Bytes → α → β) (hf : TotalOn pred f g store)
    (offset limit : Nat) (hl : 1 ≤ limit) (countTotal : Bool) (h64 : offset + limit + 1 < u64) :
    filteredPageAtOffset store offset limit countTotal false (Callback.filter pred f)
      = .ok ((((store.filter (uncurry pred)).drop offset).take limit).map (uncurry g),
             ⟨((store.filter (uncurry pred))[offset + limit]?).map Prod.fst,
              if countTotal then (store.filter (uncurry pred)).length else 0⟩) :=
  filteredPaginate_offset_eq store pred f g hf offset limit hl countTotal false h64

/-- Stepping the offset by `limit` until `nextKey` is empty enumerates the matching records once. -/
theorem filtered_by_offset_complete {α β : Type} (store : Store α) (hk : KeysNonempty store)
    (pred : Bytes → α → Bool) (f : Bytes → α → Option β) (g : Bytes → α → β) (hf : TotalOn pred f g store)
    (limit : Nat) (hl : 1 ≤ limit) (h64 : store.length + limit + 1 < u64) (reverse : Bool) :
    ∃ pages, filteredPagesByOffset store limit reverse (Callback.filter pred f) (store.length + 1) = .ok pages ∧
      pages.flatten = ((dir reverse store).filter (uncurry pred)).map (uncurry g) ∧
      (∀ p ∈ pages.dropLast, p.length = limit) := by
  have hHlen : ((dir reverse store).filter (uncurry pred)).length ≤ store.length := by
    rw [← dir_length reverse store]; exact List.length_filter_le ..
  have hHne : KeysNonempty ((dir reverse store).filter (uncurry pred)) :=
    fun p hp => keysNonempty_dir hk (r := reverse) p (List.mem_filter.mp hp).1
  have hrun : ∀ off, off ≤ ((dir reverse store).filter (uncurry pred)).length →
      (fun req => filteredPaginate store req (Callback.filter pred f))
          { key := none, offset := off, limit := limit, countTotal := false, reverse := reverse }
        = .ok (((((dir reverse store).filter (uncurry pred)).drop off).take limit).map (uncurry g),
               ⟨(((dir reverse store).filter (uncurry pred))[off + limit]?).map Prod.fst, 0⟩) := by
    intro off hoff
    exact filteredPaginate_offset_eq store pred f g hf off limit hl false reverse (by omega)
  obtain ⟨pages, h1, h2, h3, _⟩ := offsetPagesAux_spec g limit hl reverse
    (fun req => filteredPaginate store req (Callback.filter pred f)) _ hHne hrun
    (store.length + 1) 0 (by omega) (by omega)
  exact ⟨pages, h1, by simpa using h2, h3⟩

/-! ## The general property of a `FilteredPaginate` callback -/

/-- A `FilteredPaginate` callback `cb` *enumerates exactly once* the records selected by `pred`
(rendered by `g`): on every strictly sorted store, for every page size and direction, following the next
key returns the matching records once, in order, in full pages; and every offset page is the right window
of the matching records, with the right next key and, when requested, the right total. -/
def EnumeratesExactlyOnce {α β : Type} (cb : OnFiltered α β) (pred : Bytes → α → Bool) (g : Bytes → α → β) : Prop :=
  ∀ (store : Store α), Sorted store → KeysNonempty store →
  ∀ (limit : Nat), 1 ≤ limit → ∀ (reverse : Bool),
    (limit + 1 < u64 →
      ∃ pages, filteredPagesByKey store limit reverse cb (store.length + 1) = .ok pages ∧
        pages.flatten = ((dir reverse store).filter (uncurry pred)).map (uncurry g) ∧
        (∀ p ∈ pages.dropLast, p.length = limit)) ∧
    (∀ (offset : Nat) (countTotal : Bool), offset + limit + 1 < u64 →
      filteredPageAtOffset store offset limit countTotal reverse cb
        = .ok (((((dir reverse store).filter (uncurry pred)).drop offset).take limit).map (uncurry g),
               ⟨(((dir reverse store).filter (uncurry pred))[offset + limit]?).map Prod.fst,
                if countTotal then ((dir reverse store).filter (uncurry pred)).length else 0⟩))

/-- **C13 for status-filtered listings written in the `filter` shape**: it enumerates exactly once. -/
theorem filter_enumerates {α β : Type} (pred : Bytes → α → Bool) (f : Bytes → α → Option β) (g : Bytes → α → β)
    (hf : ∀ k v, pred k v = true → f k v = some (g k v)) :
    EnumeratesExactlyOnce (Callback.filter pred f) pred g := by
  intro store hs hk limit hl reverse
  have hT : TotalOn pred f g store := fun p _ hp => hf p.1 p.2 hp
  refine ⟨fun h64 => ?_, fun offset ct h64 => ?_⟩
  · obtain ⟨pages, h1, h2, h3, _⟩ := filtered_by_key_complete store hs hk pred f g hT limit hl h64 reverse
    exact ⟨pages, h1, h2, h3⟩
  · exact filtered_offset_page store pred f g hT offset limit hl ct reverse h64

/-! ## 4. The `gated` callback shape truncates -/

/-- Three records, all matching. -/
def store3 : Store Nat := [([1], 0), ([2], 1), ([3], 2)]

def all3 : Bytes → Nat → Bool := fun _ _ => true
def val3 : Bytes → Nat → Option Nat := fun _ v => some v

/-- **Witness.**  With the callback shape of `QueryNodesForPlan` / `QueryPlansForProvider`
(`if !accumulate { return false }` first), on three matching records and `limit = 1`:
the first page has an empty `nextKey` although two matching records remain, and its counted total is `1`,
not `3`; `offset = 1` returns nothing (and counts `0`); following the next key yields one page only.
The correct `filter` shape returns `[0]` with next key `[2]` and total `3`, and `[1]` at offset `1`. -/
theorem gated_callback_truncates :
    filteredPageAtOffset store3 0 1 true false (Callback.gated all3 val3) = .ok ([0], ⟨none, 1⟩) ∧
    filteredPageAtOffset store3 1 1 true false (Callback.gated all3 val3) = .ok ([], ⟨none, 0⟩) ∧
    filteredPagesByKey store3 1 false (Callback.gated all3 val3) 4 = .ok [[0]] ∧
    filteredPageAtOffset store3 0 1 true false (Callback.filter all3 val3) = .ok ([0], ⟨some [2], 3⟩) ∧
    filteredPageAtOffset store3 1 1 true false (Callback.filter all3 val3) = .ok ([1], ⟨some [3], 3⟩) ∧
    filteredPagesByKey store3 1 false (Callback.filter all3 val3) 4 = .ok [[0], [1], [2]] := by
  decide

/-- The `gated` shape does not have the property that the `filter` shape has. -/
theorem gated_not_enumerates :
    ¬ EnumeratesExactlyOnce (Callback.gated all3 val3) all3 (fun _ v => v) := by
  intro h
  have h1 := (h store3 (by decide) (by decide) 1 (by decide) false).2 1 true (by decide)
  rw [gated_callback_truncates.2.1] at h1
  exact absurd h1 (by decide)

/-! ## 5. The default limit -/

/-- `limit = 0` behaves as `limit = 100` with `countTotal` forced on (P:72-77). -/
theorem paginate_default_limit {α β : Type} (store : Store α) (key : Option Bytes) (offset : Nat)
    (countTotal reverse : Bool) (cb : OnResult α β) :
    paginate store { key := key, offset := offset, limit := 0, countTotal := countTotal, reverse := reverse } cb
      = paginate store { key := key, offset := offset, limit := 100, countTotal := true, reverse := reverse } cb := rfl

/-- The same for `FilteredPaginate` (F:38-43). -/
theorem filteredPaginate_default_limit {α β : Type} (store : Store α) (key : Option Bytes) (offset : Nat)
    (countTotal reverse : Bool) (cb : OnFiltered α β) :
    filteredPaginate store { key := key, offset := offset, limit := 0, countTotal := countTotal, reverse := reverse } cb
      = filteredPaginate store { key := key, offset := offset, limit := 100, countTotal := true, reverse := reverse } cb := rfl

/-- With the default limit an offset page of `Paginate` is a window of 100 records and the total is
always reported. -/
theorem paginate_default_limit_page {α β : Type} (store : Store α)
    (f : Bytes → α → Option β) (g : Bytes → α → β) (hf : Total f g store)
    (offset : Nat) (countTotal reverse : Bool) (h64 : offset + 100 < u64) (hlen : store.length + 1 < u64) :
    pageAtOffset store offset 0 countTotal reverse (Callback.appendAlways f)
      = .ok ((((dir reverse store).drop offset).take 100).map (uncurry g),
             ⟨((dir reverse store)[offset + 100]?).map Prod.fst, store.length⟩) := by
  unfold pageAtOffset
  rw [paginate_default_limit, paginate_offset_eq store f g hf offset 100 (by decide) true reverse h64 hlen]
  rfl

/-! ## Corner cases of the SDK paginator on a fixed store (witnesses) -/

/-- `[1]` is a prefix of `[1,0]`; the second record does not match `odd`. -/
def store4 : Store Nat := [([1], 1), ([1, 0], 2), ([2], 3), ([3], 5)]

def odd4 : Bytes → Nat → Bool := fun _ v => v % 2 == 1
def even4 : Bytes → Nat → Bool := fun _ v => v % 2 == 0

/-- `limit = 2^64 - 1` (`query.MaxLimit`): `end + 1` wraps to `0`, so when the *first* record does not
match, `numHits == end+1` holds at once: even the correct `filter` shape returns an empty page whose
next key is the first key (following it then returns everything through key paging). -/
theorem filter_maxlimit_truncates :
    filteredPageAtOffset store4 0 (u64 - 1) false false (Callback.filter even4 val3) = .ok ([], ⟨some [1], 0⟩) ∧
    filteredPageAtOffset store4 0 (u64 - 2) false false (Callback.filter even4 val3) = .ok ([2], ⟨none, 0⟩) := by
  decide

/-- Reverse key paging from the greatest key panics inside `getIterator` (`itr.Key()` on an exhausted
prefix iterator); from any other present key it works.  A client that follows `nextKey` never sends the
greatest key (`paginate_by_key_complete`). -/
theorem reverse_key_at_greatest_panics :
    (paginate store4 { key := some [3], limit := 2, reverse := true } (Callback.appendAlways val3)).toOption = none ∧
    paginate store4 { key := some [2], limit := 2, reverse := true } (Callback.appendAlways val3)
      = .ok ([3, 2], ⟨some [1], 0⟩) := by
  decide

/-- The last record does not match `odd4`. -/
def store5 : Store Nat := [([1], 1), ([2], 3), ([3], 2)]

/-- Key paging of `FilteredPaginate`: the next key of a key-paged request is the key of the *record*
after the `limit`-th match; when no match follows, the last page is empty. -/
theorem filtered_trailing_empty_page :
    filteredPagesByKey store5 1 false (Callback.filter odd4 val3) 4 = .ok [[1], [3], []] := by
  decide

/-! ## The hypotheses are satisfiable: the theorems instantiated on `store4` -/

example : Sorted store4 ∧ KeysNonempty store4 := by decide

example : ∃ pages, pagesByKey store4 3 false (Callback.appendAlways val3) 5 = .ok pages ∧
    pages.flatten = [1, 2, 3, 5] ∧ pages.length = 2 := by
  obtain ⟨pages, h1, h2, _, h4, _⟩ := paginate_by_key_complete store4 (by decide) (by decide) val3 (fun _ v => v)
    (fun _ _ => rfl) 3 (by decide) (by decide) (by decide) false
  exact ⟨pages, h1, h2, h4 (by decide)⟩

example : pagesByKey store4 3 false (Callback.appendAlways val3) 5 = .ok [[1, 2, 3], [5]] := by decide
example : pagesByKey store4 3 true (Callback.appendAlways val3) 5 = .ok [[5, 3, 2], [1]] := by decide

example : ∃ pages, pagesByKey store4 1 true (Callback.appendAlways fun k _ => some k) 5 = .ok pages ∧
    pages.flatten.Nodup ∧ ∀ k, k ∈ pages.flatten ↔ k ∈ store4.map Prod.fst :=
  paginate_by_key_exactly_once store4 (by decide) (by decide) 1 (by decide) (by decide) (by decide) true

example : pageAtOffset store4 1 2 true false (Callback.appendAlways val3) = .ok ([2, 3], ⟨some [3], 4⟩) := by
  rw [paginate_offset_page store4 val3 (fun _ v => v) (fun _ _ => rfl) 1 2 (by decide) true false (by decide) (by decide)]
  rfl

example : pageAtOffset store4 1 2 true true (Callback.appendAlways val3) = .ok ([3, 2], ⟨some [1], 4⟩) := by decide

example : ∃ pages, pagesByOffset store4 3 false (Callback.appendAlways val3) 5 = .ok pages ∧
    pages.flatten = [1, 2, 3, 5] := by
  obtain ⟨pages, h1, h2, _⟩ := paginate_by_offset_complete store4 (by decide) val3 (fun _ v => v)
    (fun _ _ => rfl) 3 (by decide) (by decide) false
  exact ⟨pages, h1, h2⟩

example : ∃ pages, filteredPagesByKey store4 2 false (Callback.filter odd4 val3) 5 = .ok pages ∧
    pages.flatten = [1, 3, 5] := by
  obtain ⟨pages, h1, h2, _⟩ := filtered_by_key_complete store4 (by decide) (by decide) odd4 val3 (fun _ v => v)
    (fun _ _ _ => rfl) 2 (by decide) (by decide) false
  exact ⟨pages, h1, h2⟩

example : filteredPagesByKey store4 2 false (Callback.filter odd4 val3) 5 = .ok [[1, 3], [5]] := by decide
example : filteredPagesByKey store4 2 true (Callback.filter odd4 val3) 5 = .ok [[5, 3], [1]] := by decide

example : filteredPageAtOffset store4 1 1 true false (Callback.filter odd4 val3) = .ok ([3], ⟨some [3], 3⟩) := by
  rw [filtered_offset_page store4 odd4 val3 (fun _ v => v) (fun _ _ _ => rfl) 1 1 (by decide) true false (by decide)]
  rfl

example : ∃ pages, filteredPagesByOffset store4 2 true (Callback.filter odd4 val3) 5 = .ok pages ∧
    pages.flatten = [5, 3, 1] := by
  obtain ⟨pages, h1, h2, _⟩ := filtered_by_offset_complete store4 (by decide) odd4 val3 (fun _ v => v)
    (fun _ _ _ => rfl) 2 (by decide) (by decide) true
  exact ⟨pages, h1, h2⟩

example : EnumeratesExactlyOnce (Callback.filter odd4 val3) odd4 (fun _ v => v) :=
  filter_enumerates odd4 val3 (fun _ v => v) (fun _ _ _ => rfl)

example : paginate store4 { limit := 0 } (Callback.appendAlways val3) = .ok ([1, 2, 3, 5], ⟨none, 4⟩) := by decide

/-- The "both key and offset" error. -/
example : (paginate store4 { key := some [2], offset := 1, limit := 1 } (Callback.appendAlways val3)).toOption = none := by
  decide

end Hub.Props.C13
