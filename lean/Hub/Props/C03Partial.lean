import Hub.Lemmas.NoHaltEnd
import Hub.Lemmas.NoHaltTx
import Hub.Props.C03
/-
C03 — Block processing never halts: the strongest TRUE partial statement.

The full property (`hooks_never_halt` in `Hub/Props/C03.lean`) is false (`halt_by_delay_change`, F6).
Here: from every genesis of the domain, along every history that satisfies the named hypotheses
`Hyp M g ops` below, no begin-of-block or end-of-block step halts (`hooks_never_halt_partial`), and every
state on the way satisfies the combined invariant `Good M` on which both hooks are total
(`beginBlock_never_halts`, `endBlock_never_halts`).

Named hypotheses (all explicit, all satisfiable — see the example at the end):
* **H_delay**   `0 < sessDelay ≤ M ≤ subDelay` at genesis and `HistOK M g.state ops`: block times strictly
                increase and every governance step keeps the delays around `M` (the monotone delay coupling;
                exactly what excludes the F6 witness);
* **H_actors**  `ActorOK op`: the sender of every message is not a blocked (module) address — D2 of the
                configuration domain.  NOTE: `Op.senderOK` of `Run.lean` (sender ≠ escrow account only) is
                NOT enough: `halt_by_module_node` below is a history inside `Op.senderOK` that halts;
                genesis balances are non-negative and none sits on the escrow account;
* **H_params**  `ParamsOK g.params`: registration deposits ≥ 0 and the staking share in [0,1] at genesis
                (D5; governance validators keep this, so it is a condition on the genesis only);
* **H_amounts** `AmountsOK` in the genesis state and in every state of the history: every denomination's recorded
                supply is below 2^255 and every allocation grants fewer than 2^192 bytes (so the 256/315-bit
                arithmetic of the hooks cannot overflow).
No hypothesis on block times or deadlines beyond monotonicity is needed: key encoding never panics in the model.

Panic sites reachable from the hooks, and what discharges each (`Good M s` = `StructInv` + `EscrowSplit` +
`MoneyInv` + `LifeInv M` + the new invariant `NH` + `AmountsOK`; proofs in `Hub/Lemmas/NoHalt{Inv,Core,Hooks,Tx,End}.lean`):
 BeginBlock (`mintBeginBlock`, `distrSweep` are pure):
  1 payoutStep "payout for next at key does not exist" ........ `SubIdx.payQ`; the snapshot stays live (distinct ids)
  2 GetProportionOfCoin (315-bit `Dec.mul`, `roundInt`, `newCoin`) . `SubWF` (price ≥ 0, price·hours = deposit, denom),
                                                                    `NH.subs` (valid denom, deposit < 2^255), `ParamsOK`
  3 sendCoinFromDepositToModule (deposit not found / insufficient deposit / insufficient funds / 256-bit add)
        ........ `escrow_covers` (`EscrowSplit`: record ≥ unsettled part), `MoneyInv.backed`, `NH.depUniq`, `NH.bank`,
                 `balance_le_supply` + supply < 2^255
  4 `SInt.sub`, `requireP 0 ≤ payAmt` .......................... share of a coin ≤ the coin (`proportion_total`)
  5 sendCoinFromDepositToAccount (as 3, plus "is not allowed to receive funds") . `SubIdx.payoutRec` + `NH.subs` (node unblocked)
 EndBlock, node pass:
  6 nodeSweep "node vanished during sweep", `setNode` "failed to set the node" . the sweep only rewrites records; `RecInv`
  7 nodeExpireStep "node for inactive at key does not exist" .... `NodeIdx.nodeQ`; the snapshot stays live
 EndBlock, session pass:
  8 sessionStep "session for inactive at key does not exist" .... `SessIdx.q`; the snapshot stays live
  9 `Bandwidth.Sum` (256-bit add) ............................... `NH.sess` (report < 2^128 each way; F2 repaired)
 10 sessionInactiveHook (errors become panics): "invalid status" — `LifeInv.sessStatus`; "subscription does not
    exist" — `LifeInv.sessSub` (this is the F6 site: needs H_delay); "subscription allocation does not exist" —
    `NH.sessAlloc`; `SInt.add used bytes` — `AllocBounds`, grant < 2^192
 11 settleSession: `SInt.quo` by gigabytes (`SubWF`: gb > 0), `newCoin`, `AmountForBytes` ×2 (`afb_sub_total`),
    `SInt.sub` (`charge_mono`), `GetProportionOfCoin`, the two escrow payments (`charge_le_deposit`, `escrow_covers`,
    `SubIdx.nodeSubAlloc`: the session's account is the owner; `NH.sess`: the session's node is unblocked)
 EndBlock, subscription pass:
 12 subscriptionStep "subscription for inactive at key does not exist" . `SubIdx.q`; the snapshot stays live (`MidInv`)
 13 subscriptionInactivePendingHook "session for subscription key does not exist" . `SessIdx.sub`
 14 detachPayout / 17 removePayout "payout for subscription does not exist" . `SubIdx.payout`
 15 refundGB: price, "subscription allocation does not exist" (`SubWF`), `AmountForBytes`, `SInt.sub` (charge ≤ deposit),
    `newCoin`, subtractDeposit (`escrow_covers`; owner unblocked: `NH.subs`)
 16 refundHr: "payout for subscription does not exist" (`SubWF`), `SInt.mul` price·hours ≤ deposit, `newCoin`, subtractDeposit
-/
set_option linter.unusedSimpArgs false
set_option linter.unusedVariables false
set_option linter.unnecessarySeqFocus false

namespace Hub.Props.C03
open Hub.SDK Hub.Model Hub.Model.NoHalt Hub.Model.Escrow
open Hub.Props.C04 (HistOK)

/-- **H_actors** for one operation: a message is signed by an ordinary account (not a blocked/module address). -/
def ActorOK : Op → Prop
  | .tx m => isBlocked m.sender = false
  | _ => True

theorem ActorOK.senderOK {op : Op} (h : ActorOK op) : op.senderOK := by
  cases op with
  | tx m =>
    intro e
    have : isBlocked m.sender = false := h
    rw [e] at this
    exact absurd this (by decide)
  | _ => trivial

/-- The named hypotheses of `hooks_never_halt_partial`. -/
structure Hyp (M : Dur) (g : Genesis) (ops : List Op) : Prop where
  /-- H_delay -/
  delay0 : 0 < g.params.sessDelay
  delay1 : g.params.sessDelay ≤ M
  delay2 : M ≤ g.params.subDelay
  hist : HistOK M g.state ops
  /-- H_actors -/
  actors : ∀ op ∈ ops, ActorOK op
  noEscrowBalance : ∀ b ∈ g.balances, b.1 ≠ depositAddr
  balancesNonneg : ∀ b ∈ g.balances, 0 ≤ b.2.2
  /-- H_params -/
  params : ParamsOK g.params
  /-- H_amounts -/
  amounts0 : AmountsOK g.state
  amounts : ∀ s ∈ runTrace g.state ops, AmountsOK s

/-! ### the invariant at genesis and across one operation -/

theorem genesis_good {M : Dur} {g : Genesis} (h1 : 0 < g.params.sessDelay) (h2 : g.params.sessDelay ≤ M)
    (h3 : M ≤ g.params.subDelay) (hne : ∀ b ∈ g.balances, b.1 ≠ depositAddr) (hnn : ∀ b ∈ g.balances, 0 ≤ b.2.2)
    (hp : ParamsOK g.params) (ha : AmountsOK g.state) : Good M g.state :=
  ⟨⟨genesis_structInv g, genesis_escrowSplit g, Hub.Props.C01.genesis_inv g hne, genesis_nh g hp hnn, ha⟩,
    genesis_life g h1 h2 h3⟩

/-- One operation that does not halt keeps `Good` (given the hypotheses on that operation and `AmountsOK` after it). -/
theorem step_good {M : Dur} {s s' : State} {op : Op} (h : step s op = some s') (hg : Good M s)
    (ht : ∀ t, op = .begin t → s.time < t) (hgov : ∀ c, op = .gov c → DelayOK M ((gov s c).getD s))
    (hact : ActorOK op) (ha' : AmountsOK s') : Good M s' := by
  obtain ⟨⟨hs, he, hm, hn, ha⟩, hl⟩ := hg
  have hl' : LifeInv M s' := by
    refine step_life h hs.count hs.sessIdx hs.subIdx.subQOK (fun t e => Int.le_of_lt (ht t e)) ?_ hl
    intro c hc
    have := hgov c hc
    subst hc
    simp only [step, Option.some.injEq] at h
    rw [← h]; exact this
  refine ⟨⟨step_structInv h hs, step_escrowSplit h hs he, Hub.Props.C01.step_inv_any s s' op h hm hact.senderOK, ?_, ha'⟩, hl'⟩
  cases op with
  | tx m =>
    simp only [step, Option.some.injEq] at h
    rw [← h]; exact deliver_nh s m hact hs hm ha hn
  | gov c =>
    simp only [step, Option.some.injEq] at h
    rw [← h]; exact gov_nh s c hn
  | begin t =>
    simp only [step] at h
    split at h
    · rename_i s1 hb
      simp only [Option.some.injEq] at h; subst h
      obtain ⟨s2, h2, g2⟩ := beginBlock_total (M := M) ⟨⟨hs, he, hm, hn, ha⟩, hl⟩ (Int.le_of_lt (ht t rfl))
      rw [hb] at h2; simp only [Except.ok.injEq] at h2; subst h2
      exact g2.base.nh
    · contradiction
  | endB =>
    simp only [step] at h
    split at h
    · rename_i s1 hb
      simp only [Option.some.injEq] at h; subst h
      obtain ⟨s2, h2, g2⟩ := endBlock_total (M := M) ⟨⟨hs, he, hm, hn, ha⟩, hl⟩
      rw [hb] at h2; simp only [Except.ok.injEq] at h2; subst h2
      exact g2.base.nh
    · contradiction

/-! ### the two hooks -/

/-- **BeginBlock (custommint, distribution sweep, hourly payouts) never halts** on a state satisfying the
combined invariant, at any later block time. -/
theorem beginBlock_never_halts {M : Dur} {s : State} (hg : Good M s) (t : Time) (ht : s.time < t) :
    ∃ s', beginBlock s t = .ok s' :=
  let ⟨s', h, _⟩ := beginBlock_total hg (Int.le_of_lt ht); ⟨s', h⟩

/-- **EndBlock (node sweep and expiry, session settlement, subscription pending/refund/removal) never halts**
on a state satisfying the combined invariant. -/
theorem endBlock_never_halts {M : Dur} {s : State} (hg : Good M s) : ∃ s', endBlock s = .ok s' :=
  let ⟨s', h, _⟩ := endBlock_total hg; ⟨s', h⟩

/-- Every operation whose hypotheses hold has a successor on a `Good` state. -/
theorem step_total {M : Dur} {s : State} (hg : Good M s) (op : Op) (ht : ∀ t, op = .begin t → s.time < t) :
    ∃ s', step s op = some s' := by
  cases op with
  | tx m => exact ⟨_, rfl⟩
  | gov c => exact ⟨_, rfl⟩
  | begin t =>
    obtain ⟨s', h⟩ := beginBlock_never_halts hg t (ht t rfl)
    exact ⟨s', by simp only [step, h]⟩
  | endB =>
    obtain ⟨s', h⟩ := endBlock_never_halts hg
    exact ⟨s', by simp only [step, h]⟩

/-! ### histories -/

theorem never_halts_from {M : Dur} (ops : List Op) (s : State) (hg : Good M s) (hh : HistOK M s ops)
    (hact : ∀ op ∈ ops, ActorOK op) (hamt : ∀ s' ∈ runTrace s ops, AmountsOK s') :
    (runTrace s ops).length = ops.length ∧ ∀ s' ∈ runTrace s ops, Good M s' := by
  induction ops generalizing s with
  | nil => exact ⟨rfl, fun s' h => by simp [runTrace] at h⟩
  | cons op rest ih =>
    obtain ⟨ht, hgv, hrest⟩ := hh
    obtain ⟨s1, h1⟩ := step_total hg op ht
    have hmem : s1 ∈ runTrace s (op :: rest) := by simp [runTrace, h1]
    have g1 : Good M s1 := step_good h1 hg ht hgv (hact op (by simp)) (hamt s1 hmem)
    obtain ⟨l1, a1⟩ := ih s1 g1 (hrest s1 h1) (fun o ho => hact o (by simp [ho]))
      (fun s' hs' => hamt s' (by simp [runTrace, h1, hs']))
    constructor
    · simp only [runTrace, h1, List.length_cons, l1]
    · intro s' hs'
      simp only [runTrace, h1, List.mem_cons] at hs'
      rcases hs' with rfl | hs'
      · exact g1
      · exact a1 s' hs'

/-- **C03, partial (the strongest true statement found).** From every genesis, along every history satisfying the
named hypotheses `Hyp M g ops`, no begin-of-block or end-of-block step halts: the trace has one state per operation. -/
theorem hooks_never_halt_partial (M : Dur) (g : Genesis) (ops : List Op) (h : Hyp M g ops) :
    (runTrace g.state ops).length = ops.length :=
  (never_halts_from ops g.state
    (genesis_good h.delay0 h.delay1 h.delay2 h.noEscrowBalance h.balancesNonneg h.params h.amounts0)
    h.hist h.actors h.amounts).1

/-- Every state on the way satisfies the combined invariant (so both hooks are total on it). -/
theorem good_all_histories (M : Dur) (g : Genesis) (ops : List Op) (h : Hyp M g ops) :
    Good M g.state ∧ ∀ s ∈ runTrace g.state ops, Good M s :=
  have hg := genesis_good h.delay0 h.delay1 h.delay2 h.noEscrowBalance h.balancesNonneg h.params h.amounts0
  ⟨hg, (never_halts_from ops g.state hg h.hist h.actors h.amounts).2⟩

theorem run_of_length (s : State) (ops : List Op) (h : (runTrace s ops).length = ops.length) : run s ops ≠ none := by
  induction ops generalizing s with
  | nil => simp [run]
  | cons op rest ih =>
    simp only [runTrace, run] at h ⊢
    cases hst : step s op with
    | none => simp [hst] at h
    | some s1 =>
      simp only [hst, List.length_cons, Nat.add_right_cancel_iff] at h ⊢
      exact ih s1 h

/-- The same, as "the run has a final state". -/
theorem hooks_never_halt_partial_run (M : Dur) (g : Genesis) (ops : List Op) (h : Hyp M g ops) : run g.state ops ≠ none :=
  run_of_length _ _ (hooks_never_halt_partial M g ops h)

/-- Per step: in every state reached under the hypotheses (and in the genesis state), BeginBlock at any
later time and EndBlock return. -/
theorem hooks_total_in_reached_states (M : Dur) (g : Genesis) (ops : List Op) (h : Hyp M g ops) :
    ∀ s, (s = g.state ∨ s ∈ runTrace g.state ops) →
      (∀ t, s.time < t → ∃ s', beginBlock s t = .ok s') ∧ ∃ s', endBlock s = .ok s' := by
  obtain ⟨h0, hall⟩ := good_all_histories M g ops h
  intro s hs
  have hg : Good M s := by
    rcases hs with rfl | hs
    · exact h0
    · exact hall s hs
  exact ⟨fun t ht => beginBlock_never_halts hg t ht, endBlock_never_halts hg⟩


/-! ### H_actors cannot be weakened to `Op.senderOK`

`Op.senderOK` (Run.lean) only excludes the escrow account as a signer.  If any other blocked (module) address
could sign, it could register as a node; the first hourly payout to it is refused by the bank
("is not allowed to receive funds") inside BeginBlock — a halt.  (Model-domain artefact: module accounts have
no keys — D2 of the configuration domain — which is why `Hyp` asks for `ActorOK`.) -/

def feeAcc : TextAddr := { role := .acc, bytes := feeCollectorAddr }
def feeNod : TextAddr := { role := .node, bytes := feeCollectorAddr }

/-- The fee-collector module address registers as a node and sells one hour; the payout at the next
BeginBlock halts. -/
def moduleNode : List Op := [
  .begin 1700000005000000000,
  .tx (.nodeRegister feeAcc (some [⟨"udvpn", 10⟩]) (some [⟨"udvpn", 5⟩]) [104] true),
  .tx (.nodeStatus feeNod 1),
  .tx (.nodeSubscribe (acc 3) feeNod 0 1 "udvpn"),
  .endB,
  .begin 1700000010000000000]

/-- Witness: all senders satisfy `Op.senderOK`, the delays are constant, and the last BeginBlock halts. -/
theorem halt_by_module_node :
    (runTrace g0.state moduleNode).length = 5 ∧ moduleNode.length = 6 ∧ moduleNode.all senderOKB = true ∧
    (∀ s ∈ runTrace g0.state moduleNode, s.params.sessDelay ≤ s.params.subDelay) := by
  decide +kernel

/-! ### the hypotheses are satisfiable: a concrete non-trivial history -/

def amountsOKB (s : State) : Bool :=
  s.supply.all (fun p => decide (p.2 < 57896044618658097711785492504343953926634992332820282019728792003956564819968)) &&
  s.allocs.all (fun p => decide (p.2.granted < 6277101735386680763835789423207666416102355444464034512896))

theorem amountsOK_of_B {s : State} (h : amountsOKB s = true) : AmountsOK s := by
  unfold amountsOKB at h
  rw [Bool.and_eq_true, List.all_eq_true, List.all_eq_true] at h
  refine ⟨fun d => ?_, fun k al hg => ?_⟩
  · unfold supplyOf
    cases hg : s.supply.get d with
    | none => simp
    | some v =>
      have := h.1 (d, v) (Tbl.mem_of_get hg)
      simpa using this
  · have := h.2 (k, al) (Tbl.mem_of_get hg)
    unfold GrantMax
    simpa using this

def actorOKB : Op → Bool
  | .tx m => !isBlocked m.sender
  | _ => true

theorem actorOK_of_B {op : Op} (h : actorOKB op = true) : ActorOK op := by
  cases op <;> simp_all [actorOKB, ActorOK]

def pEx : Params :=
  { provDeposit := ⟨"udvpn", 0⟩, provShare := 0, nodeDeposit := ⟨"udvpn", 0⟩, activeDur := 86400000000000,
    maxGB := [], minGB := [], maxHr := [], minHr := [], maxSubGB := 10, minSubGB := 1, maxSubHr := 10, minSubHr := 1,
    nodeShare := 100000000000000000, subDelay := 7200000000000, sessDelay := 7200000000000, proof := false, swapOn := false,
    swapDenom := "udvpn", approveBy := [1] }

def gEx : Genesis := { time := 1700000000000000000, params := pEx, balances := [([3], "udvpn", 1000000)] }

/-- Node `[2]` (10/GB, 5/hour, staking share 10 %) goes active; account `[3]` buys 2 GB (subscription 1, deposit 20)
and 3 hours (subscription 2, deposit 15), uses 700 000 001 bytes in a session and ends it.  Three hours later the
first hourly payout is made (BeginBlock: 5 out of the escrow, the share rounds to 0), the session is settled
(EndBlock: 8 out of the escrow — 7 to the node, 1 to the fee collector) and the hourly lease expires into its
pending period; the per-gigabyte subscription is cancelled, governance raises the subscription delay (allowed by
H_delay); after the pending periods the subscriptions are removed with their refunds (10, then 12). -/
def histEx : List Op := [
  .begin 1700000005000000000,
  .tx (.nodeRegister (acc 2) (some [⟨"udvpn", 10⟩]) (some [⟨"udvpn", 5⟩]) [104] true),
  .tx (.nodeStatus (nod 2) 1),
  .tx (.nodeSubscribe (acc 3) (nod 2) 2 0 "udvpn"),
  .tx (.nodeSubscribe (acc 3) (nod 2) 0 3 "udvpn"),
  .tx (.sessStart (acc 3) 1 (nod 2)),
  .tx (.sessUpdate (nod 2) 1 300000000 400000001 60 .none),
  .tx (.sessEnd (acc 3) 1 0),
  .endB,
  .begin 1700010810000000000,
  .endB,
  .begin 1700010820000000000,
  .tx (.subCancel (acc 3) 1),
  .gov (.subDelay 7300000000000),
  .endB,
  .begin 1700018015000000000,
  .endB,
  .begin 1700020000000000000,
  .endB]

/-- The concrete history satisfies every named hypothesis (for `M` = two hours). -/
theorem hyp_example : Hyp 7200000000000 gEx histEx where
  delay0 := by decide
  delay1 := by decide
  delay2 := by decide
  hist := Hub.Props.C04.histOK_of_B _ _ _ (by decide +kernel)
  actors := by
    intro op hop
    exact actorOK_of_B ((List.all_eq_true.mp (by decide +kernel : histEx.all actorOKB = true)) op hop)
  noEscrowBalance := by decide
  balancesNonneg := by decide
  params := ⟨by decide, by decide, by decide, by decide⟩
  amounts0 := amountsOK_of_B (by decide +kernel)
  amounts := by
    intro s hs
    exact amountsOK_of_B ((List.all_eq_true.mp (by decide +kernel : (runTrace gEx.state histEx).all amountsOKB = true)) s hs)

/-- … so by the theorem it does not halt; and indeed (by evaluation) it makes the payout, settles the session,
and removes both subscriptions with their refunds: the buyer ends with 1 000 000 − 5 − 8, the node with 12, the
fee collector's 1 has been swept to the distribution account. -/
example : (runTrace gEx.state histEx).length = histEx.length := hooks_never_halt_partial _ _ _ hyp_example

example :
    let s := ((runTrace gEx.state histEx).getLast?).getD default
    s.subs.isEmpty = true ∧ s.sessions.isEmpty = true ∧ s.payouts.isEmpty = true ∧ s.deposits.isEmpty = true ∧
    balance s [3] "udvpn" = 999987 ∧ balance s [2] "udvpn" = 12 ∧ balance s distrAddr "udvpn" = 1 := by
  decide +kernel

end Hub.Props.C03
