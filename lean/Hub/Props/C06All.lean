import Hub.Props.C06
import Hub.Lemmas.AllInv
/-
C06, assembled: the `CountInv`-preservation hypothesis of `Props/C06.lean` is discharged with
`Hub.Model.step_count`; the per-step statements are lifted to every reachable state.
-/
namespace Hub.Props.C06
open Hub.Model Hub.SDK

/-- **Quota is conserved in every state of every history from every genesis** (no hypothesis). -/
theorem quota_conserved_every_history (g : Genesis) (ops : List Op) : ∀ s' ∈ runTrace g.state ops, QuotaConserved s' :=
  quota_conserved_all_histories (fun _ _ _ h hi => step_count h hi) g ops

/-- Bounds and conservation together, for every reachable state. -/
theorem quota_reachable {s : State} (hr : Reachable s) : AllocBounds s ∧ QuotaConserved s :=
  ⟨hr.structInv.alloc.bounds, hr.structInv.quota⟩

/-- `used` never decreases, from every reachable state. -/
theorem used_monotone_reachable {s s' : State} {op : Op} (hr : Reachable s) (h : step s op = some s')
    {k : Nat × Addr} {al al' : Alloc} (h1 : s.allocs.get k = some al) (h2 : s'.allocs.get k = some al') :
    al.used ≤ al'.used := used_monotone h hr.structInv.count hr.structInv.alloc h1 h2

/-- `used` grows only at the end of a block (settlement), from every reachable state. -/
theorem used_grows_only_at_settlement_reachable {s s' : State} {op : Op} (hr : Reachable s) (h : step s op = some s')
    {k : Nat × Addr} {al al' : Alloc} (h1 : s.allocs.get k = some al) (h2 : s'.allocs.get k = some al')
    (hlt : al.used < al'.used) : op = .endB := used_grows_only_at_settlement h hr.structInv.count h1 h2 hlt

end Hub.Props.C06
