import Hub.Lemmas.ProtoWire
import Hub.Generated.Proto
import Hub.Generated.Status
/-
C19 — Every message, request, record, parameter set and genesis object decodes, after being encoded,
to the same value.

Part 1: the generic protobuf wire model (`Hub/SDK/ProtoWire.lean`, mirroring the gogoproto-generated
        `MarshalToSizedBuffer`/`Unmarshal`) round-trips: `binary_roundtrip`, for every supported
        descriptor (`WF`) and every well-typed value (`Canonical`).
Part 2: every descriptor regenerated from `/repo/proto/sentinel/**/*.proto` (`Hub.Generated.Proto`) is
        supported (`all_descriptors_wf`), hence `hub_binary_roundtrip`.
Part 3: the JSON rendering of the `Status` enum does NOT round-trip (`status_json_roundtrip_fails`);
        it would if it were printed by the `Status_name` table (`status_name_value_roundtrip`).
        The JSON encoding of whole messages is modelled in `Hub/SDK/ProtoJson.lean`; its round-trip theorem
        (`json_roundtrip_iff`, and for the hub `hub_json_roundtrip_iff`, `status_field_breaks_json`) is in
        `Hub/Props/C19Json.lean`.

The model is validated against the real codec by the differential probe (`/verif/harness/probe19`):
`Proto.runProtoProbe` (model bytes of a value vs `cdc.Marshal`) and `Proto.runProtoDecodeProbe` (model
`decode` of mutated bytes vs the real `Unmarshal`: same value or both reject).

"Same meaning": a message value is the positional list of its field values (the Go struct); nil and empty
repeated fields / byte strings are identified, a nil `Int`/`Dec` is 0, a time is its instant (seconds,
nanoseconds).  Descriptor nesting is resolved through the environment with fuel `depthFuel = 8`; `WF`
entails that the descriptor's nesting is at most that deep (the hub's messages are not recursive).
-/
namespace Hub.Props.C19
open Hub.SDK Hub.SDK.ProtoWire Hub.Generated

/-! ## Part 1 — the wire model round-trips -/

/-- Supported descriptor: field numbers strictly ascending in `[1, 2^29)`, every field of a supported
class, nested descriptors resolvable in `env` and supported, nesting depth ≤ `depthFuel`. -/
def WF (env : Env) (d : MsgDesc) : Prop := wf env d = true

/-- Well-typed value of `d`: one value per field, integers in the range of their Go type (`uint64(x)`
pattern), `Int` below 2^256 and `Dec` below 2^315 in absolute value, times within years 1…9999, durations
representable in an `int64` of nanoseconds, no nil for non-nullable messages, every length-delimited piece
shorter than 2^63 bytes.  Values are already in normal form (absent scalar = zero value), so no normaliser
(and no `norm_idempotent`) is needed. -/
def Canonical (env : Env) (d : MsgDesc) (v : Val) : Prop := canonical env d v = true

instance (env : Env) (d : MsgDesc) : Decidable (WF env d) := inferInstanceAs (Decidable (_ = true))
instance (env : Env) (d : MsgDesc) (v : Val) : Decidable (Canonical env d v) := inferInstanceAs (Decidable (_ = true))

/-- Varints: 7-bit groups, little-endian, `uint64` range. -/
theorem varint_roundtrip (n : Nat) (h : n < 18446744073709551616) (rest : Bytes) :
    getVarint (putVarint n ++ rest) = some (n, rest) := getVarint_putVarint n h rest

/-- A varint occupies at most 10 bytes … -/
theorem varint_length (n : Nat) : (putVarint n).length ≤ 10 := by
  have aux : ∀ k m, (putVarintAux k m).length ≤ k + 1 := by
    intro k
    induction k with
    | zero => intro m; simp [putVarintAux]
    | succ k ih =>
      intro m
      unfold putVarintAux
      split
      · simp
      · have := ih (m / 128); simp only [List.length_cons]; omega
  exact aux 9 _

/-- Tags: field number and wire type are recovered (`fieldNum := int32(wire >> 3)`, `wireType := wire & 7`). -/
theorem tag_roundtrip (num wt : Nat) (h0 : 0 < num) (h1 : num < 536870912) (hw : wt < 8) (rest : Bytes) :
    getVarint (putVarint (tagOf num wt) ++ rest) = some (tagOf num wt, rest) ∧
    splitTag (tagOf num wt) = some (num, wt) :=
  ⟨getVarint_putVarint _ (tagOf_lt num wt h1 hw) rest, splitTag_tagOf num wt h0 h1 hw⟩

/-- One wire entry (tag + payload) is read back, leaving what follows it. -/
theorem entry_roundtrip (e : Entry) (h : e.ok) (rest : Bytes) : readEntry (encEntry e ++ rest) = some (e, rest) :=
  readEntry_encEntry e h rest

/-- The generated `for iNdEx < l` loop recovers exactly the entries that were written. -/
theorem tokenize_roundtrip (es : List Entry) (h : ∀ e ∈ es, e.ok) :
    tokenize (encEntries es).length (encEntries es) = some es :=
  tokenize_encEntries es _ h (Nat.le_refl _)

/-- Decimal text of `math.Int` / `LegacyDec` (`big.Int.MarshalText`) parses back. -/
theorem int_text_roundtrip (i : Int) : parseIntText (intText i) = some i := parseIntText_intText i

/-- **Binary round trip**: for every supported descriptor and every well-typed value,
`Unmarshal(Marshal(v))` into a fresh struct yields `v`. -/
theorem binary_roundtrip (env : Env) (d : MsgDesc) (v : Val) (hwf : WF env d) (hc : Canonical env d v) :
    decode env d (encode env d v) = some v :=
  roundtripAt env depthFuel d v hwf hc

/-- Hence the encoding is injective on well-typed values: distinct values never share their bytes. -/
theorem encode_injective (env : Env) (d : MsgDesc) (v w : Val) (hwf : WF env d)
    (hv : Canonical env d v) (hw : Canonical env d w) (h : encode env d v = encode env d w) : v = w := by
  have a := binary_roundtrip env d v hwf hv
  have b := binary_roundtrip env d w hwf hw
  rw [h, b] at a
  exact (Option.some.inj a).symm

/-- A message packed into a `google.protobuf.Any` (`type_url`, `value = Marshal(v)`) survives: the Any
round-trips as a message, and its `value` decodes to `v` under the packed type's descriptor. -/
def packAny (env : Env) (d : MsgDesc) (v : Val) : Val :=
  .msg [.bytes (strBytes ("/" ++ d.name)), .bytes (encode env d v)]

theorem any_roundtrip (env : Env) (d : MsgDesc) (v : Val) (hany : WF env anyDesc) (hwf : WF env d)
    (hc : Canonical env d v) (hca : Canonical env anyDesc (packAny env d v)) :
    decode env anyDesc (encode env anyDesc (packAny env d v)) = some (packAny env d v) ∧
    decode env d (encode env d v) = some v :=
  ⟨binary_roundtrip env anyDesc _ hany hca, binary_roundtrip env d v hwf hc⟩

/-- `time.Duration` ⇄ `google.protobuf.Duration` (`DurationProto` / `DurationFromProto`): every `int64` of
nanoseconds — negative ones included — is valid and comes back. -/
theorem duration_roundtrip (ns : Int) (h1 : -9223372036854775808 ≤ ns) (h2 : ns < 9223372036854775808) :
    durFromProto (durToProto ns) = some ns ∧ stdValid .duration (durToProto ns) = true := by
  have h := duration_proto_roundtrip ns h1 h2
  refine ⟨h, ?_⟩
  unfold durToProto at h ⊢
  simp only [durFromProto] at h
  simp only [stdValid]
  split at h
  · assumption
  · exact absurd h (by simp)

/-- `time.Time` → `google.protobuf.Timestamp`: every instant of the years 1 … 9999 (zero time and
9999-12-31T23:59:59.999999999Z included) is valid for `StdTimeUnmarshal`, and its seconds are recovered. -/
theorem timestamp_valid (secs : Int) (nanos : Nat) (h1 : -62135596800 ≤ secs) (h2 : secs < 253402300800)
    (h3 : nanos < 1000000000) :
    stdValid .time (timeToProto secs nanos) = true ∧ toInt (ofInt secs) = secs :=
  ⟨time_proto_valid secs nanos h1 h2 h3, time_proto_seconds secs h1 h2⟩

/-! ## Part 2 — every regenerated descriptor is supported -/

/-- Every descriptor of the environment (stubs of the imported messages and all hub messages). -/
theorem all_env_wf : ∀ d ∈ Proto.env, WF Proto.env d := by
  unfold WF
  decide +kernel

/-- Every message regenerated from `/repo/proto/sentinel/**/*.proto`. -/
theorem all_descriptors_wf : ∀ d ∈ Proto.messages, WF Proto.env d := by
  intro d hd
  exact all_env_wf d (by unfold Proto.env; exact List.mem_append_right _ hd)

/-- **C19, binary**: every transaction message, query request/response, event, stored record, parameter set
and genesis object of the hub modules round-trips through the wire encoding, for every well-typed value. -/
theorem hub_binary_roundtrip (d : MsgDesc) (hd : d ∈ Proto.messages) (v : Val) (hc : Canonical Proto.env d v) :
    decode Proto.env d (encode Proto.env d v) = some v :=
  binary_roundtrip Proto.env d v (all_descriptors_wf d hd) hc

/-- The same, addressed by fully-qualified name. -/
theorem hub_binary_roundtrip_by_name (name : String) (d : MsgDesc) (h : lookup Proto.env name = some d)
    (v : Val) (hc : Canonical Proto.env d v) : decode Proto.env d (encode Proto.env d v) = some v := by
  have hm : d ∈ Proto.env := by
    unfold lookup at h
    exact List.mem_of_find?_eq_some h
  exact binary_roundtrip Proto.env d v (all_env_wf d hm) hc

def enumDeclared (f : Field) : Bool :=
  match f.kind with
  | .scalar (.enum n) => (Proto.enums.find? (fun e => e.name == n)).isSome
  | _ => true

/-- Every enum a field refers to is declared in the regenerated enum table.  (That every rpc request /
response name resolves and that names are unique is enforced by the translator, which refuses otherwise;
checking it here by kernel evaluation costs minutes of string comparisons.) -/
theorem enums_declared : ∀ d ∈ Proto.messages, ∀ f ∈ d.fields, enumDeclared f = true := by
  decide +kernel

/-- The record, message, parameter and genesis types named by the property are in the table. -/
theorem named_types_present :
    ∀ n ∈ ["sentinel.provider.v2.Provider", "sentinel.node.v2.Node", "sentinel.plan.v2.Plan",
           "sentinel.subscription.v2.NodeSubscription", "sentinel.subscription.v2.PlanSubscription",
           "sentinel.subscription.v2.Allocation", "sentinel.subscription.v2.Payout", "sentinel.session.v2.Session",
           "sentinel.deposit.v1.Deposit", "sentinel.swap.v1.Swap", "sentinel.mint.v1.Inflation",
           "sentinel.provider.v2.Params", "sentinel.node.v2.Params", "sentinel.subscription.v2.Params",
           "sentinel.session.v2.Params", "sentinel.swap.v1.Params",
           "sentinel.vpn.v1.GenesisState", "sentinel.provider.v2.GenesisState", "sentinel.node.v2.GenesisState",
           "sentinel.plan.v2.GenesisPlan", "sentinel.subscription.v2.GenesisState", "sentinel.subscription.v2.GenesisSubscription",
           "sentinel.session.v2.GenesisState", "sentinel.swap.v1.GenesisState", "sentinel.mint.v1.GenesisState",
           "sentinel.node.v2.MsgRegisterRequest", "sentinel.node.v2.MsgUpdateStatusRequest", "sentinel.node.v2.MsgSubscribeRequest",
           "sentinel.provider.v2.MsgRegisterRequest", "sentinel.plan.v2.MsgCreateRequest", "sentinel.plan.v2.MsgSubscribeRequest",
           "sentinel.subscription.v2.MsgAllocateRequest", "sentinel.subscription.v2.MsgCancelRequest",
           "sentinel.session.v2.MsgStartRequest", "sentinel.session.v2.MsgUpdateDetailsRequest", "sentinel.session.v2.MsgEndRequest",
           "sentinel.swap.v1.MsgSwapRequest"],
      (lookup Proto.env n).isSome = true := by
  decide +kernel

/-- The hypotheses are satisfiable and the model's bytes are the real ones — two golden vectors taken from the
differential probe (`/verif/harness/cmd/probe19`): a coin, and `cdc.Marshal(&nodetypes.Node{})`, whose two
zero `time.Time` fields are NOT omitted (11-byte Timestamp of −62135596800 s each). -/
def nodeDesc : MsgDesc := (lookup Proto.env "sentinel.node.v2.Node").getD ⟨"", []⟩

theorem golden_vectors :
    Canonical Proto.env coinDesc (.msg [.bytes [117, 100, 118, 112, 110], .int 1000]) ∧
    encode Proto.env coinDesc (.msg [.bytes [117, 100, 118, 112, 110], .int 1000]) =
      [0x0a, 0x05, 117, 100, 118, 112, 110, 0x12, 0x04, 49, 48, 48, 48] ∧
    Canonical Proto.env nodeDesc (defaultMsg Proto.env depthFuel nodeDesc) ∧
    encode Proto.env nodeDesc (defaultMsg Proto.env depthFuel nodeDesc) =
      [0x2a, 0x0b, 0x08, 0x80, 0x92, 0xb8, 0xc3, 0x98, 0xfe, 0xff, 0xff, 0xff, 0x01,
       0x3a, 0x0b, 0x08, 0x80, 0x92, 0xb8, 0xc3, 0x98, 0xfe, 0xff, 0xff, 0xff, 0x01] := by
  unfold Canonical
  decide +kernel

/-! ## Part 3 — JSON of the `Status` enum (finding F7)

Mechanism (`codec.ProtoCodec.MarshalJSON` → `codec.ProtoMarshalJSON` → gogoproto `jsonpb.Marshaler{OrigName,
EmitDefaults}`), `jsonpb/jsonpb.go`:
* marshal, l. 584–616: for a field with `prop.Enum != ""` the text is `v.Interface().(fmt.Stringer).String()`.
  `Status` is generated with `goproto_enum_stringer_all = false`, and `/repo/types/status.go:7` supplies its own
  `String()` returning "active" / "inactive_pending" / "inactive" / "unspecified".  Since that text differs
  from `strconv.Itoa(value)`, it is written quoted: `"status":"active"`.  With `EmitDefaults` the zero status
  is written too (`"status":"unspecified"`).
* unmarshal, l. 1009–1025: a quoted enum value is looked up in `proto.EnumValueMap(prop.Enum)`, i.e. the
  `Status_value` table registered by `proto.RegisterEnum("sentinel.types.v1.Status", Status_name, Status_value)`
  (`/repo/types/status.pb.go:57`), whose keys are "STATUS_ACTIVE" …; an unknown key is the error
  `unknown value "active" for enum sentinel.types.v1.Status`.  An unquoted number is accepted as is. -/

def lookupValue (s : String) : Option Int := (Status.Status_value.find? (fun p => p.1 == s)).map (·.2)
def lookupName (n : Int) : Option String := (Status.Status_name.find? (fun p => p.1 == n)).map (·.2)

/-- jsonpb marshal of an enum-typed field: `String()`, quoted unless it is the bare number. -/
def jsonPrint (s : Status) : String :=
  let enumStr := Status.String s
  let valStr := toString (Status.toInt32 s)
  if enumStr == valStr then enumStr else "\"" ++ enumStr ++ "\""

def unquote (t : String) : Option String :=
  match t.toList with
  | '"' :: rest =>
    match rest.reverse with
    | '"' :: mid => some (String.ofList mid.reverse)
    | _ => none
  | _ => none

def digitsToNat : List Char → Nat → Option Nat
  | [], acc => some acc
  | c :: cs, acc => if c.isDigit then digitsToNat cs (acc * 10 + (c.toNat - 48)) else none

/-- A JSON integer (`json.Unmarshal` into the `int32`). -/
def parseJsonInt (t : String) : Option Int :=
  match t.toList with
  | [] => none
  | '-' :: c :: cs => (digitsToNat (c :: cs) 0).map (fun n => -(n : Int))
  | cs => (digitsToNat cs 0).map (fun n => (n : Int))

/-- jsonpb unmarshal of an enum-typed field: quoted → `Status_value`; otherwise a number. -/
def jsonParse (t : String) : Option Status :=
  match unquote t with
  | some name => (lookupValue name).bind Status.ofInt32
  | none => (parseJsonInt t).bind Status.ofInt32

/-- What C19 asks of the JSON encoding of a status. -/
def status_json_roundtrip : Prop := ∀ s : Status, jsonParse (jsonPrint s) = some s

/-- It fails on the current tree: `StatusActive` is printed `"active"`, which `Status_value` does not know. -/
theorem status_json_roundtrip_fails : ¬ status_json_roundtrip := by
  intro h
  have w : jsonParse (jsonPrint .StatusActive) = none := by decide
  rw [h .StatusActive] at w
  exact absurd w (by simp)

/-- In fact no status value at all survives — not even the zero value, which `EmitDefaults` prints as
`"unspecified"`: every JSON document produced for a message with a `Status` field is rejected on input. -/
theorem status_json_never_roundtrips : ∀ s : Status, jsonParse (jsonPrint s) = none := by
  intro s; cases s <;> decide

/-- The two generated tables are inverse to each other … -/
theorem status_name_value_roundtrip :
    (∀ s : Status, (lookupName (Status.toInt32 s)).bind lookupValue = some (Status.toInt32 s)) ∧
    (∀ p ∈ Status.Status_value, lookupName p.2 = some p.1) := by
  refine ⟨fun s => by cases s <;> decide, by decide⟩

/-- jsonpb's rendering when the enum has the generated stringer (`proto.EnumName(Status_name, v)`). -/
def jsonPrintByName (s : Status) : String :=
  match lookupName (Status.toInt32 s) with
  | some n => "\"" ++ n ++ "\""
  | none => toString (Status.toInt32 s)

/-- … so printing through `Status_name` WOULD round-trip; and numbers are accepted on input. -/
theorem status_json_by_name_roundtrip :
    (∀ s : Status, jsonParse (jsonPrintByName s) = some s) ∧
    (∀ s : Status, jsonParse (toString (Status.toInt32 s)) = some s) := by
  refine ⟨fun s => by cases s <;> decide, fun s => by cases s <;> decide⟩

end Hub.Props.C19
