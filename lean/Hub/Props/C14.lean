import Hub.Lemmas.Swap
import Hub.Props.C17
/-
C14 — A swap is minted at most once per Ethereum tx hash, only by the approver.

Property text: "For each Ethereum transaction hash at most one swap is ever executed; it is executed
only while swaps are enabled and only on a request from the configured approver, credits the named
receiver with exactly the requested amount divided by 100 (rounded down) in the swap denomination,
and is recorded. The supply of the swap denomination grows by exactly the sum of the recorded swaps
and by nothing else the swap module does."

Go: `x/swap/keeper/msg_server.go` (`MsgSwap`): `SwapEnabled`, `ApproveBy == msg.From`, `!HasSwap(hash)`,
`coin = NewCoin(SwapDenom, Amount.Quo(100))`, `MintCoins(swap, coin)`,
`SendCoinsFromModuleToAccount(swap, receiver, coin)` (refuses blocked addresses), `SetSwap`.

* `swapAllowed` is the acceptance condition written from the text; `swap_accept_iff` says the handler
  accepts exactly then (`amt ≥ 100`, which `ValidateBasic` forces, and non-negative balances).
* `swap_effect`: what an accepted swap does, and nothing else.
* `step_swaps_persist`, `one_swap_per_hash`, `accepted_hashes_nodup`: records are never deleted, so a
  hash is accepted at most once in any history.
* `swapLedger_all_histories`: supply growth = sum of the swaps recorded since, for every history,
  with no assumption on senders or on the money invariant (the frame lemmas of `Hub/Lemmas/Swap.lean`
  show that no other step touches the supply table or the swap records).
-/
namespace Hub.Props.C14
open Hub.SDK Hub.Model

/-- 2^256 (see `Hub.SDK.two_pow_256`). -/
notation "I256" => (115792089237316195423570985008687907853269984665640564039457584007913129639936 : Int)

/-! ### the specification -/

/-- **When a swap request is to be executed** (from the property text): swaps are enabled, the
request comes from the configured approver, the hash has not been swapped before, the receiver may
receive funds (is not a module account), the swap denomination is a valid denomination, and the
three sums the bank computes stay below 2^256. -/
def swapAllowed (s : State) (frm recv : Addr) (hash : Bytes) (amt : Int) : Prop :=
  s.params.swapOn = true ∧ s.params.approveBy = frm ∧ s.swaps.get hash = none ∧ isBlocked recv = false ∧
  validDenom s.params.swapDenom = true ∧
  balance s swapAddr s.params.swapDenom + amt / 100 < I256 ∧
  supplyOf s s.params.swapDenom + amt / 100 < I256 ∧
  balance s recv s.params.swapDenom + amt / 100 < I256

/-- The record an executed swap leaves. -/
def swapRecord (s : State) (hash : Bytes) (recv : Addr) (amt : Int) : Swap :=
  { hash, recv, amt := ⟨s.params.swapDenom, amt / 100⟩ }

/-- Sum of the recorded swap amounts in one denomination. -/
def recorded (s : State) (d : Denom) : Int :=
  s.swaps.sumKV (fun _ w => if w.amt.denom = d then w.amt.amount else 0)

/-! ### arithmetic and bank primitives -/

theorem intOverflows_nonneg {x : Int} (h : 0 ≤ x) : intOverflows x = false ↔ x < I256 := by
  unfold intOverflows
  simp only [decide_eq_false_iff_not, ge_iff_le, Nat.not_le]
  omega

theorem SInt.add_ok_iff (a b : Int) : (∃ r, SInt.add a b = .ok r) ↔ intOverflows (a + b) = false := by
  unfold SInt.add
  cases h : intOverflows (a + b) <;> simp [gopanic, pure, Except.pure]

theorem newCoin_eq_ok {d : Denom} {a : Int} {c : Coin} :
    newCoin d a = .ok c ↔ validDenom d = true ∧ 0 ≤ a ∧ c = ⟨d, a⟩ := by
  unfold newCoin
  cases hv : validDenom d
  · simp [gopanic]
  · by_cases ha : a < 0
    · simp [ha, gopanic]
    · simp [ha, pure, Except.pure]
      constructor
      · intro h; exact ⟨by omega, h.symm⟩
      · intro h; exact h.2.symm

theorem quo100 {amt q : Int} (h0 : 0 ≤ amt) : SInt.quo amt 100 = .ok q ↔ q = amt / 100 := by
  unfold SInt.quo
  simp [pure, Except.pure, Int.tdiv_eq_ediv_of_nonneg h0]
  exact eq_comm

theorem balance_setSupply (s : State) (d : Denom) (v : Int) (a : Addr) (d' : Denom) :
    balance (setSupply s d v) a d' = balance s a d' := rfl

theorem supplyOf_setBalance (s : State) (a : Addr) (d : Denom) (v : Int) (d' : Denom) :
    supplyOf (setBalance s a d v) d' = supplyOf s d' := rfl

/-- `MintCoins`: succeeds iff neither sum overflows. -/
theorem mintCoins_ok_iff (s : State) (m : Addr) (c : Coin) :
    (∃ s1, mintCoins s m c = .ok s1) ↔
      intOverflows (balance s m c.denom + c.amount) = false ∧ intOverflows (supplyOf s c.denom + c.amount) = false := by
  unfold mintCoins
  simp only [bind_eq_ok, pure_eq_ok]
  constructor
  · rintro ⟨s1, nb, hnb, ns, hns, _⟩
    exact ⟨(SInt.add_ok_iff _ _).mp ⟨nb, hnb⟩, (SInt.add_ok_iff _ _).mp ⟨ns, hns⟩⟩
  · rintro ⟨h1, h2⟩
    obtain ⟨nb, hnb⟩ := (SInt.add_ok_iff _ _).mpr h1
    obtain ⟨ns, hns⟩ := (SInt.add_ok_iff _ _).mpr h2
    exact ⟨_, nb, hnb, ns, hns, rfl⟩

/-- `MintCoins`: the module account and the supply of the coin's denomination grow by the amount;
nothing else changes. -/
theorem mintCoins_effect {s s1 : State} {m : Addr} {c : Coin} (h : mintCoins s m c = .ok s1) :
    (∀ a d, balance s1 a d = balance s a d + (if m = a ∧ c.denom = d then c.amount else 0)) ∧
    (∀ d, supplyOf s1 d = supplyOf s d + (if c.denom = d then c.amount else 0)) ∧
    s1 = { s with bank := s1.bank, supply := s1.supply } := by
  unfold mintCoins at h
  simp only [bind_eq_ok, pure_eq_ok] at h
  obtain ⟨nb, hnb, ns, hns, rfl⟩ := h
  have e1 := SInt.add_eq_ok hnb
  have e2 := SInt.add_eq_ok hns
  refine ⟨?_, ?_, rfl⟩
  · intro a d
    rw [balance_setSupply, balance_setBalance, e1]
    by_cases h : m = a ∧ c.denom = d
    · obtain ⟨rfl, rfl⟩ := h; simp
    · simp [h]
  · intro d
    rw [supplyOf_setSupply, e2]
    by_cases h : c.denom = d
    · subst h; simp
    · simp [h]; rfl

/-- `SendCoins`: succeeds iff the sender has the funds and the credit does not overflow. -/
theorem sendCoins_ok_iff (s : State) (f t : Addr) (c : Coin) :
    (∃ s', sendCoins s f t c = .ok s') ↔
      c.amount ≤ balance s f c.denom ∧
      intOverflows (balance (setBalance s f c.denom (balance s f c.denom - c.amount)) t c.denom + c.amount) = false := by
  unfold sendCoins
  simp only [bind_eq_ok, pure_eq_ok, require_eq_ok]
  constructor
  · rintro ⟨s', _, hb, nb, hnb, _⟩
    refine ⟨?_, (SInt.add_ok_iff _ _).mp ⟨nb, hnb⟩⟩
    simpa using hb
  · rintro ⟨h1, h2⟩
    obtain ⟨nb, hnb⟩ := (SInt.add_ok_iff _ _).mpr h2
    exact ⟨_, (), by simpa using h1, nb, hnb, rfl⟩

theorem swapAddr_blocked : isBlocked swapAddr = true := by decide

/-! ### acceptance -/

/-- **The handler accepts exactly the allowed requests** (for validated amounts, `amt ≥ 100`, in a
state with non-negative balances — the bank never holds a negative balance). -/
theorem swap_accept_iff (s : State) (frm recv : Addr) (hash : Bytes) (amt : Int) (hamt : 100 ≤ amt)
    (hb1 : 0 ≤ balance s swapAddr s.params.swapDenom) (hb2 : 0 ≤ balance s recv s.params.swapDenom)
    (hb3 : 0 ≤ supplyOf s s.params.swapDenom) :
    (∃ s', swap s frm hash recv amt = .ok s') ↔ swapAllowed s frm recv hash amt := by
  have hq0 : 0 ≤ amt / 100 := Int.ediv_nonneg (by omega) (by omega)
  unfold swap sendModuleToAccount swapAllowed
  simp only [bind_eq_ok, pure_eq_ok, require_eq_ok]
  constructor
  · rintro ⟨s', _, h1, _, h2, _, h3, q, hq, coin, hcoin, s1, hs1, s2, hs2, _⟩
    rw [quo100 (by omega)] at hq
    subst hq
    obtain ⟨hvd, _, rfl⟩ := newCoin_eq_ok.mp hcoin
    have hget : s.swaps.get hash = none := (Tbl.has_eq_false_iff _ _).mp (by simpa using h3)
    obtain ⟨m1, m2⟩ := (mintCoins_ok_iff s swapAddr _).mp ⟨s1, hs1⟩
    simp only [] at m1 m2
    have hblk : isBlocked recv = false := by
      cases hb : isBlocked recv with
      | false => rfl
      | true => rw [hb] at hs2; simp [reject] at hs2
    rw [hblk] at hs2
    simp only [Bool.false_eq_true, if_false] at hs2
    have hne : swapAddr ≠ recv := by
      intro e; rw [← e, swapAddr_blocked] at hblk; cases hblk
    obtain ⟨_, s3⟩ := (sendCoins_ok_iff s1 swapAddr recv _).mp ⟨s2, hs2⟩
    simp only [] at s3
    obtain ⟨mb, _, _⟩ := mintCoins_effect hs1
    rw [balance_setBalance, mb recv] at s3
    simp only [hne, false_and, if_false, Int.add_zero] at s3
    refine ⟨h1, of_decide_eq_true h2, hget, hblk, hvd, ?_, ?_, ?_⟩
    · exact (intOverflows_nonneg (by omega)).mp m1
    · exact (intOverflows_nonneg (by omega)).mp m2
    · exact (intOverflows_nonneg (by omega)).mp s3
  · rintro ⟨h1, h2, h3, h4, h5, h6, h7, h8⟩
    have hne : swapAddr ≠ recv := by
      intro e; rw [← e, swapAddr_blocked] at h4; cases h4
    obtain ⟨s1, hs1⟩ := (mintCoins_ok_iff s swapAddr ⟨s.params.swapDenom, amt / 100⟩).mpr
      ⟨(intOverflows_nonneg (by simp only []; omega)).mpr h6, (intOverflows_nonneg (by simp only []; omega)).mpr h7⟩
    obtain ⟨mb, _, _⟩ := mintCoins_effect hs1
    obtain ⟨s2, hs2⟩ := (sendCoins_ok_iff s1 swapAddr recv ⟨s.params.swapDenom, amt / 100⟩).mpr (by
      simp only []
      refine ⟨?_, ?_⟩
      · rw [mb swapAddr]; simp only [and_self, if_true]; omega
      · rw [balance_setBalance, mb recv]
        simp only [hne, false_and, if_false, Int.add_zero]
        exact (intOverflows_nonneg (by omega)).mpr h8)
    refine ⟨_, (), h1, (), decide_eq_true h2, (), ?_, amt / 100, (quo100 (by omega)).mpr rfl,
      ⟨s.params.swapDenom, amt / 100⟩, newCoin_eq_ok.mpr ⟨h5, hq0, rfl⟩, s1, hs1, s2, ?_, rfl⟩
    · simp [(Tbl.has_eq_false_iff _ _).mpr h3]
    · rw [h4]; simp only [Bool.false_eq_true, if_false]; exact hs2

/-! ### effect -/

/-- **What an executed swap does, and nothing else**: the receiver (never the swap module account)
is credited exactly `amt / 100` of the swap denomination; every other balance — in particular the
swap module account's — is unchanged; the supply of the swap denomination grows by `amt / 100`, no
other supply changes; the swap is recorded under its hash and every other record is unchanged; the
rest of the state (but the event buffer) is unchanged. -/
theorem swap_effect {s s' : State} {frm recv : Addr} {hash : Bytes} {amt : Int}
    (h : swap s frm hash recv amt = .ok s') (hamt : 0 ≤ amt) :
    s.params.swapOn = true ∧ s.params.approveBy = frm ∧ s.swaps.get hash = none ∧
    isBlocked recv = false ∧ recv ≠ swapAddr ∧
    (∀ a d, balance s' a d = balance s a d + (if a = recv ∧ d = s.params.swapDenom then amt / 100 else 0)) ∧
    (∀ d, supplyOf s' d = supplyOf s d + (if d = s.params.swapDenom then amt / 100 else 0)) ∧
    s'.swaps = s.swaps.set hash (swapRecord s hash recv amt) ∧
    s' = { s with bank := s'.bank, supply := s'.supply, swaps := s'.swaps, events := s'.events } := by
  unfold swap sendModuleToAccount at h
  simp only [bind_eq_ok, pure_eq_ok, require_eq_ok] at h
  obtain ⟨_, h1, _, h2, _, h3, q, hq, coin, hcoin, s1, hs1, s2, hs2, rfl⟩ := h
  rw [quo100 hamt] at hq
  subst hq
  obtain ⟨_, _, rfl⟩ := newCoin_eq_ok.mp hcoin
  have hget : s.swaps.get hash = none := (Tbl.has_eq_false_iff _ _).mp (by simpa using h3)
  have hblk : isBlocked recv = false := by
    cases hb : isBlocked recv with
    | false => rfl
    | true => rw [hb] at hs2; simp [reject] at hs2
  rw [hblk] at hs2
  simp only [Bool.false_eq_true, if_false] at hs2
  have hne : recv ≠ swapAddr := by
    intro e; rw [e, swapAddr_blocked] at hblk; cases hblk
  obtain ⟨mb, ms, mf⟩ := mintCoins_effect hs1
  obtain ⟨sb, sf, _⟩ := sendCoins_ok hs2
  have hsw1 : s1.swaps = s.swaps := by rw [mf]
  have hsw2 : s2.swaps = s1.swaps := by rw [sf]
  have hsup2 : s2.supply = s1.supply := by rw [sf]
  refine ⟨h1, of_decide_eq_true h2, hget, hblk, hne, ?_, ?_, ?_, ?_⟩
  · intro a d
    show balance s2 a d = _
    rw [sb a d, mb a d]
    simp only []
    generalize (if swapAddr = a ∧ s.params.swapDenom = d then amt / 100 else 0) = x
    have hiff : (recv = a ∧ s.params.swapDenom = d) ↔ (a = recv ∧ d = s.params.swapDenom) :=
      ⟨fun h => ⟨h.1.symm, h.2.symm⟩, fun h => ⟨h.1.symm, h.2.symm⟩⟩
    simp only [hiff]
    omega
  · intro d
    show supplyOf s2 d = _
    rw [supplyOf_frame hsup2, ms d]
    simp only []
    have hiff : (s.params.swapDenom = d) ↔ (d = s.params.swapDenom) := eq_comm
    simp only [hiff]
  · show s2.swaps.set hash _ = _
    rw [hsw2, hsw1]; rfl
  · show emit { s2 with swaps := _ } _ = _
    rw [sf, mf]; rfl

/-- The record of an executed swap is there afterwards; the records of other hashes are unchanged. -/
theorem swap_recorded {s s' : State} {frm recv : Addr} {hash : Bytes} {amt : Int}
    (h : swap s frm hash recv amt = .ok s') (hamt : 0 ≤ amt) :
    s'.swaps.get hash = some (swapRecord s hash recv amt) ∧ ∀ h', h' ≠ hash → s'.swaps.get h' = s.swaps.get h' := by
  obtain ⟨_, _, _, _, _, _, _, hsw, _⟩ := swap_effect h hamt
  rw [hsw]
  exact ⟨Tbl.get_set_eq _ _ _, fun h' hne => Tbl.get_set_ne _ _ (Ne.symm hne)⟩

/-- A request for a hash that already has a record is rejected, whoever sends it. -/
theorem swap_rejects_recorded {s : State} {hash : Bytes} {w : Swap} (hw : s.swaps.get hash = some w)
    (frm recv : Addr) (amt : Int) : ∀ s', swap s frm hash recv amt ≠ .ok s' := by
  intro s' h
  unfold swap at h
  simp only [bind_eq_ok, pure_eq_ok, require_eq_ok] at h
  obtain ⟨_, _, _, _, _, h3, _⟩ := h
  have : s.swaps.has hash = true := (Tbl.has_iff _ _).mpr ⟨w, hw⟩
  rw [this] at h3; cases h3

/-! ### validation -/

/-- `ValidateBasic` of a swap request forces a 32-byte hash and an amount of at least 100. -/
theorem validate_swap {frm recv : TextAddr} {hash : Bytes} {amt : Int}
    (h : (Msg.swap frm hash recv amt).validateBasic = .ok ()) : hash.length = 32 ∧ 100 ≤ amt := by
  unfold Msg.validateBasic at h
  simp only [bind_eq_ok, require_eq_ok] at h
  obtain ⟨_, _, _, _, _, hl, _, _, _, _, ha⟩ := h
  exact ⟨by simpa using hl, by simpa using ha⟩

/-- The store key of a swap record is injective in the hash (proved in C17), so two different hashes —
also hashes that differ only in leading zero bytes — never share a record. -/
theorem hash_key_injective {h h' : Bytes} (e : Hub.Generated.Keys.swap.SwapKey h = Hub.Generated.Keys.swap.SwapKey h') : h = h' :=
  Hub.Props.C17.key_injective_swap_SwapKey e

/-! ### delivery: accepted ⇒ allowed, validated, with the stated effect -/

/-- An accepted swap message was validated, came from the approver while swaps were enabled, for a
fresh hash, and has exactly the effect of `swap_effect`. -/
theorem deliver_swap_accept {s : State} {frm recv : TextAddr} {hash : Bytes} {amt : Int}
    (h : (deliver s (.swap frm hash recv amt)).2 = .accept) :
    hash.length = 32 ∧ 100 ≤ amt ∧ s.params.swapOn = true ∧ s.params.approveBy = frm.bytes ∧ s.swaps.get hash = none ∧
    swap { s with events := [] } frm.bytes hash recv.bytes amt = .ok (deliver s (.swap frm hash recv amt)).1 := by
  rcases deliver_cases s (.swap frm hash recv amt) with ⟨_, hv, hh⟩ | ⟨hn, _, _⟩
  · obtain ⟨hl, ha⟩ := validate_swap hv
    have hh' : swap { s with events := [] } frm.bytes hash recv.bytes amt = .ok (deliver s (.swap frm hash recv amt)).1 := hh
    obtain ⟨e1, e2, e3, _⟩ := swap_effect hh' (by omega)
    exact ⟨hl, ha, e1, e2, e3, hh'⟩
  · exact absurd h hn

/-- A swap message that is not accepted changes nothing (but clears the event buffer). -/
theorem deliver_swap_reject {s : State} {frm recv : TextAddr} {hash : Bytes} {amt : Int}
    (h : (deliver s (.swap frm hash recv amt)).2 ≠ .accept) :
    (deliver s (.swap frm hash recv amt)).1 = { s with events := [] } := by
  rcases deliver_cases s (.swap frm hash recv amt) with ⟨ha, _, _⟩ | ⟨_, he, _⟩
  · exact absurd ha h
  · exact he

/-! ### records are never deleted; one swap per hash -/

/-- Is this operation a swap message that is accepted in state `s`? -/
def acceptedSwap (s : State) : Op → Option Bytes
  | .tx (.swap frm hash recv amt) => if (deliver s (.swap frm hash recv amt)).2 = .accept then some hash else none
  | _ => none

/-- A step that is not an accepted swap leaves the swap records and the supply table untouched. -/
theorem step_ledger_frame {s s' : State} {op : Op} (h : step s op = some s') (hn : acceptedSwap s op = none) :
    s'.swaps = s.swaps ∧ s'.supply = s.supply := by
  cases op with
  | tx m =>
    simp only [step, Option.some.injEq] at h
    by_cases hsw : (Op.tx m).isSwap = false
    · have := deliver_cv s m hsw
      rw [← h]; exact ⟨cv_swaps this, cv_supply this⟩
    · cases m <;> simp [Op.isSwap] at hsw
      rename_i frm hash recv amt
      have hrej : (deliver s (.swap frm hash recv amt)).2 ≠ .accept := by
        intro ha; simp [acceptedSwap, ha] at hn
      rw [← h, deliver_swap_reject hrej]; exact ⟨rfl, rfl⟩
  | begin t =>
    simp only [step] at h
    split at h
    · rename_i s1 hb
      simp only [Option.some.injEq] at h; rw [← h]
      exact ⟨(beginBlock_frame hb).1, (beginBlock_frame hb).2.1⟩
    · contradiction
  | endB =>
    simp only [step] at h
    split at h
    · rename_i s1 hb
      simp only [Option.some.injEq] at h; rw [← h]
      exact ⟨(endBlock_ledger hb).1, (endBlock_ledger hb).2.1⟩
    · contradiction
  | gov c =>
    simp only [step, Option.some.injEq] at h
    rw [← h]
    cases hg : gov s c with
    | none => exact ⟨rfl, rfl⟩
    | some s1 => exact ⟨(gov_ledger hg).1, (gov_ledger hg).2.1⟩

/-- An accepted swap: the step is exactly the handler's effect on the state with a cleared event buffer. -/
theorem step_accepted {s s' : State} {op : Op} {hash : Bytes} (h : step s op = some s') (ha : acceptedSwap s op = some hash) :
    ∃ frm recv amt, op = .tx (.swap frm hash recv amt) ∧ hash.length = 32 ∧ 100 ≤ amt ∧
      s.params.swapOn = true ∧ s.params.approveBy = frm.bytes ∧ s.swaps.get hash = none ∧
      swap { s with events := [] } frm.bytes hash recv.bytes amt = .ok s' := by
  cases op with
  | tx m =>
    cases m <;> simp only [acceptedSwap, reduceCtorEq] at ha
    rename_i frm hash' recv amt
    split at ha
    · rename_i hacc
      simp only [Option.some.injEq] at ha
      subst ha
      simp only [step, Option.some.injEq] at h
      obtain ⟨a, b, c, d, e, f⟩ := deliver_swap_accept hacc
      rw [h] at f
      exact ⟨frm, recv, amt, rfl, a, b, c, d, e, f⟩
    · contradiction
  | begin t => simp [acceptedSwap] at ha
  | endB => simp [acceptedSwap] at ha
  | gov c => simp [acceptedSwap] at ha

/-- **Records are never deleted or changed**: whatever one operation does (any message, any block
hook, any governance change), every existing swap record is still there afterwards. -/
theorem step_swaps_persist {s s' : State} {op : Op} (h : step s op = some s') :
    ∀ hash w, s.swaps.get hash = some w → s'.swaps.get hash = some w := by
  intro hash w hw
  cases ha : acceptedSwap s op with
  | none => rw [(step_ledger_frame h ha).1]; exact hw
  | some h0 =>
    obtain ⟨frm, recv, amt, _, _, hamt, _, _, hnone, hsw⟩ := step_accepted h ha
    have hne : hash ≠ h0 := by
      intro e; rw [e] at hw; rw [hw] at hnone; cases hnone
    rw [(swap_recorded hsw (by omega)).2 hash hne]; exact hw

theorem run_swaps_persist (ops : List Op) (s : State) :
    ∀ s' ∈ runTrace s ops, ∀ hash w, s.swaps.get hash = some w → s'.swaps.get hash = some w := by
  induction ops generalizing s with
  | nil => intro s' h; simp [runTrace] at h
  | cons op rest ih =>
    intro s' h hash w hw
    simp only [runTrace] at h
    cases hst : step s op with
    | none => simp [hst] at h
    | some s1 =>
      simp only [hst, List.mem_cons] at h
      have h1 := step_swaps_persist hst hash w hw
      rcases h with h | h
      · rw [h]; exact h1
      · exact ih s1 s' h hash w h1

/-- **One swap per hash**: once a swap with `hash` has been executed, then after any further history
— any messages, blocks and governance changes — every request with the same hash is rejected by the
handler (whatever sender, receiver, amount), and delivering it changes nothing. -/
theorem one_swap_per_hash {s0 s1 : State} {frm recv : Addr} {hash : Bytes} {amt : Int}
    (h : swap s0 frm hash recv amt = .ok s1) (hamt : 0 ≤ amt) (ops : List Op) :
    ∀ s ∈ s1 :: runTrace s1 ops,
      (∀ frm' recv' amt' s', swap s frm' hash recv' amt' ≠ .ok s') ∧
      (∀ frm' recv' amt', (deliver s (.swap frm' hash recv' amt')).2 ≠ .accept ∧
        (deliver s (.swap frm' hash recv' amt')).1 = { s with events := [] }) := by
  intro s hs
  have hrec : s.swaps.get hash = some (swapRecord s0 hash recv amt) := by
    rcases List.mem_cons.mp hs with e | e
    · rw [e]; exact (swap_recorded h hamt).1
    · exact run_swaps_persist ops s1 s e hash _ (swap_recorded h hamt).1
  refine ⟨fun f r a s' => swap_rejects_recorded hrec f r a s', ?_⟩
  intro f r a
  have hna : (deliver s (.swap f hash r a)).2 ≠ .accept := by
    intro hacc
    have := (deliver_swap_accept hacc).2.2.2.2.1
    rw [hrec] at this; cases this
  exact ⟨hna, deliver_swap_reject hna⟩

/-- The hashes of the swap messages accepted along a history, in order. -/
def acceptedHashes : State → List Op → List Bytes
  | _, [] => []
  | s, op :: rest =>
    match step s op with
    | none => []
    | some s' => (acceptedSwap s op).toList ++ acceptedHashes s' rest

/-- **At most one executed swap per hash, over every history**: no hash is accepted twice, and no
accepted hash had a record before. -/
theorem accepted_hashes_nodup (ops : List Op) (s : State) :
    (acceptedHashes s ops).Nodup ∧ ∀ h ∈ acceptedHashes s ops, s.swaps.get h = none := by
  induction ops generalizing s with
  | nil => exact ⟨List.nodup_nil, by intro h hh; simp [acceptedHashes] at hh⟩
  | cons op rest ih =>
    unfold acceptedHashes
    cases hst : step s op with
    | none => exact ⟨List.nodup_nil, by intro h hh; simp at hh⟩
    | some s1 =>
      simp only []
      obtain ⟨i1, i2⟩ := ih s1
      have hback : ∀ h, s1.swaps.get h = none → s.swaps.get h = none := by
        intro h hn
        cases hg : s.swaps.get h with
        | none => rfl
        | some w => rw [step_swaps_persist hst h w hg] at hn; cases hn
      cases ha : acceptedSwap s op with
      | none =>
        simp only [Option.toList_none, List.nil_append]
        exact ⟨i1, fun h hh => hback h (i2 h hh)⟩
      | some h0 =>
        obtain ⟨frm, recv, amt, _, _, hamt, _, _, hnone, hsw⟩ := step_accepted hst ha
        have hrec := (swap_recorded hsw (by omega)).1
        simp only [Option.toList_some, List.singleton_append]
        refine ⟨List.nodup_cons.mpr ⟨?_, i1⟩, ?_⟩
        · intro hm
          have := i2 h0 hm
          rw [hrec] at this; cases this
        · intro h hh
          rcases List.mem_cons.mp hh with e | e
          · rw [e]; exact hnone
          · exact hback h (i2 h e)

/-! ### the ledger: supply growth = recorded swaps -/

/-- One operation: the swap records stay duplicate-free and, in every denomination, the supply and
the recorded total change by the same amount. -/
theorem step_ledger {s s' : State} {op : Op} (h : step s op = some s') (hn : Tbl.Nodup s.swaps) :
    Tbl.Nodup s'.swaps ∧ ∀ d, supplyOf s' d - supplyOf s d = recorded s' d - recorded s d := by
  cases ha : acceptedSwap s op with
  | none =>
    obtain ⟨e1, e2⟩ := step_ledger_frame h ha
    refine ⟨by rw [e1]; exact hn, ?_⟩
    intro d
    unfold recorded supplyOf
    rw [e1, e2]; omega
  | some h0 =>
    obtain ⟨frm, recv, amt, _, _, hamt, _, _, hnone, hsw⟩ := step_accepted h ha
    obtain ⟨_, _, _, _, _, _, hsup, hswaps, _⟩ := swap_effect hsw (by omega)
    have hn0 : Tbl.Nodup ({ s with events := [] } : State).swaps := hn
    refine ⟨by rw [hswaps]; exact Tbl.nodup_set hn0 _ _, ?_⟩
    intro d
    have hs := hsup d
    have e0 : supplyOf { s with events := [] } d = supplyOf s d := rfl
    rw [e0] at hs
    unfold recorded
    rw [hswaps, Tbl.sumKV_set _ hn0]
    have hnone' : ({ s with events := [] } : State).swaps.get h0 = none := hnone
    rw [hnone', hs]
    simp only [swapRecord]
    by_cases hd : d = s.params.swapDenom
    · subst hd
      simp only [if_true]
      show _ = Tbl.sumKV _ s.swaps - 0 + _ - Tbl.sumKV _ s.swaps
      omega
    · have hd' : ¬ s.params.swapDenom = d := fun e => hd e.symm
      simp only [hd, hd', if_false]
      show _ = Tbl.sumKV _ s.swaps - 0 + 0 - Tbl.sumKV _ s.swaps
      omega

/-- **The swap ledger, all histories.** From any state with duplicate-free swap records, after every
operation of every history — any messages from anybody, any block hooks, any governance changes —
the supply of every denomination has grown by exactly the sum of the swaps recorded since. -/
theorem swapLedger_all_histories (ops : List Op) (s0 : State) (hn : Tbl.Nodup s0.swaps) :
    ∀ s ∈ runTrace s0 ops, Tbl.Nodup s.swaps ∧ ∀ d, supplyOf s d - supplyOf s0 d = recorded s d - recorded s0 d := by
  induction ops generalizing s0 with
  | nil => intro s h; simp [runTrace] at h
  | cons op rest ih =>
    intro s h
    simp only [runTrace] at h
    cases hst : step s0 op with
    | none => simp [hst] at h
    | some s1 =>
      simp only [hst, List.mem_cons] at h
      obtain ⟨n1, e1⟩ := step_ledger hst hn
      rcases h with h | h
      · rw [h]; exact ⟨n1, e1⟩
      · obtain ⟨n2, e2⟩ := ih s1 n1 s h
        refine ⟨n2, fun d => ?_⟩
        have := e1 d; have := e2 d; omega

theorem genesis_no_swaps (g : Genesis) : g.state.swaps = [] := by
  unfold Genesis.state
  have : ∀ (l : List (Addr × Denom × Int)) (s0 : State), (l.foldl addBalance s0).swaps = s0.swaps := by
    intro l
    induction l with
    | nil => intro _; rfl
    | cons b rest ih =>
      intro s0; rw [List.foldl_cons, ih]
      unfold addBalance; split <;> rfl
  rw [this]; rfl

/-- … from a genesis state (no swap records): supply growth = sum of the recorded swaps. -/
theorem swapLedger_from_genesis (g : Genesis) (ops : List Op) :
    ∀ s ∈ runTrace g.state ops, ∀ d, supplyOf s d - supplyOf g.state d = recorded s d := by
  intro s hs d
  have hn : Tbl.Nodup g.state.swaps := by rw [genesis_no_swaps]; exact Tbl.nodup_nil
  have := (swapLedger_all_histories ops g.state hn s hs).2 d
  have h0 : recorded g.state d = 0 := by unfold recorded; rw [genesis_no_swaps]; rfl
  omega

/-! ### examples -/

def approver : Addr := [7, 7, 7]
def alice : Addr := [1]
def hashA : Bytes := List.replicate 32 0xaa

def sampleParams : Params := { (default : Params) with swapOn := true, swapDenom := "udvpn", approveBy := approver }

def sampleGenesis : Genesis :=
  { time := 1700000000000000000, params := sampleParams, balances := [(alice, "udvpn", 1000)] }

def swapMsg (amt : Int) : Msg := .swap ⟨.acc, approver, false⟩ hashA ⟨.acc, alice, false⟩ amt

/-- The hypotheses of `swap_accept_iff` hold in a concrete state: a request for 12345 is allowed. -/
example : swapAllowed sampleGenesis.state approver alice hashA 12345 := by
  unfold swapAllowed
  refine ⟨rfl, rfl, by decide, by decide, by decide, by decide, by decide, by decide⟩

/-- It is accepted, credits 123 (= 12345 / 100 rounded down), raises the supply by 123, leaves the
swap module account empty, and is recorded; a second request with the same hash is rejected. -/
example :
    let r := deliver sampleGenesis.state (swapMsg 12345)
    r.2 = .accept ∧ balance r.1 alice "udvpn" = 1123 ∧ supplyOf r.1 "udvpn" = 1123 ∧ balance r.1 swapAddr "udvpn" = 0 ∧
    r.1.swaps.get hashA = some ⟨hashA, alice, ⟨"udvpn", 123⟩⟩ ∧
    (deliver r.1 (swapMsg 99999)).2 = .reject "duplicate swap" := by decide

/-- Requests from anybody else, or while swaps are disabled, are rejected. -/
example : (deliver sampleGenesis.state (.swap ⟨.acc, alice, false⟩ hashA ⟨.acc, alice, false⟩ 12345)).2 = .reject "unauthorized" := by decide
example : (deliver { sampleGenesis.state with params := { sampleParams with swapOn := false } } (swapMsg 12345)).2
    = .reject "swap is disabled" := by decide

end Hub.Props.C14
