import Hub.Lemmas.Listings
import Hub.Props.C13
import Hub.Props.C09
/-
C09 (listing half) — "Every filtered listing or lookup (by account, node, plan, provider, subscription,
allocation, or status) returns exactly those records of the unfiltered listing that have the requested
attribute — none missing, none extra, none twice, never an internal error — including when one
address's bytes are a prefix of another's."

`Hub/Props/C09.lean` proves that every index table agrees with the primary records in every reachable
state.  This file connects those invariants to the listing handlers of `Hub/Model/Query.lean`:

1. the KV *store view* a handler iterates (`prefixStore (Get…KeyPrefix owner) entries`) holds exactly the
   index entries of the requested owner — by the prefix isolation of C17, also for prefix-related
   addresses — strictly sorted, with non-empty keys;
2. the callback's lookup of every such entry succeeds (no "internal error");
3. the records listed are exactly the primary records with the attribute, each once
   (`ExactListing`, `Hub/Lemmas/Listings.lean`);
4. with C13: following next keys, or stepping offsets, from the first page visits exactly those
   records, each once, in full pages (`PagesEnumerate`).

Hypotheses.  `StructInv s` and `AddrsOK s` (stored addresses have 1..255 bytes: the length prefix is one
byte) hold in every reachable state (`Reachable.structInv`, `addrsOK_of_reachable`).  `CountersOK s` (fewer
than 2^64 plans / subscriptions / sessions created) is a genuine hypothesis: the model's counters are
unbounded naturals while the keys hold 8 bytes, and beyond 2^64 two ids share their keys
(`index_keys_collide_beyond_u64`).  The filter arguments are well-formed because the request parser makes
them so (`withAddr_cases`, `parseQReq_id_lt`).

Main results: `listings_exact` (= `C09Listings`), per kind `…_store_entries`, `…_exact`, `…_pages`;
`session_listings_filter`, `subscription_listings_filter`, `status_listings_filter` (filtered = unfiltered ∧
attribute); `runQuery_never_internal` (protocol level); the `[3]` / `[3, 3]` example at the end.
-/
namespace Hub.Props.C09
open Hub.Model Hub.Model.Listings Hub.SDK Hub.SDK.Paginate Hub.Props.C13 Hub.Props.C17
open Hub.Generated (Status)
open Hub.Generated.Keys
open Function (uncurry)

/-! ## Paging over an exact listing (C13 ∘ C09) -/

/-- What a client has seen after paging through a listing: exactly the records with `R`, each once,
in pages that are full except possibly the last. -/
structure Enumerates {β : Type} (pages : List (List β)) (limit : Nat) (R : β → Prop) : Prop where
  mem : ∀ x, x ∈ pages.flatten ↔ R x
  nodup : pages.flatten.Nodup
  full : ∀ p ∈ pages.dropLast, p.length = limit

theorem listedOn_dir {α β : Type} (pred : Bytes → α → Bool) (f : Bytes → α → Option β) (store : Store α) (r : Bool) :
    listedOn pred f (dir r store) = if r then (listedOn pred f store).reverse else listedOn pred f store := by
  cases r
  · rfl
  · rw [dir_true, listedOn_reverse]; rfl

theorem enumerates_of_flatten {α β : Type} {store : Store α} {pred : Bytes → α → Bool} {f : Bytes → α → Option β}
    {R : β → Prop} (h : ExactListing store pred f R) {pages : List (List β)} {limit : Nat} (r : Bool)
    (hflat : pages.flatten = listedOn pred f (dir r store)) (hfull : ∀ p ∈ pages.dropLast, p.length = limit) :
    Enumerates pages limit R := by
  rw [listedOn_dir] at hflat
  refine ⟨?_, ?_, hfull⟩
  · intro x
    rw [hflat, ← h.mem x]
    cases r <;> simp
  · rw [hflat]
    cases r
    · exact h.nodup
    · exact nodup_reverse' h.nodup

theorem filter_true_eq {α : Type} (store : Store α) : store.filter (uncurry fun (_ : Bytes) (_ : α) => true) = store :=
  List.filter_eq_self.mpr (fun _ _ => rfl)

/-- **Key paging over an exact `Paginate` listing.**  Following `nextKey` from the first page returns the
listing in iteration order. -/
theorem pages_by_key_exact {α β : Type} [Inhabited β] {store : Store α} {f : Bytes → α → Option β} {R : β → Prop}
    (h : ExactListing store (fun _ _ => true) f R)
    (limit : Nat) (hl : 1 ≤ limit) (h64 : limit < u64) (hlen : store.length + 1 < u64) (reverse : Bool) :
    ∃ pages, pagesByKey store limit reverse (Callback.appendAlways f) (store.length + 1) = .ok pages ∧
      pages.flatten = listed f (dir reverse store) ∧ Enumerates pages limit R := by
  obtain ⟨pages, h1, h2, _, _, h5, _⟩ :=
    paginate_by_key_complete store h.sorted h.keysNonempty f (valOf f) h.totalAll limit hl h64 hlen reverse
  have hflat : pages.flatten = listed f (dir reverse store) := by
    rw [h2]
    show _ = listedOn (fun _ _ => true) f (dir reverse store)
    rw [listedOn_eq_map _ f (valOf f) _ (h.totalAll.dir reverse).totalOn, filter_true_eq]
  exact ⟨pages, h1, hflat, enumerates_of_flatten h reverse hflat h5⟩

/-- **Offset paging over an exact `Paginate` listing.** -/
theorem pages_by_offset_exact {α β : Type} [Inhabited β] {store : Store α} {f : Bytes → α → Option β} {R : β → Prop}
    (h : ExactListing store (fun _ _ => true) f R)
    (limit : Nat) (hl : 1 ≤ limit) (h64 : store.length + limit + 1 < u64) (reverse : Bool) :
    ∃ pages, pagesByOffset store limit reverse (Callback.appendAlways f) (store.length + 1) = .ok pages ∧
      pages.flatten = listed f (dir reverse store) ∧ Enumerates pages limit R := by
  obtain ⟨pages, h1, h2, h3⟩ :=
    paginate_by_offset_complete store h.keysNonempty f (valOf f) h.totalAll limit hl h64 reverse
  have hflat : pages.flatten = listed f (dir reverse store) := by
    rw [h2]
    show _ = listedOn (fun _ _ => true) f (dir reverse store)
    rw [listedOn_eq_map _ f (valOf f) _ (h.totalAll.dir reverse).totalOn, filter_true_eq]
  exact ⟨pages, h1, hflat, enumerates_of_flatten h reverse hflat h3⟩

/-- **Key paging over an exact `FilteredPaginate` listing** (`filter` callback shape). -/
theorem filtered_pages_by_key_exact {α β : Type} [Inhabited β] {store : Store α} {pred : Bytes → α → Bool}
    {f : Bytes → α → Option β} {R : β → Prop} (h : ExactListing store pred f R)
    (limit : Nat) (hl : 1 ≤ limit) (h64 : limit + 1 < u64) (reverse : Bool) :
    ∃ pages, filteredPagesByKey store limit reverse (Callback.filter pred f) (store.length + 1) = .ok pages ∧
      pages.flatten = listedOn pred f (dir reverse store) ∧ Enumerates pages limit R := by
  obtain ⟨pages, h1, h2, h3, _⟩ :=
    filtered_by_key_complete store h.sorted h.keysNonempty pred f (valOf f) h.totalOn limit hl h64 reverse
  have hflat : pages.flatten = listedOn pred f (dir reverse store) := by
    rw [h2, listedOn_eq_map pred f (valOf f) _ (h.totalOn.dir reverse)]
  exact ⟨pages, h1, hflat, enumerates_of_flatten h reverse hflat h3⟩

/-- **Offset paging over an exact `FilteredPaginate` listing.** -/
theorem filtered_pages_by_offset_exact {α β : Type} [Inhabited β] {store : Store α} {pred : Bytes → α → Bool}
    {f : Bytes → α → Option β} {R : β → Prop} (h : ExactListing store pred f R)
    (limit : Nat) (hl : 1 ≤ limit) (h64 : store.length + limit + 1 < u64) (reverse : Bool) :
    ∃ pages, filteredPagesByOffset store limit reverse (Callback.filter pred f) (store.length + 1) = .ok pages ∧
      pages.flatten = listedOn pred f (dir reverse store) ∧ Enumerates pages limit R := by
  obtain ⟨pages, h1, h2, h3⟩ :=
    filtered_by_offset_complete store h.keysNonempty pred f (valOf f) h.totalOn limit hl h64 reverse
  have hflat : pages.flatten = listedOn pred f (dir reverse store) := by
    rw [h2, listedOn_eq_map pred f (valOf f) _ (h.totalOn.dir reverse)]
  exact ⟨pages, h1, hflat, enumerates_of_flatten h reverse hflat h3⟩

/-- **`pages_enumerate_filter`, as a property of a paged handler `run`** over a listing of `n` store
entries: for every page size and direction (with `n + limit + 1 < 2^64`), following next keys from the
first page, and stepping offsets from `0`, both visit exactly the records with `R`, each once, in full
pages; and no request whatsoever makes the handler report a callback ("internal") error. -/
def PagesEnumerate {β : Type} (run : PageRequest → Except String (List β × PageResponse)) (n : Nat) (R : β → Prop) : Prop :=
  (∀ limit reverse, 1 ≤ limit → n + limit + 1 < u64 →
    (∃ pages, pagesAux run limit reverse (n + 1) none = .ok pages ∧ Enumerates pages limit R) ∧
    (∃ pages, offsetPagesAux run limit reverse (n + 1) 0 = .ok pages ∧ Enumerates pages limit R)) ∧
  (∀ req, (∃ r, run req = .ok r) ∨ (∃ e, run req = .error e ∧ RequestError e))

theorem pagesEnumerate_paginate {α β : Type} [Inhabited β] {store : Store α} {f : Bytes → α → Option β} {R : β → Prop}
    (h : ExactListing store (fun _ _ => true) f R) :
    PagesEnumerate (fun req => paginate store req (Callback.appendAlways f)) store.length R := by
  refine ⟨fun limit reverse hl h64 => ⟨?_, ?_⟩, fun req => paginate_no_callback_error h.totalAll req⟩
  · obtain ⟨pages, h1, _, h3⟩ := pages_by_key_exact h limit hl (by omega) (by omega) reverse
    exact ⟨pages, h1, h3⟩
  · obtain ⟨pages, h1, _, h3⟩ := pages_by_offset_exact h limit hl h64 reverse
    exact ⟨pages, h1, h3⟩

theorem pagesEnumerate_filtered {α β : Type} [Inhabited β] {store : Store α} {pred : Bytes → α → Bool}
    {f : Bytes → α → Option β} {R : β → Prop} (h : ExactListing store pred f R) :
    PagesEnumerate (fun req => filteredPaginate store req (Callback.filter pred f)) store.length R := by
  refine ⟨fun limit reverse hl h64 => ⟨?_, ?_⟩, fun req => filteredPaginate_no_callback_error h.totalOn req⟩
  · obtain ⟨pages, h1, _, h3⟩ := filtered_pages_by_key_exact h limit hl (by omega) reverse
    exact ⟨pages, h1, h3⟩
  · obtain ⟨pages, h1, _, h3⟩ := filtered_pages_by_offset_exact h limit hl h64 reverse
    exact ⟨pages, h1, h3⟩

/-! ## Sessions

For each kind: `…_keysOK` (the index keys are well-formed: from the index invariant, the counters and
the stored addresses), `…_store_entries` (1), `…_exact` (2 + 3), `…_pages` (4, for the handler). -/

theorem sess_id_lt {s : State} (hi : StructInv s) (hc : CountersOK s) {i : Nat} {x : Session}
    (h : s.sessions.get i = some x) : i < B64 := by
  have := (hi.count.sessions i x h).2.2.1
  have := hc.sess
  omega

theorem sess_get_inj {s : State} (hi : StructInv s) : ∀ i j x, s.sessions.get i = some x → s.sessions.get j = some x → i = j := by
  intro i j x h1 h2
  rw [← (hi.count.sessions i x h1).1, ← (hi.count.sessions j x h2).1]

theorem sessForAcc_keysOK {s : State} (hi : StructInv s) (hc : CountersOK s) (hw : AddrsOK s) :
    ∀ k, s.sessForAcc.has k = true → AddrOK k.1 ∧ k.2 < B64 := by
  rintro ⟨b, i⟩ hk
  obtain ⟨x, hx, hxa⟩ := (hi.sessIdx.acc b i).mp hk
  exact ⟨hxa ▸ (hw.sessions i x hx).1, sess_id_lt hi hc hx⟩

theorem sessForNode_keysOK {s : State} (hi : StructInv s) (hc : CountersOK s) (hw : AddrsOK s) :
    ∀ k, s.sessForNode.has k = true → AddrOK k.1 ∧ k.2 < B64 := by
  rintro ⟨b, i⟩ hk
  obtain ⟨x, hx, hxa⟩ := (hi.sessIdx.node b i).mp hk
  exact ⟨hxa ▸ (hw.sessions i x hx).2, sess_id_lt hi hc hx⟩

theorem sessForSub_keysOK {s : State} (hi : StructInv s) (hc : CountersOK s) :
    ∀ k, s.sessForSub.has k = true → k.1 < B64 ∧ k.2 < B64 := by
  rintro ⟨u, i⟩ hk
  obtain ⟨x, hx, hxa⟩ := (hi.sessIdx.sub u i).mp hk
  have h1 := (hi.count.sessions i x hx).2.2.2.2
  have h2 := hc.sub
  exact ⟨by show u < B64; omega, sess_id_lt hi hc hx⟩

theorem sessForAlloc_keysOK {s : State} (hi : StructInv s) (hc : CountersOK s) (hw : AddrsOK s) :
    ∀ k, s.sessForAlloc.has k = true → (k.1 < B64 ∧ AddrOK k.2.1) ∧ k.2.2 < B64 := by
  rintro ⟨u, b, i⟩ hk
  obtain ⟨x, hx, hxu, hxa⟩ := (hi.sessIdx.alloc u b i).mp hk
  have h1 := (hi.count.sessions i x hx).2.2.2.2
  have h2 := hc.sub
  exact ⟨⟨by show u < B64; omega, hxa ▸ (hw.sessions i x hx).1⟩, sess_id_lt hi hc hx⟩

/-- **Sessions of an account, the store view**: the handler iterates exactly the by-account index entries
`(a, i)`, keyed by `u64be i`, in ascending order — none of another account, also not of an account whose
address extends `a` or is extended by it. -/
theorem sessionsForAccount_store_entries {s : State} (hi : StructInv s) (hc : CountersOK s) (hw : AddrsOK s)
    {a : Addr} (ha : AddrOK a) :
    StoreView (sessionsForAccountStore s a)
      ((s.sessForAcc.filter fun p => decide (p.1.1 = a)).map fun p => (u64be p.1.2, ())) :=
  StoreView.of_ownerIndex AddrOK s.sessForAcc hi.sessIdx.nodup.2.2.1 (fun a i => (a, i)) (·.1) (·.2)
    (fun _ => rfl) session.GetSessionForAccountKeyPrefix _ (fun _ => rfl)
    (fun _ _ ha hk _ => prefix_isolates_session_GetSessionForAccountKeyPrefix ha hk)
    (sessForAcc_keysOK hi hc hw) a ha

/-- **Sessions of an account**: the store view under `GetSessionForAccountKeyPrefix a`, looked up by id,
lists exactly the sessions whose `addr` is `a`; no lookup fails. -/
theorem sessionsForAccount_exact {s : State} (hi : StructInv s) (hc : CountersOK s) (hw : AddrsOK s)
    {a : Addr} (ha : AddrOK a) :
    ExactListing (sessionsForAccountStore s a) (fun _ _ => true) (byIndexId s.sessions.get)
      (fun x => ∃ i, s.sessions.get i = some x ∧ x.addr = a) :=
  ExactListing.of_ownerIndex AddrOK s.sessForAcc hi.sessIdx.nodup.2.2.1 (fun a i => (a, i)) (·.1) (·.2)
    (fun _ => rfl) (fun _ _ => rfl) (fun _ _ => rfl) session.GetSessionForAccountKeyPrefix _ (fun _ => rfl)
    (fun _ _ ha hk _ => prefix_isolates_session_GetSessionForAccountKeyPrefix ha hk)
    (sessForAcc_keysOK hi hc hw) s.sessions.get (sess_get_inj hi) a ha (fun _ x => x.addr = a)
    (fun i => hi.sessIdx.acc a i)

theorem sessionsForAccount_pages {s : State} (hi : StructInv s) (hc : CountersOK s) (hw : AddrsOK s)
    {a : Addr} (ha : AddrOK a) :
    PagesEnumerate (querySessionsForAccount s a) (sessionsForAccountStore s a).length
      (fun x => ∃ i, s.sessions.get i = some x ∧ x.addr = a) :=
  pagesEnumerate_paginate (sessionsForAccount_exact hi hc hw ha)

theorem sessionsForNode_store_entries {s : State} (hi : StructInv s) (hc : CountersOK s) (hw : AddrsOK s)
    {a : Addr} (ha : AddrOK a) :
    StoreView (sessionsForNodeStore s a)
      ((s.sessForNode.filter fun p => decide (p.1.1 = a)).map fun p => (u64be p.1.2, ())) :=
  StoreView.of_ownerIndex AddrOK s.sessForNode hi.sessIdx.nodup.2.2.2.1 (fun a i => (a, i)) (·.1) (·.2)
    (fun _ => rfl) session.GetSessionForNodeKeyPrefix _ (fun _ => rfl)
    (fun _ _ ha hk _ => prefix_isolates_session_GetSessionForNodeKeyPrefix ha hk)
    (sessForNode_keysOK hi hc hw) a ha

/-- **Sessions of a node.** -/
theorem sessionsForNode_exact {s : State} (hi : StructInv s) (hc : CountersOK s) (hw : AddrsOK s)
    {a : Addr} (ha : AddrOK a) :
    ExactListing (sessionsForNodeStore s a) (fun _ _ => true) (byIndexId s.sessions.get)
      (fun x => ∃ i, s.sessions.get i = some x ∧ x.node = a) :=
  ExactListing.of_ownerIndex AddrOK s.sessForNode hi.sessIdx.nodup.2.2.2.1 (fun a i => (a, i)) (·.1) (·.2)
    (fun _ => rfl) (fun _ _ => rfl) (fun _ _ => rfl) session.GetSessionForNodeKeyPrefix _ (fun _ => rfl)
    (fun _ _ ha hk _ => prefix_isolates_session_GetSessionForNodeKeyPrefix ha hk)
    (sessForNode_keysOK hi hc hw) s.sessions.get (sess_get_inj hi) a ha (fun _ x => x.node = a)
    (fun i => hi.sessIdx.node a i)

theorem sessionsForNode_pages {s : State} (hi : StructInv s) (hc : CountersOK s) (hw : AddrsOK s)
    {a : Addr} (ha : AddrOK a) :
    PagesEnumerate (querySessionsForNode s a) (sessionsForNodeStore s a).length
      (fun x => ∃ i, s.sessions.get i = some x ∧ x.node = a) :=
  pagesEnumerate_paginate (sessionsForNode_exact hi hc hw ha)

theorem sessionsForSubscription_store_entries {s : State} (hi : StructInv s) (hc : CountersOK s)
    {id : Nat} (hid : id < B64) :
    StoreView (sessionsForSubscriptionStore s id)
      ((s.sessForSub.filter fun p => decide (p.1.1 = id)).map fun p => (u64be p.1.2, ())) :=
  StoreView.of_ownerIndex (· < B64) s.sessForSub hi.sessIdx.nodup.2.2.2.2.1 (fun u i => (u, i)) (·.1) (·.2)
    (fun _ => rfl) session.GetSessionForSubscriptionKeyPrefix _ (fun _ => rfl)
    (fun _ _ hu hk _ => prefix_isolates_session_GetSessionForSubscriptionKeyPrefix hu hk)
    (sessForSub_keysOK hi hc) id hid

/-- **Sessions of a subscription.** -/
theorem sessionsForSubscription_exact {s : State} (hi : StructInv s) (hc : CountersOK s)
    {id : Nat} (hid : id < B64) :
    ExactListing (sessionsForSubscriptionStore s id) (fun _ _ => true) (byIndexId s.sessions.get)
      (fun x => ∃ i, s.sessions.get i = some x ∧ x.sub = id) :=
  ExactListing.of_ownerIndex (· < B64) s.sessForSub hi.sessIdx.nodup.2.2.2.2.1 (fun u i => (u, i)) (·.1) (·.2)
    (fun _ => rfl) (fun _ _ => rfl) (fun _ _ => rfl) session.GetSessionForSubscriptionKeyPrefix _ (fun _ => rfl)
    (fun _ _ hu hk _ => prefix_isolates_session_GetSessionForSubscriptionKeyPrefix hu hk)
    (sessForSub_keysOK hi hc) s.sessions.get (sess_get_inj hi) id hid (fun _ x => x.sub = id)
    (fun i => hi.sessIdx.sub id i)

theorem sessionsForSubscription_pages {s : State} (hi : StructInv s) (hc : CountersOK s)
    {id : Nat} (hid : id < B64) :
    PagesEnumerate (querySessionsForSubscription s id) (sessionsForSubscriptionStore s id).length
      (fun x => ∃ i, s.sessions.get i = some x ∧ x.sub = id) :=
  pagesEnumerate_paginate (sessionsForSubscription_exact hi hc hid)

theorem alloc_iso {p : Nat × Addr} {k : Nat × Addr × Nat} (hp : p.1 < B64 ∧ AddrOK p.2) (hk : k.1 < B64 ∧ AddrOK k.2.1) :
    List.isPrefixOf (session.GetSessionForAllocationKeyPrefix p.1 p.2) (session.SessionForAllocationKey k.1 k.2.1 k.2.2) = true
      ↔ p = (k.1, k.2.1) :=
  (prefix_isolates_session_GetSessionForAllocationKeyPrefix hp.1 hk.1 hp.2 hk.2).trans
    ⟨fun h => Prod.ext h.1 h.2, fun h => ⟨congrArg Prod.fst h, congrArg Prod.snd h⟩⟩

theorem sessionsForAllocation_store_entries {s : State} (hi : StructInv s) (hc : CountersOK s) (hw : AddrsOK s)
    {id : Nat} (hid : id < B64) {a : Addr} (ha : AddrOK a) :
    StoreView (sessionsForAllocationStore s id a)
      ((s.sessForAlloc.filter fun p => decide ((p.1.1, p.1.2.1) = (id, a))).map fun p => (u64be p.1.2.2, ())) :=
  StoreView.of_ownerIndex (fun (p : Nat × Addr) => p.1 < B64 ∧ AddrOK p.2) s.sessForAlloc
    hi.sessIdx.nodup.2.2.2.2.2 (fun p i => (p.1, p.2, i)) (fun k => (k.1, k.2.1)) (·.2.2)
    (fun _ => rfl) (fun p => session.GetSessionForAllocationKeyPrefix p.1 p.2) _ (fun _ => rfl)
    (fun _ _ hp hk _ => alloc_iso hp hk)
    (sessForAlloc_keysOK hi hc hw) (id, a) ⟨hid, ha⟩

/-- **Sessions of an allocation** (subscription `id`, account `a`). -/
theorem sessionsForAllocation_exact {s : State} (hi : StructInv s) (hc : CountersOK s) (hw : AddrsOK s)
    {id : Nat} (hid : id < B64) {a : Addr} (ha : AddrOK a) :
    ExactListing (sessionsForAllocationStore s id a) (fun _ _ => true) (byIndexId s.sessions.get)
      (fun x => ∃ i, s.sessions.get i = some x ∧ x.sub = id ∧ x.addr = a) :=
  ExactListing.of_ownerIndex (fun (p : Nat × Addr) => p.1 < B64 ∧ AddrOK p.2) s.sessForAlloc
    hi.sessIdx.nodup.2.2.2.2.2 (fun p i => (p.1, p.2, i)) (fun k => (k.1, k.2.1)) (·.2.2)
    (fun _ => rfl) (fun _ _ => rfl) (fun _ _ => rfl) (fun p => session.GetSessionForAllocationKeyPrefix p.1 p.2)
    _ (fun _ => rfl) (fun _ _ hp hk _ => alloc_iso hp hk)
    (sessForAlloc_keysOK hi hc hw) s.sessions.get (sess_get_inj hi) (id, a) ⟨hid, ha⟩
    (fun _ x => x.sub = id ∧ x.addr = a) (fun i => hi.sessIdx.alloc id a i)

theorem sessionsForAllocation_pages {s : State} (hi : StructInv s) (hc : CountersOK s) (hw : AddrsOK s)
    {id : Nat} (hid : id < B64) {a : Addr} (ha : AddrOK a) :
    PagesEnumerate (querySessionsForAllocation s id a) (sessionsForAllocationStore s id a).length
      (fun x => ∃ i, s.sessions.get i = some x ∧ x.sub = id ∧ x.addr = a) :=
  pagesEnumerate_paginate (sessionsForAllocation_exact hi hc hw hid ha)

/-! ## Subscriptions, payouts -/

theorem sub_id_lt {s : State} (hi : StructInv s) (hc : CountersOK s) {i : Nat} {x : Sub}
    (h : s.subs.get i = some x) : i < B64 := by
  have := (hi.count.subs i x h).2.2
  have := hc.sub
  omega

theorem sub_get_inj {s : State} (hi : StructInv s) : ∀ i j x, s.subs.get i = some x → s.subs.get j = some x → i = j := by
  intro i j x h1 h2
  rw [← (hi.count.subs i x h1).1, ← (hi.count.subs j x h2).1]

theorem payout_id_lt {s : State} (hi : StructInv s) (hc : CountersOK s) {i : Nat} {p : Payout}
    (h : s.payouts.get i = some p) : i < B64 := by
  have := (hi.count.payouts i p h).2.2
  have := hc.sub
  omega

theorem payout_get_inj {s : State} (hi : StructInv s) : ∀ i j x, s.payouts.get i = some x → s.payouts.get j = some x → i = j := by
  intro i j x h1 h2
  rw [← (hi.count.payouts i x h1).1, ← (hi.count.payouts j x h2).1]

theorem plan_sub_plan_lt {s : State} (hi : StructInv s) (hc : CountersOK s) {i p : Nat} {x : Sub} {d : Denom}
    (hx : s.subs.get i = some x) (hk : x.kind = .plan p d) : p < B64 := by
  have hq := hi.quota i x hx
  unfold bought at hq
  rw [hk] at hq
  simp only [Option.map_eq_some_iff] at hq
  obtain ⟨pl, hpl, _⟩ := hq
  have := (hi.count.plans p pl (getPlan_mem hpl)).2.2
  have := hc.plan
  omega

theorem subForAcc_keysOK {s : State} (hi : StructInv s) (hc : CountersOK s) (hw : AddrsOK s) :
    ∀ k, s.subForAcc.has k = true → AddrOK k.1 ∧ k.2 < B64 := by
  rintro ⟨b, i⟩ hk
  obtain ⟨x, hx, hxa⟩ := (hi.subIdx.acc b i).mp hk
  refine ⟨?_, sub_id_lt hi hc hx⟩
  rcases hxa with hxa | hxa
  · exact hxa ▸ hw.subs i x hx
  · exact hw.allocs i b hxa

theorem subForNode_keysOK {s : State} (hi : StructInv s) (hc : CountersOK s) (hw : AddrsOK s) :
    ∀ k, s.subForNode.has k = true → AddrOK k.1 ∧ k.2 < B64 := by
  rintro ⟨b, i⟩ hk
  obtain ⟨x, gb, hr, dep, hx, hxk⟩ := (hi.subIdx.node b i).mp hk
  exact ⟨hw.subNode i x b gb hr dep hx hxk, sub_id_lt hi hc hx⟩

theorem subForPlan_keysOK {s : State} (hi : StructInv s) (hc : CountersOK s) :
    ∀ k, s.subForPlan.has k = true → k.1 < B64 ∧ k.2 < B64 := by
  rintro ⟨u, i⟩ hk
  obtain ⟨x, d, hx, hxk⟩ := (hi.subIdx.plan u i).mp hk
  exact ⟨plan_sub_plan_lt hi hc hx hxk, sub_id_lt hi hc hx⟩

theorem payForAcc_keysOK {s : State} (hi : StructInv s) (hc : CountersOK s) (hw : AddrsOK s) :
    ∀ k, s.payForAcc.has k = true → AddrOK k.1 ∧ k.2 < B64 := by
  rintro ⟨b, i⟩ hk
  obtain ⟨x, hx, hxa⟩ := (hi.subIdx.payAcc b i).mp hk
  exact ⟨hxa ▸ (hw.payouts i x hx).1, payout_id_lt hi hc hx⟩

theorem payForNode_keysOK {s : State} (hi : StructInv s) (hc : CountersOK s) (hw : AddrsOK s) :
    ∀ k, s.payForNode.has k = true → AddrOK k.1 ∧ k.2 < B64 := by
  rintro ⟨b, i⟩ hk
  obtain ⟨x, hx, hxa⟩ := (hi.subIdx.payNode b i).mp hk
  exact ⟨hxa ▸ (hw.payouts i x hx).2, payout_id_lt hi hc hx⟩

theorem subscriptionsForAccount_store_entries {s : State} (hi : StructInv s) (hc : CountersOK s) (hw : AddrsOK s)
    {a : Addr} (ha : AddrOK a) :
    StoreView (subscriptionsForAccountStore s a)
      ((s.subForAcc.filter fun p => decide (p.1.1 = a)).map fun p => (u64be p.1.2, ())) :=
  StoreView.of_ownerIndex AddrOK s.subForAcc hi.subIdx.nodup.2.2.1 (fun a i => (a, i)) (·.1) (·.2)
    (fun _ => rfl) subscription.GetSubscriptionForAccountKeyPrefix _ (fun _ => rfl)
    (fun _ _ ha hk _ => prefix_isolates_subscription_GetSubscriptionForAccountKeyPrefix ha hk)
    (subForAcc_keysOK hi hc hw) a ha

/-- **Subscriptions of an account**: those it owns or holds an allocation of. -/
theorem subscriptionsForAccount_exact {s : State} (hi : StructInv s) (hc : CountersOK s) (hw : AddrsOK s)
    {a : Addr} (ha : AddrOK a) :
    ExactListing (subscriptionsForAccountStore s a) (fun _ _ => true) (byIndexId s.subs.get)
      (fun x => ∃ i, s.subs.get i = some x ∧ (x.addr = a ∨ s.allocs.has (i, a) = true)) :=
  ExactListing.of_ownerIndex AddrOK s.subForAcc hi.subIdx.nodup.2.2.1 (fun a i => (a, i)) (·.1) (·.2)
    (fun _ => rfl) (fun _ _ => rfl) (fun _ _ => rfl) subscription.GetSubscriptionForAccountKeyPrefix _ (fun _ => rfl)
    (fun _ _ ha hk _ => prefix_isolates_subscription_GetSubscriptionForAccountKeyPrefix ha hk)
    (subForAcc_keysOK hi hc hw) s.subs.get (sub_get_inj hi) a ha
    (fun i x => x.addr = a ∨ s.allocs.has (i, a) = true) (fun i => hi.subIdx.acc a i)

theorem subscriptionsForAccount_pages {s : State} (hi : StructInv s) (hc : CountersOK s) (hw : AddrsOK s)
    {a : Addr} (ha : AddrOK a) :
    PagesEnumerate (querySubscriptionsForAccount s a) (subscriptionsForAccountStore s a).length
      (fun x => ∃ i, s.subs.get i = some x ∧ (x.addr = a ∨ s.allocs.has (i, a) = true)) :=
  pagesEnumerate_paginate (subscriptionsForAccount_exact hi hc hw ha)

theorem subscriptionsForNode_store_entries {s : State} (hi : StructInv s) (hc : CountersOK s) (hw : AddrsOK s)
    {a : Addr} (ha : AddrOK a) :
    StoreView (subscriptionsForNodeStore s a)
      ((s.subForNode.filter fun p => decide (p.1.1 = a)).map fun p => (u64be p.1.2, ())) :=
  StoreView.of_ownerIndex AddrOK s.subForNode hi.subIdx.nodup.2.2.2.1 (fun a i => (a, i)) (·.1) (·.2)
    (fun _ => rfl) subscription.GetSubscriptionForNodeKeyPrefix _ (fun _ => rfl)
    (fun _ _ ha hk _ => prefix_isolates_subscription_GetSubscriptionForNodeKeyPrefix ha hk)
    (subForNode_keysOK hi hc hw) a ha

/-- **Subscriptions to a node.** -/
theorem subscriptionsForNode_exact {s : State} (hi : StructInv s) (hc : CountersOK s) (hw : AddrsOK s)
    {a : Addr} (ha : AddrOK a) :
    ExactListing (subscriptionsForNodeStore s a) (fun _ _ => true) (byIndexId s.subs.get)
      (fun x => ∃ i, s.subs.get i = some x ∧ ∃ gb hr dep, x.kind = .node a gb hr dep) := by
  refine ExactListing.of_ownerIndex AddrOK s.subForNode hi.subIdx.nodup.2.2.2.1 (fun a i => (a, i)) (·.1) (·.2)
    (fun _ => rfl) (fun _ _ => rfl) (fun _ _ => rfl) subscription.GetSubscriptionForNodeKeyPrefix _ (fun _ => rfl)
    (fun _ _ ha hk _ => prefix_isolates_subscription_GetSubscriptionForNodeKeyPrefix ha hk)
    (subForNode_keysOK hi hc hw) s.subs.get (sub_get_inj hi) a ha
    (fun _ x => ∃ gb hr dep, x.kind = .node a gb hr dep) ?_
  intro i
  rw [hi.subIdx.node a i]
  exact ⟨fun ⟨x, gb, hr, dep, hx, hk⟩ => ⟨x, hx, gb, hr, dep, hk⟩, fun ⟨x, hx, gb, hr, dep, hk⟩ => ⟨x, gb, hr, dep, hx, hk⟩⟩

theorem subscriptionsForNode_pages {s : State} (hi : StructInv s) (hc : CountersOK s) (hw : AddrsOK s)
    {a : Addr} (ha : AddrOK a) :
    PagesEnumerate (querySubscriptionsForNode s a) (subscriptionsForNodeStore s a).length
      (fun x => ∃ i, s.subs.get i = some x ∧ ∃ gb hr dep, x.kind = .node a gb hr dep) :=
  pagesEnumerate_paginate (subscriptionsForNode_exact hi hc hw ha)

theorem subscriptionsForPlan_store_entries {s : State} (hi : StructInv s) (hc : CountersOK s)
    {id : Nat} (hid : id < B64) :
    StoreView (subscriptionsForPlanStore s id)
      ((s.subForPlan.filter fun p => decide (p.1.1 = id)).map fun p => (u64be p.1.2, ())) :=
  StoreView.of_ownerIndex (· < B64) s.subForPlan hi.subIdx.nodup.2.2.2.2.1 (fun u i => (u, i)) (·.1) (·.2)
    (fun _ => rfl) subscription.GetSubscriptionForPlanKeyPrefix _ (fun _ => rfl)
    (fun _ _ hu hk _ => prefix_isolates_subscription_GetSubscriptionForPlanKeyPrefix hu hk)
    (subForPlan_keysOK hi hc) id hid

/-- **Subscriptions to a plan.** -/
theorem subscriptionsForPlan_exact {s : State} (hi : StructInv s) (hc : CountersOK s)
    {id : Nat} (hid : id < B64) :
    ExactListing (subscriptionsForPlanStore s id) (fun _ _ => true) (byIndexId s.subs.get)
      (fun x => ∃ i, s.subs.get i = some x ∧ ∃ d, x.kind = .plan id d) := by
  refine ExactListing.of_ownerIndex (· < B64) s.subForPlan hi.subIdx.nodup.2.2.2.2.1 (fun u i => (u, i)) (·.1) (·.2)
    (fun _ => rfl) (fun _ _ => rfl) (fun _ _ => rfl) subscription.GetSubscriptionForPlanKeyPrefix _ (fun _ => rfl)
    (fun _ _ hu hk _ => prefix_isolates_subscription_GetSubscriptionForPlanKeyPrefix hu hk)
    (subForPlan_keysOK hi hc) s.subs.get (sub_get_inj hi) id hid (fun _ x => ∃ d, x.kind = .plan id d) ?_
  intro i
  rw [hi.subIdx.plan id i]
  exact ⟨fun ⟨x, d, hx, hk⟩ => ⟨x, hx, d, hk⟩, fun ⟨x, hx, d, hk⟩ => ⟨x, d, hx, hk⟩⟩

theorem subscriptionsForPlan_pages {s : State} (hi : StructInv s) (hc : CountersOK s)
    {id : Nat} (hid : id < B64) :
    PagesEnumerate (querySubscriptionsForPlan s id) (subscriptionsForPlanStore s id).length
      (fun x => ∃ i, s.subs.get i = some x ∧ ∃ d, x.kind = .plan id d) :=
  pagesEnumerate_paginate (subscriptionsForPlan_exact hi hc hid)

theorem payoutsForAccount_store_entries {s : State} (hi : StructInv s) (hc : CountersOK s) (hw : AddrsOK s)
    {a : Addr} (ha : AddrOK a) :
    StoreView (payoutsForAccountStore s a)
      ((s.payForAcc.filter fun p => decide (p.1.1 = a)).map fun p => (u64be p.1.2, ())) :=
  StoreView.of_ownerIndex AddrOK s.payForAcc hi.subIdx.nodup.2.2.2.2.2.2.2.2.1 (fun a i => (a, i)) (·.1) (·.2)
    (fun _ => rfl) subscription.GetPayoutForAccountKeyPrefix _ (fun _ => rfl)
    (fun _ _ ha hk _ => prefix_isolates_subscription_GetPayoutForAccountKeyPrefix ha hk)
    (payForAcc_keysOK hi hc hw) a ha

/-- **Payouts of an account.** -/
theorem payoutsForAccount_exact {s : State} (hi : StructInv s) (hc : CountersOK s) (hw : AddrsOK s)
    {a : Addr} (ha : AddrOK a) :
    ExactListing (payoutsForAccountStore s a) (fun _ _ => true) (byIndexId s.payouts.get)
      (fun x => ∃ i, s.payouts.get i = some x ∧ x.addr = a) :=
  ExactListing.of_ownerIndex AddrOK s.payForAcc hi.subIdx.nodup.2.2.2.2.2.2.2.2.1 (fun a i => (a, i)) (·.1) (·.2)
    (fun _ => rfl) (fun _ _ => rfl) (fun _ _ => rfl) subscription.GetPayoutForAccountKeyPrefix _ (fun _ => rfl)
    (fun _ _ ha hk _ => prefix_isolates_subscription_GetPayoutForAccountKeyPrefix ha hk)
    (payForAcc_keysOK hi hc hw) s.payouts.get (payout_get_inj hi) a ha (fun _ x => x.addr = a)
    (fun i => hi.subIdx.payAcc a i)

theorem payoutsForAccount_pages {s : State} (hi : StructInv s) (hc : CountersOK s) (hw : AddrsOK s)
    {a : Addr} (ha : AddrOK a) :
    PagesEnumerate (queryPayoutsForAccount s a) (payoutsForAccountStore s a).length
      (fun x => ∃ i, s.payouts.get i = some x ∧ x.addr = a) :=
  pagesEnumerate_paginate (payoutsForAccount_exact hi hc hw ha)

theorem payoutsForNode_store_entries {s : State} (hi : StructInv s) (hc : CountersOK s) (hw : AddrsOK s)
    {a : Addr} (ha : AddrOK a) :
    StoreView (payoutsForNodeStore s a)
      ((s.payForNode.filter fun p => decide (p.1.1 = a)).map fun p => (u64be p.1.2, ())) :=
  StoreView.of_ownerIndex AddrOK s.payForNode hi.subIdx.nodup.2.2.2.2.2.2.2.2.2.1 (fun a i => (a, i)) (·.1) (·.2)
    (fun _ => rfl) subscription.GetPayoutForNodeKeyPrefix _ (fun _ => rfl)
    (fun _ _ ha hk _ => prefix_isolates_subscription_GetPayoutForNodeKeyPrefix ha hk)
    (payForNode_keysOK hi hc hw) a ha

/-- **Payouts to a node.** -/
theorem payoutsForNode_exact {s : State} (hi : StructInv s) (hc : CountersOK s) (hw : AddrsOK s)
    {a : Addr} (ha : AddrOK a) :
    ExactListing (payoutsForNodeStore s a) (fun _ _ => true) (byIndexId s.payouts.get)
      (fun x => ∃ i, s.payouts.get i = some x ∧ x.node = a) :=
  ExactListing.of_ownerIndex AddrOK s.payForNode hi.subIdx.nodup.2.2.2.2.2.2.2.2.2.1 (fun a i => (a, i)) (·.1) (·.2)
    (fun _ => rfl) (fun _ _ => rfl) (fun _ _ => rfl) subscription.GetPayoutForNodeKeyPrefix _ (fun _ => rfl)
    (fun _ _ ha hk _ => prefix_isolates_subscription_GetPayoutForNodeKeyPrefix ha hk)
    (payForNode_keysOK hi hc hw) s.payouts.get (payout_get_inj hi) a ha (fun _ x => x.node = a)
    (fun i => hi.subIdx.payNode a i)

theorem payoutsForNode_pages {s : State} (hi : StructInv s) (hc : CountersOK s) (hw : AddrsOK s)
    {a : Addr} (ha : AddrOK a) :
    PagesEnumerate (queryPayoutsForNode s a) (payoutsForNodeStore s a).length
      (fun x => ∃ i, s.payouts.get i = some x ∧ x.node = a) :=
  pagesEnumerate_paginate (payoutsForNode_exact hi hc hw ha)

/-! ## Plans of a provider, nodes of a plan (status filter inside the callback), allocations -/

theorem plan_get_inj {s : State} (hi : StructInv s) : ∀ i j x, getPlan s i = some x → getPlan s j = some x → i = j := by
  intro i j x h1 h2
  rw [← getPlan_id hi.recs h1, ← getPlan_id hi.recs h2]

/-- **Plans of a provider, filtered by status** (`0` = any): `FilteredPaginate` over the by-provider
index with the `filter` callback. -/
theorem plansForProvider_exact {s : State} (hi : StructInv s) (hc : CountersOK s) (hw : AddrsOK s)
    {a : Addr} (ha : AddrOK a) (status : Int) :
    ExactListing (plansForProviderStore s a)
      (fun k v => match byIndexId (getPlan s) k v with | some p => statusMatches status p.status | none => false)
      (byIndexId (getPlan s))
      (fun x => ∃ i, getPlan s i = some x ∧ x.prov = a ∧ statusMatches status x.status = true) := by
  have hOK : ∀ b i, s.planForProv.has (b, i) = true → AddrOK b ∧ i < B64 := by
    intro b i hk
    obtain ⟨p, hp, hpa⟩ := (hi.nodeIdx.planForProv b i).mp hk
    have h1 := hi.count.planIdx.1 b i hk
    have h2 := hc.plan
    exact ⟨hpa ▸ hw.plans i p hp, by omega⟩
  unfold plansForProviderStore planForProvEntries
  refine ExactListing.of_idIndex (plan.GetPlanForProviderKeyPrefix a) s.planForProv _
    (fun k => decide (k.1 = a)) (·.2) hi.nodeIdx.nodupQ.2.1 ?_ ?_ ?_ (getPlan s) (plan_get_inj hi)
    (fun p => statusMatches status p.status) _ (fun k v x h => by simp only [h]) (fun k v h => by simp only [h]) _ ?_
  · rintro ⟨b, i⟩ hk
    refine strip_of_iso (fun e => by subst e; rfl) ?_
    exact (prefix_isolates_plan_GetPlanForProviderKeyPrefix ha (hOK b i hk).1).trans ⟨Eq.symm, Eq.symm⟩
  · rintro ⟨b, i⟩ hk _; exact (hOK b i hk).2
  · rintro ⟨b, i⟩ ⟨b', i'⟩ _ _ sk sk' e
    have e1 : b = a := of_decide_eq_true sk
    have e2 : b' = a := of_decide_eq_true sk'
    have e3 : i = i' := e
    rw [e1, e2, e3]
  · intro x
    constructor
    · rintro ⟨i, hx, hxa, hq⟩
      exact ⟨(a, i), (hi.nodeIdx.planForProv a i).mpr ⟨x, hx, hxa⟩, decide_eq_true rfl, hx, hq⟩
    · rintro ⟨⟨b, i⟩, hk, sk, hx, hq⟩
      have e1 : b = a := of_decide_eq_true sk
      obtain ⟨y, hy, hya⟩ := (hi.nodeIdx.planForProv b i).mp hk
      have hx' : getPlan s i = some x := hx
      rw [hx'] at hy; cases hy
      exact ⟨i, hx', hya.trans e1, hq⟩

/-- **Nodes linked to a plan, filtered by status**: `FilteredPaginate` over the link table; the key behind
the prefix is the length-prefixed node address, the callback looks the node up by `key[1:]`. -/
theorem nodesForPlan_exact {s : State} (hi : StructInv s) (hc : CountersOK s) (hw : AddrsOK s)
    {id : Nat} (hid : id < B64) (status : Int) :
    ExactListing (nodesForPlanStore s id)
      (fun k _ => match getNode s (k.drop 1) with | some n => statusMatches status n.status | none => false)
      (fun k _ => getNode s (k.drop 1))
      (fun x => ∃ n, s.nodeForPlan.has (id, n) = true ∧ getNode s n = some x ∧ statusMatches status x.status = true) := by
  have hOK : ∀ p ∈ s.nodeForPlan, p.1.1 < B64 ∧ AddrOK p.1.2 ∧ ∃ n, getNode s p.1.2 = some n := by
    rintro ⟨⟨j, n⟩, u⟩ hp
    have hk : s.nodeForPlan.has (j, n) = true := tbl_has_of_mem hp
    have h1 := hi.count.planIdx.2 j n hk
    have h2 := hc.plan
    have h3 := (hi.nodeIdx.links j n hk).2
    exact ⟨by show j < B64; omega, hw.nodes n h3, getNode_isSome_of_has h3⟩
  refine ExactListing.of_table (node.GetNodeForPlanKeyPrefix id) s.nodeForPlan _
    (fun p => decide (p.1.1 = id)) (fun p => lp p.1.2) ?_ (tbl_nodup_entries hi.nodeIdx.nodupQ.2.2.1) ?_ ?_
    _ _ (fun p => match getNode s p.1.2 with | some n => statusMatches status n.status | none => false)
    (fun p => getNode s p.1.2) ?_ ?_ ?_ ?_ _ ?_
  · rintro ⟨⟨j, n⟩, u⟩ hp
    refine strip_of_iso (fun e => by subst e; rfl) ?_
    exact (prefix_isolates_node_GetNodeForPlanKeyPrefix hid (hOK _ hp).1).trans ⟨Eq.symm, Eq.symm⟩
  · rintro ⟨⟨j, n⟩, u⟩ hp ⟨⟨j', n'⟩, u'⟩ hq sp sq e
    have e1 : j = id := of_decide_eq_true sp
    have e2 : j' = id := of_decide_eq_true sq
    have e3 : n = n' := lp_injective (hOK _ hp).2.1 (hOK _ hq).2.1 e
    rw [e1, e2, e3]
  · intro p hp _; exact lp_ne_nil (hOK p hp).2.1
  · intro p hp _
    show (match getNode s ((lp p.1.2).drop 1) with | some n => statusMatches status n.status | none => false) = _
    rw [drop_one_lp (hOK p hp).2.1]
  · intro p hp _ _
    show getNode s ((lp p.1.2).drop 1) = _
    rw [drop_one_lp (hOK p hp).2.1]
  · intro p hp _ _; exact (hOK p hp).2.2
  · rintro ⟨⟨j, n⟩, u⟩ hp ⟨⟨j', n'⟩, u'⟩ hq sp sq _ _ x hx hy
    have e1 : j = id := of_decide_eq_true sp
    have e2 : j' = id := of_decide_eq_true sq
    have e3 : n = n' := (getNode_addr hi.recs hx).symm.trans (getNode_addr hi.recs hy)
    rw [e1, e2, e3]
  · intro x
    constructor
    · rintro ⟨n, hk, hx, hq⟩
      exact ⟨((id, n), ()), tbl_mem_unit_of_has hk, decide_eq_true rfl, by simp only [hx]; exact hq, hx⟩
    · rintro ⟨⟨⟨j, n⟩, u⟩, hp, sp, hq, hx⟩
      have e1 : j = id := of_decide_eq_true sp
      have hx' : getNode s n = some x := hx
      simp only [hx'] at hq
      exact ⟨n, e1 ▸ tbl_has_of_mem hp, hx', hq⟩

/-- **Allocations of a subscription**: the records under `GetAllocationForSubscriptionKeyPrefix id`,
decoded from the value. -/
theorem allocations_exact {s : State} (hi : StructInv s) (hc : CountersOK s) (hw : AddrsOK s)
    {id : Nat} (hid : id < B64) :
    ExactListing (allocationsStore s id) (fun _ _ => true) (fun _ v => some v)
      (fun x => ∃ a, s.allocs.get (id, a) = some x) := by
  have hnd := hi.subIdx.nodup.2.2.2.2.2.1
  have hOK : ∀ p ∈ s.allocs, p.1.1 < B64 ∧ AddrOK p.1.2 ∧ p.2.id = p.1.1 ∧ p.2.addr = p.1.2 := by
    rintro ⟨⟨j, b⟩, al⟩ hp
    have hg := tbl_get_of_mem hnd hp
    have h1 := hi.count.allocs j b al hg
    have h2 := hc.sub
    exact ⟨by show j < B64; omega, hw.allocs j b (tbl_has_of_mem hp), h1.1, h1.2.1⟩
  refine ExactListing.of_table (subscription.GetAllocationForSubscriptionKeyPrefix id) s.allocs _
    (fun p => decide (p.1.1 = id)) (fun p => lp p.1.2) ?_ (tbl_nodup_entries hnd) ?_ ?_
    _ _ (fun _ => true) (fun p => some p.2) ?_ ?_ ?_ ?_ _ ?_
  · rintro ⟨⟨j, b⟩, al⟩ hp
    refine strip_of_iso (fun e => by subst e; rfl) ?_
    exact (prefix_isolates_subscription_GetAllocationForSubscriptionKeyPrefix hid (hOK _ hp).1).trans ⟨Eq.symm, Eq.symm⟩
  · rintro ⟨⟨j, b⟩, al⟩ hp ⟨⟨j', b'⟩, al'⟩ hq sp sq e
    have e1 : j = id := of_decide_eq_true sp
    have e2 : j' = id := of_decide_eq_true sq
    have e3 : b = b' := lp_injective (hOK _ hp).2.1 (hOK _ hq).2.1 e
    subst e1 e2 e3
    have g1 := tbl_get_of_mem hnd hp
    have g2 := tbl_get_of_mem hnd hq
    rw [g1] at g2; cases g2; rfl
  · intro p hp _; exact lp_ne_nil (hOK p hp).2.1
  · intro _ _ _; rfl
  · rintro ⟨⟨j, b⟩, al⟩ _ _ _; rfl
  · intro p _ _ _; exact ⟨_, rfl⟩
  · rintro ⟨⟨j, b⟩, al⟩ hp ⟨⟨j', b'⟩, al'⟩ hq _ _ _ _ x hx hy
    have h1 := hOK _ hp
    have h2 := hOK _ hq
    simp only [Option.some.injEq] at hx hy
    subst hx
    simp only at h1 h2 hy
    subst hy
    rw [← h1.2.2.1, ← h1.2.2.2, ← h2.2.2.1, ← h2.2.2.2]
  · intro x
    constructor
    · rintro ⟨b, hx⟩
      exact ⟨((id, b), x), tbl_mem_of_get hx, decide_eq_true rfl, rfl, rfl⟩
    · rintro ⟨⟨⟨j, b⟩, al⟩, hp, sp, _, hx⟩
      have e1 : j = id := of_decide_eq_true sp
      simp only [Option.some.injEq] at hx
      subst hx; subst e1
      exact ⟨b, tbl_get_of_mem hnd hp⟩

/-! ## Status-partitioned listings: providers, nodes, plans by status -/

/-- The reading of the partition result as "the records of the unfiltered listing with the requested
status": `status = 1` keeps the active ones, `3` the inactive ones, any other value all. -/
theorem partition_R_iff {κ α : Type} [DecidableEq κ] (tA tI : Tbl κ α) (st : α → Status)
    (hsA : ∀ k v, tA.get k = some v → st v = .StatusActive) (hsI : ∀ k v, tI.get k = some v → st v = .StatusInactive)
    (status : Int) (x : α) :
    ((status ≠ 3 ∧ ∃ k, tA.get k = some x) ∨ (status ≠ 1 ∧ ∃ k, tI.get k = some x)) ↔
    ((∃ k, tA.get k = some x ∨ tI.get k = some x) ∧ (status = 1 → st x = .StatusActive) ∧
      (status = 3 → st x = .StatusInactive)) := by
  constructor
  · rintro (⟨hs, k, hk⟩ | ⟨hs, k, hk⟩)
    · exact ⟨⟨k, Or.inl hk⟩, fun _ => hsA k x hk, fun h => absurd h hs⟩
    · exact ⟨⟨k, Or.inr hk⟩, fun h => absurd h hs, fun _ => hsI k x hk⟩
  · rintro ⟨⟨k, hk | hk⟩, h1, h3⟩
    · refine Or.inl ⟨fun h => ?_, k, hk⟩
      have := hsA k x hk
      rw [h3 h] at this; cases this
    · refine Or.inr ⟨fun h => ?_, k, hk⟩
      have := hsI k x hk
      rw [h1 h] at this; cases this

theorem getProvider_iff {s : State} (hr : RecInv s) (a : Addr) (x : Provider) :
    getProvider s a = some x ↔ (s.provActive.get a = some x ∨ s.provInactive.get a = some x) := by
  unfold getProvider
  cases ha : s.provActive.get a with
  | some y =>
    simp only [Option.some.injEq]
    constructor
    · intro e; exact Or.inl e
    · rintro (e | e)
      · exact e
      · exact absurd ⟨(Tbl.has_iff _ _).mpr ⟨y, ha⟩, (Tbl.has_iff _ _).mpr ⟨x, e⟩⟩ (hr.provX a)
  | none => simp

theorem getNode_iff {s : State} (hr : RecInv s) (a : Addr) (x : Node) :
    getNode s a = some x ↔ (s.nodeActive.get a = some x ∨ s.nodeInactive.get a = some x) := by
  unfold getNode
  cases ha : s.nodeActive.get a with
  | some y =>
    simp only [Option.some.injEq]
    constructor
    · intro e; exact Or.inl e
    · rintro (e | e)
      · exact e
      · exact absurd ⟨(Tbl.has_iff _ _).mpr ⟨y, ha⟩, (Tbl.has_iff _ _).mpr ⟨x, e⟩⟩ (hr.nodeX a)
  | none => simp

theorem getPlan_iff {s : State} (hr : RecInv s) (i : Nat) (x : Plan) :
    getPlan s i = some x ↔ (s.planActive.get i = some x ∨ s.planInactive.get i = some x) := by
  unfold getPlan
  cases ha : s.planActive.get i with
  | some y =>
    simp only [Option.some.injEq]
    constructor
    · intro e; exact Or.inl e
    · rintro (e | e)
      · exact e
      · exact absurd ⟨(Tbl.has_iff _ _).mpr ⟨y, ha⟩, (Tbl.has_iff _ _).mpr ⟨x, e⟩⟩ (hr.planX i)
  | none => simp

/-- **Providers by status**: the listing under the status selection holds exactly the providers (of the
unfiltered listing) with that status; any status other than active/inactive lists all. -/
theorem providers_exact {s : State} (hi : StructInv s) (hw : AddrsOK s) (status : Int) :
    ExactListing (providersStore s status) (fun _ _ => true) (fun _ v => some v)
      (fun x => (∃ a, getProvider s a = some x) ∧ (status = 1 → x.status = .StatusActive) ∧
        (status = 3 → x.status = .StatusInactive)) := by
  have hok : ∀ k, (s.provActive.has k = true ∨ s.provInactive.has k = true) → AddrOK k := by
    intro k hk; apply hw.provs k; unfold hasProvider; rcases hk with h | h <;> simp [h]
  have h := ExactListing.of_partition s.provActive s.provInactive hi.nodeIdx.nodupQ.2.2.2.2.2.1 hi.nodeIdx.nodupQ.2.2.2.2.2.2.1
    hi.recs.provX provider.ProviderKeyPrefix lp (fun k k' hk hk' e => lp_injective (hok k hk) (hok k' hk') e)
    (fun k hk => lp_ne_nil (hok k hk))
    (fun (a, p) => (provider.ActiveProviderKey a, p)) (fun (a, p) => (provider.InactiveProviderKey a, p))
    (fun ⟨_, _⟩ => rfl) (fun ⟨_, _⟩ => rfl) (·.addr) (fun k v hv => (hi.recs.provA k v hv).1) (fun k v hv => (hi.recs.provI k v hv).1) status
  refine ExactListing.congr_R h (fun x => ?_)
  rw [partition_R_iff _ _ (·.status) (fun k v hv => (hi.recs.provA k v hv).2) (fun k v hv => (hi.recs.provI k v hv).2)]
  simp only [getProvider_iff hi.recs]

/-- **Nodes by status.** -/
theorem nodes_exact {s : State} (hi : StructInv s) (hw : AddrsOK s) (status : Int) :
    ExactListing (nodesStore s status) (fun _ _ => true) (fun _ v => some v)
      (fun x => (∃ a, getNode s a = some x) ∧ (status = 1 → x.status = .StatusActive) ∧
        (status = 3 → x.status = .StatusInactive)) := by
  have hok : ∀ k, (s.nodeActive.has k = true ∨ s.nodeInactive.has k = true) → AddrOK k := by
    intro k hk; apply hw.nodes k; unfold hasNode; rcases hk with h | h <;> simp [h]
  have h := ExactListing.of_partition s.nodeActive s.nodeInactive hi.nodeIdx.nodupQ.2.2.2.1 hi.nodeIdx.nodupQ.2.2.2.2.1
    hi.recs.nodeX node.NodeKeyPrefix lp (fun k k' hk hk' e => lp_injective (hok k hk) (hok k' hk') e)
    (fun k hk => lp_ne_nil (hok k hk))
    (fun (a, n) => (node.ActiveNodeKey a, n)) (fun (a, n) => (node.InactiveNodeKey a, n))
    (fun ⟨_, _⟩ => rfl) (fun ⟨_, _⟩ => rfl) (·.addr) (fun k v hv => (hi.recs.nodeA k v hv).1) (fun k v hv => (hi.recs.nodeI k v hv).1) status
  refine ExactListing.congr_R h (fun x => ?_)
  rw [partition_R_iff _ _ (·.status) (fun k v hv => (hi.recs.nodeA k v hv).2) (fun k v hv => (hi.recs.nodeI k v hv).2.1)]
  simp only [getNode_iff hi.recs]

/-- **Plans by status.** -/
theorem plans_exact {s : State} (hi : StructInv s) (hc : CountersOK s) (status : Int) :
    ExactListing (plansStore s status) (fun _ _ => true) (fun _ v => some v)
      (fun x => (∃ i, getPlan s i = some x) ∧ (status = 1 → x.status = .StatusActive) ∧
        (status = 3 → x.status = .StatusInactive)) := by
  have hok : ∀ k, (s.planActive.has k = true ∨ s.planInactive.has k = true) → k < B64 := by
    intro k hk
    have : ∃ p, s.planActive.get k = some p ∨ s.planInactive.get k = some p := by
      rcases hk with h | h
      · obtain ⟨p, hp⟩ := (Tbl.has_iff _ _).mp h; exact ⟨p, Or.inl hp⟩
      · obtain ⟨p, hp⟩ := (Tbl.has_iff _ _).mp h; exact ⟨p, Or.inr hp⟩
    obtain ⟨p, hp⟩ := this
    have := (hi.count.plans k p hp).2.2
    have := hc.plan
    omega
  have h := ExactListing.of_partition s.planActive s.planInactive hi.nodeIdx.nodupQ.2.2.2.2.2.2.2.1 hi.nodeIdx.nodupQ.2.2.2.2.2.2.2.2
    hi.recs.planX plan.PlanKeyPrefix u64be (fun k k' hk hk' e => u64be_injective (hok k hk) (hok k' hk') e)
    (fun k _ => u64be_ne_nil k)
    (fun (i, p) => (plan.ActivePlanKey i, p)) (fun (i, p) => (plan.InactivePlanKey i, p))
    (fun ⟨_, _⟩ => rfl) (fun ⟨_, _⟩ => rfl) (·.id) (fun k v hv => (hi.recs.planA k v hv).1) (fun k v hv => (hi.recs.planI k v hv).1) status
  refine ExactListing.congr_R h (fun x => ?_)
  rw [partition_R_iff _ _ (·.status) (fun k v hv => (hi.recs.planA k v hv).2) (fun k v hv => (hi.recs.planI k v hv).2)]
  simp only [getPlan_iff hi.recs]

theorem planForProv_keysOK {s : State} (hi : StructInv s) (hc : CountersOK s) (hw : AddrsOK s) :
    ∀ k, s.planForProv.has k = true → AddrOK k.1 ∧ k.2 < B64 := by
  rintro ⟨b, i⟩ hk
  obtain ⟨p, hp, hpa⟩ := (hi.nodeIdx.planForProv b i).mp hk
  have h1 := hi.count.planIdx.1 b i hk
  have h2 := hc.plan
  exact ⟨hpa ▸ hw.plans i p hp, by show i < B64; omega⟩

/-- The store view `QueryPlansForProvider` filters: the by-provider index entries of provider `a`. -/
theorem plansForProvider_store_entries {s : State} (hi : StructInv s) (hc : CountersOK s) (hw : AddrsOK s)
    {a : Addr} (ha : AddrOK a) :
    StoreView (plansForProviderStore s a)
      ((s.planForProv.filter fun p => decide (p.1.1 = a)).map fun p => (u64be p.1.2, ())) :=
  StoreView.of_ownerIndex AddrOK s.planForProv hi.nodeIdx.nodupQ.2.1 (fun a i => (a, i)) (·.1) (·.2)
    (fun _ => rfl) plan.GetPlanForProviderKeyPrefix _ (fun _ => rfl)
    (fun _ _ ha hk _ => prefix_isolates_plan_GetPlanForProviderKeyPrefix ha hk)
    (planForProv_keysOK hi hc hw) a ha

/-! ## The remaining handlers page exactly -/

theorem plansForProvider_pages {s : State} (hi : StructInv s) (hc : CountersOK s) (hw : AddrsOK s)
    {a : Addr} (ha : AddrOK a) (status : Int) :
    PagesEnumerate (queryPlansForProvider s a status) (plansForProviderStore s a).length
      (fun x => ∃ i, getPlan s i = some x ∧ x.prov = a ∧ statusMatches status x.status = true) :=
  pagesEnumerate_filtered (plansForProvider_exact hi hc hw ha status)

theorem nodesForPlan_pages {s : State} (hi : StructInv s) (hc : CountersOK s) (hw : AddrsOK s)
    {id : Nat} (hid : id < B64) (status : Int) :
    PagesEnumerate (queryNodesForPlan s id status) (nodesForPlanStore s id).length
      (fun x => ∃ n, s.nodeForPlan.has (id, n) = true ∧ getNode s n = some x ∧ statusMatches status x.status = true) :=
  pagesEnumerate_filtered (nodesForPlan_exact hi hc hw hid status)

theorem allocations_pages {s : State} (hi : StructInv s) (hc : CountersOK s) (hw : AddrsOK s)
    {id : Nat} (hid : id < B64) :
    PagesEnumerate (queryAllocations s id) (allocationsStore s id).length (fun x => ∃ a, s.allocs.get (id, a) = some x) :=
  pagesEnumerate_paginate (allocations_exact hi hc hw hid)

theorem providers_pages {s : State} (hi : StructInv s) (hw : AddrsOK s) (status : Int) :
    PagesEnumerate (queryProviders s status) (providersStore s status).length
      (fun x => (∃ a, getProvider s a = some x) ∧ (status = 1 → x.status = .StatusActive) ∧
        (status = 3 → x.status = .StatusInactive)) :=
  pagesEnumerate_paginate (providers_exact hi hw status)

theorem nodes_pages {s : State} (hi : StructInv s) (hw : AddrsOK s) (status : Int) :
    PagesEnumerate (queryNodes s status) (nodesStore s status).length
      (fun x => (∃ a, getNode s a = some x) ∧ (status = 1 → x.status = .StatusActive) ∧
        (status = 3 → x.status = .StatusInactive)) :=
  pagesEnumerate_paginate (nodes_exact hi hw status)

theorem plans_pages {s : State} (hi : StructInv s) (hc : CountersOK s) (status : Int) :
    PagesEnumerate (queryPlans s status) (plansStore s status).length
      (fun x => (∃ i, getPlan s i = some x) ∧ (status = 1 → x.status = .StatusActive) ∧
        (status = 3 → x.status = .StatusInactive)) :=
  pagesEnumerate_paginate (plans_exact hi hc status)

/-! ## The unfiltered listings, and "filtered = unfiltered ∧ attribute" -/

theorem sessions_exact {s : State} (hi : StructInv s) (hc : CountersOK s) :
    ExactListing (sessionsStore s) (fun _ _ => true) (fun _ v => some v) (fun x => ∃ i, s.sessions.get i = some x) :=
  ExactListing.of_primary s.sessions hi.sessIdx.nodup.1 session.SessionKeyPrefix _ (fun ⟨_, _⟩ => rfl)
    (fun _ _ h => sess_id_lt hi hc h) (·.id) (fun i x h => (hi.count.sessions i x h).1)

theorem subscriptions_exact {s : State} (hi : StructInv s) (hc : CountersOK s) :
    ExactListing (subscriptionsStore s) (fun _ _ => true) (fun _ v => some v) (fun x => ∃ i, s.subs.get i = some x) :=
  ExactListing.of_primary s.subs hi.subIdx.nodup.1 subscription.SubscriptionKeyPrefix _ (fun ⟨_, _⟩ => rfl)
    (fun _ _ h => sub_id_lt hi hc h) (·.id) (fun i x h => (hi.count.subs i x h).1)

theorem payouts_exact {s : State} (hi : StructInv s) (hc : CountersOK s) :
    ExactListing (payoutsStore s) (fun _ _ => true) (fun _ v => some v) (fun x => ∃ i, s.payouts.get i = some x) :=
  ExactListing.of_primary s.payouts hi.subIdx.nodup.2.2.2.2.2.2.1 subscription.PayoutKeyPrefix _ (fun ⟨_, _⟩ => rfl)
    (fun _ _ h => payout_id_lt hi hc h) (·.id) (fun i x h => (hi.count.payouts i x h).1)

theorem sessions_pages {s : State} (hi : StructInv s) (hc : CountersOK s) :
    PagesEnumerate (querySessions s) (sessionsStore s).length (fun x => ∃ i, s.sessions.get i = some x) :=
  pagesEnumerate_paginate (sessions_exact hi hc)

theorem subscriptions_pages {s : State} (hi : StructInv s) (hc : CountersOK s) :
    PagesEnumerate (querySubscriptions s) (subscriptionsStore s).length (fun x => ∃ i, s.subs.get i = some x) :=
  pagesEnumerate_paginate (subscriptions_exact hi hc)

theorem payouts_pages {s : State} (hi : StructInv s) (hc : CountersOK s) :
    PagesEnumerate (queryPayouts s) (payoutsStore s).length (fun x => ∃ i, s.payouts.get i = some x) :=
  pagesEnumerate_paginate (payouts_exact hi hc)

theorem exists_and_iff {β : Type} (get : Nat → Option β) (A : β → Prop) (x : β) :
    (∃ i, get i = some x ∧ A x) ↔ (∃ i, get i = some x) ∧ A x :=
  ⟨fun ⟨i, h, a⟩ => ⟨⟨i, h⟩, a⟩, fun ⟨⟨i, h⟩, a⟩ => ⟨i, h, a⟩⟩

/-- **Sessions: every filtered listing returns exactly the sessions of the unfiltered listing with the
requested attribute.** -/
theorem session_listings_filter {s : State} (hi : StructInv s) (hc : CountersOK s) (hw : AddrsOK s) (x : Session) :
    (∀ a, AddrOK a → (x ∈ listed (byIndexId s.sessions.get) (sessionsForAccountStore s a) ↔
      x ∈ listed (fun _ v => some v) (sessionsStore s) ∧ x.addr = a)) ∧
    (∀ n, AddrOK n → (x ∈ listed (byIndexId s.sessions.get) (sessionsForNodeStore s n) ↔
      x ∈ listed (fun _ v => some v) (sessionsStore s) ∧ x.node = n)) ∧
    (∀ id, id < B64 → (x ∈ listed (byIndexId s.sessions.get) (sessionsForSubscriptionStore s id) ↔
      x ∈ listed (fun _ v => some v) (sessionsStore s) ∧ x.sub = id)) ∧
    (∀ id a, id < B64 → AddrOK a → (x ∈ listed (byIndexId s.sessions.get) (sessionsForAllocationStore s id a) ↔
      x ∈ listed (fun _ v => some v) (sessionsStore s) ∧ x.sub = id ∧ x.addr = a)) :=
  ⟨fun a ha => filtered_iff_unfiltered (sessionsForAccount_exact hi hc hw ha) (sessions_exact hi hc) _
      (exists_and_iff s.sessions.get (fun x => x.addr = a)) x,
   fun n hn => filtered_iff_unfiltered (sessionsForNode_exact hi hc hw hn) (sessions_exact hi hc) _
      (exists_and_iff s.sessions.get (fun x => x.node = n)) x,
   fun id hid => filtered_iff_unfiltered (sessionsForSubscription_exact hi hc hid) (sessions_exact hi hc) _
      (exists_and_iff s.sessions.get (fun x => x.sub = id)) x,
   fun id a hid ha => filtered_iff_unfiltered (sessionsForAllocation_exact hi hc hw hid ha) (sessions_exact hi hc) _
      (exists_and_iff s.sessions.get (fun x => x.sub = id ∧ x.addr = a)) x⟩

/-- **Subscriptions and payouts: filtered = unfiltered ∧ attribute.**  (An account's subscriptions are those it
owns or holds an allocation of.) -/
theorem subscription_listings_filter {s : State} (hi : StructInv s) (hc : CountersOK s) (hw : AddrsOK s) :
    (∀ (x : Sub) a, AddrOK a → (x ∈ listed (byIndexId s.subs.get) (subscriptionsForAccountStore s a) ↔
      x ∈ listed (fun _ v => some v) (subscriptionsStore s) ∧ (x.addr = a ∨ s.allocs.has (x.id, a) = true))) ∧
    (∀ (x : Sub) n, AddrOK n → (x ∈ listed (byIndexId s.subs.get) (subscriptionsForNodeStore s n) ↔
      x ∈ listed (fun _ v => some v) (subscriptionsStore s) ∧ ∃ gb hr dep, x.kind = .node n gb hr dep)) ∧
    (∀ (x : Sub) id, id < B64 → (x ∈ listed (byIndexId s.subs.get) (subscriptionsForPlanStore s id) ↔
      x ∈ listed (fun _ v => some v) (subscriptionsStore s) ∧ ∃ d, x.kind = .plan id d)) ∧
    (∀ (p : Payout) a, AddrOK a → (p ∈ listed (byIndexId s.payouts.get) (payoutsForAccountStore s a) ↔
      p ∈ listed (fun _ v => some v) (payoutsStore s) ∧ p.addr = a)) ∧
    (∀ (p : Payout) n, AddrOK n → (p ∈ listed (byIndexId s.payouts.get) (payoutsForNodeStore s n) ↔
      p ∈ listed (fun _ v => some v) (payoutsStore s) ∧ p.node = n)) := by
  refine ⟨fun x a ha => ?_, fun x n hn => ?_, fun x id hid => ?_, fun p a ha => ?_, fun p n hn => ?_⟩
  · refine filtered_iff_unfiltered (subscriptionsForAccount_exact hi hc hw ha) (subscriptions_exact hi hc)
      (fun x => x.addr = a ∨ s.allocs.has (x.id, a) = true) (fun y => ?_) x
    constructor
    · rintro ⟨i, hy, h⟩
      exact ⟨⟨i, hy⟩, by rw [(hi.count.subs i y hy).1]; exact h⟩
    · rintro ⟨⟨i, hy⟩, h⟩
      exact ⟨i, hy, by rw [(hi.count.subs i y hy).1] at h; exact h⟩
  · exact filtered_iff_unfiltered (subscriptionsForNode_exact hi hc hw hn) (subscriptions_exact hi hc) _
      (exists_and_iff s.subs.get (fun x => ∃ gb hr dep, x.kind = .node n gb hr dep)) x
  · exact filtered_iff_unfiltered (subscriptionsForPlan_exact hi hc hid) (subscriptions_exact hi hc) _
      (exists_and_iff s.subs.get (fun x => ∃ d, x.kind = .plan id d)) x
  · exact filtered_iff_unfiltered (payoutsForAccount_exact hi hc hw ha) (payouts_exact hi hc) _
      (exists_and_iff s.payouts.get (fun x => x.addr = a)) p
  · exact filtered_iff_unfiltered (payoutsForNode_exact hi hc hw hn) (payouts_exact hi hc) _
      (exists_and_iff s.payouts.get (fun x => x.node = n)) p

/-- **Status filters: plans of a provider / by status, nodes and providers by status** are the records of
the status-`0` (unfiltered) listing with the requested status. -/
theorem status_listings_filter {s : State} (hi : StructInv s) (hc : CountersOK s) (hw : AddrsOK s) (status : Int) :
    (∀ (x : Provider), x ∈ listed (fun _ v => some v) (providersStore s status) ↔
      x ∈ listed (fun _ v => some v) (providersStore s 0) ∧ (status = 1 → x.status = .StatusActive) ∧
        (status = 3 → x.status = .StatusInactive)) ∧
    (∀ (x : Node), x ∈ listed (fun _ v => some v) (nodesStore s status) ↔
      x ∈ listed (fun _ v => some v) (nodesStore s 0) ∧ (status = 1 → x.status = .StatusActive) ∧
        (status = 3 → x.status = .StatusInactive)) ∧
    (∀ (x : Plan), x ∈ listed (fun _ v => some v) (plansStore s status) ↔
      x ∈ listed (fun _ v => some v) (plansStore s 0) ∧ (status = 1 → x.status = .StatusActive) ∧
        (status = 3 → x.status = .StatusInactive)) ∧
    (∀ (x : Plan) a, AddrOK a → (x ∈ listedOn
        (fun k v => match byIndexId (getPlan s) k v with | some p => statusMatches status p.status | none => false)
        (byIndexId (getPlan s)) (plansForProviderStore s a) ↔
      x ∈ listed (fun _ v => some v) (plansStore s 0) ∧ x.prov = a ∧ statusMatches status x.status = true)) := by
  have h0 : ∀ (P : Prop) (Q1 Q3 : Prop), (P ∧ ((0 : Int) = 1 → Q1) ∧ ((0 : Int) = 3 → Q3)) ↔ P :=
    fun P Q1 Q3 => ⟨fun h => h.1, fun h => ⟨h, fun e => absurd e (by decide), fun e => absurd e (by decide)⟩⟩
  refine ⟨fun x => ?_, fun x => ?_, fun x => ?_, fun x a ha => ?_⟩
  · refine filtered_iff_unfiltered (providers_exact hi hw status) (providers_exact hi hw 0)
      (fun x => (status = 1 → x.status = .StatusActive) ∧ (status = 3 → x.status = .StatusInactive)) (fun y => ?_) x
    rw [h0]
  · refine filtered_iff_unfiltered (nodes_exact hi hw status) (nodes_exact hi hw 0)
      (fun x => (status = 1 → x.status = .StatusActive) ∧ (status = 3 → x.status = .StatusInactive)) (fun y => ?_) x
    rw [h0]
  · refine filtered_iff_unfiltered (plans_exact hi hc status) (plans_exact hi hc 0)
      (fun x => (status = 1 → x.status = .StatusActive) ∧ (status = 3 → x.status = .StatusInactive)) (fun y => ?_) x
    rw [h0]
  · refine filtered_iff_unfiltered (plansForProvider_exact hi hc hw ha status) (plans_exact hi hc 0)
      (fun x => x.prov = a ∧ statusMatches status x.status = true) (fun y => ?_) x
    rw [h0]
    exact exists_and_iff (getPlan s) (fun x => x.prov = a ∧ statusMatches status x.status = true) y

/-! ## C09 (listing half): the statement and the theorem -/

/-- What C09 says about the filtered listings of one state: every handler, paged by key or by offset,
with any page size, in either direction, returns exactly the records with the requested attribute, each
once, and never reports an internal (callback) error. -/
structure ListingsExact (s : State) : Prop where
  sessionsForAccount : ∀ a, AddrOK a → PagesEnumerate (querySessionsForAccount s a) (sessionsForAccountStore s a).length
    (fun x => ∃ i, s.sessions.get i = some x ∧ x.addr = a)
  sessionsForNode : ∀ n, AddrOK n → PagesEnumerate (querySessionsForNode s n) (sessionsForNodeStore s n).length
    (fun x => ∃ i, s.sessions.get i = some x ∧ x.node = n)
  sessionsForSubscription : ∀ id, id < B64 →
    PagesEnumerate (querySessionsForSubscription s id) (sessionsForSubscriptionStore s id).length
      (fun x => ∃ i, s.sessions.get i = some x ∧ x.sub = id)
  sessionsForAllocation : ∀ id a, id < B64 → AddrOK a →
    PagesEnumerate (querySessionsForAllocation s id a) (sessionsForAllocationStore s id a).length
      (fun x => ∃ i, s.sessions.get i = some x ∧ x.sub = id ∧ x.addr = a)
  subscriptionsForAccount : ∀ a, AddrOK a →
    PagesEnumerate (querySubscriptionsForAccount s a) (subscriptionsForAccountStore s a).length
      (fun x => ∃ i, s.subs.get i = some x ∧ (x.addr = a ∨ s.allocs.has (i, a) = true))
  subscriptionsForNode : ∀ n, AddrOK n →
    PagesEnumerate (querySubscriptionsForNode s n) (subscriptionsForNodeStore s n).length
      (fun x => ∃ i, s.subs.get i = some x ∧ ∃ gb hr dep, x.kind = .node n gb hr dep)
  subscriptionsForPlan : ∀ id, id < B64 →
    PagesEnumerate (querySubscriptionsForPlan s id) (subscriptionsForPlanStore s id).length
      (fun x => ∃ i, s.subs.get i = some x ∧ ∃ d, x.kind = .plan id d)
  allocations : ∀ id, id < B64 →
    PagesEnumerate (queryAllocations s id) (allocationsStore s id).length (fun x => ∃ a, s.allocs.get (id, a) = some x)
  payoutsForAccount : ∀ a, AddrOK a → PagesEnumerate (queryPayoutsForAccount s a) (payoutsForAccountStore s a).length
    (fun x => ∃ i, s.payouts.get i = some x ∧ x.addr = a)
  payoutsForNode : ∀ n, AddrOK n → PagesEnumerate (queryPayoutsForNode s n) (payoutsForNodeStore s n).length
    (fun x => ∃ i, s.payouts.get i = some x ∧ x.node = n)
  nodesForPlan : ∀ id status, id < B64 →
    PagesEnumerate (queryNodesForPlan s id status) (nodesForPlanStore s id).length
      (fun x => ∃ n, s.nodeForPlan.has (id, n) = true ∧ getNode s n = some x ∧ statusMatches status x.status = true)
  plansForProvider : ∀ a status, AddrOK a →
    PagesEnumerate (queryPlansForProvider s a status) (plansForProviderStore s a).length
      (fun x => ∃ i, getPlan s i = some x ∧ x.prov = a ∧ statusMatches status x.status = true)
  providers : ∀ status, PagesEnumerate (queryProviders s status) (providersStore s status).length
    (fun x => (∃ a, getProvider s a = some x) ∧ (status = 1 → x.status = .StatusActive) ∧ (status = 3 → x.status = .StatusInactive))
  nodes : ∀ status, PagesEnumerate (queryNodes s status) (nodesStore s status).length
    (fun x => (∃ a, getNode s a = some x) ∧ (status = 1 → x.status = .StatusActive) ∧ (status = 3 → x.status = .StatusInactive))
  plans : ∀ status, PagesEnumerate (queryPlans s status) (plansStore s status).length
    (fun x => (∃ i, getPlan s i = some x) ∧ (status = 1 → x.status = .StatusActive) ∧ (status = 3 → x.status = .StatusInactive))

theorem listingsExact_of_inv {s : State} (hi : StructInv s) (hc : CountersOK s) (hw : AddrsOK s) : ListingsExact s where
  sessionsForAccount := fun _ ha => sessionsForAccount_pages hi hc hw ha
  sessionsForNode := fun _ ha => sessionsForNode_pages hi hc hw ha
  sessionsForSubscription := fun _ hid => sessionsForSubscription_pages hi hc hid
  sessionsForAllocation := fun _ _ hid ha => sessionsForAllocation_pages hi hc hw hid ha
  subscriptionsForAccount := fun _ ha => subscriptionsForAccount_pages hi hc hw ha
  subscriptionsForNode := fun _ ha => subscriptionsForNode_pages hi hc hw ha
  subscriptionsForPlan := fun _ hid => subscriptionsForPlan_pages hi hc hid
  allocations := fun _ hid => allocations_pages hi hc hw hid
  payoutsForAccount := fun _ ha => payoutsForAccount_pages hi hc hw ha
  payoutsForNode := fun _ ha => payoutsForNode_pages hi hc hw ha
  nodesForPlan := fun _ status hid => nodesForPlan_pages hi hc hw hid status
  plansForProvider := fun _ status ha => plansForProvider_pages hi hc hw ha status
  providers := fun status => providers_pages hi hw status
  nodes := fun status => nodes_pages hi hw status
  plans := fun status => plans_pages hi hc status

/-- **C09, listing half** — the statement: in every reachable state in which fewer than `2^64` identifiers
have been issued, every filtered listing is exact. -/
def C09Listings : Prop := ∀ s, Reachable s → CountersOK s → ListingsExact s

/-- **C09, listing half** — proved. -/
theorem listings_exact : C09Listings := fun _ hr hc =>
  listingsExact_of_inv hr.structInv hc (addrsOK_of_reachable hr)

/-- The statement without the bound on the counters, kept as a definition: it is not provable for this model,
whose counters are unbounded naturals while an identifier occupies 8 key bytes
(`index_keys_collide_beyond_u64`); on the real chain the counters are `uint64`. -/
def C09ListingsUnbounded : Prop := ∀ s, Reachable s → ListingsExact s

/-- Why `CountersOK` is needed: identifiers `i` and `i + 2^64` have the same by-account index key (and the
same for every other index), and the callback reads both back as `i`. -/
theorem index_keys_collide_beyond_u64 (a : Addr) (i : Nat) :
    session.SessionForAccountKey a (i + B64) = session.SessionForAccountKey a i ∧
    ∀ (get : Nat → Option Session), byIndexId get (u64be (i + B64)) () = byIndexId get (u64be i) () := by
  refine ⟨?_, fun get => ?_⟩
  · unfold session.SessionForAccountKey; rw [u64be_add_B64]
  · rw [u64be_add_B64]

/-- The filtered listings of a reachable state are sub-listings of the unfiltered ones, cut out by the
attribute (sessions, subscriptions, payouts, status filters). -/
theorem listings_filter_unfiltered {s : State} (hr : Reachable s) (hc : CountersOK s) :
    (∀ x : Session, (∀ a, AddrOK a → (x ∈ listed (byIndexId s.sessions.get) (sessionsForAccountStore s a) ↔
        x ∈ listed (fun _ v => some v) (sessionsStore s) ∧ x.addr = a)) ∧
      (∀ n, AddrOK n → (x ∈ listed (byIndexId s.sessions.get) (sessionsForNodeStore s n) ↔
        x ∈ listed (fun _ v => some v) (sessionsStore s) ∧ x.node = n)) ∧
      (∀ id, id < B64 → (x ∈ listed (byIndexId s.sessions.get) (sessionsForSubscriptionStore s id) ↔
        x ∈ listed (fun _ v => some v) (sessionsStore s) ∧ x.sub = id)) ∧
      (∀ id a, id < B64 → AddrOK a → (x ∈ listed (byIndexId s.sessions.get) (sessionsForAllocationStore s id a) ↔
        x ∈ listed (fun _ v => some v) (sessionsStore s) ∧ x.sub = id ∧ x.addr = a))) ∧
    (∀ (x : Sub) a, AddrOK a → (x ∈ listed (byIndexId s.subs.get) (subscriptionsForAccountStore s a) ↔
      x ∈ listed (fun _ v => some v) (subscriptionsStore s) ∧ (x.addr = a ∨ s.allocs.has (x.id, a) = true))) ∧
    (∀ (p : Payout) a, AddrOK a → (p ∈ listed (byIndexId s.payouts.get) (payoutsForAccountStore s a) ↔
      p ∈ listed (fun _ v => some v) (payoutsStore s) ∧ p.addr = a)) :=
  let hi := hr.structInv
  let hw := addrsOK_of_reachable hr
  ⟨fun x => session_listings_filter hi hc hw x, (subscription_listings_filter hi hc hw).1,
   (subscription_listings_filter hi hc hw).2.2.2.1⟩

/-! ## Protocol level: `runQuery` never answers `reject:internal` for a filtered listing

(unless the request itself carries both an offset and a key, which the SDK refuses with an error that the
handlers wrap as `Internal`). -/

theorem withAddr_not_internal (f : QFields) (want : Role) (k : Addr → QAnswer)
    (hk : ∀ a, AddrOK a → (k a).1 ≠ "reject:internal") : (withAddr f want k).1 ≠ "reject:internal" := by
  rcases withAddr_cases f want k with e | e | ⟨a, ha, e⟩
  · rw [e]; decide
  · rw [e]; decide
  · rw [e]; exact hk a ha

theorem paged_not_internal {α β : Type} [Inhabited β] {store : Store α} {f : Bytes → α → Option β} {R : β → Prop}
    (h : ExactListing store (fun _ _ => true) f R) (render : β → String) (req : PageRequest)
    (hreq : ¬ (req.offset > 0 ∧ req.key.isSome = true)) :
    (pagedAnswer render (paginate store req (Callback.appendAlways f))).1 ≠ "reject:internal" :=
  pagedAnswer_not_internal render (paginate_ok_or_panic h.totalAll req hreq)

theorem filtered_not_internal {α β : Type} [Inhabited β] {store : Store α} {pred : Bytes → α → Bool}
    {f : Bytes → α → Option β} {R : β → Prop}
    (h : ExactListing store pred f R) (render : β → String) (req : PageRequest)
    (hreq : ¬ (req.offset > 0 ∧ req.key.isSome = true)) :
    (pagedAnswer render (filteredPaginate store req (Callback.filter pred f))).1 ≠ "reject:internal" :=
  pagedAnswer_not_internal render (filteredPaginate_ok_or_panic h.totalOn req hreq)

/-- The filtered listing kinds of the line protocol. -/
def filteredKinds : List String :=
  ["sessionsForAccount", "sessionsForNode", "sessionsForSubscription", "sessionsForAllocation",
   "subscriptionsForAccount", "subscriptionsForNode", "subscriptionsForPlan", "allocations",
   "payoutsForAccount", "payoutsForNode", "nodesForPlan", "plansForProvider", "providers", "nodes", "plans"]

/-- **No internal error**: in a reachable state (with fewer than `2^64` ids issued) a well-formed request
for any filtered listing that does not carry both an offset and a key is never answered `reject:internal`
— whatever the filter argument, the page size, the key, the direction. -/
theorem runQuery_never_internal {s : State} (hr : Reachable s) (hc : CountersOK s) (kind : String)
    (hkind : kind ∈ filteredKinds) (fields : QFields) (r : QReq) (hp : parseQReq fields = some r)
    (hreq : ¬ (r.page.offset > 0 ∧ r.page.key.isSome = true)) :
    (runQuery s kind fields).1 ≠ "reject:internal" := by
  have hi := hr.structInv
  have hw := addrsOK_of_reachable hr
  have hid := parseQReq_id_lt hp
  simp only [filteredKinds, List.mem_cons, List.not_mem_nil, or_false] at hkind
  rcases hkind with rfl | rfl | rfl | rfl | rfl | rfl | rfl | rfl | rfl | rfl | rfl | rfl | rfl | rfl | rfl <;>
    unfold runQuery <;> simp only [hp]
  · exact withAddr_not_internal _ _ _ fun a ha => paged_not_internal (sessionsForAccount_exact hi hc hw ha) _ _ hreq
  · exact withAddr_not_internal _ _ _ fun a ha => paged_not_internal (sessionsForNode_exact hi hc hw ha) _ _ hreq
  · exact paged_not_internal (sessionsForSubscription_exact hi hc hid) _ _ hreq
  · exact withAddr_not_internal _ _ _ fun a ha => paged_not_internal (sessionsForAllocation_exact hi hc hw hid ha) _ _ hreq
  · exact withAddr_not_internal _ _ _ fun a ha => paged_not_internal (subscriptionsForAccount_exact hi hc hw ha) _ _ hreq
  · exact withAddr_not_internal _ _ _ fun a ha => paged_not_internal (subscriptionsForNode_exact hi hc hw ha) _ _ hreq
  · exact paged_not_internal (subscriptionsForPlan_exact hi hc hid) _ _ hreq
  · exact paged_not_internal (allocations_exact hi hc hw hid) _ _ hreq
  · exact withAddr_not_internal _ _ _ fun a ha => paged_not_internal (payoutsForAccount_exact hi hc hw ha) _ _ hreq
  · exact withAddr_not_internal _ _ _ fun a ha => paged_not_internal (payoutsForNode_exact hi hc hw ha) _ _ hreq
  · exact filtered_not_internal (nodesForPlan_exact hi hc hw hid r.status) _ _ hreq
  · exact withAddr_not_internal _ _ _ fun a ha => filtered_not_internal (plansForProvider_exact hi hc hw ha r.status) _ _ hreq
  · exact paged_not_internal (providers_exact hi hw r.status) _ _ hreq
  · exact paged_not_internal (nodes_exact hi hw r.status) _ _ hreq
  · exact paged_not_internal (plans_exact hi hc r.status) _ _ hreq

/-! ## Non-vacuity: a reachable state satisfying all hypotheses -/

example : ∃ s, Reachable s ∧ CountersOK s ∧ ListingsExact s := by
  let g : Genesis := { time := 1700000000000000000, params := default, balances := [([3], "udvpn", 5)] }
  have hr : Reachable g.state := ⟨g, [], Or.inl rfl⟩
  have hc : CountersOK g.state := by
    have e : MFrame g.base g.state := genesis_mframe g
    unfold MFrame at e
    refine ⟨?_, ?_, ?_⟩ <;> rw [e] <;> decide
  exact ⟨g.state, hr, hc, listings_exact _ hr hc⟩

/-! ## A concrete table with prefix-related accounts: `[3]` and `[3, 3]`

Sessions 1 and 3 belong to account `[3]`, session 2 to account `[3, 3]`, whose address extends `[3]`.
`StoreView.of_ownerIndex` applies to this table (its hypotheses are checked by evaluation), and the
by-account listings come out separated; so do the answers of the handler. -/

def exSession (i : Nat) (a : Addr) : Session :=
  { id := i, sub := 1, node := [9], addr := a, up := 0, down := 0, dur := 0, inactiveAt := 10,
    status := .StatusActive, statusAt := 5 }

def exState : State :=
  { sessions := [(1, exSession 1 [3]), (2, exSession 2 [3, 3]), (3, exSession 3 [3])],
    sessForAcc := [(([3], 1), ()), (([3, 3], 2), ()), (([3], 3), ())], sessCount := some 3 }

theorem exState_view (a : Addr) (ha : AddrOK a) :
    StoreView (sessionsForAccountStore exState a)
      ((exState.sessForAcc.filter fun p => decide (p.1.1 = a)).map fun p => (u64be p.1.2, ())) := by
  refine StoreView.of_ownerIndex AddrOK exState.sessForAcc (by unfold Tbl.Nodup; decide) (fun a i => (a, i)) (·.1) (·.2)
    (fun _ => rfl) session.GetSessionForAccountKeyPrefix _ (fun _ => rfl)
    (fun _ _ ha hk _ => prefix_isolates_session_GetSessionForAccountKeyPrefix ha hk) ?_ a ha
  intro k hk
  have hm : k ∈ exState.sessForAcc.keys := (Tbl.mem_keys_iff_has_A _ _).mpr hk
  have : ∀ k ∈ exState.sessForAcc.keys, (1 ≤ k.1.length ∧ k.1.length ≤ 255) ∧ k.2 < B64 := by decide
  exact this k hm

/-- The account `[3]` sees its two sessions' index entries, `[3, 3]` its one — none of the other's. -/
theorem exState_stores :
    sessionsForAccountStore exState [3] = [(u64be 1, ()), (u64be 3, ())] ∧
    sessionsForAccountStore exState [3, 3] = [(u64be 2, ())] :=
  ⟨(exState_view [3] ⟨by decide, by decide⟩).eq_of_sorted (by decide) (by decide),
   (exState_view [3, 3] ⟨by decide, by decide⟩).eq_of_sorted (by decide) (by decide)⟩

/-- … and the handler answers accordingly (one page, then paging by one). -/
example :
    querySessionsForAccount exState [3] { limit := 10 } = .ok ([exSession 1 [3], exSession 3 [3]], ⟨none, 0⟩) ∧
    querySessionsForAccount exState [3, 3] { limit := 10 } = .ok ([exSession 2 [3, 3]], ⟨none, 0⟩) ∧
    pagesAux (querySessionsForAccount exState [3]) 1 false 3 none = .ok [[exSession 1 [3]], [exSession 3 [3]]] := by
  unfold querySessionsForAccount
  rw [exState_stores.1, exState_stores.2]
  decide

end Hub.Props.C09
