import Hub.Props.C12
import Hub.Props.C11
/-
C12, continued — the first block of a re-imported chain.

A genesis and the first block after it share one commit. `node.InitGenesis` writes every node parameter with
`SetParams`, which marks the four price-bound keys as modified in the params transient store, so the state a
re-import yields has all four `modified` flags set (`Hub.Model.Gen.setNodeParams`, as `Genesis.base` for the
start of a history) and the first `endBlock` on it runs the node price sweep over every imported node. The
harness does the same on the real application (`bootGenesis` does not commit; corpus/S_C12w15.ops).

Proved here:
* `reimport_marks_all_bounds` — every successful re-import ends with all four flags set;
* `imported_pricesInv` — the imported state satisfies the invariant of C11 (`PricesInv`) with NO assumption on
  the prices of the exported node records: every bound vector is exempt until the sweep has run;
* `first_block_after_reimport` — hence after the first completed end-of-block of ANY continuation of the
  re-imported chain (any messages, any governance changes, min ≤ max at the ends of blocks) every imported node is
  within all four bound vectors in force, and the flags are clear: an exported genesis whose node prices
  violate a bound (they are not checked against the bounds by genesis validation) is repaired by the first block.
-/
namespace Hub.Props.C12
open Hub.SDK Hub.Model Hub.Model.Gen
open Hub.Props.C11 (BoundsWF PricesInv AllPricesOK D5AtEnds)

/-- All four price-bound flags are set in the state a re-import yields. -/
theorem reimport_marks_all_bounds {s s' : State} (h : reimport s = some s') :
    s'.modified = { maxGB := true, minGB := true, maxHr := true, minHr := true } := by
  rw [reimport_eq_imported h]
  exact (imported_sdk s).2.2.2.2.2.2.2.2.2.1

/-- The imported state satisfies C11's invariant whatever the exported prices are. -/
theorem imported_pricesInv {s : State} (h : GenWF s) (hb : BoundsWF s.params) : PricesInv (imported s) := by
  have ha := agree_imported h
  refine ⟨⟨?_, ?_, ?_⟩, ?_, ?_⟩
  · intro a n hn
    rw [ha.nodeActive a] at hn
    exact h.node.ownA a n hn
  · intro a n hn
    rw [ha.nodeInactive a] at hn
    exact h.node.ownI a n hn
  · intro a
    rw [ha.nodeActive a, ha.nodeInactive a]
    cases hg : s.nodeActive.get a with
    | none => exact Or.inl rfl
    | some n => exact Or.inr (h.node.disj a n hg)
  · rw [imported_params]; exact hb
  · intro a n _
    rw [(imported_sdk s).2.2.2.2.2.2.2.2.2.1]
    exact ⟨Or.inl rfl, Or.inl rfl, Or.inl rfl, Or.inl rfl⟩

/-- **The first block of a re-imported chain sweeps.** For every well-formed state whose bound vectors have
distinct denominations: the re-import succeeds, and after the first completed end-of-block of any continuation
`pre` of the new chain every node is within all four current bound vectors and the flags are clear — also when
the exported records were not. -/
theorem first_block_after_reimport (s : State) (h : GenWF s) (hb : BoundsWF s.params) :
    ∃ s', reimport s = some s' ∧ PricesInv s' ∧
      ∀ (pre : List Op) (s1 s2 : State), run s' pre = some s1 → D5AtEnds s' (pre ++ [Op.endB]) →
        step s1 Op.endB = some s2 → AllPricesOK s2 ∧ s2.modified = {} :=
  ⟨imported s, reimport_ok h, imported_pricesInv h hb, fun pre s1 s2 hrun hd hend =>
    Hub.Props.C11.prices_at_block_boundaries (imported s) (imported_pricesInv h hb) pre s1 s2 hrun hd hend⟩

/-- The hypotheses hold on the rich witness state of `Props/C12` (a reachable state with providers, nodes in both
partitions, plans, links, sessions, swaps): its re-import is swept by the first block. -/
example : ∃ s', reimport wRich = some s' ∧ PricesInv s' ∧
    s'.modified = { maxGB := true, minGB := true, maxHr := true, minHr := true } := by
  obtain ⟨s', h1, h2, _⟩ := first_block_after_reimport wRich wRich_wf
    ⟨by unfold DistinctDenoms; decide +kernel, by unfold DistinctDenoms; decide +kernel,
     by unfold DistinctDenoms; decide +kernel, by unfold DistinctDenoms; decide +kernel⟩
  exact ⟨s', h1, h2, reimport_marks_all_bounds h1⟩

end Hub.Props.C12
