import Hub.Lemmas.Calendar
import Hub.Lemmas.CalendarBytes
/-
C17 — The byte order of formatted times is their chronological order.

Deadline-queue store keys are `prefix ++ formatTimeBytes t ++ …` and the block hooks iterate them in
byte order, relying on byte order = time order.  For every instant of the years 1..9999
(`tMin ≤ t < tMax`) the 29-byte rendering `YYYY-MM-DDTHH:MM:SS.nnnnnnnnn` is strictly monotone in
`t` for the lexicographic order `bytesLt`; every field fits its zero-padded width.

The calendar part rests on the complete table of one 400-year era (146097 days, evaluated by the
kernel in `Hub.Lemmas.CalendarChunk*`) and the periodicity of `civilFromDays`.
-/
namespace Hub.Props.C17
open Hub.SDK Hub.Lemmas.Calendar

/-- 0001-01-01T00:00:00Z in Unix nanoseconds (Go's zero time). -/
def tMin : Int := -62135596800000000000
/-- 10000-01-01T00:00:00Z in Unix nanoseconds (exclusive upper end of the four-digit years). -/
def tMax : Int := 253402300800000000000

theorem tMin_eq_zeroTime : tMin = zeroTime := by decide +kernel
theorem tMin_eq : tMin = -62135596800 * 10 ^ 9 := by decide +kernel
theorem tMax_eq : tMax = 253402300800 * 10 ^ 9 := by decide +kernel

theorem nsPerDay_eq : nsPerDay = 86400000000000 := by decide +kernel
theorem nsPerSec_eq : nsPerSec = 1000000000 := rfl

/-! ### The fields of an instant (`Time` is an abbreviation of `Int`) -/

def tfYear (t : Int) : Int := (civilFromDays (t / nsPerDay)).1
def tfMonth (t : Int) : Int := (civilFromDays (t / nsPerDay)).2.1
def tfDay (t : Int) : Int := (civilFromDays (t / nsPerDay)).2.2
def tfHour (t : Int) : Int := t % nsPerDay / nsPerSec / 3600
def tfMinute (t : Int) : Int := t % nsPerDay / nsPerSec % 3600 / 60
def tfSecond (t : Int) : Int := t % nsPerDay / nsPerSec % 60
def tfNano (t : Int) : Int := t % nsPerDay % nsPerSec

theorem timeFields_eq (t : Int) :
    timeFields t = (tfYear t, tfMonth t, tfDay t, tfHour t, tfMinute t, tfSecond t, tfNano t) := rfl

/-- The rendering of seven fields (right-nested form of `formatTimeBytes`). -/
def fmt7 (y m d hh mm ss ns : Nat) : Bytes :=
  padDigits 4 y ++ (45 :: (padDigits 2 m ++ (45 :: (padDigits 2 d ++ (84 :: (padDigits 2 hh ++
    (58 :: (padDigits 2 mm ++ (58 :: (padDigits 2 ss ++ (46 :: padDigits 9 ns)))))))))))

theorem formatTimeBytes_eq (t : Int) :
    formatTimeBytes t = fmt7 (tfYear t).toNat (tfMonth t).toNat (tfDay t).toNat (tfHour t).toNat
      (tfMinute t).toNat (tfSecond t).toNat (tfNano t).toNat := by
  simp only [formatTimeBytes, timeFields_eq, fmt7, List.append_assoc, List.cons_append, List.nil_append]

/-! ### 1. Length (all instants) -/

theorem formatTimeBytes_length (t : Int) : (formatTimeBytes t).length = 29 := by
  simp only [formatTimeBytes_eq, fmt7, List.length_append, List.length_cons, padDigits_length]

/-! ### 4. The last byte is an ASCII digit (all instants) -/

/-- `formatTimeBytes t = init ++ [d]` with `d` an ASCII digit: the shape `prefixEnd` needs. -/
theorem formatTimeBytes_last_digit (t : Int) :
    ∃ (init : Bytes) (d : UInt8), formatTimeBytes t = init ++ [d] ∧ init.length = 28 ∧
      48 ≤ d.toNat ∧ d.toNat ≤ 57 := by
  refine ⟨(formatTimeBytes t).dropLast, digit (tfNano t).toNat, ?_, ?_, ?_, ?_⟩
  · simp only [formatTimeBytes_eq, fmt7, padDigits]
    simp only [← List.append_assoc, ← List.cons_append, List.dropLast_concat]
  · rw [List.length_dropLast, formatTimeBytes_length]
  · rw [digit_toNat]; omega
  · rw [digit_toNat]; omega

theorem formatTimeBytes_getLast? (t : Int) :
    ∃ d : UInt8, (formatTimeBytes t).getLast? = some d ∧ 48 ≤ d.toNat ∧ d.toNat ≤ 57 := by
  obtain ⟨init, d, h, _, h1, h2⟩ := formatTimeBytes_last_digit t
  exact ⟨d, by rw [h, List.getLast?_append]; rfl, h1, h2⟩

/-- `prefixEnd` of a string ending in a byte below 255 increments that byte. -/
theorem prefixEnd_append_singleton (x : Bytes) (d : UInt8) (hd : d ≠ 255) :
    prefixEnd (x ++ [d]) = some (x ++ [d + 1]) := by
  have h : ∀ b : Bytes, b ≠ [] → prefixEnd b = (prefixEnd.go b.reverse).map List.reverse := by
    intro b hb
    cases b with
    | nil => exact absurd rfl hb
    | cons c cs => rfl
  rw [h _ (by simp), List.reverse_append, List.reverse_singleton, List.singleton_append, prefixEnd.go]
  simp only [hd, if_false, Option.map_some, List.reverse_cons, List.reverse_reverse]

/-- The end of the key range with prefix `p ++ formatTimeBytes t`: the last digit incremented. -/
theorem formatTimeBytes_prefixEnd (p : Bytes) (t : Int) :
    ∃ (init : Bytes) (d : UInt8), formatTimeBytes t = init ++ [d] ∧ 48 ≤ d.toNat ∧ d.toNat ≤ 57 ∧
      prefixEnd (p ++ formatTimeBytes t) = some (p ++ init ++ [d + 1]) := by
  obtain ⟨init, d, h, _, h1, h2⟩ := formatTimeBytes_last_digit t
  refine ⟨init, d, h, h1, h2, ?_⟩
  have hd : d ≠ 255 := by
    intro e; rw [e] at h2; exact absurd h2 (by decide)
  rw [h, ← List.append_assoc, prefixEnd_append_singleton _ _ hd]

/-! ### 5. Field ranges on `[tMin, tMax)` -/

/-- Hour, minute, second, nanosecond are in range for every instant. -/
theorem timeOfDay_range (t : Int) :
    0 ≤ tfHour t ∧ tfHour t ≤ 23 ∧ 0 ≤ tfMinute t ∧ tfMinute t ≤ 59 ∧
      0 ≤ tfSecond t ∧ tfSecond t ≤ 59 ∧ 0 ≤ tfNano t ∧ tfNano t ≤ 999999999 := by
  simp only [tfHour, tfMinute, tfSecond, tfNano, nsPerDay_eq, nsPerSec_eq]
  omega

/-- Month and day are in range for every instant. -/
theorem monthDay_range (t : Int) :
    1 ≤ tfMonth t ∧ tfMonth t ≤ 12 ∧ 1 ≤ tfDay t ∧ tfDay t ≤ 31 :=
  civil_range (t / nsPerDay)

theorem year_range {t : Int} (h0 : tMin ≤ t) (h1 : t < tMax) : 1 ≤ tfYear t ∧ tfYear t ≤ 9999 := by
  unfold tMin at h0
  unfold tMax at h1
  apply civil_year_range
  · simp only [nsPerDay_eq]; omega
  · simp only [nsPerDay_eq]; omega

/-- All seven fields of `timeFields t` fit their rendered widths on `[tMin, tMax)`. -/
theorem timeFields_range {t : Int} (h0 : tMin ≤ t) (h1 : t < tMax) :
    ∃ y m d hh mm ss ns : Int, timeFields t = (y, m, d, hh, mm, ss, ns) ∧
      1 ≤ y ∧ y ≤ 9999 ∧ 1 ≤ m ∧ m ≤ 12 ∧ 1 ≤ d ∧ d ≤ 31 ∧ 0 ≤ hh ∧ hh ≤ 23 ∧
      0 ≤ mm ∧ mm ≤ 59 ∧ 0 ≤ ss ∧ ss ≤ 59 ∧ 0 ≤ ns ∧ ns ≤ 999999999 := by
  have a := year_range h0 h1
  have b := monthDay_range t
  have c := timeOfDay_range t
  exact ⟨_, _, _, _, _, _, _, timeFields_eq t, a.1, a.2, b.1, b.2.1, b.2.2.1, b.2.2.2,
    c.1, c.2.1, c.2.2.1, c.2.2.2.1, c.2.2.2.2.1, c.2.2.2.2.2.1, c.2.2.2.2.2.2.1, c.2.2.2.2.2.2.2⟩

/-! ### 2. Strict monotonicity -/

/-- Lexicographic order of seven fields that fit their widths gives the byte order. -/
theorem fmt7_lt {y m d hh mm ss ns y' m' d' hh' mm' ss' ns' : Nat}
    (by' : y' < 10000) (bm' : m' < 100) (bd' : d' < 100) (bhh' : hh' < 100) (bmm' : mm' < 100)
    (bss' : ss' < 100) (bns' : ns' < 1000000000)
    (h : y < y' ∨ (y = y' ∧ (m < m' ∨ (m = m' ∧ (d < d' ∨ (d = d' ∧ (hh < hh' ∨ (hh = hh' ∧
      (mm < mm' ∨ (mm = mm' ∧ (ss < ss' ∨ (ss = ss' ∧ ns < ns')))))))))))) :
    bytesLt (fmt7 y m d hh mm ss ns) (fmt7 y' m' d' hh' mm' ss' ns') = true := by
  unfold fmt7
  have L : ∀ w a b, (padDigits w a).length = (padDigits w b).length := by
    intro w a b; rw [padDigits_length, padDigits_length]
  rcases h with h | ⟨rfl, h⟩
  · exact blt_append_of_lt _ _ (L _ _ _) (padDigits_lt (by omega) h)
  rw [blt_append_left, blt_cons_same]
  rcases h with h | ⟨rfl, h⟩
  · exact blt_append_of_lt _ _ (L _ _ _) (padDigits_lt (by omega) h)
  rw [blt_append_left, blt_cons_same]
  rcases h with h | ⟨rfl, h⟩
  · exact blt_append_of_lt _ _ (L _ _ _) (padDigits_lt (by omega) h)
  rw [blt_append_left, blt_cons_same]
  rcases h with h | ⟨rfl, h⟩
  · exact blt_append_of_lt _ _ (L _ _ _) (padDigits_lt (by omega) h)
  rw [blt_append_left, blt_cons_same]
  rcases h with h | ⟨rfl, h⟩
  · exact blt_append_of_lt _ _ (L _ _ _) (padDigits_lt (by omega) h)
  rw [blt_append_left, blt_cons_same]
  rcases h with h | ⟨rfl, h⟩
  · exact blt_append_of_lt _ _ (L _ _ _) (padDigits_lt (by omega) h)
  rw [blt_append_left, blt_cons_same]
  exact padDigits_lt (by omega) h

/-- Within one day the (hour, minute, second, nanosecond) tuple is ordered like the instant. -/
theorem timeOfDay_lex {t t' : Int} (hd : t / nsPerDay = t' / nsPerDay) (h : t < t') :
    tfHour t < tfHour t' ∨ (tfHour t = tfHour t' ∧ (tfMinute t < tfMinute t' ∨ (tfMinute t = tfMinute t' ∧
      (tfSecond t < tfSecond t' ∨ (tfSecond t = tfSecond t' ∧ tfNano t < tfNano t'))))) := by
  simp only [tfHour, tfMinute, tfSecond, tfNano, nsPerDay_eq, nsPerSec_eq] at hd ⊢
  omega

theorem formatTimeBytes_strictMono {t t' : Int} (h0 : tMin ≤ t) (h : t < t') (h1 : t' < tMax) :
    bytesLt (formatTimeBytes t) (formatTimeBytes t') = true := by
  have ya := year_range h0 (Int.lt_trans h h1)
  have yb := year_range (Int.le_trans h0 (Int.le_of_lt h)) h1
  have ma := monthDay_range t
  have mb := monthDay_range t'
  have ca := timeOfDay_range t
  have cb := timeOfDay_range t'
  rw [formatTimeBytes_eq, formatTimeBytes_eq]
  apply fmt7_lt <;> try omega
  by_cases hd : t / nsPerDay = t' / nsPerDay
  · have e1 : tfYear t = tfYear t' := by simp only [tfYear, hd]
    have e2 : tfMonth t = tfMonth t' := by simp only [tfMonth, hd]
    have e3 : tfDay t = tfDay t' := by simp only [tfDay, hd]
    have l := timeOfDay_lex hd h
    omega
  · have hlt : t / nsPerDay < t' / nsPerDay := by
      simp only [nsPerDay_eq] at hd ⊢; omega
    have l := civil_lex hlt
    simp only [tfYear, tfMonth, tfDay] at ya yb ma mb ⊢
    omega

/-! ### 3. Corollaries -/

theorem formatTimeBytes_lt_iff {t t' : Int} (h0 : tMin ≤ t) (h1 : t < tMax) (h0' : tMin ≤ t')
    (h1' : t' < tMax) : bytesLt (formatTimeBytes t) (formatTimeBytes t') = true ↔ t < t' := by
  constructor
  · intro hb
    by_cases hlt : t < t'
    · exact hlt
    · by_cases he : t = t'
      · rw [he, blt_irrefl] at hb; exact absurd hb (by decide)
      · have := blt_asymm (formatTimeBytes_strictMono h0' (by omega : t' < t) h1)
        rw [this] at hb; exact absurd hb (by decide)
  · intro hlt; exact formatTimeBytes_strictMono h0 hlt h1'

theorem formatTimeBytes_injective {t t' : Int} (h0 : tMin ≤ t) (h1 : t < tMax) (h0' : tMin ≤ t')
    (h1' : t' < tMax) (he : formatTimeBytes t = formatTimeBytes t') : t = t' := by
  by_cases hlt : t < t'
  · have := formatTimeBytes_strictMono h0 hlt h1'
    rw [he, blt_irrefl] at this; exact absurd this (by decide)
  · by_cases hgt : t' < t
    · have := formatTimeBytes_strictMono h0' hgt h1
      rw [he, blt_irrefl] at this; exact absurd this (by decide)
    · omega

/-- `bytesLe` form: byte order is the (non-strict) time order. -/
theorem formatTimeBytes_le_iff {t t' : Int} (h0 : tMin ≤ t) (h1 : t < tMax) (h0' : tMin ≤ t')
    (h1' : t' < tMax) : bytesLe (formatTimeBytes t) (formatTimeBytes t') = true ↔ t ≤ t' := by
  unfold bytesLe
  have := formatTimeBytes_lt_iff h0' h1' h0 h1
  rw [Bool.not_eq_true', ← Bool.not_eq_true, this]
  omega

/-! ### Non-vacuity: the model renders known instants as Go does -/

example : formatTimeBytes 1700000010000000000 = "2023-11-14T22:13:30.000000000".toUTF8.toList := by
  decide +kernel
example : formatTimeBytes zeroTime = "0001-01-01T00:00:00.000000000".toUTF8.toList := by decide +kernel
example : formatTimeBytes tMin = "0001-01-01T00:00:00.000000000".toUTF8.toList := by decide +kernel
example : formatTimeBytes (tMax - 1) = "9999-12-31T23:59:59.999999999".toUTF8.toList := by decide +kernel
example : formatTimeBytes 0 = "1970-01-01T00:00:00.000000000".toUTF8.toList := by decide +kernel
example : formatTimeBytes (-1) = "1969-12-31T23:59:59.999999999".toUTF8.toList := by decide +kernel
example : formatTimeBytes 951782400123456789 = "2000-02-29T00:00:00.123456789".toUTF8.toList := by
  decide +kernel
example : bytesLt (formatTimeBytes 1700000010000000000) (formatTimeBytes 1700000010000000001) = true := by
  decide +kernel
/-- Outside the range the property fails: year 10000 is rendered with its last four digits. -/
example : bytesLt (formatTimeBytes (tMax - 1)) (formatTimeBytes tMax) = false := by decide +kernel

end Hub.Props.C17
