import Hub.Model.Run
import Hub.Model.Dump
import Hub.Generated.Facts
/-
C10 — State transitions are deterministic: same history, same state and events.

Static half (proof): the regenerated fact table of nondeterminism-prone constructs (map ranges,
`time.Now`, `math/rand`/`crypto/rand`, `go`/`select` statements, floating point) over all
consensus-critical sources equals the justified list below, and the model the implementation is
tied to is a pure function of genesis and history (stored state, events, dump).
Runtime half (correspondence only): re-executions of the same history in fresh processes with
different GOMAXPROCS are compared byte for byte including the application hash (see check.py).
-/
namespace Hub.Props.C10
open Hub.Model Hub.Generated

/-- The constructs found, each with its justification:
* `types/test_utils.go` (package level) `time.Now`: a test helper (`TestTimeNow`), not referenced by
  any keeper, handler, hook, genesis or codec path;
* `app/app.go ModuleAccountAddrs`, `app/module.go BlockedAccAddrs`: range over the literal
  permission map to BUILD a set (`map[string]bool`) — order-insensitive;
* `app/upgrade.go UpgradeHandler`: range over key tables inside the one-time upgrade handler, writing
  each subspace's key table — order-insensitive writes to disjoint keys, outside the histories of
  the configuration domain (no upgrade plan is scheduled). -/
def justified : List (String × String × String) := [
  ("types/test_utils.go", "", "time.Now"),
  ("app/app.go", "ModuleAccountAddrs", "range-map"),
  ("app/module.go", "BlockedAccAddrs", "range-map"),
  ("app/upgrade.go", "UpgradeHandler", "range-map")]

/-- No map iteration, wall-clock read, randomness, goroutine, `select` or float anywhere in
`x/`, `types/`, `utils/`, `app/` (non-test, non-generated, non-CLI) outside the justified list. -/
theorem no_nondeterministic_construct : Facts.nondetConstructs = justified := by decide

/-- In particular nothing of the kind in any keeper, message server, block hook or genesis file. -/
theorem no_construct_in_modules :
    ∀ e ∈ Facts.nondetConstructs, e.1 ∈ ["types/test_utils.go", "app/app.go", "app/module.go", "app/upgrade.go"] := by decide

/-- Begin-block order relied upon by the model: the hub's inflation hook runs before the SDK mint
module, distribution after it, and the marketplace hook last. -/
theorem begin_order :
    Facts.beginBlockers.idxOf "customminttypes.ModuleName" < Facts.beginBlockers.idxOf "minttypes.ModuleName" ∧
    Facts.beginBlockers.idxOf "minttypes.ModuleName" < Facts.beginBlockers.idxOf "distributiontypes.ModuleName" ∧
    Facts.beginBlockers.idxOf "distributiontypes.ModuleName" < Facts.beginBlockers.idxOf "vpntypes.ModuleName" ∧
    Facts.beginBlockers.idxOf "swaptypes.ModuleName" < Facts.beginBlockers.idxOf "vpntypes.ModuleName" := by decide

/-- End-block order: governance (parameter changes) runs before the marketplace hook of the same
block, so the node re-pricing sweep sees a bound change in the block that made it. -/
theorem end_order :
    Facts.endBlockers.idxOf "govtypes.ModuleName" < Facts.endBlockers.idxOf "vpntypes.ModuleName" := by decide

/-- The model is a function: equal genesis and history give equal stored state, equal ordered
events and equal canonical dumps after every operation. -/
theorem run_is_function (g : State) (ops : List Op) :
    ∀ t1 t2, t1 = runTrace g ops → t2 = runTrace g ops →
      t1 = t2 ∧ t1.map (·.events) = t2.map (·.events) ∧ t1.map dump = t2.map dump := by
  intro t1 t2 h1 h2
  subst h1; subst h2
  exact ⟨rfl, rfl, rfl⟩

end Hub.Props.C10
