import Hub.Lemmas.AllocSteps
/-
C06 — Bandwidth quota is conserved: sharing moves it, usage only consumes it.

"For every allocation, 0 ≤ used ≤ granted at all times; used never decreases and grows only when one
of that holder's sessions is settled, by at most the bytes that session reported.  The granted bytes
of all allocations of a subscription always add up to what was bought (the plan's gigabytes, or the
purchased gigabytes), so sharing quota with another address moves it but never creates or destroys
it and never leaves a holder with less than they already used.  A holder whose quota is exhausted
cannot start a new session."

* `allocBounds_all_histories` — `0 ≤ used ≤ granted` in every state of every history from every
  genesis state; unconditional.  It is carried by `AllocInv` (bounds; allocations stored under their
  own key; every stored plan has positive gigabytes; every stored session has non-negative counters —
  the last two hold because `MsgCreate`/`MsgUpdateDetails` are reachable only through
  `ValidateBasic`).
* `quota_conserved_all_histories` — the grants of a subscription add up to what was bought, in every
  state of every history from every genesis state, given that `CountInv` (C18) is preserved by every
  operation (`hcStep`, proved separately in `Hub/Lemmas/CountSteps.lean`; it is needed for the
  freshness of new subscription ids).  `SubIdx` (C09) along the way comes from
  `Hub/Lemmas/SubIdxSteps.lean`.
* `used_monotone`, `used_grows_only_at_settlement`, `settlement_raises_one_allocation`,
  `share_never_below_used`, `share_conserves`, `exhausted_cannot_start`.

The model follows the code after the two `fix:` commits to `MsgAllocate` (used bytes kept on
re-allocation: `from.granted' = from.granted + to.granted − bytes`; self-allocation rejected).
-/
set_option linter.unusedSimpArgs false
set_option linter.unusedVariables false
set_option linter.unnecessarySeqFocus false

namespace Hub.Props.C06
open Hub.SDK Hub.Model
open Hub.Generated (Status Gigabyte)

/-! ### genesis -/

theorem addBalance_countInv (s : State) (b : Addr × Denom × Int) (hc : CountInv s) : CountInv (addBalance s b) := by
  unfold addBalance
  split
  · exact hc
  · exact ⟨hc.plans, hc.subs, hc.allocs, hc.payouts, hc.sessions, hc.planIdx, hc.subIdx, hc.sessIdx⟩

/-- Every genesis state of the domain satisfies `CountInv` (all hub tables are empty). -/
theorem genesis_countInv (g : Genesis) : CountInv g.state := by
  unfold Genesis.state
  refine foldl_inv CountInv addBalance (fun s b h => addBalance_countInv s b h) _ _ ?_
  refine ⟨?_, ?_, ?_, ?_, ?_, ⟨?_, ?_⟩, ⟨?_, ?_, ?_, ?_, ?_, ?_, ?_, ?_⟩, ⟨?_, ?_, ?_, ?_, ?_⟩⟩ <;>
    intros <;> simp_all [Genesis.base, Tbl.get, Tbl.has]

/-! ### bounds: 0 ≤ used ≤ granted, always -/

/-- One operation keeps the bounds (with the auxiliary facts they depend on). -/
theorem allocInv_step {s s' : State} {op : Op} (h : step s op = some s') (hi : AllocInv s) : AllocInv s' :=
  step_allocInv h hi

/-- **C06 (bounds), all histories**: in every state reached from any genesis state by any history,
every allocation has `0 ≤ used ≤ granted`. -/
theorem allocBounds_all_histories (g : Genesis) (ops : List Op) : ∀ s' ∈ runTrace g.state ops, AllocBounds s' :=
  fun s' h => (allocInv_all_histories ops g.state (genesis_allocInv g) s' h).bounds

/-- The same from any state satisfying the invariant. -/
theorem allocBounds_all_histories_from (s : State) (hi : AllocInv s) (ops : List Op) :
    ∀ s' ∈ runTrace s ops, AllocBounds s' :=
  fun s' h => (allocInv_all_histories ops s hi s' h).bounds

/-! ### conservation: the grants of a subscription add up to what was bought -/

/-- One operation keeps conservation (given the counter and index invariants of the pre-state). -/
theorem quota_conserved_step {s s' : State} {op : Op} (h : step s op = some s') (hc : CountInv s) (hi : SubIdx s)
    (hq : QuotaConserved s) : QuotaConserved s' := step_quota h hc hi hq

/-- From any state satisfying the invariants. `hcStep`: `CountInv` is preserved by every operation. -/
theorem quota_conserved_all_histories_from
    (hcStep : ∀ s op s', step s op = some s' → CountInv s → CountInv s')
    (ops : List Op) (s : State) (hc : CountInv s) (hi : SubIdx s) (hq : QuotaConserved s) :
    ∀ s' ∈ runTrace s ops, QuotaConserved s' ∧ SubIdx s' ∧ CountInv s' := by
  induction ops generalizing s with
  | nil => intro s' h; simp [runTrace] at h
  | cons op rest ih =>
    intro s' h
    simp only [runTrace] at h
    cases hst : step s op with
    | none => simp [hst] at h
    | some s1 =>
      simp only [hst, List.mem_cons] at h
      have q1 := step_quota hst hc hi hq
      have i1 := step_subIdx hst hc hi
      have c1 := hcStep s op s1 hst hc
      rcases h with h | h
      · rw [h]; exact ⟨q1, i1, c1⟩
      · exact ih s1 c1 i1 q1 s' h

/-- **C06 (conservation), all histories**: in every state reached from any genesis state, for every
subscription the granted bytes of all its allocations add up to what was bought.
The only outside fact: `CountInv` is preserved by every operation. -/
theorem quota_conserved_all_histories
    (hcStep : ∀ s op s', step s op = some s' → CountInv s → CountInv s')
    (g : Genesis) (ops : List Op) : ∀ s' ∈ runTrace g.state ops, QuotaConserved s' :=
  fun s' h => (quota_conserved_all_histories_from hcStep ops g.state (genesis_countInv g) (genesis_subIdx g)
    (genesis_quota g) s' h).1

/-! ### usage only consumes -/

/-- **`used` never decreases**: for every operation and every allocation present before and after. -/
theorem used_monotone {s s' : State} {op : Op} (h : step s op = some s') (hc : CountInv s) (hi : AllocInv s)
    {k : Nat × Addr} {al al' : Alloc} (h1 : s.allocs.get k = some al) (h2 : s'.allocs.get k = some al') :
    al.used ≤ al'.used := step_usedMono h hc hi k al al' h1 h2

/-- **`used` grows only at settlement**: the only operation that can raise `used` of an allocation is the
end of a block; messages (including `MsgAllocate`), BeginBlock and governance leave it unchanged. -/
theorem used_grows_only_at_settlement {s s' : State} {op : Op} (h : step s op = some s') (hc : CountInv s)
    {k : Nat × Addr} {al al' : Alloc} (h1 : s.allocs.get k = some al) (h2 : s'.allocs.get k = some al')
    (hlt : al.used < al'.used) : op = .endB := step_used_grows_only_endB h hc h1 h2 hlt

/-- … and inside the end of a block it is the settlement of a session (`sessionStep` on a session that
is not active any more) that raises it: exactly the allocation `(subscription, holder)` the session was
opened on changes, its grant stays, and `used' = min(granted, used + up + down)` — so it grows by at
most the bytes the session reported.  Every other allocation is untouched. -/
theorem settlement_raises_one_allocation {s s' : State} {k : Time × Nat} (h : sessionStep s k = .ok s') (hc : CountInv s)
    (hi : AllocInv s) :
    ∃ x, s.sessions.get k.2 = some x ∧
      ∀ key al', s'.allocs.get key = some al' → ∃ al, s.allocs.get key = some al ∧
        (al' = al ∨
          (x.status ≠ .StatusActive ∧ key = (x.sub, x.addr) ∧ al'.granted = al.granted ∧
           al.used ≤ al'.used ∧ al'.used ≤ al.used + (x.up + x.down))) := by
  obtain ⟨item, hitem, hu⟩ := sessionStep_used h hi.keyed
  refine ⟨item, hitem, fun key al' hg => ?_⟩
  obtain ⟨al, hga, e | ⟨hst, ⟨x, sub, hx, hsub, hkey⟩, hgr, hus⟩⟩ := hu key al' hg
  · exact ⟨al, hga, Or.inl e⟩
  · have hid : item.id = k.2 := (hc.sessions _ _ hitem).1
    rw [hid, hitem] at hx
    simp only [Option.some.injEq] at hx; subst hx
    have hsid : sub.id = item.sub := (hc.subs _ _ hsub).1
    have hb := hi.bounds _ _ hga
    have hn := hi.sessNonneg _ _ hitem
    refine ⟨al, hga, Or.inr ⟨hst, by rw [hkey, hsid], hgr, ?_, ?_⟩⟩
    · rw [hus]; split_ifs <;> omega
    · rw [hus]; split_ifs <;> omega

/-- The other block-hook pieces never touch `used`: the payout step leaves the allocation table alone and
the subscription step only deletes allocations (of the subscription it removes). -/
theorem other_hooks_leave_used :
    (∀ s s' k, payoutStep s k = .ok s' → s'.allocs = s.allocs) ∧
    (∀ d s s' k, subscriptionStep d s k = .ok s' → ∀ key al', s'.allocs.get key = some al' → s.allocs.get key = some al') :=
  ⟨fun _ _ _ h => payoutStep_allocs h, fun _ _ _ _ h => subscriptionStep_kept h⟩

/-! ### sharing moves quota -/

/-- **Sharing never leaves a holder with less than they used** (and never with negative usage). -/
theorem share_never_below_used {s s' : State} {frm toA : Addr} {id : Nat} {bytes : Int}
    (h : subAllocate s frm id toA bytes = .ok s') (hi : AllocInv s) :
    ∀ k al', s'.allocs.get k = some al' → 0 ≤ al'.used ∧ al'.used ≤ al'.granted :=
  fun k al' hg => (subAllocate_allocInv h hi).bounds k al' hg

/-- **Sharing neither creates nor destroys quota**: an accepted `MsgAllocate` leaves the granted total of
every subscription unchanged. -/
theorem share_conserves {s s' : State} {frm toA : Addr} {id : Nat} {bytes : Int}
    (h : subAllocate s frm id toA bytes = .ok s') (hc : CountInv s) (hn : Tbl.Nodup s.allocs) (hq : QuotaConserved s)
    (i : Nat) (x : Sub) (hx : s.subs.get i = some x) : grantedTotal s' i = grantedTotal s i := by
  have q' := subAllocate_quota h hc hn hq
  obtain ⟨_, _, _, _, _, _, _, _, _, _, _, es, _⟩ := subAllocate_tables h
  have b1 := hq i x hx
  have b2 := q' i x (by rw [es]; exact hx)
  have hp := psView_plans (subAllocate_psView h)
  rw [bought_congr hp.1 hp.2, b1] at b2
  exact (Option.some.inj b2).symm

/-- **A holder whose quota is exhausted cannot start a session**: an accepted `MsgStart` on a subscription
that is not hourly finds the sender's allocation with `used < granted`. -/
theorem exhausted_cannot_start {s s' : State} {frm : TextAddr} {id : Nat} {node : Addr}
    (h : sessStart s frm id node = .ok s') :
    ∃ sub, s.subs.get id = some sub ∧
      (isHourly sub = false → ∃ a, s.allocs.get (sub.id, frm.bytes) = some a ∧ a.used < a.granted) :=
  Hub.Model.exhausted_cannot_start h

/-- Contrapositive form: with `used = granted` the message is rejected (or panics), never accepted. -/
theorem exhausted_rejected {s : State} {frm : TextAddr} {id : Nat} {node : Addr} {sub : Sub} {a : Alloc}
    (hs : s.subs.get id = some sub) (hh : isHourly sub = false) (ha : s.allocs.get (sub.id, frm.bytes) = some a)
    (hex : a.granted ≤ a.used) : ∀ s', sessStart s frm id node ≠ .ok s' := by
  intro s' h
  obtain ⟨sub', hs', hq⟩ := exhausted_cannot_start h
  rw [hs] at hs'; simp only [Option.some.injEq] at hs'; subst hs'
  obtain ⟨a', ha', hlt⟩ := hq hh
  rw [ha] at ha'; simp only [Option.some.injEq] at ha'; subst ha'
  omega

/-! ### non-vacuity: a 10 GB plan subscription shared 6 GB + 4 GB, with usage -/

def exPlan : Plan := { id := 1, prov := [9], dur := 1000, gb := 10, prices := [], status := .StatusActive, statusAt := 0 }
def exSub : Sub := { id := 1, addr := [1], inactiveAt := 5000, status := .StatusActive, statusAt := 0, kind := .plan 1 "udvpn" }
def exSess : Session := { id := 1, sub := 1, node := [7], addr := [2], up := 300, down := 200, dur := 5, inactiveAt := 50,
                          status := .StatusInactivePending, statusAt := 10 }

/-- One active plan (10 GB), one subscription to it owned by `[1]`, who keeps 6 GB (1.5 GB used) and has
shared 4 GB with `[2]`; a finished session of `[2]` (300 + 200 bytes) is waiting for settlement. -/
def ex : State :=
  { time := 100, planActive := [(1, exPlan)], planCount := some 1, planForProv := [(([9], 1), ())],
    subs := [(1, exSub)], subQ := [((5000, 1), ())], subForAcc := [(([1], 1), ()), (([2], 1), ())],
    subForPlan := [((1, 1), ())],
    allocs := [((1, [1]), { id := 1, addr := [1], granted := 6000000000, used := 1500000000 }),
               ((1, [2]), { id := 1, addr := [2], granted := 4000000000, used := 0 })],
    subCount := some 1,
    sessions := [(1, exSess)], sessQ := [((50, 1), ())], sessForAcc := [(([2], 1), ())], sessForNode := [(([7], 1), ())],
    sessForSub := [((1, 1), ())], sessForAlloc := [((1, [2], 1), ())], sessCount := some 1 }

example : grantedTotal ex 1 = 10000000000 ∧ bought ex exSub = some 10000000000 := by decide

theorem ex_allocInv : AllocInv ex := by
  refine ⟨?_, ?_, ?_, ?_⟩
  · intro k al h
    simp only [ex, Tbl.get] at h
    split_ifs at h <;> simp at h <;> subst h <;> decide
  · intro i a al h
    simp only [ex, Tbl.get] at h
    split_ifs at h with c1 c2 <;> simp at h <;> subst h <;> simp_all
  · intro i p h
    simp only [ex, Tbl.get] at h
    rcases h with h | h
    · split_ifs at h <;> simp at h
      subst h; decide
    · simp at h
  · intro i x h
    simp only [ex, Tbl.get] at h
    split_ifs at h <;> simp at h
    subst h; decide

theorem ex_quota : QuotaConserved ex := by
  intro i x h
  simp only [ex, Tbl.get] at h
  split_ifs at h with c <;> simp at h
  subst h; subst c; decide

/-- Sharing: `[1]` sets `[2]`'s grant to 5 GB; the model accepts and the grants still add up to 10 GB. -/
example : (subAllocate ex [1] 1 [2] 5000000000).toOption.map (fun s => (s.allocs, grantedTotal s 1)) =
    some ([((1, [1]), { id := 1, addr := [1], granted := 5000000000, used := 1500000000 }),
           ((1, [2]), { id := 1, addr := [2], granted := 5000000000, used := 0 })], 10000000000) := by decide

/-- Over-sharing (it would leave `[1]` with less than the 1.5 GB already used) is rejected. -/
example : (subAllocate ex [1] 1 [2] 9000000000).toOption.map (fun s => s.allocs) = none := by decide

/-- Settlement of the finished session of `[2]`: only `(1, [2])` changes, `used` 0 → 500 = up + down. -/
example : (sessionStep ex (50, 1)).toOption.map (fun s => s.allocs) =
    some [((1, [1]), { id := 1, addr := [1], granted := 6000000000, used := 1500000000 }),
          ((1, [2]), { id := 1, addr := [2], granted := 4000000000, used := 500 })] := by decide

theorem ex_countInv : CountInv ex := by
  refine ⟨?_, ?_, ?_, ?_, ?_, ⟨?_, ?_⟩, ⟨?_, ?_, ?_, ?_, ?_, ?_, ?_, ?_⟩, ⟨?_, ?_, ?_, ?_, ?_⟩⟩ <;> intros <;>
    simp_all [ex, exSub, exPlan, exSess, Tbl.get, Tbl.has] <;> grind

theorem ex_subIdx : SubIdx ex := by
  refine ⟨?_, ?_, ?_, ?_, ?_, ?_, ?_, ?_, ?_, ?_, ?_, ?_, ?_, ?_, ?_⟩ <;> intros <;>
    simp_all [ex, exSub, exPlan, exSess, Tbl.get, Tbl.has, Tbl.Nodup, isHourly, isPlanSub, Sub.hourlyOn] <;> grind

/-- An exhausted holder: with `used = granted` for `[2]`, `MsgStart` by `[2]` is never accepted. -/
def exFull : State :=
  { ex with allocs := [((1, [1]), { id := 1, addr := [1], granted := 6000000000, used := 1500000000 }),
                       ((1, [2]), { id := 1, addr := [2], granted := 4000000000, used := 4000000000 })] }

example (node : Addr) : ∀ s', sessStart exFull ⟨.acc, [2], false⟩ 1 node ≠ .ok s' :=
  exhausted_rejected (sub := exSub) (a := { id := 1, addr := [2], granted := 4000000000, used := 4000000000 })
    (by decide) (by decide) (by decide) (by decide)

/-- The hypotheses of the step theorems are satisfiable together on this state, so e.g. every operation
from it keeps conservation and the bounds, and never lowers `used`. -/
example (op : Op) (s' : State) (h : step ex op = some s') : QuotaConserved s' ∧ AllocBounds s' ∧ UsedMono ex s' :=
  ⟨quota_conserved_step h ex_countInv ex_subIdx ex_quota, (allocInv_step h ex_allocInv).bounds,
   step_usedMono h ex_countInv ex_allocInv⟩

example (ops : List Op) : ∀ s' ∈ runTrace ex ops, AllocBounds s' := allocBounds_all_histories_from ex ex_allocInv ops

end Hub.Props.C06
