import Hub.Lemmas.Authz
import Hub.Lemmas.Admission
/-
C07 — Only a resource's owner can change it; others are rejected without effect.

"A provider or node record is changed only by a message from that provider or node; plans, their
status and their node links only by the plan's provider; cancelling or sharing a subscription only
by its owner; ending a session only by the account that started it; usage reports only by the
session's node and, when proof verification is enabled, only with a valid signature of the
subscriber over exactly the reported figures; token swaps only by the configured approver.  The
same message from any other sender fails and leaves the whole state unchanged."

`owner s m` is the specification (written from the text): the account that owns the resource the
message `m` addresses in state `s`.  Part 1 shows that an accepted owner-gated message comes from
that owner, that the same message from anyone else is rejected and that a rejected message leaves
the whole state unchanged.  Part 2 (frames) shows table by table that an accepted message changes
no record other than those of the resource it addresses.
-/
namespace Hub.Props.C07
open Hub.SDK Hub.Model
open Hub.Generated (Status)

/-! ## Specification -/

/-- The owner of the resource a message addresses, if the resource exists.
* a provider / node record is owned by the provider / node itself (the update messages address the
  sender's own record: there is no way to name somebody else's);
* a plan, its status and its node links by the plan's provider;
* a subscription (cancel, share) by the subscriber; a session's end by the account that started it;
  a usage report by the session's node; a swap by the configured approver.
Registration, creation, purchase and session start address no pre-existing resource. -/
def owner (s : State) : Msg → Option Addr
  | .provUpdate frm .. => if (getProvider s frm.bytes).isSome then some frm.bytes else none
  | .nodeUpdate frm .. => if (getNode s frm.bytes).isSome then some frm.bytes else none
  | .nodeStatus frm _ => if (getNode s frm.bytes).isSome then some frm.bytes else none
  | .planStatus _ id _ => (getPlan s id).map (·.prov)
  | .planLink _ id _ => (getPlan s id).map (·.prov)
  | .planUnlink _ id _ => (getPlan s id).map (·.prov)
  | .subCancel _ id => (s.subs.get id).map (·.addr)
  | .subAllocate _ id _ _ => (s.subs.get id).map (·.addr)
  | .sessEnd _ id _ => (s.sessions.get id).map (·.addr)
  | .sessUpdate _ id _ _ _ _ => (s.sessions.get id).map (·.node)
  | .swap .. => some s.params.approveBy
  | _ => none

/-- The message kinds that address an existing, owned resource. -/
def ownerGated : Msg → Bool
  | .provUpdate .. | .nodeUpdate .. | .nodeStatus .. | .planStatus .. | .planLink .. | .planUnlink ..
  | .subCancel .. | .subAllocate .. | .sessEnd .. | .sessUpdate .. | .swap .. => true
  | _ => false

/-- The bech32 prefix the sender text of each message kind must carry (x/*/types/msg.go). -/
def senderRole : Msg → Role
  | .provUpdate .. | .planCreate .. | .planStatus .. | .planLink .. | .planUnlink .. => .prov
  | .nodeUpdate .. | .nodeStatus .. | .sessUpdate .. => .node
  | _ => .acc

/-- The second address field of a message and the prefix it must carry. -/
def otherAddr : Msg → Option (TextAddr × Role)
  | .nodeSubscribe _ node .. => some (node, .node)
  | .planLink _ _ node => some (node, .node)
  | .planUnlink _ _ node => some (node, .node)
  | .subAllocate _ _ grantee _ => some (grantee, .acc)
  | .sessStart _ _ node => some (node, .node)
  | .swap _ _ recv _ => some (recv, .acc)
  | _ => none

theorem owner_clr (s : State) (m : Msg) : owner (clr s) m = owner s m := by cases m <;> rfl

/-! ## Part 1: the sender of an accepted message is the owner -/

/-- What every owner-gated handler has checked when it succeeds. -/
theorem owner_of_handle_ok {s s' : State} {m : Msg} (h : m.handle s = .ok s') (hg : ownerGated m = true) :
    owner s m = some m.sender := by
  cases m <;> simp only [ownerGated, Bool.false_eq_true] at hg <;> simp only [Msg.handle] at h <;>
    simp only [owner, Msg.sender]
  case provUpdate => obtain ⟨p, hp⟩ := provUpdate_guard h; simp [hp]
  case nodeUpdate => obtain ⟨_, _, n, hn⟩ := nodeUpdate_guard h; simp [hn]
  case nodeStatus => obtain ⟨n, hn⟩ := nodeStatus_guard h; simp [hn]
  case planStatus => obtain ⟨p, hp, hf⟩ := planStatus_guard h; simp [hp, hf]
  case planLink => obtain ⟨p, hp, hf, _⟩ := planLink_guard h; simp [hp, hf]
  case planUnlink => obtain ⟨p, hp, hf⟩ := planUnlink_guard h; simp [hp, hf]
  case subCancel => obtain ⟨sub, hs, _, hf⟩ := subCancel_guard h; simp [hs, hf]
  case subAllocate => obtain ⟨sub, hs, _, hf, _⟩ := subAllocate_guard h; simp [hs, hf]
  case sessUpdate => obtain ⟨x, hx, _, hf, _⟩ := sessUpdate_guard h; simp [hx, hf]
  case sessEnd => obtain ⟨x, hx, _, hf⟩ := sessEnd_guard h; simp [hx, hf]
  case swap => obtain ⟨_, hf, _⟩ := swap_guard h; simp [hf]

/-- **Accepted ⇒ sent by the owner.** -/
theorem accepted_sender_is_owner (s : State) (m : Msg) (hg : ownerGated m = true)
    (ha : (deliver s m).2 = .accept) : owner s m = some m.sender := by
  rw [← owner_clr]
  exact owner_of_handle_ok (deliver_accept ha).2 hg

/-- **C07, rejection half.** The same message from any sender other than the owner fails and
leaves the whole state unchanged (`deliver` clears the per-transaction event buffer first). -/
theorem non_owner_rejected (s : State) (m : Msg) (o : Addr) (ho : owner s m = some o) (hne : m.sender ≠ o) :
    (deliver s m).2 ≠ .accept ∧ (deliver s m).1 = { s with events := [] } := by
  have hg : ownerGated m = true := by
    cases m <;> first | rfl | (simp [owner] at ho)
  apply deliver_of_handle_fails
  intro _ s' hh
  have := owner_of_handle_ok hh hg
  rw [owner_clr, ho] at this
  exact hne (Option.some.inj this).symm

/-- The addressed resource does not exist ⇒ rejected, nothing changes. -/
theorem missing_target_rejected (s : State) (m : Msg) (hg : ownerGated m = true) (ho : owner s m = none) :
    (deliver s m).2 ≠ .accept ∧ (deliver s m).1 = { s with events := [] } := by
  apply deliver_of_handle_fails
  intro _ s' hh
  have := owner_of_handle_ok hh hg
  rw [owner_clr, ho] at this
  cases this

/-- **A rejected message has no effect**, whatever the message and the reason: the whole state is
the old one (with the event buffer cleared). -/
theorem rejected_has_no_effect (s : State) (m : Msg) (h : (deliver s m).2 ≠ .accept) :
    (deliver s m).1 = { s with events := [] } := deliver_not_accept h

/-- A plan can only be created by a registered provider. -/
theorem planCreate_needs_provider (s : State) (frm : TextAddr) (dur gb : Int) (prices : Option Coins)
    (h : getProvider s frm.bytes = none) :
    (deliver s (.planCreate frm dur gb prices)).2 ≠ .accept ∧
    (deliver s (.planCreate frm dur gb prices)).1 = { s with events := [] } := by
  apply deliver_of_handle_fails
  intro _ s' hh
  obtain ⟨p, hp⟩ := planCreate_guard hh
  rw [show getProvider (clr s) frm.bytes = getProvider s frm.bytes from rfl, h] at hp
  cases hp

/-- A session on a *node* subscription can only be started by the subscriber. -/
theorem sessStart_node_sub_owner_only (s : State) (frm node : TextAddr) (id : Nat) (sub : Sub)
    (nd : Addr) (gb hr : Int) (dep : Coin)
    (hs : s.subs.get id = some sub) (hk : sub.kind = .node nd gb hr dep) (hne : frm.bytes ≠ sub.addr) :
    (deliver s (.sessStart frm id node)).2 ≠ .accept ∧
    (deliver s (.sessStart frm id node)).1 = { s with events := [] } := by
  apply deliver_of_handle_fails
  intro _ s' hh
  obtain ⟨sub', n, hs', _, _, _, _, hq, _⟩ := sessStart_guard hh
  rw [show (clr s).subs.get id = s.subs.get id from rfl, hs] at hs'
  cases hs'
  have := (sessStartQuotaCheck_ok hq).1
  rw [hk] at this
  exact hne this

/-- **Usage reports**: an accepted report comes from the session's node and, when proof
verification is enabled, carries a signature made with the key registered for the session's
account over exactly the reported figures (`SigSpec.good i`; a signature by the right key over
other figures is `SigSpec.badmsg` and is refused, as are missing, short and all-zero signatures and
accounts without a registered key). -/
theorem usage_report_needs_signature (s : State) (frm : TextAddr) (id : Nat) (up down dur : Int) (sig : SigSpec)
    (ha : (deliver s (.sessUpdate frm id up down dur sig)).2 = .accept) :
    ∃ x, s.sessions.get id = some x ∧ frm.bytes = x.node ∧ frm.role = .node ∧
      (s.params.proof = true → signatureOk s x.addr sig = true ∧ ∃ i, sig = .good i ∧ s.keyed.get x.addr = some i) := by
  obtain ⟨hv, hh⟩ := deliver_accept ha
  obtain ⟨x, hx, _, hf, hsig⟩ := sessUpdate_guard hh
  have hrole : frm.role = .node := by
    simp only [Msg.validateBasic, bind_eq_ok] at hv
    obtain ⟨a, ha', _⟩ := hv
    exact (needAddr_eq_ok ha').1
  refine ⟨x, hx, hf, hrole, ?_⟩
  intro hp
  have h1 : signatureOk s x.addr sig = true := hsig hp
  refine ⟨h1, ?_⟩
  cases sig <;> cases hk : s.keyed.get x.addr <;> simp [signatureOk, hk] at h1
  rename_i i j
  exact ⟨i, rfl, by rw [h1]⟩

/-- **Token swaps** only by the configured approver (and only while swaps are enabled). -/
theorem swap_only_by_approver (s : State) (frm recv : TextAddr) (hash : Bytes) (amt : Int)
    (ha : (deliver s (.swap frm hash recv amt)).2 = .accept) :
    frm.bytes = s.params.approveBy ∧ s.params.swapOn = true := by
  obtain ⟨_, hh⟩ := deliver_accept ha
  obtain ⟨h1, h2, _⟩ := swap_guard hh
  exact ⟨h2.symm, h1⟩

/-! ### role confusion -/

/-- An accepted `ValidateBasic` means every address text is well-formed and carries the bech32
prefix of the role the message kind expects. -/
theorem validateBasic_roles {m : Msg} (h : m.validateBasic = .ok ()) :
    m.frm.role = senderRole m ∧ m.frm.bad = false ∧
    (∀ t r, otherAddr m = some (t, r) → t.role = r ∧ t.bad = false) := by
  cases m <;> simp only [Msg.validateBasic, bind_eq_ok, require_eq_ok] at h <;>
    simp only [Msg.frm, senderRole, otherAddr, reduceCtorEq, Option.some.injEq, Prod.mk.injEq, false_imp_iff,
      implies_true, and_true]
  case provRegister => obtain ⟨a, ha, _⟩ := h; exact ⟨(needAddr_eq_ok ha).1, (needAddr_eq_ok ha).2.1⟩
  case provUpdate => obtain ⟨a, ha, _⟩ := h; exact ⟨(needAddr_eq_ok ha).1, (needAddr_eq_ok ha).2.1⟩
  case nodeRegister => obtain ⟨a, ha, _⟩ := h; exact ⟨(needAddr_eq_ok ha).1, (needAddr_eq_ok ha).2.1⟩
  case nodeUpdate => obtain ⟨a, ha, _⟩ := h; exact ⟨(needAddr_eq_ok ha).1, (needAddr_eq_ok ha).2.1⟩
  case nodeStatus => obtain ⟨a, ha, _⟩ := h; exact ⟨(needAddr_eq_ok ha).1, (needAddr_eq_ok ha).2.1⟩
  case planCreate => obtain ⟨a, ha, _⟩ := h; exact ⟨(needAddr_eq_ok ha).1, (needAddr_eq_ok ha).2.1⟩
  case planStatus => obtain ⟨a, ha, _⟩ := h; exact ⟨(needAddr_eq_ok ha).1, (needAddr_eq_ok ha).2.1⟩
  case planSubscribe => obtain ⟨a, ha, _⟩ := h; exact ⟨(needAddr_eq_ok ha).1, (needAddr_eq_ok ha).2.1⟩
  case subCancel => obtain ⟨a, ha, _⟩ := h; exact ⟨(needAddr_eq_ok ha).1, (needAddr_eq_ok ha).2.1⟩
  case sessUpdate => obtain ⟨a, ha, _⟩ := h; exact ⟨(needAddr_eq_ok ha).1, (needAddr_eq_ok ha).2.1⟩
  case sessEnd => obtain ⟨a, ha, _⟩ := h; exact ⟨(needAddr_eq_ok ha).1, (needAddr_eq_ok ha).2.1⟩
  case nodeSubscribe =>
    obtain ⟨a, ha, b, hb, _⟩ := h
    refine ⟨(needAddr_eq_ok ha).1, (needAddr_eq_ok ha).2.1, ?_⟩
    rintro t r ⟨rfl, rfl⟩; exact ⟨(needAddr_eq_ok hb).1, (needAddr_eq_ok hb).2.1⟩
  case planLink =>
    obtain ⟨a, ha, _, _, b, hb, _⟩ := h
    refine ⟨(needAddr_eq_ok ha).1, (needAddr_eq_ok ha).2.1, ?_⟩
    rintro t r ⟨rfl, rfl⟩; exact ⟨(needAddr_eq_ok hb).1, (needAddr_eq_ok hb).2.1⟩
  case planUnlink =>
    obtain ⟨a, ha, _, _, b, hb, _⟩ := h
    refine ⟨(needAddr_eq_ok ha).1, (needAddr_eq_ok ha).2.1, ?_⟩
    rintro t r ⟨rfl, rfl⟩; exact ⟨(needAddr_eq_ok hb).1, (needAddr_eq_ok hb).2.1⟩
  case subAllocate =>
    obtain ⟨a, ha, _, _, b, hb, _⟩ := h
    refine ⟨(needAddr_eq_ok ha).1, (needAddr_eq_ok ha).2.1, ?_⟩
    rintro t r ⟨rfl, rfl⟩; exact ⟨(needAddr_eq_ok hb).1, (needAddr_eq_ok hb).2.1⟩
  case sessStart =>
    obtain ⟨a, ha, _, _, b, hb, _⟩ := h
    refine ⟨(needAddr_eq_ok ha).1, (needAddr_eq_ok ha).2.1, ?_⟩
    rintro t r ⟨rfl, rfl⟩; exact ⟨(needAddr_eq_ok hb).1, (needAddr_eq_ok hb).2.1⟩
  case swap =>
    obtain ⟨a, ha, b, hb, _⟩ := h
    refine ⟨(needAddr_eq_ok ha).1, (needAddr_eq_ok ha).2.1, ?_⟩
    rintro t r ⟨rfl, rfl⟩; exact ⟨(needAddr_eq_ok hb).1, (needAddr_eq_ok hb).2.1⟩

/-- **Role confusion**: a message whose sender text carries another role's prefix (e.g. a
`sentnode…` address in a message that must come from a `sentprov…` one), or is malformed, is
rejected statelessly, for every message kind; nothing changes. -/
theorem wrong_role_rejected (s : State) (m : Msg) (h : m.frm.role ≠ senderRole m ∨ m.frm.bad = true) :
    m.validateBasic ≠ .ok () ∧ (deliver s m).2 ≠ .accept ∧ (deliver s m).1 = { s with events := [] } := by
  have hv : m.validateBasic ≠ .ok () := by
    intro hv
    obtain ⟨h1, h2, _⟩ := validateBasic_roles hv
    rcases h with h | h
    · exact h h1
    · rw [h2] at h; cases h
  refine ⟨hv, ?_⟩
  rcases deliver_cases_D s m with ⟨s', hv', _, _⟩ | ⟨msg, hd, _⟩
  · exact absurd hv' hv
  · rw [hd]; exact ⟨by simp, rfl⟩

/-- The same for the second address field (the node of a link or a purchase, the grantee of a
share, the receiver of a swap). -/
theorem wrong_role_other_rejected (s : State) (m : Msg) (t : TextAddr) (r : Role) (ho : otherAddr m = some (t, r))
    (h : t.role ≠ r ∨ t.bad = true) :
    m.validateBasic ≠ .ok () ∧ (deliver s m).2 ≠ .accept ∧ (deliver s m).1 = { s with events := [] } := by
  have hv : m.validateBasic ≠ .ok () := by
    intro hv
    obtain ⟨_, _, h3⟩ := validateBasic_roles hv
    obtain ⟨h1, h2⟩ := h3 t r ho
    rcases h with h | h
    · exact h h1
    · rw [h2] at h; cases h
  refine ⟨hv, ?_⟩
  rcases deliver_cases_D s m with ⟨s', hv', _, _⟩ | ⟨msg, hd, _⟩
  · exact absurd hv' hv
  · rw [hd]; exact ⟨by simp, rfl⟩

/-! ## Part 2: frames — an accepted message changes only the records it addresses -/

/-- Specification: the records a message may change (everything else must stay as it is).
* provider / node messages: the sender's own provider / node record;
* `planStatus id`: plan `id`; `planLink/planUnlink id node`: the link `(id, node)`;
* `subCancel id`: subscription `id`, its payout, and the sessions indexed under that subscription;
* `subAllocate id`: the allocations of the owner and of the grantee in subscription `id`;
* `sessUpdate/sessEnd id`: session `id`;
* creation / purchase / start: only the *new* record(s) with the next free id (a purchase creates
  the buyer's allocation or payout with it) — no existing provider, node, plan or session record;
* `swap`: no marketplace record at all. -/
def footprint (s : State) : Msg → Footprint
  | .provRegister frm .. => { Footprint.empty with prov := (· = frm.bytes) }
  | .provUpdate frm .. => { Footprint.empty with prov := (· = frm.bytes) }
  | .nodeRegister frm .. => { Footprint.empty with node := (· = frm.bytes) }
  | .nodeUpdate frm .. => { Footprint.empty with node := (· = frm.bytes) }
  | .nodeStatus frm _ => { Footprint.empty with node := (· = frm.bytes) }
  | .nodeSubscribe frm .. => { Footprint.empty with sub := (· = newSubId s), alloc := (· = (newSubId s, frm.bytes)), payout := (· = newSubId s) }
  | .planCreate .. => { Footprint.empty with plan := (· = newPlanId s) }
  | .planStatus _ id _ => { Footprint.empty with plan := (· = id) }
  | .planLink _ id node => { Footprint.empty with link := (· = (id, node.bytes)) }
  | .planUnlink _ id node => { Footprint.empty with link := (· = (id, node.bytes)) }
  | .planSubscribe frm .. => { Footprint.empty with sub := (· = newSubId s), alloc := (· = (newSubId s, frm.bytes)) }
  | .subCancel _ id => { Footprint.empty with sub := (· = id), payout := (· = id), sess := fun sid => (id, sid) ∈ s.sessForSub.keys }
  | .subAllocate frm id grantee _ => { Footprint.empty with alloc := fun k => k = (id, frm.bytes) ∨ k = (id, grantee.bytes) }
  | .sessStart .. => { Footprint.empty with sess := (· = newSessId s) }
  | .sessUpdate _ id .. => { Footprint.empty with sess := (· = id) }
  | .sessEnd _ id _ => { Footprint.empty with sess := (· = id) }
  | .swap .. => Footprint.empty

/-- Handler level: every handler changes records only inside its footprint. -/
theorem handle_within_footprint {s s' : State} (hk : KeysOK s) {m : Msg} (h : m.handle s = .ok s') :
    ChangesWithin (footprint s m) s s' := by
  cases m <;> simp only [Msg.handle] at h <;> simp only [footprint]
  case provRegister => exact cw_provRegister h rfl
  case provUpdate => exact cw_provUpdate h hk rfl
  case nodeRegister => exact cw_nodeRegister h rfl
  case nodeUpdate => exact cw_nodeUpdate h hk rfl
  case nodeStatus => exact cw_nodeStatus h hk rfl
  case nodeSubscribe => exact cw_nodeSubscribe h rfl rfl rfl
  case planCreate => exact cw_planCreate h rfl
  case planStatus => exact cw_planStatus h hk rfl
  case planLink => exact cw_planLink h rfl
  case planUnlink => exact cw_planUnlink h rfl
  case planSubscribe => exact cw_planSubscribe h rfl rfl
  case subCancel => exact cw_subCancel h hk rfl rfl (fun _ h => h)
  case subAllocate => exact cw_subAllocate h hk (Or.inl rfl) (Or.inr rfl)
  case sessStart => exact cw_sessStart h rfl
  case sessUpdate => exact cw_sessUpdate h hk rfl
  case sessEnd => exact cw_sessEnd h hk rfl
  case swap => exact cw_swap h

theorem footprint_clr (s : State) (m : Msg) : footprint (clr s) m = footprint s m := by cases m <;> rfl

/-- **C07, frame half.** Whatever `deliver` does — accept or reject — every provider, node, plan,
link, subscription, allocation, payout and session record outside the message's footprint is
unchanged. -/
theorem changes_within_footprint (s : State) (hk : KeysOK s) (m : Msg) :
    ChangesWithin (footprint s m) s (deliver s m).1 := by
  rcases deliver_cases_D s m with ⟨s', _, hh, hd⟩ | ⟨msg, hd, _⟩
  · rw [hd]
    have := handle_within_footprint hk.clr hh
    rw [footprint_clr] at this
    exact (cw_of_recs (F := footprint s m) (s := s) (s' := clr s) rfl).trans this
  · rw [hd]; exact cw_of_recs rfl

/-! ### table by table: a record changes only by a message of its owner -/

theorem changed_imp_accept {s : State} {m : Msg} (h : recs (deliver s m).1 ≠ recs s) : (deliver s m).2 = .accept := by
  by_contra hn
  rw [deliver_not_accept hn] at h
  exact h rfl

theorem getNode_congr {s s' : State} {b : Addr} (h1 : s'.nodeActive.get b = s.nodeActive.get b)
    (h2 : s'.nodeInactive.get b = s.nodeInactive.get b) : getNode s' b = getNode s b := by
  unfold getNode; rw [h1, h2]

theorem getProvider_congr {s s' : State} {b : Addr} (h1 : s'.provActive.get b = s.provActive.get b)
    (h2 : s'.provInactive.get b = s.provInactive.get b) : getProvider s' b = getProvider s b := by
  unfold getProvider; rw [h1, h2]

theorem getPlan_congr {s s' : State} {i : Nat} (h1 : s'.planActive.get i = s.planActive.get i)
    (h2 : s'.planInactive.get i = s.planInactive.get i) : getPlan s' i = getPlan s i := by
  unfold getPlan; rw [h1, h2]

/-- A message that is not accepted changes no record. -/
theorem not_accept_recs {s : State} {m : Msg} (h : (deliver s m).2 ≠ .accept) : recs (deliver s m).1 = recs s := by
  rw [deliver_not_accept h]; rfl

/-- The node messages. -/
def isNodeMsg : Msg → Bool
  | .nodeRegister .. | .nodeUpdate .. | .nodeStatus .. => true
  | _ => false

/-- The provider messages. -/
def isProvMsg : Msg → Bool
  | .provRegister .. | .provUpdate .. => true
  | _ => false

/-- **Node records**: if the record of node `b` (present or absent) is different after a message,
the message was an accepted node message (register, update details, update status) sent by `b`.
In particular purchases, session starts and usage reports change no node record. -/
theorem node_record_changes_only_by_owner (s : State) (hk : KeysOK s) (m : Msg) (b : Addr)
    (hch : getNode (deliver s m).1 b ≠ getNode s b) :
    (deliver s m).2 = .accept ∧ isNodeMsg m = true ∧ m.sender = b := by
  have hcw := changes_within_footprint s hk m
  have hfp : (footprint s m).node b := by
    by_contra hn
    exact hch (getNode_congr (hcw.nodeA b hn) (hcw.nodeI b hn))
  have hacc : (deliver s m).2 = .accept := by
    by_contra hn
    have := not_accept_recs hn
    exact hch (getNode_congr (by rw [show (deliver s m).1.nodeActive = s.nodeActive from congrArg Recs.nodeActive this])
      (by rw [show (deliver s m).1.nodeInactive = s.nodeInactive from congrArg Recs.nodeInactive this]))
  refine ⟨hacc, ?_⟩
  cases m <;> simp only [footprint, Footprint.empty] at hfp <;> first | exact absurd hfp id | exact ⟨rfl, hfp.symm⟩

/-- **Provider records**: changed only by an accepted provider message (register, update) sent by
that provider. -/
theorem provider_record_changes_only_by_owner (s : State) (hk : KeysOK s) (m : Msg) (b : Addr)
    (hch : getProvider (deliver s m).1 b ≠ getProvider s b) :
    (deliver s m).2 = .accept ∧ isProvMsg m = true ∧ m.sender = b := by
  have hcw := changes_within_footprint s hk m
  have hfp : (footprint s m).prov b := by
    by_contra hn
    exact hch (getProvider_congr (hcw.provA b hn) (hcw.provI b hn))
  have hacc : (deliver s m).2 = .accept := by
    by_contra hn
    have := not_accept_recs hn
    exact hch (getProvider_congr (by rw [show (deliver s m).1.provActive = s.provActive from congrArg Recs.provActive this])
      (by rw [show (deliver s m).1.provInactive = s.provInactive from congrArg Recs.provInactive this]))
  refine ⟨hacc, ?_⟩
  cases m <;> simp only [footprint, Footprint.empty] at hfp <;> first | exact absurd hfp id | exact ⟨rfl, hfp.symm⟩


/-- Frame form: whatever the message, the node record of every address other than the sender is
unchanged (`nodeUpdate`/`nodeStatus`/`nodeRegister` from `a` change at most the node record of `a`;
all other messages change no node record). -/
theorem node_records_of_others_unchanged (s : State) (hk : KeysOK s) (m : Msg) (b : Addr) (hb : b ≠ m.sender) :
    getNode (deliver s m).1 b = getNode s b := by
  by_contra hch
  exact hb (node_record_changes_only_by_owner s hk m b hch).2.2.symm

/-- Frame form for provider records. -/
theorem provider_records_of_others_unchanged (s : State) (hk : KeysOK s) (m : Msg) (b : Addr) (hb : b ≠ m.sender) :
    getProvider (deliver s m).1 b = getProvider s b := by
  by_contra hch
  exact hb (provider_record_changes_only_by_owner s hk m b hch).2.2.symm

/-- A message that is not a node message changes no node record at all (purchases, session
starts, usage reports, plan links, … leave every node record alone). -/
theorem non_node_msg_keeps_nodes (s : State) (hk : KeysOK s) (m : Msg) (hm : isNodeMsg m = false) (b : Addr) :
    getNode (deliver s m).1 b = getNode s b := by
  by_contra hch
  have := (node_record_changes_only_by_owner s hk m b hch).2.1
  rw [hm] at this; cases this

/-- A message that is not a provider message changes no provider record at all. -/
theorem non_prov_msg_keeps_providers (s : State) (hk : KeysOK s) (m : Msg) (hm : isProvMsg m = false) (b : Addr) :
    getProvider (deliver s m).1 b = getProvider s b := by
  by_contra hch
  have := (provider_record_changes_only_by_owner s hk m b hch).2.1
  rw [hm] at this; cases this

/-- **Plans**: plan `id` differs after a message only if the message was an accepted `planStatus id`
from the plan's provider, or an accepted `planCreate` (by a registered provider) that issued `id`
as the next free plan id. -/
theorem plan_record_changes_only_by_owner (s : State) (hk : KeysOK s) (m : Msg) (id : Nat)
    (hch : getPlan (deliver s m).1 id ≠ getPlan s id) :
    (deliver s m).2 = .accept ∧
    ((∃ frm st, m = .planStatus frm id st ∧ (getPlan s id).map (·.prov) = some frm.bytes) ∨
     (∃ frm d g p, m = .planCreate frm d g p ∧ id = newPlanId s ∧ ∃ pr, getProvider s frm.bytes = some pr)) := by
  have hcw := changes_within_footprint s hk m
  have hfp : (footprint s m).plan id := by
    by_contra hn
    exact hch (getPlan_congr (hcw.planA id hn) (hcw.planI id hn))
  have hacc : (deliver s m).2 = .accept := by
    by_contra hn
    have := not_accept_recs hn
    exact hch (getPlan_congr (by rw [show (deliver s m).1.planActive = s.planActive from congrArg Recs.planActive this])
      (by rw [show (deliver s m).1.planInactive = s.planInactive from congrArg Recs.planInactive this]))
  refine ⟨hacc, ?_⟩
  cases m <;> simp only [footprint, Footprint.empty] at hfp <;> try exact absurd hfp id
  case planCreate frm d g p =>
    right
    have := planCreate_guard (deliver_accept hacc).2
    exact ⟨frm, d, g, p, rfl, hfp, this⟩
  case planStatus frm pid st =>
    left
    subst hfp
    exact ⟨frm, st, rfl, accepted_sender_is_owner s _ rfl hacc⟩

/-- An *existing* plan (its id was issued: `id ≤ planCount`) changes only by its provider's
`planStatus`. -/
theorem existing_plan_changes_only_by_owner (s : State) (hk : KeysOK s) (m : Msg) (id : Nat)
    (hissued : id ≤ s.planCount.getD 0) (hch : getPlan (deliver s m).1 id ≠ getPlan s id) :
    ∃ frm st, m = .planStatus frm id st ∧ (getPlan s id).map (·.prov) = some frm.bytes := by
  rcases (plan_record_changes_only_by_owner s hk m id hch).2 with h | ⟨_, _, _, _, _, h, _⟩
  · exact h
  · unfold newPlanId at h; omega

/-- **Plan–node links**: the link `(id, n)` changes only by an accepted `planLink`/`planUnlink id n`
from the plan's provider. -/
theorem link_changes_only_by_plan_owner (s : State) (hk : KeysOK s) (m : Msg) (id : Nat) (n : Addr)
    (hch : (deliver s m).1.nodeForPlan.get (id, n) ≠ s.nodeForPlan.get (id, n)) :
    (deliver s m).2 = .accept ∧ (getPlan s id).map (·.prov) = some m.sender ∧
    ((∃ frm node, m = .planLink frm id node ∧ node.bytes = n) ∨ (∃ frm node, m = .planUnlink frm id node ∧ node.bytes = n)) := by
  have hcw := changes_within_footprint s hk m
  have hfp : (footprint s m).link (id, n) := by
    by_contra hn
    exact hch (hcw.link _ hn)
  have hacc : (deliver s m).2 = .accept := by
    by_contra hn
    have := not_accept_recs hn
    exact hch (by rw [show (deliver s m).1.nodeForPlan = s.nodeForPlan from congrArg Recs.nodeForPlan this])
  refine ⟨hacc, ?_⟩
  cases m <;> simp only [footprint, Footprint.empty] at hfp <;> try exact absurd hfp id
  case planLink frm pid node =>
    simp only [Prod.mk.injEq] at hfp
    obtain ⟨rfl, rfl⟩ := hfp
    exact ⟨accepted_sender_is_owner s _ rfl hacc, Or.inl ⟨frm, node, rfl, rfl⟩⟩
  case planUnlink frm pid node =>
    simp only [Prod.mk.injEq] at hfp
    obtain ⟨rfl, rfl⟩ := hfp
    exact ⟨accepted_sender_is_owner s _ rfl hacc, Or.inr ⟨frm, node, rfl, rfl⟩⟩

/-- A purchase. -/
def isPurchase : Msg → Bool
  | .nodeSubscribe .. | .planSubscribe .. => true
  | _ => false

/-- **Subscriptions**: subscription `id` changes only by an accepted `subCancel id` from its owner,
or it is the new subscription created by an accepted purchase (next free id). -/
theorem sub_record_changes_only_by_owner (s : State) (hk : KeysOK s) (m : Msg) (id : Nat)
    (hch : (deliver s m).1.subs.get id ≠ s.subs.get id) :
    (deliver s m).2 = .accept ∧
    ((∃ frm, m = .subCancel frm id ∧ (s.subs.get id).map (·.addr) = some frm.bytes) ∨
     (isPurchase m = true ∧ id = newSubId s)) := by
  have hcw := changes_within_footprint s hk m
  have hfp : (footprint s m).sub id := by
    by_contra hn
    exact hch (hcw.sub _ hn)
  have hacc : (deliver s m).2 = .accept := by
    by_contra hn
    have := not_accept_recs hn
    exact hch (by rw [show (deliver s m).1.subs = s.subs from congrArg Recs.subs this])
  refine ⟨hacc, ?_⟩
  cases m <;> simp only [footprint, Footprint.empty] at hfp <;> try exact absurd hfp id
  case nodeSubscribe => exact Or.inr ⟨rfl, hfp⟩
  case planSubscribe => exact Or.inr ⟨rfl, hfp⟩
  case subCancel frm sid =>
    subst hfp
    exact Or.inl ⟨frm, rfl, accepted_sender_is_owner s _ rfl hacc⟩

/-- **Allocations** (sharing): the allocation of `a` in subscription `id` changes only by an accepted
`subAllocate id` from the subscription's owner (and then `a` is the owner or the grantee), or it is
the buyer's allocation in the subscription a purchase just created. -/
theorem alloc_changes_only_by_owner (s : State) (hk : KeysOK s) (m : Msg) (id : Nat) (a : Addr)
    (hch : (deliver s m).1.allocs.get (id, a) ≠ s.allocs.get (id, a)) :
    (deliver s m).2 = .accept ∧
    ((∃ frm grantee bytes, m = .subAllocate frm id grantee bytes ∧ (a = frm.bytes ∨ a = grantee.bytes) ∧
        (s.subs.get id).map (·.addr) = some frm.bytes) ∨
     (isPurchase m = true ∧ id = newSubId s ∧ a = m.sender)) := by
  have hcw := changes_within_footprint s hk m
  have hfp : (footprint s m).alloc (id, a) := by
    by_contra hn
    exact hch (hcw.alloc _ hn)
  have hacc : (deliver s m).2 = .accept := by
    by_contra hn
    have := not_accept_recs hn
    exact hch (by rw [show (deliver s m).1.allocs = s.allocs from congrArg Recs.allocs this])
  refine ⟨hacc, ?_⟩
  cases m <;> simp only [footprint, Footprint.empty, Prod.mk.injEq] at hfp <;> try exact absurd hfp id
  case nodeSubscribe => exact Or.inr ⟨rfl, hfp.1, hfp.2⟩
  case planSubscribe => exact Or.inr ⟨rfl, hfp.1, hfp.2⟩
  case subAllocate frm sid grantee bytes =>
    have hid : id = sid := by rcases hfp with h | h <;> exact h.1
    subst hid
    refine Or.inl ⟨frm, grantee, bytes, rfl, ?_, accepted_sender_is_owner s _ rfl hacc⟩
    rcases hfp with h | h
    · exact Or.inl h.2
    · exact Or.inr h.2

/-- **Payouts**: changed only by the owner's `subCancel`, or created by a purchase. -/
theorem payout_changes_only_by_owner (s : State) (hk : KeysOK s) (m : Msg) (id : Nat)
    (hch : (deliver s m).1.payouts.get id ≠ s.payouts.get id) :
    (deliver s m).2 = .accept ∧
    ((∃ frm, m = .subCancel frm id ∧ (s.subs.get id).map (·.addr) = some frm.bytes) ∨
     (isPurchase m = true ∧ id = newSubId s)) := by
  have hcw := changes_within_footprint s hk m
  have hfp : (footprint s m).payout id := by
    by_contra hn
    exact hch (hcw.payout _ hn)
  have hacc : (deliver s m).2 = .accept := by
    by_contra hn
    have := not_accept_recs hn
    exact hch (by rw [show (deliver s m).1.payouts = s.payouts from congrArg Recs.payouts this])
  refine ⟨hacc, ?_⟩
  cases m <;> simp only [footprint, Footprint.empty] at hfp <;> try exact absurd hfp id
  case nodeSubscribe => exact Or.inr ⟨rfl, hfp⟩
  case subCancel frm sid =>
    subst hfp
    exact Or.inl ⟨frm, rfl, accepted_sender_is_owner s _ rfl hacc⟩

/-- **Sessions**: session `sid` changes only by an accepted usage report from its node, an accepted
`sessEnd` from the account that started it, the cancellation — by the subscription's owner — of a
subscription under which it is indexed, or it is the new session created by an accepted `sessStart`
(next free id: no existing session is touched by a start). -/
theorem session_changes_only_by_owner (s : State) (hk : KeysOK s) (m : Msg) (sid : Nat)
    (hch : (deliver s m).1.sessions.get sid ≠ s.sessions.get sid) :
    (deliver s m).2 = .accept ∧
    ((∃ frm up down dur sig, m = .sessUpdate frm sid up down dur sig ∧ (s.sessions.get sid).map (·.node) = some frm.bytes) ∨
     (∃ frm r, m = .sessEnd frm sid r ∧ (s.sessions.get sid).map (·.addr) = some frm.bytes) ∨
     (∃ frm j, m = .subCancel frm j ∧ (j, sid) ∈ s.sessForSub.keys ∧ (s.subs.get j).map (·.addr) = some frm.bytes) ∨
     (∃ frm j node, m = .sessStart frm j node ∧ sid = newSessId s)) := by
  have hcw := changes_within_footprint s hk m
  have hfp : (footprint s m).sess sid := by
    by_contra hn
    exact hch (hcw.sess _ hn)
  have hacc : (deliver s m).2 = .accept := by
    by_contra hn
    have := not_accept_recs hn
    exact hch (by rw [show (deliver s m).1.sessions = s.sessions from congrArg Recs.sessions this])
  refine ⟨hacc, ?_⟩
  cases m <;> simp only [footprint, Footprint.empty] at hfp <;> try exact absurd hfp id
  case subCancel frm j =>
    exact Or.inr (Or.inr (Or.inl ⟨frm, j, rfl, hfp, accepted_sender_is_owner s _ rfl hacc⟩))
  case sessStart frm j node => exact Or.inr (Or.inr (Or.inr ⟨frm, j, node, rfl, hfp⟩))
  case sessUpdate frm j up down dur sig =>
    subst hfp
    exact Or.inl ⟨frm, up, down, dur, sig, rfl, accepted_sender_is_owner s _ rfl hacc⟩
  case sessEnd frm j r =>
    subst hfp
    exact Or.inr (Or.inl ⟨frm, r, rfl, accepted_sender_is_owner s _ rfl hacc⟩)

/-- **C07 in one statement** for the owner-gated kinds: the message changes the state at all only
if its sender is the owner of the addressed resource, and then only inside its footprint. -/
theorem record_changes_only_by_owner (s : State) (hk : KeysOK s) (m : Msg) (hg : ownerGated m = true) :
    ((deliver s m).1 ≠ { s with events := [] } → owner s m = some m.sender) ∧
    ChangesWithin (footprint s m) s (deliver s m).1 := by
  refine ⟨?_, changes_within_footprint s hk m⟩
  intro hne
  apply accepted_sender_is_owner s m hg
  by_contra hn
  exact hne (deliver_not_accept hn)

/-! ## Examples on a concrete state (non-vacuity) -/
section Examples

def alice : Addr := [1]
def bob : Addr := [2]
def carol : Addr := [3]
def nodeA : Addr := [7]
def nodeB : Addr := [8]
def acc (a : Addr) : TextAddr := ⟨.acc, a, false⟩
def prov (a : Addr) : TextAddr := ⟨.prov, a, false⟩
def node (a : Addr) : TextAddr := ⟨.node, a, false⟩

/-- Proof verification on; `bob`'s account key has index 4; `carol` approves swaps. -/
def g0 : Genesis :=
  { time := 1700000000000000000,
    params := { (default : Params) with
      maxSubGB := 10, minSubGB := 1, maxSubHr := 10, minSubHr := 1, sessDelay := 1000, subDelay := 1000,
      activeDur := 1000000, «proof» := true, swapOn := true, swapDenom := "udvpn", approveBy := carol },
    balances := [(alice, "udvpn", 1000), (bob, "udvpn", 500), (carol, "udvpn", 500)],
    keyed := [(bob, 4)] }

/-- alice registers as provider and creates plan 1; nodes A and B register, A goes active;
bob buys 1 GB on node A (subscription 1) and starts session 1. -/
def msgs : List Msg :=
  [ .provRegister (acc alice) [65] [] [] [] true,
    .nodeRegister (acc nodeA) (some [⟨"udvpn", 5⟩]) (some [⟨"udvpn", 3⟩]) [104] true,
    .nodeRegister (acc nodeB) (some [⟨"udvpn", 5⟩]) (some [⟨"udvpn", 3⟩]) [104] true,
    .planCreate (prov alice) 1000 1 (some [⟨"udvpn", 10⟩]),
    .nodeStatus (node nodeA) 1,
    .nodeSubscribe (acc bob) (node nodeA) 1 0 "udvpn",
    .sessStart (acc bob) 1 (node nodeA) ]

def s1 : State := deliverAll g0.state msgs

/-- The well-formedness hypothesis of the frame theorems holds in this (reachable) state. -/
theorem s1_keys : KeysOK s1 := keysOK_deliverAll msgs _ (keysOK_genesis g0)

-- every message of the history was accepted: plan 1, subscription 1 and session 1 exist
example : (getPlan s1 1).map (·.prov) = some alice ∧ (s1.subs.get 1).map (·.addr) = some bob ∧
    (s1.sessions.get 1).map (fun x => (x.addr, x.node)) = some (bob, nodeA) := by decide +kernel
-- node status: the node itself may; another address has no record it could change
example : (deliver s1 (.nodeStatus (node nodeA) 3)).2 = .accept := by decide +kernel
example : (deliver s1 (.nodeStatus (node carol) 3)).2 = .reject "node not found" := by decide +kernel
-- role confusion: node A's bytes under the provider prefix
example : (deliver s1 (.nodeStatus (prov nodeA) 3)).2 = .reject "validate: invalid address" := by decide +kernel
-- plan link and plan status: only the plan's provider
example : owner s1 (.planLink (prov bob) 1 (node nodeA)) = some alice := by decide +kernel
example : (deliver s1 (.planLink (prov alice) 1 (node nodeA))).2 = .accept := by decide +kernel
example : (deliver s1 (.planLink (prov bob) 1 (node nodeA))).2 = .reject "unauthorized" := by decide +kernel
example : (deliver s1 (.planStatus (prov bob) 1 1)).2 = .reject "unauthorized" := by decide +kernel
-- session end / cancel: only bob
example : (deliver s1 (.sessEnd (acc carol) 1 0)).2 = .reject "unauthorized" := by decide +kernel
example : (deliver s1 (.sessEnd (acc bob) 1 0)).2 = .accept := by decide +kernel
example : (deliver s1 (.subCancel (acc carol) 1)).2 = .reject "unauthorized" := by decide +kernel
example : (deliver s1 (.subCancel (acc bob) 1)).2 = .accept := by decide +kernel
-- a session on bob's node subscription: only bob
example : (deliver s1 (.sessStart (acc carol) 1 (node nodeA))).2 = .reject "unauthorized" := by decide +kernel
-- usage report: only node A, only with bob's key over the reported figures
example : (deliver s1 (.sessUpdate (node nodeA) 1 10 20 5 (.good 4))).2 = .accept := by decide +kernel
example : (deliver s1 (.sessUpdate (node nodeA) 1 10 20 5 (.badmsg 4))).2 = .reject "invalid signature" := by decide +kernel
example : (deliver s1 (.sessUpdate (node nodeA) 1 10 20 5 (.good 5))).2 = .reject "invalid signature" := by decide +kernel
example : (deliver s1 (.sessUpdate (node nodeA) 1 10 20 5 .none)).2 = .reject "invalid signature" := by decide +kernel
example : (deliver s1 (.sessUpdate (node nodeB) 1 10 20 5 (.good 4))).2 = .reject "unauthorized" := by decide +kernel
-- swap: only carol
example : (deliver s1 (.swap (acc bob) (List.replicate 32 0) (acc bob) 1000)).2 = .reject "unauthorized" := by decide +kernel
example : (deliver s1 (.swap (acc carol) (List.replicate 32 0) (acc bob) 1000)).2 = .accept := by decide +kernel
-- the theorems applied: bob's rejected link changes nothing
example : (deliver s1 (.planLink (prov bob) 1 (node nodeA))).1 = { s1 with events := [] } :=
  (non_owner_rejected s1 _ alice (by decide +kernel) (by decide)).2

end Examples

end Hub.Props.C07
