import Hub.Lemmas.Authz
import Hub.Lemmas.Admission
/-
C07 — Only a resource's owner can change it; others are rejected without effect.

"A provider or node record is changed only by a message from that provider or node; plans, their
status and their node links only by the plan's provider; cancelling or sharing a subscription only
by its owner; ending a session only by the account that started it; usage reports only by the
session's node and, when proof verification is enabled, only with a valid signature of the
subscriber over exactly the reported figures; token swaps only by the configured approver.  The
same message from any other sender fails and leaves the whole state unchanged."

`owner s m` is the specification (written from the text): the account that owns the resource the
message `m` addresses in state `s`.  Part 1 shows that an accepted owner-gated message comes from
that owner, that the same message from anyone else is rejected and that a rejected message leaves
the whole state unchanged.  Part 2 (frames) shows table by table that an accepted message changes
no record other than those of the resource it addresses.
-/
namespace Hub.Props.C07
open Hub.SDK Hub.Model
open Hub.Generated (Status)

/-! ## Specification -/

/-- The owner of the resource a message addresses, if the resource exists.
* a provider / node record is owned by the provider / node itself (the update messages address the
  sender's own record: there is no way to name somebody else's);
* a plan, its status and its node links by the plan's provider;
* a subscription (cancel, share) by the subscriber; a session's end by the account that started it;
  a usage report by the session's node; a swap by the configured approver.
Registration, creation, purchase and session start address no pre-existing resource. -/
def owner (s : State) : Msg → Option Addr
  | .provUpdate frm .. => if (getProvider s frm.bytes).isSome then some frm.bytes else none
  | .nodeUpdate frm .. => if (getNode s frm.bytes).isSome then some frm.bytes else none
  | .nodeStatus frm _ => if (getNode s frm.bytes).isSome then some frm.bytes else none
  | .planStatus _ id _ => (getPlan s id).map (·.prov)
  | .planLink _ id _ => (getPlan s id).map (·.prov)
  | .planUnlink _ id _ => (getPlan s id).map (·.prov)
  | .subCancel _ id => (s.subs.get id).map (·.addr)
  | .subAllocate _ id _ _ => (s.subs.get id).map (·.addr)
  | .sessEnd _ id _ => (s.sessions.get id).map (·.addr)
  | .sessUpdate _ id _ _ _ _ => (s.sessions.get id).map (·.node)
  | .swap .. => some s.params.approveBy
  | _ => none

/-- The message kinds that address an existing, owned resource. -/
def ownerGated : Msg → Bool
  | .provUpdate .. | .nodeUpdate .. | .nodeStatus .. | .planStatus .. | .planLink .. | .planUnlink ..
  | .subCancel .. | .subAllocate .. | .sessEnd .. | .sessUpdate .. | .swap .. => true
  | _ => false

/-- The bech32 prefix the sender text of each message kind must carry (x/*/types/msg.go). -/
def senderRole : Msg → Role
  | .provUpdate .. | .planCreate .. | .planStatus .. | .planLink .. | .planUnlink .. => .prov
  | .nodeUpdate .. | .nodeStatus .. | .sessUpdate .. => .node
  | _ => .acc

/-- The second address field of a message and the prefix it must carry. -/
def otherAddr : Msg → Option (TextAddr × Role)
  | .nodeSubscribe _ node .. => some (node, .node)
  | .planLink _ _ node => some (node, .node)
  | .planUnlink _ _ node => some (node, .node)
  | .subAllocate _ _ grantee _ => some (grantee, .acc)
  | .sessStart _ _ node => some (node, .node)
  | .swap _ _ recv _ => some (recv, .acc)
  | _ => none

theorem owner_clr (s : State) (m : Msg) : owner (clr s) m = owner s m := by cases m <;> rfl

/-! ## Part 1: the sender of an accepted message is the owner -/

/-- What every owner-gated handler has checked when it succeeds. -/
theorem owner_of_handle_ok {s s' : State} {m : Msg} (h : m.handle s = .ok s') (hg : ownerGated m = true) :
    owner s m = some m.sender := by
  cases m <;> simp only [ownerGated, Bool.false_eq_true] at hg <;> simp only [Msg.handle] at h <;>
    simp only [owner, Msg.sender]
  case provUpdate => obtain ⟨p, hp⟩ := provUpdate_guard h; simp [hp]
  case nodeUpdate => obtain ⟨_, _, n, hn⟩ := nodeUpdate_guard h; simp [hn]
  case nodeStatus => obtain ⟨n, hn⟩ := nodeStatus_guard h; simp [hn]
  case planStatus => obtain ⟨p, hp, hf⟩ := planStatus_guard h; simp [hp, hf]
  case planLink => obtain ⟨p, hp, hf, _⟩ := planLink_guard h; simp [hp, hf]
  case planUnlink => obtain ⟨p, hp, hf⟩ := planUnlink_guard h; simp [hp, hf]
  case subCancel => obtain ⟨sub, hs, _, hf⟩ := subCancel_guard h; simp [hs, hf]
  case subAllocate => obtain ⟨sub, hs, _, hf, _⟩ := subAllocate_guard h; simp [hs, hf]
  case sessUpdate => obtain ⟨x, hx, _, hf, _⟩ := sessUpdate_guard h; simp [hx, hf]
  case sessEnd => obtain ⟨x, hx, _, hf⟩ := sessEnd_guard h; simp [hx, hf]
  case swap => obtain ⟨_, hf, _⟩ := swap_guard h; simp [hf]

/-- **Accepted ⇒ sent by the owner.** -/
theorem accepted_sender_is_owner (s : State) (m : Msg) (hg : ownerGated m = true)
    (ha : (deliver s m).2 = .accept) : owner s m = some m.sender := by
  rw [← owner_clr]
  exact owner_of_handle_ok (deliver_accept ha).2 hg

/-- **C07, rejection half.** The same message from any sender other than the owner fails and
leaves the whole state unchanged (`deliver` clears the per-transaction event buffer first). -/
theorem non_owner_rejected (s : State) (m : Msg) (o : Addr) (ho : owner s m = some o) (hne : m.sender ≠ o) :
    (deliver s m).2 ≠ .accept ∧ (deliver s m).1 = { s with events := [] } := by
  have hg : ownerGated m = true := by
    cases m <;> first | rfl | (simp [owner] at ho)
  apply deliver_of_handle_fails
  intro _ s' hh
  have := owner_of_handle_ok hh hg
  rw [owner_clr, ho] at this
  exact hne (Option.some.inj this).symm

/-- The addressed resource does not exist ⇒ rejected, nothing changes. -/
theorem missing_target_rejected (s : State) (m : Msg) (hg : ownerGated m = true) (ho : owner s m = none) :
    (deliver s m).2 ≠ .accept ∧ (deliver s m).1 = { s with events := [] } := by
  apply deliver_of_handle_fails
  intro _ s' hh
  have := owner_of_handle_ok hh hg
  rw [owner_clr, ho] at this
  cases this

/-- **A rejected message has no effect**, whatever the message and the reason: the whole state is
the old one (with the event buffer cleared). -/
theorem rejected_has_no_effect (s : State) (m : Msg) (h : (deliver s m).2 ≠ .accept) :
    (deliver s m).1 = { s with events := [] } := deliver_not_accept h

/-- A plan can only be created by a registered provider. -/
theorem planCreate_needs_provider (s : State) (frm : TextAddr) (dur gb : Int) (prices : Option Coins)
    (h : getProvider s frm.bytes = none) :
    (deliver s (.planCreate frm dur gb prices)).2 ≠ .accept ∧
    (deliver s (.planCreate frm dur gb prices)).1 = { s with events := [] } := by
  apply deliver_of_handle_fails
  intro _ s' hh
  obtain ⟨p, hp⟩ := planCreate_guard hh
  rw [show getProvider (clr s) frm.bytes = getProvider s frm.bytes from rfl, h] at hp
  cases hp

/-- A session on a *node* subscription can only be started by the subscriber. -/
theorem sessStart_node_sub_owner_only (s : State) (frm node : TextAddr) (id : Nat) (sub : Sub)
    (nd : Addr) (gb hr : Int) (dep : Coin)
    (hs : s.subs.get id = some sub) (hk : sub.kind = .node nd gb hr dep) (hne : frm.bytes ≠ sub.addr) :
    (deliver s (.sessStart frm id node)).2 ≠ .accept ∧
    (deliver s (.sessStart frm id node)).1 = { s with events := [] } := by
  apply deliver_of_handle_fails
  intro _ s' hh
  obtain ⟨sub', n, hs', _, _, _, _, hq, _⟩ := sessStart_guard hh
  rw [show (clr s).subs.get id = s.subs.get id from rfl, hs] at hs'
  cases hs'
  have := (sessStartQuotaCheck_ok hq).1
  rw [hk] at this
  exact hne this

/-- **Usage reports**: an accepted report comes from the session's node and, when proof
verification is enabled, carries a signature made with the key registered for the session's
account over exactly the reported figures (`SigSpec.good i`; a signature by the right key over
other figures is `SigSpec.badmsg` and is refused, as are missing, short and all-zero signatures and
accounts without a registered key). -/
theorem usage_report_needs_signature (s : State) (frm : TextAddr) (id : Nat) (up down dur : Int) (sig : SigSpec)
    (ha : (deliver s (.sessUpdate frm id up down dur sig)).2 = .accept) :
    ∃ x, s.sessions.get id = some x ∧ frm.bytes = x.node ∧ frm.role = .node ∧
      (s.params.proof = true → signatureOk s x.addr sig = true ∧ ∃ i, sig = .good i ∧ s.keyed.get x.addr = some i) := by
  obtain ⟨hv, hh⟩ := deliver_accept ha
  obtain ⟨x, hx, _, hf, hsig⟩ := sessUpdate_guard hh
  have hrole : frm.role = .node := by
    simp only [Msg.validateBasic, bind_eq_ok] at hv
    obtain ⟨a, ha', _⟩ := hv
    exact (needAddr_eq_ok ha').1
  refine ⟨x, hx, hf, hrole, ?_⟩
  intro hp
  have h1 : signatureOk s x.addr sig = true := hsig hp
  refine ⟨h1, ?_⟩
  cases sig <;> cases hk : s.keyed.get x.addr <;> simp [signatureOk, hk] at h1
  rename_i i j
  exact ⟨i, rfl, by rw [h1]⟩

/-- **Token swaps** only by the configured approver (and only while swaps are enabled). -/
theorem swap_only_by_approver (s : State) (frm recv : TextAddr) (hash : Bytes) (amt : Int)
    (ha : (deliver s (.swap frm hash recv amt)).2 = .accept) :
    frm.bytes = s.params.approveBy ∧ s.params.swapOn = true := by
  obtain ⟨_, hh⟩ := deliver_accept ha
  obtain ⟨h1, h2, _⟩ := swap_guard hh
  exact ⟨h2.symm, h1⟩

/-! ### role confusion -/

/-- An accepted `ValidateBasic` means every address text is well-formed and carries the bech32
prefix of the role the message kind expects. -/
theorem validateBasic_roles {m : Msg} (h : m.validateBasic = .ok ()) :
    m.frm.role = senderRole m ∧ m.frm.bad = false ∧
    (∀ t r, otherAddr m = some (t, r) → t.role = r ∧ t.bad = false) := by
  cases m <;> simp only [Msg.validateBasic, bind_eq_ok, require_eq_ok] at h <;>
    simp only [Msg.frm, senderRole, otherAddr, reduceCtorEq, Option.some.injEq, Prod.mk.injEq, false_imp_iff,
      implies_true, and_true]
  case provRegister => obtain ⟨a, ha, _⟩ := h; exact ⟨(needAddr_eq_ok ha).1, (needAddr_eq_ok ha).2.1⟩
  case provUpdate => obtain ⟨a, ha, _⟩ := h; exact ⟨(needAddr_eq_ok ha).1, (needAddr_eq_ok ha).2.1⟩
  case nodeRegister => obtain ⟨a, ha, _⟩ := h; exact ⟨(needAddr_eq_ok ha).1, (needAddr_eq_ok ha).2.1⟩
  case nodeUpdate => obtain ⟨a, ha, _⟩ := h; exact ⟨(needAddr_eq_ok ha).1, (needAddr_eq_ok ha).2.1⟩
  case nodeStatus => obtain ⟨a, ha, _⟩ := h; exact ⟨(needAddr_eq_ok ha).1, (needAddr_eq_ok ha).2.1⟩
  case planCreate => obtain ⟨a, ha, _⟩ := h; exact ⟨(needAddr_eq_ok ha).1, (needAddr_eq_ok ha).2.1⟩
  case planStatus => obtain ⟨a, ha, _⟩ := h; exact ⟨(needAddr_eq_ok ha).1, (needAddr_eq_ok ha).2.1⟩
  case planSubscribe => obtain ⟨a, ha, _⟩ := h; exact ⟨(needAddr_eq_ok ha).1, (needAddr_eq_ok ha).2.1⟩
  case subCancel => obtain ⟨a, ha, _⟩ := h; exact ⟨(needAddr_eq_ok ha).1, (needAddr_eq_ok ha).2.1⟩
  case sessUpdate => obtain ⟨a, ha, _⟩ := h; exact ⟨(needAddr_eq_ok ha).1, (needAddr_eq_ok ha).2.1⟩
  case sessEnd => obtain ⟨a, ha, _⟩ := h; exact ⟨(needAddr_eq_ok ha).1, (needAddr_eq_ok ha).2.1⟩
  case nodeSubscribe =>
    obtain ⟨a, ha, b, hb, _⟩ := h
    refine ⟨(needAddr_eq_ok ha).1, (needAddr_eq_ok ha).2.1, ?_⟩
    rintro t r ⟨rfl, rfl⟩; exact ⟨(needAddr_eq_ok hb).1, (needAddr_eq_ok hb).2.1⟩
  case planLink =>
    obtain ⟨a, ha, _, _, b, hb, _⟩ := h
    refine ⟨(needAddr_eq_ok ha).1, (needAddr_eq_ok ha).2.1, ?_⟩
    rintro t r ⟨rfl, rfl⟩; exact ⟨(needAddr_eq_ok hb).1, (needAddr_eq_ok hb).2.1⟩
  case planUnlink =>
    obtain ⟨a, ha, _, _, b, hb, _⟩ := h
    refine ⟨(needAddr_eq_ok ha).1, (needAddr_eq_ok ha).2.1, ?_⟩
    rintro t r ⟨rfl, rfl⟩; exact ⟨(needAddr_eq_ok hb).1, (needAddr_eq_ok hb).2.1⟩
  case subAllocate =>
    obtain ⟨a, ha, _, _, b, hb, _⟩ := h
    refine ⟨(needAddr_eq_ok ha).1, (needAddr_eq_ok ha).2.1, ?_⟩
    rintro t r ⟨rfl, rfl⟩; exact ⟨(needAddr_eq_ok hb).1, (needAddr_eq_ok hb).2.1⟩
  case sessStart =>
    obtain ⟨a, ha, _, _, b, hb, _⟩ := h
    refine ⟨(needAddr_eq_ok ha).1, (needAddr_eq_ok ha).2.1, ?_⟩
    rintro t r ⟨rfl, rfl⟩; exact ⟨(needAddr_eq_ok hb).1, (needAddr_eq_ok hb).2.1⟩
  case swap =>
    obtain ⟨a, ha, b, hb, _⟩ := h
    refine ⟨(needAddr_eq_ok ha).1, (needAddr_eq_ok ha).2.1, ?_⟩
    rintro t r ⟨rfl, rfl⟩; exact ⟨(needAddr_eq_ok hb).1, (needAddr_eq_ok hb).2.1⟩

/-- **Role confusion**: a message whose sender text carries another role's prefix (e.g. a
`sentnode…` address in a message that must come from a `sentprov…` one), or is malformed, is
rejected statelessly, for every message kind; nothing changes. -/
theorem wrong_role_rejected (s : State) (m : Msg) (h : m.frm.role ≠ senderRole m ∨ m.frm.bad = true) :
    m.validateBasic ≠ .ok () ∧ (deliver s m).2 ≠ .accept ∧ (deliver s m).1 = { s with events := [] } := by
  have hv : m.validateBasic ≠ .ok () := by
    intro hv
    obtain ⟨h1, h2, _⟩ := validateBasic_roles hv
    rcases h with h | h
    · exact h h1
    · rw [h2] at h; cases h
  refine ⟨hv, ?_⟩
  rcases deliver_cases s m with ⟨s', hv', _, _⟩ | ⟨msg, hd, _⟩
  · exact absurd hv' hv
  · rw [hd]; exact ⟨by simp, rfl⟩

/-- The same for the second address field (the node of a link or a purchase, the grantee of a
share, the receiver of a swap). -/
theorem wrong_role_other_rejected (s : State) (m : Msg) (t : TextAddr) (r : Role) (ho : otherAddr m = some (t, r))
    (h : t.role ≠ r ∨ t.bad = true) :
    m.validateBasic ≠ .ok () ∧ (deliver s m).2 ≠ .accept ∧ (deliver s m).1 = { s with events := [] } := by
  have hv : m.validateBasic ≠ .ok () := by
    intro hv
    obtain ⟨_, _, h3⟩ := validateBasic_roles hv
    obtain ⟨h1, h2⟩ := h3 t r ho
    rcases h with h | h
    · exact h h1
    · rw [h2] at h; cases h
  refine ⟨hv, ?_⟩
  rcases deliver_cases s m with ⟨s', hv', _, _⟩ | ⟨msg, hd, _⟩
  · exact absurd hv' hv
  · rw [hd]; exact ⟨by simp, rfl⟩

end Hub.Props.C07
