import Hub.Generated.Facts
/-
C13, regenerated tie: the shape of every callback the hub's query servers pass to
`query.Paginate` / `query.FilteredPaginate`, extracted from the Go AST on every run.
`Paginate` callbacks must append unconditionally (`append-always`), `FilteredPaginate` callbacks
must have the `filter` shape (`hit := pred; if hit && accumulate { append }; return hit`) — the two
shapes for which `Hub.Props.C13` proves complete, exactly-once enumeration.  The `accumulate-gated`
shape, refuted by `Hub.Props.C13.gated_not_enumerates`, was what `QueryNodesForPlan` and
`QueryPlansForProvider` had before the `fix:` commit recorded in known_findings.json (F3).
-/
namespace Hub.Props.C13
open Hub.Generated

/-- All 20 paged handlers have an enumerating callback shape. -/
theorem handlers_have_enumerating_shape :
    ∀ e ∈ Facts.paginateCallbacks,
      (e.2.2.1 = "Paginate" ∧ e.2.2.2 = "append-always") ∨ (e.2.2.1 = "FilteredPaginate" ∧ e.2.2.2 = "filter") := by
  decide

/-- The table lists every paged handler of the seven query servers. -/
theorem paged_handler_count : Facts.paginateCallbacks.length = 20 := by decide

/-- No handler has the gated shape any more. -/
theorem no_gated_callback : ∀ e ∈ Facts.paginateCallbacks, e.2.2.2 ≠ "accumulate-gated" := by decide

end Hub.Props.C13
