import Hub.Model.Run
import Hub.Model.Monitors
import Hub.Lemmas.Money
/-
C03 — Block processing never halts: begin/end-of-block hooks cannot panic.

Status on this tree.  The full statement is kept below as `hooks_never_halt`.  It is FALSE for the
current code (and the model that mirrors it): lowering the subscription delay by governance while a
session is winding down under the older delay makes the session hook panic
(`halt_by_delay_change`, known finding F6 — replayed on the real application on every run of the
check, corpus/F6_delay_lowered.ops).  The bandwidth-overflow halt (F2) was repaired by a `fix:`
commit; `bandwidth_report_bounded` is the corresponding model fact.
The `…_partial` theorem (no halt under the structural invariants and the monotone delay coupling
H_delay) is proved in `Hub/Props/C03Life.lean` as far as the structural invariants are available.
-/
namespace Hub.Props.C03
open Hub.SDK Hub.Model

/-- Full statement: from every genesis state of the domain, along every history whose governance
steps keep `sessDelay ≤ subDelay`, no begin/end-of-block step halts. -/
def hooks_never_halt : Prop :=
  ∀ (g : Genesis) (ops : List Op), (∀ b ∈ g.balances, b.1 ≠ depositAddr) →
    g.params.sessDelay ≤ g.params.subDelay → 0 < g.params.sessDelay →
    (∀ s ∈ runTrace g.state ops, s.params.sessDelay ≤ s.params.subDelay) →
    (∀ op ∈ ops, op.senderOK) →
    (runTrace g.state ops).length = ops.length

def p0 : Params :=
  { provDeposit := ⟨"udvpn", 0⟩, provShare := 0, nodeDeposit := ⟨"udvpn", 0⟩, activeDur := 86400000000000,
    maxGB := [], minGB := [], maxHr := [], minHr := [], maxSubGB := 10, minSubGB := 1, maxSubHr := 10, minSubHr := 1,
    nodeShare := 0, subDelay := 7200000000000, sessDelay := 7200000000000, proof := false, swapOn := false,
    swapDenom := "udvpn", approveBy := [1] }

def g0 : Genesis := { time := 1700000000000000000, params := p0, balances := [([3], "udvpn", 1000000)] }

def acc (b : UInt8) : TextAddr := { role := .acc, bytes := [b] }
def nod (b : UInt8) : TextAddr := { role := .node, bytes := [b] }

/-- The F6 history: a node, a per-gigabyte subscription, a session that is ended (pending for 2 h),
then governance lowers both delays to 1 h (session ≤ subscription still holds), the subscription is
cancelled; one hour later it is removed while its session is still pending; at the session's
deadline the hook cannot find the subscription. -/
def f6 : List Op := [
  .begin 1700000005000000000,
  .tx (.nodeRegister (acc 2) (some [⟨"udvpn", 10⟩]) (some [⟨"udvpn", 5⟩]) [104] true),
  .tx (.nodeStatus (nod 2) 1),
  .tx (.nodeSubscribe (acc 3) (nod 2) 1 0 "udvpn"),
  .tx (.sessStart (acc 3) 1 (nod 2)),
  .tx (.sessEnd (acc 3) 1 0),
  .gov (.sessDelay 3600000000000),
  .gov (.subDelay 3600000000000),
  .tx (.subCancel (acc 3) 1),
  .endB,
  .begin 1700003606000000000,
  .endB,
  .begin 1700007206000000000,
  .endB]

/-- Witness: the history is inside the domain (delays coupled at every state, no module sender) and
the last end-of-block step halts. -/
theorem halt_by_delay_change :
    (runTrace g0.state f6).length = 13 ∧ f6.length = 14 ∧
    (∀ s ∈ runTrace g0.state f6, s.params.sessDelay ≤ s.params.subDelay) := by
  decide +kernel

def senderOKB : Op → Bool
  | .tx m => m.sender != depositAddr
  | _ => true

theorem senderOK_of_B {op : Op} (h : senderOKB op = true) : op.senderOK := by
  cases op <;> simp_all [senderOKB, Op.senderOK]

theorem hooks_never_halt_is_false : ¬ hooks_never_halt := by
  intro h
  have hs : ∀ op ∈ f6, op.senderOK := by
    intro op hop
    exact senderOK_of_B ((List.all_eq_true.mp (by decide : f6.all senderOKB = true)) op hop)
  have := h g0 f6 (by decide) (by decide) (by decide) halt_by_delay_change.2.2 hs
  rw [halt_by_delay_change.1] at this
  exact absurd this (by decide)

/-- F2 repaired: a usage report passes validation only with both directions below 2^128, so the sum
handed to the settlement hook is far below the 256-bit limit. -/
theorem bandwidth_report_bounded (frm : TextAddr) (id : Nat) (up down dur : Int) (sig : SigSpec)
    (h : (Msg.sessUpdate frm id up down dur sig).validateBasic = .ok ()) :
    0 ≤ up ∧ 0 ≤ down ∧ up < 340282366920938463463374607431768211456 ∧ down < 340282366920938463463374607431768211456 := by
  unfold Msg.validateBasic at h
  simp only [bind_eq_ok, require_eq_ok] at h
  obtain ⟨_, _, _, _, _, hnn, _, hb, _⟩ := h
  simp only [Bool.and_eq_true, decide_eq_true_eq] at hnn hb
  omega

end Hub.Props.C03
