import Hub.Props.C12Reach
/-!
# C12 — the exported genesis of every reachable state is valid, up to the swap amounts (F4)

`roundtrip_reachable` needs `hswap` (no recorded swap below 100, finding F4) because `Swap.Validate` rejects
such a record.  Everything else the validation checks holds in every reachable state *unconditionally*:
this file proves it, in the Boolean form that the correspondence check evaluates as the monitor
`exportValid` on every model state and on every state loaded from the implementation
(`Hub.Model.exportValidB`: the export does not panic, the vpn and custommint sections validate, the swap
parameters validate and no two exported swaps share a hash).  The proof runs the existing development on the
state with its swap table emptied (the vpn and custommint exports do not read it) and treats the swap
section directly.
-/
namespace Hub.Props.C12
open Hub.SDK Hub.Model Hub.Model.Gen Hub.Model.GenWFSteps
open Hub.Generated.Keys

local macro "xfer" h:ident : tactic => `(tactic| (cases $h:ident; constructor <;> assumption))

/-- The state with its swap table emptied. -/
def clearSwaps (s : State) : State := { s with swaps := [] }

theorem structInv_clearSwaps {s : State} (hi : StructInv s) : StructInv (clearSwaps s) := by
  obtain ⟨hc, hr, hn, hse, hsu, ha, hq⟩ := hi
  refine ⟨?_, ?_, ?_, ?_, ?_, ?_, ?_⟩
  all_goals first | (xfer hc) | (xfer hr) | (xfer hn) | (xfer hse) | (xfer hsu) | (xfer ha) | (xfer hq) | exact hq

theorem rv_clearSwaps {s : State} (hv : RV s) : RV (clearSwaps s) := by
  unfold RV at *
  obtain ⟨a1, a2, a3, a4, a5, a6, a7, a8, a9, a10, _, a12, a13, _, a15, a16⟩ := hv
  exact ⟨a1, a2, a3, a4, a5, a6, a7, a8, a9, a10, (by intro k v h; simp [rview, clearSwaps] at h), a12, a13,
    (by simp [rview, clearSwaps, Tbl.Nodup]), a15, a16⟩

theorem genWF_clearSwaps {s : State} (hs : StructInv s) (hv : RV s) : GenWF (clearSwaps s) :=
  genWF_of_invariants (structInv_clearSwaps hs) (rv_clearSwaps hv) (by intro h w hw; simp [clearSwaps] at hw)

/-- **The monitor `exportValid` holds wherever the two invariants hold** — no condition on the swaps. -/
theorem exportValid_of_invariants {s : State} (hs : StructInv s) (hv : RV s) : exportValidB s = true := by
  have g0 := genWF_clearSwaps hs hv
  have hp : exportPanics s = false := (export_no_panic g0 : exportPanics (clearSwaps s) = false)
  have hvpn : validateVpn (exportVpn s) = none := (vpn_valid g0 : validateVpn (exportVpn (clearSwaps s)) = none)
  have hmint : validateMint (exportMint s) = none := (mint_valid g0 : validateMint (exportMint (clearSwaps s)) = none)
  have hpar : s.params.swap.validate = none := hv.params.2.2.2.2
  have hdup : (!hasDup ((exportSwap s).swaps.map (·.hash))) = true := by
    rw [not_hasDup]
    show ((exportVals swap.SwapKey s.swaps).map (·.hash)).Nodup
    have hk : ∀ h w, s.swaps.get h = some w → w.hash = h := fun h w hw => (hv.swaps h w hw).1
    have hn : Tbl.Nodup s.swaps := hv.swapNodup
    rw [exportVals_keys _ _ hk]; exact exportTbl_nodup _ hn
  simp only [exportValidB, hp, hvpn, hmint, hpar, hdup, Bool.not_false, Option.isNone_none, Bool.and_self]

/-- **Every state of every history (block times after the zero time) from every valid genesis exports a
genesis whose vpn and custommint sections, swap parameters and swap hashes pass validation.** -/
theorem exportValid_of_reachable {s : State} (hr : ReachableValid s) : exportValidB s = true := by
  obtain ⟨g, ops, hg, ht, hs⟩ := hr
  exact exportValid_of_invariants (Hub.Model.Reachable.structInv ⟨g, ops, hs⟩) (rv_of_history hg ht hs)

/-- Non-vacuity: the rich witness state of `C12Reach` (providers, nodes, plans, links, sessions, a swap). -/
example : exportValidB wRich = true := exportValid_of_reachable wRich_reachableValid

end Hub.Props.C12
