import Hub.Generated.Coin
import Hub.SDK.MeterSpec
import Hub.Generated.Bandwidth
import Hub.Lemmas.Math
/-
C16 — Metering arithmetic is exact and monotone.

All theorems are about the *regenerated* definitions `Hub.Generated.AmountForBytes`,
`GetProportionOfCoin`, `Bandwidth.CeilTo` (translated from utils/coin.go and types/bandwidth.go on
every run) over the hand-written model of `cosmossdk.io/math` (validated by the probe).
-/
namespace Hub.Props.C16
open Hub.SDK Hub.Generated


/-- `chargeSpec` is that smallest number. -/
theorem chargeSpec_is_ceiling (p b : Nat) :
    chargeSpec p b * 10 ^ 9 ≥ p * b ∧ ∀ r : Nat, r * 10 ^ 9 ≥ p * b → chargeSpec p b ≤ r := by
  unfold chargeSpec
  constructor
  · omega
  · intro r hr
    omega

/-- Splitting the price into whole gigabyte units and the rest does not change the rounded-up charge. -/
theorem chargeSpec_split_price (p b : Nat) :
    p / 10 ^ 9 * b + (p % 10 ^ 9 * b + 10 ^ 9 - 1) / 10 ^ 9 = chargeSpec p b := by
  unfold chargeSpec
  have hp : p = 10 ^ 9 * (p / 10 ^ 9) + p % 10 ^ 9 := (Nat.div_add_mod p (10 ^ 9)).symm
  have e : p * b + (10 ^ 9 - 1) = 10 ^ 9 * (p / 10 ^ 9 * b) + (p % 10 ^ 9 * b + 10 ^ 9 - 1) := by
    have h1 : p * b = (10 ^ 9 * (p / 10 ^ 9) + p % 10 ^ 9) * b := by rw [← hp]
    rw [h1]; ring_nf; omega
  rw [e, Nat.mul_add_div (by norm_num : 0 < 10 ^ 9)]

private theorem gigabyte_val : Gigabyte = ((10 ^ 9 : Nat) : Int) := by
  unfold Gigabyte Megabyte Kilobyte; norm_num

private theorem mod_nat (a b : Nat) (hb : 0 < b) : SInt.mod (a : Int) (b : Int) = .ok ((a % b : Nat) : Int) := by
  unfold SInt.mod
  have : ((b : Nat) : Int) ≠ 0 := by omega
  simp only [this, if_false]
  rfl

private theorem sub_one_nat (a : Nat) (h1 : 1 ≤ a) (h : a < B256) : SInt.sub (a : Int) 1 = .ok ((a - 1 : Nat) : Int) :=
  SInt.sub_nat a 1 h1 h

/-- `AmountForBytes p b = ⌈p·b/10^9⌉`, without panic, whenever the charge and the intermediate
`(p mod 10^9)·b + 10^9` fit in 256 bits.  (After repair F11 the function works on integers; before it
the 315-bit decimal intermediate made it panic for prices near 2^255, a chain halt at settlement.) -/
theorem afb_exact_fits (p b : Nat) (h1 : p / 10 ^ 9 * b < B256) (h2 : p % 10 ^ 9 * b + 10 ^ 9 < B256)
    (h3 : chargeSpec p b < B256) :
    AmountForBytes (p : Int) (b : Int) = .ok ((chargeSpec p b : Nat) : Int) := by
  have h4 : p % 10 ^ 9 * b < B256 := Nat.lt_of_le_of_lt (Nat.le_add_right _ _) h2
  have h5 : 1 ≤ p % 10 ^ 9 * b + 10 ^ 9 := Nat.le_trans (by norm_num) (Nat.le_add_left _ _)
  have e := chargeSpec_split_price p b
  have h6 : p / 10 ^ 9 * b + (p % 10 ^ 9 * b + 10 ^ 9 - 1) / 10 ^ 9 < B256 := by rw [e]; exact h3
  unfold AmountForBytes
  rw [gigabyte_val, SInt.quo_nat p (10 ^ 9) (by norm_num), ok_bind, SInt.mul_nat _ _ h1, ok_bind,
    mod_nat p (10 ^ 9) (by norm_num), ok_bind, SInt.mul_nat _ _ h4, ok_bind, SInt.add_nat _ _ h2, ok_bind,
    sub_one_nat _ h5 h2, ok_bind, SInt.quo_nat _ (10 ^ 9) (by norm_num), ok_bind, SInt.add_nat _ _ h6, e]

/-- The earlier range statement still holds: no panic whenever `p·b < 2^255`. -/
theorem afb_exact_wide (p b : Nat) (h : p * b < B255) :
    AmountForBytes (p : Int) (b : Int) = .ok ((chargeSpec p b : Nat) : Int) := by
  have hq : p / 10 ^ 9 * b ≤ p * b := Nat.mul_le_mul_right b (Nat.div_le_self p (10 ^ 9))
  have hr : p % 10 ^ 9 * b ≤ p * b := Nat.mul_le_mul_right b (Nat.mod_le p (10 ^ 9))
  have hc : chargeSpec p b ≤ p * b + 1 := by unfold chargeSpec; omega
  exact afb_exact_fits p b (by omega) (by omega) (by omega)

/-- The price of the repaired defect F11: `2^255` per gigabyte, one byte short of a gigabyte — the
charge is computed (the decimal version panicked here). -/
example : AmountForBytes 57896044618658097711785492504343953926634992332820282019728792003956564819968 999999999 =
    .ok 57896044560762053093127394792558461422291038406185289686908509984227772816012 := by decide +kernel

/-- The property's stated domain: all `p, b ≤ 2^127` (then `p·b < 2^255`); beyond it the same
formula holds as long as the product stays below `2^255`. -/
theorem afb_exact (p b : Nat) (hp : p ≤ 170141183460469231731687303715884105728) (hb : b ≤ 170141183460469231731687303715884105728) :
    AmountForBytes (p : Int) (b : Int) = .ok ((chargeSpec p b : Nat) : Int) := by
  apply afb_exact_wide
  calc p * b ≤ 170141183460469231731687303715884105728 * 170141183460469231731687303715884105728 := Nat.mul_le_mul hp hb
    _ < B255 := by norm_num

/-- 0 bytes cost nothing. -/
theorem afb_zero (p : Nat) : chargeSpec p 0 = 0 := by unfold chargeSpec; omega

/-- The charge never decreases when the byte count grows. -/
theorem afb_mono (p : Nat) {b b' : Nat} (h : b ≤ b') : chargeSpec p b ≤ chargeSpec p b' := by
  unfold chargeSpec
  have : p * b ≤ p * b' := Nat.mul_le_mul_left p h
  omega

/-- Total charged when a cumulative counter passes through the values `us` (after `u0`), each
settlement charging the increment `AFB(u') − AFB(u)` — what `SessionInactiveHook` does. -/
def settle (p : Nat) : Nat → List Nat → Nat
  | _, [] => 0
  | u0, u :: us => (chargeSpec p u - chargeSpec p u0) + settle p u us

def lastOf : Nat → List Nat → Nat
  | u0, [] => u0
  | _, u :: us => lastOf u us

/-- Charging cumulatively totals exactly the charge for the final value. -/
theorem afb_telescope (p : Nat) (us : List Nat) (u0 : Nat) (hs : (u0 :: us).Pairwise (· ≤ ·)) :
    settle p u0 us = chargeSpec p (lastOf u0 us) - chargeSpec p u0 ∧ u0 ≤ lastOf u0 us := by
  induction us generalizing u0 with
  | nil => simp [settle, lastOf]
  | cons u rest ih =>
    have h1 : u0 ≤ u := (List.pairwise_cons.mp hs).1 u (by simp)
    have h2 : (u :: rest).Pairwise (· ≤ ·) := (List.pairwise_cons.mp hs).2
    obtain ⟨e, hl⟩ := ih u h2
    have m1 := afb_mono p h1
    have m2 := afb_mono p hl
    simp only [settle, lastOf, e]
    omega

/-- Charging two parts separately never costs less than charging once for the sum, and at most
one base unit more. -/
theorem afb_split (p a b : Nat) :
    chargeSpec p (a + b) ≤ chargeSpec p a + chargeSpec p b ∧ chargeSpec p a + chargeSpec p b ≤ chargeSpec p (a + b) + 1 := by
  unfold chargeSpec
  have : p * (a + b) = p * a + p * b := Nat.mul_add p a b
  constructor <;> omega


/-- `GetProportionOfCoin` is the exactly rounded product; it never panics for amounts below
2^255 and shares in [0, 1]. -/
theorem proportion_exact (d : Denom) (a s : Nat) (hd : validDenom d = true) (ha : a < B255) (hs : s ≤ 10 ^ 18) :
    GetProportionOfCoin ⟨d, (a : Int)⟩ (s : Int) = .ok ⟨d, ((shareSpec a s : Nat) : Int)⟩ := by
  have hle := Dec.chopRoundNat_le_of_share a s hs
  have e : a * 10 ^ 18 * s = (a * s) * 10 ^ 18 := by ring
  have has : a * s < B315 := by
    have : a * s ≤ a * 10 ^ 18 := Nat.mul_le_mul_left a hs
    omega
  have hval : Dec.chopRoundNat (a * 10 ^ 18 * s) = a * s := by rw [e]; exact Dec.chopRoundNat_mul _
  have s1 : Dec.mul (((a * 10 ^ 18 : Nat)) : Int) (s : Int) = .ok ((a * s : Nat) : Int) := by
    rw [Dec.mul_nat _ _ (by rw [hval]; exact has), hval]
  have s2 := Dec.roundInt_nat (a * s) (by omega)
  have hnn : ¬ (((Dec.chopRoundNat (a * s) : Nat) : Int) < 0) := by omega
  unfold GetProportionOfCoin shareSpec
  simp only []
  rw [Dec.ofInt_natCast, s1, ok_bind, s2, ok_bind]
  unfold newCoin
  simp only [hd, Bool.not_true, Bool.false_eq_true, if_false, hnn]
  rfl

/-- The share is never negative (a natural number) and never more than the coin. -/
theorem proportion_le (a s : Nat) (hs : s ≤ 10 ^ 18) : shareSpec a s ≤ a :=
  Dec.chopRoundNat_le_of_share a s hs

/-- … and within half a base unit of `share × amount`. -/
theorem proportion_error (a s : Nat) :
    shareSpec a s * 10 ^ 18 ≤ a * s + 5 * 10 ^ 17 ∧ a * s ≤ shareSpec a s * 10 ^ 18 + 5 * 10 ^ 17 :=
  Dec.chopRoundNat_bounds (a * s)


theorem ceilToSpec_is_smallest_multiple (x pre : Nat) (hp : 0 < pre) :
    pre ∣ ceilToSpec x pre ∧ x ≤ ceilToSpec x pre ∧ ∀ m, pre ∣ m → x ≤ m → ceilToSpec x pre ≤ m := by
  unfold ceilToSpec
  refine ⟨Nat.dvd_mul_left _ _, ?_, ?_⟩
  · have h1 := Nat.div_add_mod (x + (pre - 1)) pre
    have h2 := Nat.mod_lt (x + (pre - 1)) hp
    rw [Nat.mul_comm] at h1
    omega
  · rintro m ⟨k, rfl⟩ hx
    have : (x + (pre - 1)) / pre ≤ k := by
      rw [Nat.div_le_iff_le_mul_add_pred hp]
      omega
    calc (x + (pre - 1)) / pre * pre ≤ k * pre := Nat.mul_le_mul_right _ this
      _ = pre * k := Nat.mul_comm _ _

private theorem ceil_component (x pre : Nat) (hp : 0 < pre) :
    x + (if pre - x % pre = pre then 0 else pre - x % pre) = ceilToSpec x pre := by
  unfold ceilToSpec
  have hm := Nat.mod_lt x hp
  have hd := Nat.div_add_mod x pre
  rw [Nat.mul_comm] at hd
  by_cases h0 : x % pre = 0
  · have : pre - x % pre = pre := by omega
    rw [if_pos this]
    have hq : (x + (pre - 1)) / pre = x / pre := by
      have hx : x + (pre - 1) = (pre - 1) + (x / pre) * pre := by omega
      rw [hx, Nat.add_mul_div_right _ _ hp, Nat.div_eq_of_lt (by omega)]
      omega
    rw [hq]; omega
  · have : ¬ (pre - x % pre = pre) := by omega
    rw [if_neg this]
    have hq : (x + (pre - 1)) / pre = x / pre + 1 := by
      have hx : x + (pre - 1) = (x % pre - 1) + (x / pre + 1) * pre := by
        rw [Nat.add_mul]; omega
      rw [hx, Nat.add_mul_div_right _ _ hp, Nat.div_eq_of_lt (by omega)]
      omega
    rw [hq, Nat.add_mul]; omega

/-- `CeilTo` rounds each direction up to the smallest multiple of a positive precision. -/
theorem ceilTo_exact (up down pre : Nat) (hp : 0 < pre) (hu : up + pre < B256) (hd : down + pre < B256) :
    Bandwidth.CeilTo ⟨(up : Int), (down : Int)⟩ (pre : Int)
      = .ok ⟨((ceilToSpec up pre : Nat) : Int), ((ceilToSpec down pre : Nat) : Int)⟩ := by
  have hpre : ((pre : Int) > 0) := by omega
  have hne : ¬ ((pre : Int) = 0) := by omega
  have hmu : Int.emod (up : Int) (pre : Int) = ((up % pre : Nat) : Int) := by norm_cast
  have hmd : Int.emod (down : Int) (pre : Int) = ((down % pre : Nat) : Int) := by norm_cast
  have hlu := Nat.mod_lt up hp
  have hld := Nat.mod_lt down hp
  unfold Bandwidth.CeilTo SInt.mod
  simp only [hpre, decide_true, Bool.not_true, Bool.false_eq_true, if_false, hne, hmu, hmd, bind, Except.bind, pure, Except.pure]
  rw [SInt.sub_nat _ _ (le_of_lt hlu) (by omega)]
  simp only []
  rw [SInt.sub_nat _ _ (le_of_lt hld) (by omega)]
  simp only [Bandwidth.NewBandwidth]
  have cu : (((pre - up % pre : Nat) : Int) = (pre : Int)) ↔ (pre - up % pre = pre) := by norm_cast
  have cd : (((pre - down % pre : Nat) : Int) = (pre : Int)) ↔ (pre - down % pre = pre) := by norm_cast
  unfold Bandwidth.Add
  simp only [bind, Except.bind, pure, Except.pure]
  by_cases h1 : pre - up % pre = pre <;> by_cases h2 : pre - down % pre = pre
  all_goals
    simp only [cu, cd, h1, h2, if_true, if_false]
    have e1 := ceil_component up pre hp
    have e2 := ceil_component down pre hp
    simp only [h1, h2, if_true, if_false] at e1 e2
  · rw [show (0 : Int) = ((0 : Nat) : Int) from rfl, SInt.add_nat _ _ (by omega)]
    simp only []
    rw [SInt.add_nat _ _ (by omega)]
    simp only [e1, e2]
  · rw [show (0 : Int) = ((0 : Nat) : Int) from rfl, SInt.add_nat _ _ (by omega)]
    simp only []
    rw [SInt.add_nat _ _ (by omega)]
    simp only [e1, e2]
  · rw [SInt.add_nat _ _ (by omega)]
    simp only []
    rw [show (0 : Int) = ((0 : Nat) : Int) from rfl, SInt.add_nat _ _ (by omega)]
    simp only [e1, e2]
  · rw [SInt.add_nat _ _ (by omega)]
    simp only []
    rw [SInt.add_nat _ _ (by omega)]
    simp only [e1, e2]

/-- A non-positive precision leaves the bandwidth unchanged. -/
theorem ceilTo_id (b : Bandwidth) (pre : Int) (hp : pre ≤ 0) : Bandwidth.CeilTo b pre = .ok b := by
  unfold Bandwidth.CeilTo
  have : ¬ (pre > 0) := by omega
  simp only [this, decide_false, Bool.not_false, if_true]
  rfl

/-! ### The ends of the share range and the empty coin

A zero share gives a zero coin, the full share gives the whole coin, a zero coin gives a zero coin
(seeded change C16w14 returned the whole coin for a zero share). -/

theorem shareSpec_zero_share (a : Nat) : shareSpec a 0 = 0 := by
  unfold shareSpec Dec.chopRoundNat; simp

theorem shareSpec_full_share (a : Nat) : shareSpec a (10 ^ 18) = a := by
  unfold shareSpec; exact Dec.chopRoundNat_mul a

theorem shareSpec_zero_coin (s : Nat) : shareSpec 0 s = 0 := by
  unfold shareSpec Dec.chopRoundNat; simp

theorem proportion_zero_share (d : Denom) (a : Nat) (hd : validDenom d = true) (ha : a < B255) :
    GetProportionOfCoin ⟨d, (a : Int)⟩ ((0 : Nat) : Int) = .ok ⟨d, 0⟩ := by
  have := proportion_exact d a 0 hd ha (by norm_num)
  rw [shareSpec_zero_share] at this; exact this

theorem proportion_full_share (d : Denom) (a : Nat) (hd : validDenom d = true) (ha : a < B255) :
    GetProportionOfCoin ⟨d, (a : Int)⟩ ((10 ^ 18 : Nat) : Int) = .ok ⟨d, (a : Int)⟩ := by
  have := proportion_exact d a (10 ^ 18) hd ha (by norm_num)
  rw [shareSpec_full_share] at this; exact this

/-! Non-vacuity: concrete values inside every hypothesis. -/
example : AmountForBytes 7 1500000001 = .ok 11 := by
  have := afb_exact 7 1500000001 (by norm_num) (by norm_num)
  show AmountForBytes ((7 : Nat) : Int) ((1500000001 : Nat) : Int) = _
  rw [this]; unfold chargeSpec; norm_num
example : chargeSpec 7 1500000001 = 11 ∧ 11 * 10 ^ 9 ≥ 7 * 1500000001 ∧ ¬ (10 * 10 ^ 9 ≥ 7 * 1500000001) := by
  unfold chargeSpec; norm_num
example : shareSpec 5 (10 ^ 17) = 0 ∧ shareSpec 15 (10 ^ 17) = 2 ∧ shareSpec 25 (10 ^ 17) = 2 := by
  unfold shareSpec Dec.chopRoundNat; norm_num
example : ceilToSpec 1001 1000 = 2000 ∧ ceilToSpec 2000 1000 = 2000 ∧ ceilToSpec 0 7 = 0 := by
  unfold ceilToSpec; norm_num

end Hub.Props.C16
