import Hub.Lemmas.Prices
/-
C11 — Node prices and purchase sizes always respect the governance bounds.

Property text: "At every block boundary every registered node's per-gigabyte and per-hour prices lie
within the current governance minimum and maximum for every bounded denomination, also right after
governance changed the bounds; registrations and price updates outside the bounds are rejected.
Purchases of gigabytes or hours outside the configured minimum/maximum quantity are rejected."

Go: `x/node/keeper/params.go` (`IsValidGigabytePrices`, `IsValidHourlyPrices`,
`IsValidSubscriptionGigabytes/Hours`), `x/node/keeper/msg_server.go` (`MsgRegister`,
`MsgUpdateDetails`, `MsgSubscribe`), `x/node/keeper/abci.go` (`EndBlock`: for each of the four bound
vectors whose parameter key was written in this block, every node's amount above the max / below the
min is replaced by the bound).

* `PricesOK` is the bound condition written from the text, `pricesWithin_iff` relates the code's check.
* `register_rejects_out_of_bounds`, `update_rejects_out_of_bounds`, `purchase_size_checked`.
* `clamp_max`, `clamp_min`, `clamp_min_keeps_max` (in `Hub/Lemmas/Prices.lean`), `sweepNode_ok`, `sweep_clamps`.
* `PricesInv`: every record satisfies every bound that was not rewritten in the current block; it holds
  at genesis and is preserved by every operation (`step_inv`; an end-of-block needs D5 = per
  denomination min ≤ max for the values then in force); after an end-of-block every record satisfies
  every bound (`endBlock_full`, `prices_at_block_boundaries`).
-/
namespace Hub.Props.C11
open Hub.SDK Hub.Model
open Hub.Generated (Status)

/-! ### the specification -/

/-- Two price lists respect the four bound vectors: for every bounded denomination the amount
(0 when the denomination is not quoted) is at most the maximum and at least the minimum. -/
def ListsOK (p : Params) (gb hr : Coins) : Prop :=
  (∀ c ∈ p.maxGB, gb.amountOf c.denom ≤ c.amount) ∧ (∀ c ∈ p.minGB, c.amount ≤ gb.amountOf c.denom) ∧
  (∀ c ∈ p.maxHr, hr.amountOf c.denom ≤ c.amount) ∧ (∀ c ∈ p.minHr, c.amount ≤ hr.amountOf c.denom)

/-- A node's per-gigabyte and per-hour prices lie within the governance bounds. -/
def PricesOK (p : Params) (n : Node) : Prop := ListsOK p n.gb n.hr

/-- Every registered node (active or inactive) is within the current bounds. -/
def AllPricesOK (s : State) : Prop := ∀ a n, IsNode s a n → PricesOK s.params n

/-- The code's check (`IsValidGigabytePrices` and `IsValidHourlyPrices`) is the specification. -/
theorem pricesWithin_iff (p : Params) (gb hr : Coins) :
    (pricesWithin p.maxGB p.minGB gb = true ∧ pricesWithin p.maxHr p.minHr hr = true) ↔ ListsOK p gb hr := by
  rw [pricesWithin_iff', pricesWithin_iff']
  unfold ListsOK MaxOK MinOK
  exact ⟨fun ⟨⟨a, b⟩, c, d⟩ => ⟨a, b, c, d⟩, fun ⟨a, b, c, d⟩ => ⟨⟨a, b⟩, c, d⟩⟩

/-- D5 (configuration domain): per denomination, min ≤ max, for both pairs of bound vectors. -/
def D5 (p : Params) : Prop := MinLeMax p.minGB p.maxGB ∧ MinLeMax p.minHr p.maxHr

/-- The four bound vectors have pairwise distinct denominations (true of valid coin sets, which is
what the parameter validators accept). -/
def BoundsWF (p : Params) : Prop :=
  DistinctDenoms p.maxGB ∧ DistinctDenoms p.minGB ∧ DistinctDenoms p.maxHr ∧ DistinctDenoms p.minHr

/-! ### admission: registrations, price updates, purchases -/

/-- A registration succeeds only with prices inside the bounds. -/
theorem register_rejects_out_of_bounds {s s' : State} {frm : Addr} {gb hr : Coins} {url : Bytes}
    (h : nodeRegister s frm gb hr url = .ok s') : ListsOK s.params gb hr := by
  unfold nodeRegister at h
  simp only [bind_eq_ok, pure_eq_ok, require_eq_ok] at h
  obtain ⟨_, h1, _, h2, _⟩ := h
  exact (pricesWithin_iff _ _ _).mp ⟨h1, h2⟩

/-- A price update succeeds only if each submitted list is inside its bounds. -/
theorem update_rejects_out_of_bounds {s s' : State} {frm : Addr} {gb hr : Option Coins} {url : Bytes}
    (h : nodeUpdate s frm gb hr url = .ok s') :
    (∀ g, gb = some g → MaxOK s.params.maxGB g ∧ MinOK s.params.minGB g) ∧
    (∀ x, hr = some x → MaxOK s.params.maxHr x ∧ MinOK s.params.minHr x) := by
  unfold nodeUpdate at h
  simp only [bind_eq_ok, pure_eq_ok, require_eq_ok] at h
  obtain ⟨_, h1, _, h2, _⟩ := h
  refine ⟨?_, ?_⟩
  · intro g hg; subst hg; exact (pricesWithin_iff' _ _ _).mp h1
  · intro x hx; subst hx; exact (pricesWithin_iff' _ _ _).mp h2

/-- … in contrapositive form: out-of-bounds registrations and updates are rejected. -/
theorem register_out_of_bounds_rejected {s : State} {frm : Addr} {gb hr : Coins} {url : Bytes}
    (h : ¬ ListsOK s.params gb hr) : ∀ s', nodeRegister s frm gb hr url ≠ .ok s' :=
  fun _ h' => h (register_rejects_out_of_bounds h')

theorem update_out_of_bounds_rejected {s : State} {frm : Addr} {g : Coins} {hr : Option Coins} {url : Bytes}
    (h : ¬ (MaxOK s.params.maxGB g ∧ MinOK s.params.minGB g)) : ∀ s', nodeUpdate s frm (some g) hr url ≠ .ok s' :=
  fun _ h' => h ((update_rejects_out_of_bounds h').1 g rfl)

/-- A purchase succeeds only with a quantity inside the configured range (gigabytes, when bought by
the gigabyte; hours, when bought by the hour). -/
theorem purchase_size_checked {s s' : State} {frm node : Addr} {gb hr : Int} {denom : Denom}
    (h : nodeSubscribe s frm node gb hr denom = .ok s') :
    (gb ≠ 0 → s.params.minSubGB ≤ gb ∧ gb ≤ s.params.maxSubGB) ∧
    (hr ≠ 0 → s.params.minSubHr ≤ hr ∧ hr ≤ s.params.maxSubHr) := by
  unfold nodeSubscribe at h
  simp only [bind_eq_ok, pure_eq_ok, require_eq_ok] at h
  obtain ⟨_, h1, _, h2, _⟩ := h
  simp only [Bool.or_eq_true, beq_iff_eq, Bool.and_eq_true, decide_eq_true_eq] at h1 h2
  exact ⟨fun hne => h1.resolve_left hne, fun hne => h2.resolve_left hne⟩

/-- At the message level: an accepted purchase has exactly one of the two quantities, positive and
inside its range. -/
theorem deliver_purchase_checked {s : State} {frm node : TextAddr} {gb hr : Int} {denom : Denom}
    (h : (deliver s (.nodeSubscribe frm node gb hr denom)).2 = .accept) :
    (gb ≠ 0 → s.params.minSubGB ≤ gb ∧ gb ≤ s.params.maxSubGB) ∧
    (hr ≠ 0 → s.params.minSubHr ≤ hr ∧ hr ≤ s.params.maxSubHr) := by
  rcases deliver_cases s (.nodeSubscribe frm node gb hr denom) with ⟨_, _, hh⟩ | ⟨hn, _, _⟩
  · exact purchase_size_checked (s := { s with events := [] }) hh
  · exact absurd h hn

theorem deliver_register_checked {s : State} {frm : TextAddr} {gb hr : Option Coins} {url : Bytes} {ok : Bool}
    (h : (deliver s (.nodeRegister frm gb hr url ok)).2 = .accept) : ListsOK s.params (gb.getD []) (hr.getD []) := by
  rcases deliver_cases s (.nodeRegister frm gb hr url ok) with ⟨_, _, hh⟩ | ⟨hn, _, _⟩
  · exact register_rejects_out_of_bounds (s := { s with events := [] }) hh
  · exact absurd h hn

/-- Registrations and price updates succeed only with prices inside the bounds (both handlers). -/
theorem register_update_reject_out_of_bounds :
    (∀ {s s' : State} {frm : Addr} {gb hr : Coins} {url : Bytes},
      nodeRegister s frm gb hr url = .ok s' → ListsOK s.params gb hr) ∧
    (∀ {s s' : State} {frm : Addr} {gb hr : Option Coins} {url : Bytes},
      nodeUpdate s frm gb hr url = .ok s' →
        (∀ g, gb = some g → MaxOK s.params.maxGB g ∧ MinOK s.params.minGB g) ∧
        (∀ x, hr = some x → MaxOK s.params.maxHr x ∧ MinOK s.params.minHr x)) :=
  ⟨fun h => register_rejects_out_of_bounds h, fun h => update_rejects_out_of_bounds h⟩

/-! ### the sweep -/

/-- The clamp lemmas (proved in `Hub/Lemmas/Prices.lean`), under their C11 names. -/
theorem clamp_max (bounds prices : Coins) (hd : DistinctDenoms bounds) :
    MaxOK bounds (clampPrices (· > ·) bounds prices) ∧
    (∀ c ∈ bounds, prices.amountOf c.denom ≤ c.amount →
      (clampPrices (· > ·) bounds prices).amountOf c.denom = prices.amountOf c.denom) ∧
    (∀ d, d ∉ bounds.map (·.denom) → (clampPrices (· > ·) bounds prices).amountOf d = prices.amountOf d) :=
  ⟨(Hub.Model.clamp_max bounds prices hd).1, (Hub.Model.clamp_max bounds prices hd).2, fun d h => clamp_other _ bounds prices d h⟩

theorem clamp_min (bounds prices : Coins) (hd : DistinctDenoms bounds) :
    MinOK bounds (clampPrices (· < ·) bounds prices) ∧
    (∀ c ∈ bounds, c.amount ≤ prices.amountOf c.denom →
      (clampPrices (· < ·) bounds prices).amountOf c.denom = prices.amountOf c.denom) ∧
    (∀ d, d ∉ bounds.map (·.denom) → (clampPrices (· < ·) bounds prices).amountOf d = prices.amountOf d) :=
  ⟨(Hub.Model.clamp_min bounds prices hd).1, (Hub.Model.clamp_min bounds prices hd).2, fun d h => clamp_other _ bounds prices d h⟩

/-- Applying the min clamp after the max clamp keeps the max bounds, provided min ≤ max per denomination (D5). -/
theorem clamp_min_after_max (minB maxB prices : Coins) (hdn : DistinctDenoms minB) (hdx : DistinctDenoms maxB)
    (h5 : MinLeMax minB maxB) :
    MaxOK maxB (clampPrices (· < ·) minB (clampPrices (· > ·) maxB prices)) ∧
    MinOK minB (clampPrices (· < ·) minB (clampPrices (· > ·) maxB prices)) :=
  ⟨clamp_min_keeps_max minB maxB _ hdn h5 (Hub.Model.clamp_max maxB prices hdx).1, (Hub.Model.clamp_min minB _ hdn).1⟩

/-- What is known of a record while some bounds have been rewritten in the current block: it
satisfies every bound vector whose `modified` flag is not set. -/
def ExemptOK (p : Params) (m : Modified) (n : Node) : Prop :=
  (m.maxGB = true ∨ MaxOK p.maxGB n.gb) ∧ (m.minGB = true ∨ MinOK p.minGB n.gb) ∧
  (m.maxHr = true ∨ MaxOK p.maxHr n.hr) ∧ (m.minHr = true ∨ MinOK p.minHr n.hr)

theorem ExemptOK.of_ok {p : Params} {m : Modified} {n : Node} (h : PricesOK p n) : ExemptOK p m n :=
  ⟨Or.inr h.1, Or.inr h.2.1, Or.inr h.2.2.1, Or.inr h.2.2.2⟩

theorem ExemptOK.full {p : Params} {n : Node} (h : ExemptOK p {} n) : PricesOK p n := by
  obtain ⟨h1, h2, h3, h4⟩ := h
  refine ⟨?_, ?_, ?_, ?_⟩
  · rcases h1 with h | h; · cases h
    exact h
  · rcases h2 with h | h; · cases h
    exact h
  · rcases h3 with h | h; · cases h
    exact h
  · rcases h4 with h | h; · cases h
    exact h

/-- **Sweeping one record**: if min ≤ max per denomination and every bound is either swept (its
flag is set) or already holds, the swept record satisfies all four bound vectors. -/
theorem sweepNode_ok {p : Params} {m : Modified} {n : Node} (hb : BoundsWF p) (h5 : D5 p) (h : ExemptOK p m n) :
    PricesOK p (sweepNode p m n) := by
  obtain ⟨b1, b2, b3, b4⟩ := hb
  obtain ⟨h1, h2, h3, h4⟩ := h
  obtain ⟨g1, g2⟩ := sweep_list m.maxGB m.minGB p.maxGB p.minGB n.gb b1 b2 h5.1 h1 h2
  obtain ⟨r1, r2⟩ := sweep_list m.maxHr m.minHr p.maxHr p.minHr n.hr b3 b4 h5.2 h3 h4
  exact ⟨g1, g2, r1, r2⟩

/-- **The sweep clamps**: under D5, if every record satisfies every bound vector whose flag is not
set (in particular: if all four flags are set), then after `nodeSweep` every record of both tables
satisfies all four bound vectors. -/
theorem sweep_clamps {s s' : State} (h : nodeSweep s = .ok s') (hwf : NodeWF s) (hb : BoundsWF s.params) (h5 : D5 s.params)
    (hex : ∀ a n, IsNode s a n → ExemptOK s.params s.modified n) :
    NodeWF s' ∧ cv s' = cv s ∧ ∀ a n, IsNode s' a n → PricesOK s.params n := by
  refine nodeSweep_all h hwf (ExemptOK s.params s.modified) (PricesOK s.params)
    (fun n hn => sweepNode_ok hb h5 hn) (fun n hn => ExemptOK.of_ok hn) ?_ hex
  intro hno n hn
  simp only [Bool.or_eq_false_iff] at hno
  obtain ⟨⟨⟨f1, f2⟩, f3⟩, f4⟩ := hno
  obtain ⟨h1, h2, h3, h4⟩ := hn
  rw [f1] at h1; rw [f2] at h2; rw [f3] at h3; rw [f4] at h4
  refine ⟨?_, ?_, ?_, ?_⟩
  · rcases h1 with h | h; · cases h
    exact h
  · rcases h2 with h | h; · cases h
    exact h
  · rcases h3 with h | h; · cases h
    exact h
  · rcases h4 with h | h; · cases h
    exact h

/-- The special case named in the task: all four flags set — no assumption on the records. -/
theorem sweep_clamps_all_flags {s s' : State} (h : nodeSweep s = .ok s') (hwf : NodeWF s) (hb : BoundsWF s.params)
    (h5 : D5 s.params) (hall : s.modified = ⟨true, true, true, true⟩) :
    ∀ a n, IsNode s' a n → PricesOK s.params n :=
  (sweep_clamps h hwf hb h5 (fun _ _ _ => by rw [hall]; exact ⟨Or.inl rfl, Or.inl rfl, Or.inl rfl, Or.inl rfl⟩)).2.2

/-! ### the invariant -/

/-- The invariant of C11: the node tables are well formed, the bound vectors have distinct
denominations, and every record satisfies every bound vector not rewritten in the current block. -/
structure PricesInv (s : State) : Prop where
  wf : NodeWF s
  bounds : BoundsWF s.params
  ok : ∀ a n, IsNode s a n → ExemptOK s.params s.modified n

/-- Outside a block in which bounds were changed the invariant is the property itself. -/
theorem PricesInv.all_ok {s : State} (hi : PricesInv s) (hm : s.modified = {}) : AllPricesOK s := by
  intro a n hn
  have := hi.ok a n hn
  rw [hm] at this
  exact this.full

theorem PricesInv.of_frame {s s' : State} (hp : s'.params = s.params) (hm : s'.modified = s.modified)
    (ha : s'.nodeActive = s.nodeActive) (hn : s'.nodeInactive = s.nodeInactive) (hi : PricesInv s) : PricesInv s' := by
  refine ⟨NodeWF.of_eq ha hn hi.wf, by rw [hp]; exact hi.bounds, ?_⟩
  intro a n h
  rw [hp, hm]
  exact hi.ok a n ((IsNode.of_eq ha hn).mp h)

theorem PricesInv.of_hv {s s' : State} (h : hv s' = hv s) (hi : PricesInv s) : PricesInv s' :=
  PricesInv.of_frame (hv_params h) (hv_modified h) (hv_nodeActive h) (hv_nodeInactive h) hi

/-- Every handler preserves the invariant. -/
theorem handle_inv {s s' : State} {m : Msg} (h : m.handle s = .ok s') (hi : PricesInv s) : PricesInv s' := by
  cases m <;> simp only [Msg.handle] at h
  case provRegister => exact hi.of_hv (provRegister_hv h)
  case provUpdate => exact hi.of_hv (provUpdate_hv h)
  case nodeRegister =>
    obtain ⟨w, n, e1, e2, hiff⟩ := nodeRegister_nodes h hi.wf
    have c := nodeRegister_cv h
    have hok := register_rejects_out_of_bounds h
    refine ⟨w, by rw [cv_params c]; exact hi.bounds, ?_⟩
    intro a' n' hn'
    rw [cv_params c, cv_modified c]
    rcases (hiff a' n').mp hn' with ⟨_, e⟩ | ⟨_, e⟩
    · rw [e]; refine ExemptOK.of_ok ?_
      unfold PricesOK; rw [e1, e2]; exact hok
    · exact hi.ok a' n' e
  case nodeUpdate =>
    rename_i frm gb hr url _
    obtain ⟨w, n0, hn0, hiff⟩ := nodeUpdate_nodes h hi.wf
    have c := nodeUpdate_cv h
    obtain ⟨u1, u2⟩ := update_rejects_out_of_bounds h
    refine ⟨w, by rw [cv_params c]; exact hi.bounds, ?_⟩
    intro a' n' hn'
    rw [cv_params c, cv_modified c]
    rcases (hiff a' n').mp hn' with ⟨_, e⟩ | ⟨_, e⟩
    · obtain ⟨o1, o2, o3, o4⟩ := hi.ok _ n0 hn0
      obtain ⟨g1, g2⟩ := nodeUpdated_gb n0 gb hr url
      rw [e]
      unfold ExemptOK
      rw [g1, g2]
      refine ⟨?_, ?_, ?_, ?_⟩
      · cases gb with
        | none => exact o1
        | some g => exact Or.inr (u1 g rfl).1
      · cases gb with
        | none => exact o2
        | some g => exact Or.inr (u1 g rfl).2
      · cases hr with
        | none => exact o3
        | some x => exact Or.inr (u2 x rfl).1
      · cases hr with
        | none => exact o4
        | some x => exact Or.inr (u2 x rfl).2
    · exact hi.ok a' n' e
  case nodeStatus =>
    obtain ⟨w, n0, n, hn0, e1, e2, hiff⟩ := nodeStatus_nodes h hi.wf
    have c := nodeStatus_cv h
    refine ⟨w, by rw [cv_params c]; exact hi.bounds, ?_⟩
    intro a' n' hn'
    rw [cv_params c, cv_modified c]
    rcases (hiff a' n').mp hn' with ⟨_, e⟩ | ⟨_, e⟩
    · have := hi.ok _ n0 hn0
      rw [e]; unfold ExemptOK at this ⊢; rw [e1, e2]; exact this
    · exact hi.ok a' n' e
  case nodeSubscribe => exact hi.of_hv (nodeSubscribe_hv h)
  case planCreate => exact hi.of_hv (planCreate_hv h)
  case planStatus => exact hi.of_hv (planStatus_hv h)
  case planLink => exact hi.of_hv (planLink_hv h)
  case planUnlink => exact hi.of_hv (planUnlink_hv h)
  case planSubscribe => exact hi.of_hv (planSubscribe_hv h)
  case subCancel => exact hi.of_hv (subCancel_hv h)
  case subAllocate => exact hi.of_hv (subAllocate_hv h)
  case sessStart => exact hi.of_hv (sessStart_hv h)
  case sessUpdate => exact hi.of_hv (sessUpdate_hv h)
  case sessEnd => exact hi.of_hv (sessEnd_hv h)
  case swap =>
    obtain ⟨a, b, c, d, _⟩ := swap_nodes h
    exact hi.of_frame a b c d

theorem deliver_inv (s : State) (m : Msg) (hi : PricesInv s) : PricesInv (deliver s m).1 := by
  have h0 : PricesInv { s with events := [] } := PricesInv.of_frame (s := s) rfl rfl rfl rfl hi
  rcases deliver_cases s m with ⟨_, _, hh⟩ | ⟨_, he, _⟩
  · exact handle_inv hh h0
  · rw [he]; exact h0

/-- A governance change keeps the invariant: the rewritten bound vector is exempt until the sweep. -/
theorem gov_inv (s : State) (c : ParamChange) (hi : PricesInv s) : PricesInv ((gov s c).getD s) := by
  cases hg : gov s c with
  | none => exact hi
  | some s' =>
    simp only [Option.getD]
    obtain ⟨_, _, ha, hn, _⟩ := gov_ledger hg
    obtain ⟨b1, b2, b3, b4⟩ := hi.bounds
    have hvalid : ∀ c : Option Coins, validPriceParam c = true → DistinctDenoms (c.getD []) := by
      intro c hc
      cases c with
      | none => exact distinct_nil
      | some cs => exact distinct_of_isValid hc
    refine ⟨NodeWF.of_eq ha hn hi.wf, ?_, ?_⟩
    · unfold gov at hg
      cases c <;> simp only [] at hg <;> (try split at hg) <;>
        first
          | (simp only [reduceCtorEq] at hg)
          | (simp only [Option.some.injEq] at hg; rw [← hg]
             first
               | exact ⟨b1, b2, b3, b4⟩
               | exact ⟨hvalid _ (by assumption), b2, b3, b4⟩
               | exact ⟨b1, hvalid _ (by assumption), b3, b4⟩
               | exact ⟨b1, b2, hvalid _ (by assumption), b4⟩
               | exact ⟨b1, b2, b3, hvalid _ (by assumption)⟩)
    · intro a n hnode
      obtain ⟨o1, o2, o3, o4⟩ := hi.ok a n ((IsNode.of_eq ha hn).mp hnode)
      unfold gov at hg
      cases c <;> simp only [] at hg <;> (try split at hg) <;>
        first
          | (simp only [reduceCtorEq] at hg)
          | (simp only [Option.some.injEq] at hg; rw [← hg]
             first
               | exact ⟨o1, o2, o3, o4⟩
               | exact ⟨Or.inl rfl, o2, o3, o4⟩
               | exact ⟨o1, Or.inl rfl, o3, o4⟩
               | exact ⟨o1, o2, Or.inl rfl, o4⟩
               | exact ⟨o1, o2, o3, Or.inl rfl⟩)

/-- **After a completed end-of-block** (under D5 for the values in force) every record of both
tables satisfies all four current bound vectors, the flags are reset, and the invariant holds. -/
theorem endBlock_full {s s' : State} (h : endBlock s = .ok s') (hi : PricesInv s) (h5 : D5 s.params) :
    AllPricesOK s' ∧ s'.modified = {} ∧ PricesInv s' := by
  obtain ⟨sa, sb, sc, h1, h2, h3, rfl⟩ := endBlock_decompose h
  have h0 : PricesInv { s with events := [] } := PricesInv.of_frame (s := s) rfl rfl rfl rfl hi
  obtain ⟨wa, ca, oka⟩ := sweep_clamps h1 h0.wf h0.bounds h5 h0.ok
  obtain ⟨wb, cb, okb⟩ := nodeExpire_nodes h2 wa (fun g x => ListsOK s.params g x) oka
  have hpa : sa.params = s.params := cv_params ca
  have hpb : sb.params = s.params := (cv_params cb).trans hpa
  have hpc : sc.params = s.params := (hv_params h3).trans hpb
  have hall : ∀ a n, IsNode sc a n → PricesOK s.params n := by
    intro a n hn
    exact okb a n ((IsNode.of_eq (hv_nodeActive h3) (hv_nodeInactive h3)).mp hn)
  have hwc : NodeWF sc := NodeWF.of_eq (hv_nodeActive h3) (hv_nodeInactive h3) wb
  refine ⟨?_, rfl, ⟨NodeWF.of_eq (s := sc) rfl rfl hwc, ?_, ?_⟩⟩
  · intro a n hn
    show PricesOK sc.params n
    rw [hpc]; exact hall a n hn
  · show BoundsWF sc.params
    rw [hpc]; exact hi.bounds
  · intro a n hn
    show ExemptOK sc.params {} n
    rw [hpc]; exact ExemptOK.of_ok (hall a n hn)

def isEndB : Op → Bool
  | .endB => true
  | _ => false

/-- **Every operation preserves the invariant** (an end-of-block under D5). -/
theorem step_inv {s s' : State} {op : Op} (h : step s op = some s') (hi : PricesInv s)
    (h5 : isEndB op = true → D5 s.params) : PricesInv s' := by
  cases op with
  | tx m =>
    simp only [step, Option.some.injEq] at h
    rw [← h]; exact deliver_inv s m hi
  | begin t =>
    simp only [step] at h
    split at h
    · rename_i s1 hb
      simp only [Option.some.injEq] at h; rw [← h]
      obtain ⟨_, _, c, d, e, f⟩ := beginBlock_frame hb
      exact hi.of_frame c d e f
    · contradiction
  | endB =>
    simp only [step] at h
    split at h
    · rename_i s1 hb
      simp only [Option.some.injEq] at h; rw [← h]; exact (endBlock_full hb hi (h5 rfl)).2.2
    · contradiction
  | gov c =>
    simp only [step, Option.some.injEq] at h
    rw [← h]; exact gov_inv s c hi

/-! ### all histories -/

/-- D5 holds for the values in force at every end-of-block of the history (domain condition D7:
governance may change bounds arbitrarily as long as min ≤ max holds after the change). -/
def D5AtEnds : State → List Op → Prop
  | _, [] => True
  | s, op :: rest =>
    (isEndB op = true → D5 s.params) ∧
    (match step s op with
     | none => True
     | some s' => D5AtEnds s' rest)

theorem run_inv (ops : List Op) (s s' : State) (hrun : run s ops = some s') (hi : PricesInv s) (hd : D5AtEnds s ops) :
    PricesInv s' := by
  induction ops generalizing s with
  | nil => simp only [run, Option.some.injEq] at hrun; rw [← hrun]; exact hi
  | cons op rest ih =>
    simp only [run] at hrun
    obtain ⟨d1, d2⟩ := hd
    cases hst : step s op with
    | none => rw [hst] at hrun; cases hrun
    | some s1 =>
      rw [hst] at hrun d2
      exact ih s1 hrun (step_inv hst hi d1) d2

theorem D5AtEnds_append (pre : List Op) (op : Op) (s s1 : State) (hrun : run s pre = some s1)
    (hd : D5AtEnds s (pre ++ [op])) : D5AtEnds s pre ∧ (isEndB op = true → D5 s1.params) := by
  induction pre generalizing s with
  | nil =>
    simp only [run, Option.some.injEq] at hrun
    subst hrun
    exact ⟨trivial, hd.1⟩
  | cons o rest ih =>
    simp only [run] at hrun
    obtain ⟨d1, d2⟩ := hd
    cases hst : step s o with
    | none => rw [hst] at hrun; cases hrun
    | some s2 =>
      rw [hst] at hrun d2
      obtain ⟨i1, i2⟩ := ih s2 hrun d2
      refine ⟨⟨d1, ?_⟩, i2⟩
      rw [hst]; exact i1

/-- **C11, all histories.** Start from any state satisfying the invariant (e.g. a genesis state).
Run any history — any messages, valid or not, from anybody; any block times; governance changes of
any subset of the four bound vectors at any point, adding or removing denominations — such that
min ≤ max per denomination holds for the values in force at each end-of-block. Then the state
after **every** completed end-of-block has every registered node, active or inactive, within all
four *current* bound vectors (also when the bounds were changed in that very block), and the
"modified" flags are clear. -/
theorem prices_at_block_boundaries (s0 : State) (hi : PricesInv s0) (pre : List Op) (s1 s2 : State)
    (hrun : run s0 pre = some s1) (hd : D5AtEnds s0 (pre ++ [Op.endB])) (hend : step s1 Op.endB = some s2) :
    AllPricesOK s2 ∧ s2.modified = {} := by
  obtain ⟨d1, d2⟩ := D5AtEnds_append pre Op.endB s0 s1 hrun hd
  have i1 := run_inv pre s0 s1 hrun hi d1
  simp only [step] at hend
  split at hend
  · rename_i s3 hb
    simp only [Option.some.injEq] at hend
    rw [← hend]
    obtain ⟨a, b, _⟩ := endBlock_full hb i1 (d2 rfl)
    exact ⟨a, b⟩
  · contradiction

/-- … and between blocks: in every state of such a history in which no bound has been rewritten
since the last end-of-block, every node is within all bounds (so admission keeps what the sweep
established, through any messages and begin-of-block steps). -/
theorem prices_whenever_unmodified (s0 : State) (hi : PricesInv s0) (ops : List Op) (s : State)
    (hrun : run s0 ops = some s) (hd : D5AtEnds s0 ops) (hm : s.modified = {}) : AllPricesOK s :=
  (run_inv ops s0 s hrun hi hd).all_ok hm

/-! ### genesis -/

theorem genesis_nodes (g : Genesis) :
    g.state.nodeActive = [] ∧ g.state.nodeInactive = [] ∧ g.state.params = g.params ∧
      g.state.modified = { maxGB := true, minGB := true, maxHr := true, minHr := true } := by
  unfold Genesis.state
  have : ∀ (l : List (Addr × Denom × Int)) (s0 : State),
      (l.foldl addBalance s0).nodeActive = s0.nodeActive ∧ (l.foldl addBalance s0).nodeInactive = s0.nodeInactive ∧
      (l.foldl addBalance s0).params = s0.params ∧ (l.foldl addBalance s0).modified = s0.modified := by
    intro l
    induction l with
    | nil => intro _; exact ⟨rfl, rfl, rfl, rfl⟩
    | cons b rest ih =>
      intro s0
      rw [List.foldl_cons]
      obtain ⟨a, b', c, d⟩ := ih (addBalance s0 b)
      have e : (addBalance s0 b).nodeActive = s0.nodeActive ∧ (addBalance s0 b).nodeInactive = s0.nodeInactive ∧
          (addBalance s0 b).params = s0.params ∧ (addBalance s0 b).modified = s0.modified := by
        unfold addBalance; split <;> exact ⟨rfl, rfl, rfl, rfl⟩
      exact ⟨a.trans e.1, b'.trans e.2.1, c.trans e.2.2.1, d.trans e.2.2.2⟩
  obtain ⟨a, b, c, d⟩ := this g.balances g.base
  exact ⟨a, b, c, d⟩

/-- Every genesis state of the domain (node tables empty, valid bound vectors) satisfies the invariant. -/
theorem genesis_inv (g : Genesis) (hb : BoundsWF g.params) : PricesInv g.state := by
  obtain ⟨a, b, c, _⟩ := genesis_nodes g
  refine ⟨⟨?_, ?_, ?_⟩, by rw [c]; exact hb, ?_⟩
  · intro x n h; rw [a] at h; simp at h
  · intro x n h; rw [b] at h; simp at h
  · intro x; left; rw [a]; rfl
  · intro x n h
    unfold IsNode at h; rw [a, b] at h
    rcases h with h | h <;> simp at h

/-! ### examples -/

def sampleParams : Params :=
  { (default : Params) with
    maxGB := [⟨"udvpn", 100⟩], minGB := [⟨"udvpn", 10⟩], maxHr := [⟨"udvpn", 50⟩], minHr := [⟨"udvpn", 5⟩],
    maxSubGB := 1000, minSubGB := 1, maxSubHr := 10, minSubHr := 1 }

def sampleGenesis : Genesis := { time := 1700000000000000000, params := sampleParams, balances := [([1], "udvpn", 1000)] }

example : BoundsWF sampleParams ∧ D5 sampleParams := by
  refine ⟨⟨?_, ?_, ?_, ?_⟩, ?_, ?_⟩
  · unfold DistinctDenoms; decide
  · unfold DistinctDenoms; decide
  · unfold DistinctDenoms; decide
  · unfold DistinctDenoms; decide
  · intro m hm c hc _
    simp only [sampleParams, List.mem_singleton] at hm hc
    rw [hm, hc]; decide
  · intro m hm c hc _
    simp only [sampleParams, List.mem_singleton] at hm hc
    rw [hm, hc]; decide

/-- The hypotheses of the history theorems hold for a concrete genesis. -/
example : PricesInv sampleGenesis.state :=
  genesis_inv sampleGenesis ⟨by unfold DistinctDenoms; decide, by unfold DistinctDenoms; decide,
    by unfold DistinctDenoms; decide, by unfold DistinctDenoms; decide⟩

def nodeAddr : TextAddr := ⟨.acc, [1], false⟩

/-- A registration inside the bounds is accepted, one above the maximum or below the minimum (or
not quoting a minimum-bounded denomination at all) is rejected. -/
example : (deliver sampleGenesis.state (.nodeRegister nodeAddr (some [⟨"udvpn", 60⟩]) (some [⟨"udvpn", 20⟩]) [104] true)).2 = .accept := by decide
example : (deliver sampleGenesis.state (.nodeRegister nodeAddr (some [⟨"udvpn", 101⟩]) (some [⟨"udvpn", 20⟩]) [104] true)).2
    = .reject "invalid prices" := by decide
example : (deliver sampleGenesis.state (.nodeRegister nodeAddr (some [⟨"udvpn", 60⟩]) (some [⟨"udvpn", 4⟩]) [104] true)).2
    = .reject "invalid prices" := by decide
example : (deliver sampleGenesis.state (.nodeRegister nodeAddr (some [⟨"other", 60⟩]) (some [⟨"udvpn", 20⟩]) [104] true)).2
    = .reject "invalid prices" := by decide

/-- A purchase of 0 < gb outside [1, 1000] is rejected before anything else is looked at. -/
example : (deliver sampleGenesis.state (.nodeSubscribe nodeAddr ⟨.node, [2], false⟩ 1001 0 "udvpn")).2
    = .reject "invalid gigabytes" := by decide
example : (deliver sampleGenesis.state (.nodeSubscribe nodeAddr ⟨.node, [2], false⟩ 0 11 "udvpn")).2
    = .reject "invalid hours" := by decide

/-- The sweep of one record: governance lowered the gigabyte maximum to 40 and raised the hourly
minimum to 30 in this block; a node quoting 60 / 20 is re-priced to 40 / 30. -/
example :
    let p := { sampleParams with maxGB := [⟨"udvpn", 40⟩], minHr := [⟨"udvpn", 30⟩] }
    let n : Node := { addr := [1], gb := [⟨"udvpn", 60⟩], hr := [⟨"udvpn", 20⟩], url := [104], inactiveAt := 0,
                      status := .StatusInactive, statusAt := 0 }
    (sweepNode p ⟨true, false, false, true⟩ n).gb = [⟨"udvpn", 40⟩] ∧ (sweepNode p ⟨true, false, false, true⟩ n).hr = [⟨"udvpn", 30⟩] := by
  decide

/-- D5 is necessary: with min 50 > max 40 (both rewritten in the block) the swept record violates the maximum. -/
example :
    let p := { sampleParams with maxGB := [⟨"udvpn", 40⟩], minGB := [⟨"udvpn", 50⟩] }
    let n : Node := { addr := [1], gb := [⟨"udvpn", 60⟩], hr := [⟨"udvpn", 20⟩], url := [104], inactiveAt := 0,
                      status := .StatusInactive, statusAt := 0 }
    (sweepNode p ⟨true, true, false, false⟩ n).gb = [⟨"udvpn", 50⟩] := by
  decide

/-! A concrete history: a node registers at 60 / 20, then governance lowers the gigabyte maximum to 40
and raises the hourly minimum to 30 in the same block. -/

def ops1 : List Op :=
  [.tx (.nodeRegister nodeAddr (some [⟨"udvpn", 60⟩]) (some [⟨"udvpn", 20⟩]) [104] true),
   .gov (.maxGB (some [⟨"udvpn", 40⟩])), .gov (.minHr (some [⟨"udvpn", 30⟩]))]

instance (p : Params) : Decidable (D5 p) := by unfold D5 MinLeMax; infer_instance

theorem ops1_runs : (run sampleGenesis.state ops1).isSome = true := by decide

/-- The D5 hypothesis of `prices_at_block_boundaries` holds for this history followed by an end-of-block. -/
theorem ops1_d5 : D5AtEnds sampleGenesis.state (ops1 ++ [Op.endB]) := by
  unfold ops1
  simp only [List.cons_append, List.nil_append, D5AtEnds, step, isEndB, Bool.false_eq_true, false_implies, true_and, forall_const]
  refine ⟨by decide, ?_⟩
  split <;> trivial

/-- Right after the governance changes (before the end-of-block) the node violates the new maximum … -/
theorem ops1_violates : ∀ s1, run sampleGenesis.state ops1 = some s1 →
    ∃ n, IsNode s1 [1] n ∧ n.gb.amountOf "udvpn" = 60 ∧ s1.params.maxGB = [⟨"udvpn", 40⟩] := by
  intro s1 h
  have : run sampleGenesis.state ops1 = some ((run sampleGenesis.state ops1).get ops1_runs) := by simp
  rw [this] at h
  cases h
  exact ⟨((run sampleGenesis.state ops1).get ops1_runs).nodeInactive.get [1] |>.get (by decide), Or.inr (by simp), by decide, by decide⟩

/-- … and after the end-of-block of that block every node is within all the new bounds. -/
example (s1 s2 : State) (h1 : run sampleGenesis.state ops1 = some s1) (h2 : step s1 Op.endB = some s2) :
    AllPricesOK s2 ∧ s2.modified = {} :=
  prices_at_block_boundaries sampleGenesis.state
    (genesis_inv sampleGenesis ⟨by unfold DistinctDenoms; decide, by unfold DistinctDenoms; decide,
      by unfold DistinctDenoms; decide, by unfold DistinctDenoms; decide⟩) ops1 s1 s2 h1 ops1_d5 h2

end Hub.Props.C11
