import Hub.Props.C17Keys
import Hub.Props.C17Time
import Hub.Props.C17Addr
/-
C17 — Addresses and store keys encode injectively and sort chronologically.

The three parts are proved in `C17Keys.lean` (every key constructor/decoder of the regenerated
`Hub.Generated.Keys`, with the facts about `formatTimeBytes` as explicit hypotheses),
`C17Time.lean` (those facts, for all instants of years 1..9999) and `C17Addr.lean` (bech32 text).
Here the hypotheses are discharged: the deadline queues of all four modules are ordered by
(timestamp, identifier) and the hooks' scan range is exactly "deadline ≤ block time".
-/
namespace Hub.Props.C17
open Hub.SDK Hub.Generated.Keys

/-- Instants of years 1..9999 (the domain of the 29-byte time key). -/
def InRange (t : Int) : Prop := tMin ≤ t ∧ t < tMax

theorem mono_of_inRange {t t' : Int} (h : InRange t) (h' : InRange t') :
    (bytesLt (formatTimeBytes t) (formatTimeBytes t') = true ↔ t < t') :=
  formatTimeBytes_lt_iff h.1 h.2 h'.1 h'.2

/-- Session deadline queue: byte order = (deadline, id) order. -/
theorem session_queue_sorted {t t' : Int} {i j : Nat} (h : InRange t) (h' : InRange t') (hi : i < B64) (hj : j < B64) :
    bytesLt (session.SessionForInactiveAtKey t i) (session.SessionForInactiveAtKey t' j) = true ↔ (t < t' ∨ (t = t' ∧ i < j)) :=
  queue_order_session_SessionForInactiveAtKey (formatTimeBytes_length t) (formatTimeBytes_length t')
    (mono_of_inRange h h') (mono_of_inRange h' h) hi hj

theorem subscription_queue_sorted {t t' : Int} {i j : Nat} (h : InRange t) (h' : InRange t') (hi : i < B64) (hj : j < B64) :
    bytesLt (subscription.SubscriptionForInactiveAtKey t i) (subscription.SubscriptionForInactiveAtKey t' j) = true ↔ (t < t' ∨ (t = t' ∧ i < j)) :=
  queue_order_subscription_SubscriptionForInactiveAtKey (formatTimeBytes_length t) (formatTimeBytes_length t')
    (mono_of_inRange h h') (mono_of_inRange h' h) hi hj

theorem payout_queue_sorted {t t' : Int} {i j : Nat} (h : InRange t) (h' : InRange t') (hi : i < B64) (hj : j < B64) :
    bytesLt (subscription.PayoutForNextAtKey t i) (subscription.PayoutForNextAtKey t' j) = true ↔ (t < t' ∨ (t = t' ∧ i < j)) :=
  queue_order_subscription_PayoutForNextAtKey (formatTimeBytes_length t) (formatTimeBytes_length t')
    (mono_of_inRange h h') (mono_of_inRange h' h) hi hj

theorem node_queue_sorted {t t' : Int} {a b : Bytes} (h : InRange t) (h' : InRange t') :
    bytesLt (node.NodeForInactiveAtKey t a) (node.NodeForInactiveAtKey t' b) = true ↔ (t < t' ∨ (t = t' ∧ bytesLt (lp a) (lp b) = true)) :=
  queue_order_node_NodeForInactiveAtKey (formatTimeBytes_length t) (formatTimeBytes_length t')
    (mono_of_inRange h h') (mono_of_inRange h' h)

/-- The block hooks scan `[QueuePrefix, PrefixEndBytes(prefix(blockTime)))`: exactly the entries
whose deadline is at or before the block time. -/
theorem session_scan_inclusive {t t' : Int} {i : Nat} {e : Bytes} (h : InRange t) (h' : InRange t')
    (he : prefixEnd (session.GetSessionForInactiveAtKeyPrefix t) = some e) :
    (bytesLe session.SessionForInactiveAtKeyPrefix (session.SessionForInactiveAtKey t' i) = true ∧
      bytesLt (session.SessionForInactiveAtKey t' i) e = true) ↔ t' ≤ t :=
  scan_range_session_SessionForInactiveAtKey (formatTimeBytes_length t) (formatTimeBytes_length t')
    (mono_of_inRange h h') (mono_of_inRange h' h) he

theorem subscription_scan_inclusive {t t' : Int} {i : Nat} {e : Bytes} (h : InRange t) (h' : InRange t')
    (he : prefixEnd (subscription.GetSubscriptionForInactiveAtKeyPrefix t) = some e) :
    (bytesLe subscription.SubscriptionForInactiveAtKeyPrefix (subscription.SubscriptionForInactiveAtKey t' i) = true ∧
      bytesLt (subscription.SubscriptionForInactiveAtKey t' i) e = true) ↔ t' ≤ t :=
  scan_range_subscription_SubscriptionForInactiveAtKey (formatTimeBytes_length t) (formatTimeBytes_length t')
    (mono_of_inRange h h') (mono_of_inRange h' h) he

theorem payout_scan_inclusive {t t' : Int} {i : Nat} {e : Bytes} (h : InRange t) (h' : InRange t')
    (he : prefixEnd (subscription.GetPayoutForNextAtKeyPrefix t) = some e) :
    (bytesLe subscription.PayoutForNextAtKeyPrefix (subscription.PayoutForNextAtKey t' i) = true ∧
      bytesLt (subscription.PayoutForNextAtKey t' i) e = true) ↔ t' ≤ t :=
  scan_range_subscription_PayoutForNextAtKey (formatTimeBytes_length t) (formatTimeBytes_length t')
    (mono_of_inRange h h') (mono_of_inRange h' h) he

theorem node_scan_inclusive {t t' : Int} {a : Bytes} {e : Bytes} (h : InRange t) (h' : InRange t')
    (he : prefixEnd (node.GetNodeForInactiveAtKeyPrefix t) = some e) :
    (bytesLe node.NodeForInactiveAtKeyPrefix (node.NodeForInactiveAtKey t' a) = true ∧
      bytesLt (node.NodeForInactiveAtKey t' a) e = true) ↔ t' ≤ t :=
  scan_range_node_NodeForInactiveAtKey (formatTimeBytes_length t) (formatTimeBytes_length t')
    (mono_of_inRange h h') (mono_of_inRange h' h) he

/-- Time-keyed keys decode back and are injective for instants in range. -/
theorem session_queue_key_injective {t t' : Int} {i j : Nat} (h : InRange t) (h' : InRange t') (hi : i < B64) (hj : j < B64)
    (e : session.SessionForInactiveAtKey t i = session.SessionForInactiveAtKey t' j) : t = t' ∧ i = j :=
  key_injective_session_SessionForInactiveAtKey (formatTimeBytes_length t) (formatTimeBytes_length t')
    (formatTimeBytes_injective h.1 h.2 h'.1 h'.2) hi hj e

example : InRange 1700000000000000000 := by unfold InRange tMin tMax; omega

end Hub.Props.C17
